(* Generic driver for an extracted model: reads one request per line on
   stdin, converts the bytes to Coq's [list N], calls the extracted
   [run_line : list N -> list N] (all parsing, dispatch and printing is
   Gallina), and prints the returned bytes.  The only glue is the conversion
   between OCaml chars and Coq's binary naturals below.  The module [Model]
   is the extracted file, linked under that name by the build script. *)

open Model
type str = Stdlib.String.t

let rec pos_of_int (i : int) : positive =
  if i = 1 then XH
  else if i land 1 = 0 then XO (pos_of_int (i lsr 1))
  else XI (pos_of_int (i lsr 1))

let n_of_int (i : int) : n = if i = 0 then N0 else Npos (pos_of_int i)

let rec int_of_pos (p : positive) : int =
  match p with XH -> 1 | XO q -> 2 * int_of_pos q | XI q -> 2 * int_of_pos q + 1

let int_of_n (x : n) : int = match x with N0 -> 0 | Npos p -> int_of_pos p

let table = Array.init 256 n_of_int

let list_of_line (s : str) : n list =
  let r = ref [] in
  for i = Stdlib.String.length s - 1 downto 0 do
    r := table.(Char.code s.[i]) :: !r
  done;
  !r

let print_bytes (l : n list) : unit =
  let b = Buffer.create 256 in
  List.iter (fun x -> Buffer.add_char b (Char.chr (int_of_n x land 255))) l;
  print_string (Buffer.contents b);
  print_char '\n'

let () =
  try
    while true do
      let line = input_line stdin in
      (try print_bytes (run_line (list_of_line line))
       with Stack_overflow -> print_string "(model-stack-overflow)\n");
      flush stdout
    done
  with End_of_file -> ()
