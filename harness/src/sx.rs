//! s-expressions: same wire format as coq/Base/Prelude.v
#[derive(Clone, Debug, PartialEq)]
pub enum Sx {
    A(String),      // integer atom kept as decimal text (arbitrary size)
    S(Vec<u8>),     // string atom (bytes)
    L(Vec<Sx>),
}

pub fn a<T: ToString>(n: T) -> Sx { Sx::A(n.to_string()) }
pub fn s(t: &str) -> Sx { Sx::S(t.as_bytes().to_vec()) }
pub fn l(v: Vec<Sx>) -> Sx { Sx::L(v) }
pub fn ok(v: Sx) -> Sx { l(vec![s("ok"), v]) }
pub fn err(kind: &str) -> Sx { l(vec![s("err"), s(kind)]) }
pub fn bad() -> Sx { l(vec![s("bad-request")]) }
pub fn cps(t: &str) -> Sx { l(t.chars().map(|c| a(c as u32)).collect()) }

impl Sx {
    pub fn as_list(&self) -> Option<&[Sx]> { if let Sx::L(v) = self { Some(v) } else { None } }
    pub fn as_bytes(&self) -> Option<&[u8]> { if let Sx::S(v) = self { Some(v) } else { None } }
    pub fn as_str(&self) -> Option<&str> { self.as_bytes().and_then(|b| std::str::from_utf8(b).ok()) }
    pub fn as_atom(&self) -> Option<&str> { if let Sx::A(v) = self { Some(v) } else { None } }
    pub fn as_u64(&self) -> Option<u64> { self.as_atom()?.parse().ok() }
    pub fn as_i64(&self) -> Option<i64> { self.as_atom()?.parse().ok() }
    pub fn as_u128(&self) -> Option<u128> { self.as_atom()?.parse().ok() }
    /// list of code points -> String (None if any is not a scalar value)
    pub fn as_cp_string(&self) -> Option<String> {
        let mut out = String::new();
        for x in self.as_list()? {
            out.push(char::from_u32(u32::try_from(x.as_u64()?).ok()?)?);
        }
        Some(out)
    }
    pub fn as_u64s(&self) -> Option<Vec<u64>> { self.as_list()?.iter().map(Sx::as_u64).collect() }
    pub fn as_byte_list(&self) -> Option<Vec<u8>> {
        self.as_list()?.iter().map(|x| x.as_u64().and_then(|v| u8::try_from(v).ok())).collect()
    }
}

pub fn print(x: &Sx, out: &mut String) {
    match x {
        Sx::A(n) => out.push_str(n),
        Sx::S(bs) => {
            out.push('"');
            for &b in bs {
                if b == b'"' || b == b'\\' { out.push('\\'); out.push(b as char); }
                else if (32..=126).contains(&b) { out.push(b as char); }
                else { out.push_str(&format!("\\x{:02x}", b)); }
            }
            out.push('"');
        }
        Sx::L(v) => {
            out.push('(');
            for (i, e) in v.iter().enumerate() { if i > 0 { out.push(' '); } print(e, out); }
            out.push(')');
        }
    }
}

pub fn to_string(x: &Sx) -> String { let mut o = String::new(); print(x, &mut o); o }

fn hexv(b: u8) -> u8 { match b { b'0'..=b'9' => b - 48, b'a'..=b'f' => b - 87, b'A'..=b'F' => b - 55, _ => 0 } }

pub fn parse(input: &str) -> Option<Sx> {
    let bs = input.as_bytes();
    let mut i = 0usize;
    let mut stack: Vec<Vec<Sx>> = vec![];
    loop {
        if i >= bs.len() { return None; }
        let b = bs[i];
        let atom: Sx;
        match b {
            b' ' => { i += 1; continue; }
            b'(' => { stack.push(vec![]); i += 1; continue; }
            b')' => {
                i += 1;
                let cur = stack.pop()?;
                atom = Sx::L(cur);
            }
            b'"' => {
                i += 1;
                let mut v = vec![];
                loop {
                    if i >= bs.len() { return None; }
                    match bs[i] {
                        b'"' => { i += 1; break; }
                        b'\\' if i + 3 < bs.len() && bs[i + 1] == b'x' => { v.push(hexv(bs[i + 2]) * 16 + hexv(bs[i + 3])); i += 4; }
                        b'\\' if i + 1 < bs.len() => { v.push(bs[i + 1]); i += 2; }
                        c => { v.push(c); i += 1; }
                    }
                }
                atom = Sx::S(v);
            }
            b'-' | b'0'..=b'9' => {
                let st = i; i += 1;
                while i < bs.len() && bs[i].is_ascii_digit() { i += 1; }
                atom = Sx::A(input[st..i].to_string());
            }
            c if c.is_ascii_alphabetic() || c == b'_' => {
                let st = i;
                while i < bs.len() && (bs[i].is_ascii_alphanumeric() || bs[i] == b'-' || bs[i] == b'_') { i += 1; }
                atom = Sx::S(bs[st..i].to_vec());
            }
            _ => return None,
        }
        match stack.last_mut() { None => return Some(atom), Some(top) => top.push(atom) }
    }
}
