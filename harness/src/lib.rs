//! Shared parts of the implementation-side workers: the s-expression wire
//! format and the serve loop.  One binary per area lives in src/bin/h_<area>.rs
//! so that a broken area cannot break the others' checks.
#![allow(dead_code)]
pub mod sx;
use sx::Sx;
use std::io::{BufRead, Write};

pub struct NeverInt;
impl fend_core::Interrupt for NeverInt { fn should_interrupt(&self) -> bool { false } }

/// Interrupt that turns true at its k-th call (0-based) and counts calls.
pub struct FireAt { pub k: u64, pub calls: std::cell::Cell<u64> }
impl FireAt { pub fn new(k: u64) -> Self { FireAt { k, calls: std::cell::Cell::new(0) } } }
impl fend_core::Interrupt for FireAt {
    fn should_interrupt(&self) -> bool {
        let c = self.calls.get();
        self.calls.set(c + 1);
        c >= self.k
    }
}

pub fn panic_payload(p: Box<dyn std::any::Any + Send>) -> String {
    if let Some(m) = p.downcast_ref::<&str>() { (*m).to_string() }
    else if let Some(m) = p.downcast_ref::<String>() { m.clone() } else { "?".to_string() }
}

/// One request per line on stdin, one result per line on stdout.  Panics are
/// caught and reported as ("panic" "<payload>"); aborts and hangs are detected
/// by the parent (gen/vlib.py) from the missing answer.
pub fn serve(dispatch: fn(&str, &[Sx]) -> Option<Sx>) {
    std::panic::set_hook(Box::new(|_| {}));
    let stdin = std::io::stdin();
    let stdout = std::io::stdout();
    for line in stdin.lock().lines() {
        let Ok(line) = line else { break };
        let out = match sx::parse(&line) {
            None => sx::bad(),
            Some(req) => {
                let r = std::panic::catch_unwind(|| {
                    let Some(items) = req.as_list() else { return sx::bad() };
                    let Some(op) = items.first().and_then(Sx::as_str) else { return sx::bad() };
                    dispatch(op, &items[1..]).unwrap_or_else(|| sx::l(vec![sx::s("unknown-op")]))
                });
                match r { Ok(r) => r, Err(p) => sx::l(vec![sx::s("panic"), sx::s(&panic_payload(p))]) }
            }
        };
        let mut o = stdout.lock();
        let _ = writeln!(o, "{}", sx::to_string(&out));
        let _ = o.flush();
    }
}
