#![allow(dead_code)]
//! Implementation-side worker of the correspondence check: one request per
//! line on stdin (s-expression), one result per line on stdout.  Panics are
//! caught and reported as ("panic" "<payload>"); aborts and hangs are
//! detected by the parent (bin/vcheck) from the missing answer.
mod sx;
mod ops_text;

use std::io::{BufRead, Write};
use sx::Sx;

pub struct NeverInt;
impl fend_core::Interrupt for NeverInt { fn should_interrupt(&self) -> bool { false } }

fn dispatch(req: &Sx) -> Sx {
    let Some(items) = req.as_list() else { return sx::bad() };
    let Some(op) = items.first().and_then(Sx::as_str) else { return sx::bad() };
    let args = &items[1..];
    if let Some(r) = ops_text::run(op, args) { return r; }
    sx::l(vec![sx::s("unknown-op")])
}

fn main() {
    std::panic::set_hook(Box::new(|_| {}));
    let stdin = std::io::stdin();
    let stdout = std::io::stdout();
    for line in stdin.lock().lines() {
        let Ok(line) = line else { break };
        let out = match sx::parse(&line) {
            None => sx::bad(),
            Some(req) => match std::panic::catch_unwind(|| dispatch(&req)) {
                Ok(r) => r,
                Err(p) => {
                    let msg = if let Some(m) = p.downcast_ref::<&str>() { (*m).to_string() }
                        else if let Some(m) = p.downcast_ref::<String>() { m.clone() } else { "?".to_string() };
                    sx::l(vec![sx::s("panic"), sx::s(&msg)])
                }
            },
        };
        let mut o = stdout.lock();
        let _ = writeln!(o, "{}", sx::to_string(&out));
        let _ = o.flush();
    }
}
