//! C15: elementary functions.
//! L2 through fend_core::evaluate, L1 through fend_core::verif_hooks::elem on
//! raw sign/num/den triples (decimal atoms on the wire), plus the platform
//! libm (`f64::sin` ... as Rust calls it) as the oracle the model is
//! parametric in.
use fend_core::verif_hooks::elem::{self, RawRat, RawReal};
use fharness::sx::{self, Sx};

// ---- decimal <-> little-endian base-2^64 limbs -------------------------

fn dec_to_limbs(s: &str) -> Option<Vec<u64>> {
    if s.is_empty() || !s.bytes().all(|b| b.is_ascii_digit()) { return None; }
    let mut v: Vec<u64> = vec![0];
    // 18 digits at a time
    let bytes = s.as_bytes();
    let mut i = 0;
    while i < bytes.len() {
        let j = (i + 18).min(bytes.len());
        let chunk: u64 = s[i..j].parse().ok()?;
        let mul: u128 = 10u128.pow((j - i) as u32);
        let mut carry: u128 = chunk as u128;
        for l in v.iter_mut() {
            let t = (*l as u128) * mul + carry;
            *l = t as u64;
            carry = t >> 64;
        }
        if carry > 0 { v.push(carry as u64); }
        i = j;
    }
    while v.len() > 1 && *v.last().unwrap() == 0 { v.pop(); }
    Some(v)
}

fn limbs_to_dec(limbs: &[u64]) -> String {
    let mut v: Vec<u64> = limbs.to_vec();
    while v.len() > 1 && *v.last().unwrap() == 0 { v.pop(); }
    if v.iter().all(|&x| x == 0) { return "0".to_string(); }
    let base: u128 = 10u128.pow(19);
    let mut parts: Vec<u64> = vec![];
    while !(v.len() == 1 && v[0] == 0) {
        let mut rem: u128 = 0;
        for l in v.iter_mut().rev() {
            let t = (rem << 64) | (*l as u128);
            *l = (t / base) as u64;
            rem = t % base;
        }
        parts.push(rem as u64);
        while v.len() > 1 && *v.last().unwrap() == 0 { v.pop(); }
    }
    let mut out = format!("{}", parts.pop().unwrap());
    while let Some(p) = parts.pop() { out.push_str(&format!("{:019}", p)); }
    out
}

fn rat_of(args: &[Sx]) -> Option<RawRat> {
    if args.len() < 3 { return None; }
    Some(RawRat {
        neg: args[0].as_u64()? != 0,
        num: dec_to_limbs(args[1].as_atom()?)?,
        den: dec_to_limbs(args[2].as_atom()?)?,
    })
}

fn real_of(args: &[Sx]) -> Option<RawReal> {
    if args.len() < 4 { return None; }
    Some(RawReal { pi: args[0].as_u64()? != 0, rat: rat_of(&args[1..])? })
}

fn rat_sx(r: &RawRat) -> Vec<Sx> {
    vec![sx::a(u8::from(r.neg)), Sx::A(limbs_to_dec(&r.num)), Sx::A(limbs_to_dec(&r.den))]
}

fn out_rat(r: Result<(bool, RawRat), String>) -> Sx {
    match r {
        Ok((ex, v)) => { let mut l = vec![sx::s("ok"), sx::a(u8::from(ex))]; l.extend(rat_sx(&v)); sx::l(l) }
        Err(e) => sx::err(&e),
    }
}

fn out_real(r: Result<(bool, RawReal), String>) -> Sx {
    match r {
        Ok((ex, v)) => {
            let mut l = vec![sx::s("ok"), sx::a(u8::from(ex)), sx::a(u8::from(v.pi))];
            l.extend(rat_sx(&v.rat));
            sx::l(l)
        }
        Err(e) => sx::err(&e),
    }
}

fn canon(x: f64) -> u64 { if x.is_nan() { 0x7FF8_0000_0000_0000 } else { x.to_bits() } }

/// the libm functions exactly as bigrat.rs / biguint.rs call them
fn libm(name: &str, x: f64) -> Option<f64> {
    Some(match name {
        "sin" => f64::sin(x), "asin" => f64::asin(x), "acos" => f64::acos(x), "atan" => f64::atan(x),
        "sinh" => f64::sinh(x), "cosh" => f64::cosh(x), "tanh" => f64::tanh(x),
        "asinh" => f64::asinh(x), "acosh" => f64::acosh(x), "atanh" => f64::atanh(x),
        "log2" => x.log2(), "exp" => x.exp(),
        _ => return None,
    })
}

fn eval(text: &str) -> Sx { eval_style(text, false) }

fn eval_style(text: &str, comma: bool) -> Sx {
    let mut ctx = fend_core::Context::new();
    if comma { ctx.set_decimal_separator_style(fend_core::DecimalSeparatorStyle::Comma); }
    match fend_core::evaluate_with_interrupt(text, &mut ctx, &fharness::NeverInt) {
        Ok(r) => sx::l(vec![sx::s("ok"), sx::s(r.get_main_result())]),
        Err(m) => sx::l(vec![sx::s("err"), sx::s(&m)]),
    }
}

fn run(op: &str, args: &[Sx]) -> Option<Sx> {
    Some(match op {
        // (eval "text") -> ("ok" "result") | ("err" "message")
        "eval" => {
            let Some(t) = args.first().and_then(Sx::as_str) else { return Some(sx::bad()) };
            eval(t)
        }
        // (eval-comma "text") -> the same with DecimalSeparatorStyle::Comma
        "eval-comma" => {
            let Some(t) = args.first().and_then(Sx::as_str) else { return Some(sx::bad()) };
            eval_style(t, true)
        }
        // (into-f64 neg num den) -> ("ok" bits)
        "into-f64" => {
            let Some(r) = rat_of(args) else { return Some(sx::bad()) };
            match elem::rat_into_f64(&r) {
                Ok(b) => sx::ok(sx::a(canon(f64::from_bits(b)))),
                Err(e) => sx::err(&e),
            }
        }
        // (from-f64 bits) -> ("ok" neg num den)
        "from-f64" => {
            let Some(b) = args.first().and_then(Sx::as_u64) else { return Some(sx::bad()) };
            match elem::rat_from_f64(b) {
                Ok(r) => { let mut l = vec![sx::s("ok")]; l.extend(rat_sx(&r)); sx::l(l) }
                Err(e) => sx::err(&e),
            }
        }
        // (libm name bits) -> ("ok" bits)
        "libm" => {
            let (Some(n), Some(b)) = (args.first().and_then(Sx::as_str), args.get(1).and_then(Sx::as_u64)) else { return Some(sx::bad()) };
            match libm(n, f64::from_bits(b)) { Some(y) => sx::ok(sx::a(canon(y))), None => sx::bad() }
        }
        // (rat-fn name neg num den) -> ("ok" exact neg num den) | ("err" "Variant")
        "rat-fn" => {
            let Some(n) = args.first().and_then(Sx::as_str) else { return Some(sx::bad()) };
            let Some(r) = rat_of(&args[1..]) else { return Some(sx::bad()) };
            out_rat(elem::rat_fn(n, &r))
        }
        "rat-pow" => {
            if args.len() != 6 { return Some(sx::bad()) }
            let (Some(a), Some(b)) = (rat_of(&args[0..3]), rat_of(&args[3..6])) else { return Some(sx::bad()) };
            out_rat(elem::rat_pow(&a, &b))
        }
        // (real-fn name pi neg num den) -> ("ok" exact pi neg num den)
        "real-fn" => {
            let Some(n) = args.first().and_then(Sx::as_str) else { return Some(sx::bad()) };
            let Some(r) = real_of(&args[1..]) else { return Some(sx::bad()) };
            out_real(elem::real_fn(n, &r))
        }
        "real-pow" => {
            if args.len() != 8 { return Some(sx::bad()) }
            let (Some(a), Some(b)) = (real_of(&args[0..4]), real_of(&args[4..8])) else { return Some(sx::bad()) };
            out_real(elem::real_pow(&a, &b))
        }
        "pi-approx" => match elem::pi_approx() {
            Ok(r) => { let mut l = vec![sx::s("ok")]; l.extend(rat_sx(&r)); sx::l(l) }
            Err(e) => sx::err(&e),
        },
        _ => return None,
    })
}

fn main() { fharness::serve(run); }
