//! C08 (area lang): real lexer + real parser dumps, and public-API evaluation.
use fend_core::verif_hooks::lang::{self, Dump};
use fharness::sx::{self, Sx};

fn conv(d: &Dump) -> Sx {
    match d {
        Dump::A(n) => sx::a(n),
        Dump::S(b) => Sx::S(b.clone()),
        Dump::L(v) => sx::l(v.iter().map(conv).collect()),
    }
}

fn run(op: &str, args: &[Sx]) -> Option<Sx> {
    Some(match op {
        // (lexparse (codepoints) comma?) -> ("lexerr" "..") | ("ok" (tokens) ast-or-perr)
        "lexparse" => {
            let Some(t) = args.first().and_then(Sx::as_cp_string) else { return Some(sx::bad()) };
            let comma = args.get(1).and_then(Sx::as_u64).unwrap_or(0) != 0;
            conv(&lang::lex_parse(&t, comma))
        }
        // (eval (codepoints)) -> ("o" "main result") | ("e" "message"), fresh context
        "eval" => {
            let Some(t) = args.first().and_then(Sx::as_cp_string) else { return Some(sx::bad()) };
            let mut ctx = fend_core::Context::new();
            match fend_core::evaluate_with_interrupt(&t, &mut ctx, &fharness::NeverInt) {
                Ok(r) => sx::l(vec![sx::s("o"), sx::s(r.get_main_result())]),
                Err(m) => sx::l(vec![sx::s("e"), sx::s(&m)]),
            }
        }
        _ => return None,
    })
}

fn main() { fharness::serve(run); }
