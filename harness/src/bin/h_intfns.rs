//! C10: integer-domain functions (factorial, fibonacci, nCr/nPr, mod, bitwise,
//! shifts, floor/ceil/round, words, roman, char/codepoint).
//!
//! L1 ops run the internal functions on raw limb representations through
//! `fend_core::verif_hooks::intfns`; `eval` is the public entry point (L2).
use fharness::sx::{self, Sx};
use fend_core::verif_hooks::intfns as h;

fn uint(x: &Sx) -> Option<h::RawUint> {
    let v = x.as_u64s()?;
    let (flag, limbs) = v.split_first()?;
    if *flag > 1 || (*flag == 0 && limbs.len() != 1) { return None; }
    Some(h::RawUint { large: *flag == 1, limbs: limbs.to_vec() })
}

fn rat(x: &Sx) -> Option<h::RawRat> {
    let l = x.as_list()?;
    if l.len() != 3 { return None; }
    Some(h::RawRat { neg: l[0].as_u64()? == 1, num: uint(&l[1])?, den: uint(&l[2])? })
}

// real = (pi rat), cplx = (real real)
fn cplx(x: &Sx) -> Option<h::RawCplx> {
    let l = x.as_list()?;
    if l.len() != 2 { return None; }
    let part = |y: &Sx| -> Option<(bool, h::RawRat)> {
        let p = y.as_list()?;
        if p.len() != 2 { return None; }
        Some((p[0].as_u64()? == 1, rat(&p[1])?))
    };
    let (re_pi, re) = part(&l[0])?;
    let (im_pi, im) = part(&l[1])?;
    Some(h::RawCplx { re, re_pi, im, im_pi })
}

fn out_uint(u: &h::RawUint) -> Sx {
    let mut v = vec![sx::a(u64::from(u.large))];
    v.extend(u.limbs.iter().map(|l| sx::a(*l)));
    sx::l(v)
}

fn out(o: h::Out) -> Sx {
    match o {
        h::Out::Rat(r) => sx::l(vec![sx::s("rat"), sx::a(u64::from(r.neg)), out_uint(&r.num), out_uint(&r.den)]),
        h::Out::Uint(u) => sx::l(vec![sx::s("uint"), out_uint(&u)]),
        h::Out::Usize(n) => sx::l(vec![sx::s("usize"), sx::a(n)]),
        h::Out::Text(t) => sx::l(vec![sx::s("text"), sx::s(&t)]),
        h::Out::Err(k, m) => sx::l(vec![sx::s("err"), sx::s(&k), sx::s(&m)]),
        h::Out::Bad(m) => sx::l(vec![sx::s("bad"), sx::s(&m)]),
    }
}

fn run(op: &str, args: &[Sx]) -> Option<Sx> {
    Some(match op {
        // (eval "source") -> ("ok" "main result") | ("err" "message")
        "eval" => {
            let Some(t) = args.first().and_then(Sx::as_str) else { return Some(sx::bad()) };
            let mut ctx = fend_core::Context::new();
            match fend_core::evaluate_with_interrupt(t, &mut ctx, &fharness::NeverInt) {
                Ok(r) => sx::l(vec![sx::s("ok"), sx::s(r.get_main_result())]),
                Err(m) => sx::l(vec![sx::s("err"), sx::s(&m)]),
            }
        }
        // (eval-raw "source") -> raw representation of the resulting number
        "eval-raw" => {
            let Some(t) = args.first().and_then(Sx::as_str) else { return Some(sx::bad()) };
            out(h::eval_raw(t))
        }
        // (u1 "op" rat)
        "u1" => {
            let (Some(name), Some(a)) = (args.first().and_then(Sx::as_str), args.get(1).and_then(rat)) else { return Some(sx::bad()) };
            out(h::unary(name, &a))
        }
        // (u2 "op" rat rat)
        "u2" => {
            let (Some(name), Some(a), Some(b)) = (args.first().and_then(Sx::as_str), args.get(1).and_then(rat), args.get(2).and_then(rat))
                else { return Some(sx::bad()) };
            out(h::binary(name, &a, &b))
        }
        // (c1 "op" cplx), (c2 "op" cplx cplx): same operations on raw complex numbers
        "c1" => {
            let (Some(name), Some(a)) = (args.first().and_then(Sx::as_str), args.get(1).and_then(cplx)) else { return Some(sx::bad()) };
            out(h::unary_c(name, &a))
        }
        "c2" => {
            let (Some(name), Some(a), Some(b)) = (args.first().and_then(Sx::as_str), args.get(1).and_then(cplx), args.get(2).and_then(cplx))
                else { return Some(sx::bad()) };
            out(h::binary_c(name, &a, &b))
        }
        // (b1 "op" uint): BigUint method directly on the raw representation
        "b1" => {
            let (Some(name), Some(a)) = (args.first().and_then(Sx::as_str), args.get(1).and_then(uint)) else { return Some(sx::bad()) };
            out(h::uint_unary(name, &a))
        }
        // (b2 "op" uint uint)
        "b2" => {
            let (Some(name), Some(a), Some(b)) = (args.first().and_then(Sx::as_str), args.get(1).and_then(uint), args.get(2).and_then(uint))
                else { return Some(sx::bad()) };
            out(h::uint_binary(name, &a, &b))
        }
        // (reach rat): representation after the unit-scaling pass
        "reach" => {
            let Some(a) = args.first().and_then(rat) else { return Some(sx::bad()) };
            out(h::reach(&a))
        }
        _ => return None,
    })
}

fn main() { fharness::serve(run); }
