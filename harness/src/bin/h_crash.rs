// C06 / C13 crash probes: evaluate / preview / complete / inline-substitute
// under a context configuration.  Every request returns ("ok" …) or
// ("err" …); panics are caught by `serve`, aborts kill the worker and are
// attributed by the parent.
use fharness::sx::{self, Sx};
use fend_core::{Context, CustomUnitAttribute, DecimalSeparatorStyle};

fn rng_fn() -> u32 { 0x9e37_79b9 }
fn rng_zero() -> u32 { 0 }
fn rng_max() -> u32 { u32::MAX }

/// cfg = (sep fc rng rates custom)  each 0/1(/2)
fn make_ctx(cfg: &Sx) -> Option<Context> {
    let v = cfg.as_u64s()?;
    if v.len() != 5 { return None; }
    let mut c = Context::new();
    if v[0] == 1 { c.set_decimal_separator_style(DecimalSeparatorStyle::Comma); }
    if v[1] == 1 { c.use_coulomb_and_farad(); }
    // random source: absent / a mid-range constant / the two extreme draws
    match v[2] { 1 => c.set_random_u32_fn(rng_fn), 2 => c.set_random_u32_fn(rng_zero), 3 => c.set_random_u32_fn(rng_max), _ => {} }
    match v[3] {
        1 => c.set_exchange_rate_handler_v1(|cur: &str| -> Result<f64, Box<dyn std::error::Error + Send + Sync + 'static>> {
            Ok(match cur { "EUR" | "USD" => 1.0, "GBP" => 0.9, "NZD" => 1.5, "JPY" => 149.9, _ => return Err("unknown currency".into()) })
        }),
        2 => c.set_exchange_rate_handler_v1(|_: &str| -> Result<f64, Box<dyn std::error::Error + Send + Sync + 'static>> { Err("rates unavailable".into()) }),
        _ => {}
    }
    if v[4] == 1 {
        c.define_custom_unit_v1("fortnight", "fortnights", "14 days", &CustomUnitAttribute::None);
        c.define_custom_unit_v1("zorg", "zorgs", "3 m", &CustomUnitAttribute::AllowLongPrefix);
        c.define_custom_unit_v1("qq", "qq", "2 kg", &CustomUnitAttribute::AllowShortPrefix);
        c.define_custom_unit_v1("mega", "mega", "1000000", &CustomUnitAttribute::IsLongPrefix);
        c.define_custom_unit_v1("myalias", "myaliases", "m/s", &CustomUnitAttribute::Alias);
        c.define_custom_unit_v1("bad", "bads", "((", &CustomUnitAttribute::None);
        // every attribute kind also with a plural that differs from the singular
        c.define_custom_unit_v1("dozen", "dozens", "12", &CustomUnitAttribute::IsLongPrefix);
        c.define_custom_unit_v1("blip", "blips", "7 s", &CustomUnitAttribute::AllowShortPrefix);
        c.define_custom_unit_v1("nuv", "nuvs", "blip^2 / zorg", &CustomUnitAttribute::AllowLongPrefix);
        c.define_custom_unit_v1("al", "als", "kilozorg", &CustomUnitAttribute::Alias);
        c.define_custom_unit_v1("é", "és", "2", &CustomUnitAttribute::AllowLongPrefix);
        c.define_custom_unit_v1("selfref", "selfrefs", "2 selfref", &CustomUnitAttribute::None);
        c.define_custom_unit_v1("", "", "1", &CustomUnitAttribute::None);
    }
    Some(c)
}

fn res(r: Result<fend_core::FendResult, String>) -> Sx {
    match r {
        Ok(v) => sx::l(vec![sx::s("ok"), sx::a(v.get_main_result().len())]),
        Err(m) => sx::l(vec![sx::s("err"), sx::a(m.len())]),
    }
}

fn run(op: &str, args: &[Sx]) -> Option<Sx> {
    Some(match op {
        "eval" => {
            let (Some(mut c), Some(t)) = (args.first().and_then(make_ctx), args.get(1).and_then(Sx::as_cp_string)) else { return Some(sx::bad()) };
            res(fend_core::evaluate_with_interrupt(&t, &mut c, &fharness::NeverInt))
        }
        // evaluate several inputs on one context (variables carry over)
        "eval-seq" => {
            let Some(mut c) = args.first().and_then(make_ctx) else { return Some(sx::bad()) };
            let mut outs = vec![];
            for a in &args[1..] {
                let Some(t) = a.as_cp_string() else { return Some(sx::bad()) };
                outs.push(res(fend_core::evaluate_with_interrupt(&t, &mut c, &fharness::NeverInt)));
            }
            sx::l(outs)
        }
        "preview" => {
            let (Some(mut c), Some(t)) = (args.first().and_then(make_ctx), args.get(1).and_then(Sx::as_cp_string)) else { return Some(sx::bad()) };
            let r = fend_core::evaluate_preview_with_interrupt(&t, &mut c, &fharness::NeverInt);
            sx::l(vec![sx::s("ok"), sx::a(r.get_main_result().len())])
        }
        // preview of every prefix typed on the way to the input, on one context;
        // a panic at prefix k is reported as ("panic-at" k "msg")
        "prefixes" => {
            let (Some(mut c), Some(t)) = (args.first().and_then(make_ctx), args.get(1).and_then(Sx::as_cp_string)) else { return Some(sx::bad()) };
            let idx: Vec<usize> = t.char_indices().map(|(i, _)| i).chain(std::iter::once(t.len())).collect();
            for (k, &i) in idx.iter().enumerate() {
                let p = &t[..i];
                let mut c2 = c.clone();
                let r = std::panic::catch_unwind(std::panic::AssertUnwindSafe(|| {
                    let _ = fend_core::evaluate_preview_with_interrupt(p, &mut c2, &fharness::NeverInt);
                    let _ = fend_core::get_completions_for_prefix(p);
                }));
                if let Err(e) = r {
                    return Some(sx::l(vec![sx::s("panic-at"), sx::a(k), sx::s(&fharness::panic_payload(e))]));
                }
            }
            let _ = &mut c;
            sx::l(vec![sx::s("ok"), sx::a(idx.len())])
        }
        "complete" => {
            let Some(t) = args.first().and_then(Sx::as_cp_string) else { return Some(sx::bad()) };
            let (pos, v) = fend_core::get_completions_for_prefix(&t);
            sx::l(vec![sx::s("ok"), sx::a(pos), sx::l(v.iter().map(|c| sx::l(vec![sx::cps(c.display()), sx::cps(c.insert())])).collect())])
        }
        "inline" => {
            let (Some(mut c), Some(t)) = (args.first().and_then(make_ctx), args.get(1).and_then(Sx::as_cp_string)) else { return Some(sx::bad()) };
            let r = fend_core::substitute_inline_fend_expressions(&t, &mut c, &fharness::NeverInt);
            let _ = r.to_json();
            sx::l(vec![sx::s("ok"), sx::a(r.get_parts().len())])
        }
        _ => return None,
    })
}

fn main() { fharness::serve(run); }
