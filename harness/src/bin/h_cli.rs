//! C19 / C20: in-process fend_core results for the same expressions the `fend`
//! binary is given, on a context configured the way cli/src/context.rs does.
//!
//! (run-exprs (coulomb comma (("sing" "plur" "def" "attr")...)) rates "expr"...)
//!   rates = (none) | (err "message") | (table ("CUR" "tok" "1.07")|("CUR" "base")|("CUR" "unknown") ...)
//!   -> (("ok" "main result" unit? trailing-newline? no-spans?) | ("err" "message") ...)
//! All expressions run on one shared context, in order, errors included.
//! (version) -> "x.y.z"
use fharness::sx::{self, Sx};

type HErr = Box<dyn std::error::Error + Send + Sync + 'static>;

#[derive(Clone)]
enum Rates {
    None,
    Err(String),
    Table(Vec<(String, Option<Option<f64>>)>), // Some(Some(v)) token, Some(None) base, None unknown
}

fn parse_rates(x: &Sx) -> Option<Rates> {
    let l = x.as_list()?;
    match l.first()?.as_str()? {
        "none" => Some(Rates::None),
        "err" => Some(Rates::Err(l.get(1)?.as_str()?.to_string())),
        "table" => {
            let mut t = vec![];
            for e in &l[1..] {
                let e = e.as_list()?;
                let cur = e.first()?.as_str()?.to_string();
                let v = match e.get(1)?.as_str()? {
                    "tok" => Some(Some(e.get(2)?.as_str()?.parse::<f64>().ok()?)),
                    "base" => Some(None),
                    "unknown" => None,
                    _ => return None,
                };
                t.push((cur, v));
            }
            Some(Rates::Table(t))
        }
        _ => None,
    }
}

fn handler(r: Rates) -> impl Fn(&str) -> Result<f64, HErr> {
    move |cur: &str| match &r {
        Rates::None => Err("no exchange rates in this run".into()),
        Rates::Err(m) => Err(m.clone().into()),
        Rates::Table(t) => {
            for (c, v) in t {
                if c == cur {
                    return match v {
                        Some(Some(x)) => Ok(*x),
                        Some(None) => Ok(1.0),
                        None => Err(format!("currency exchange rate for {cur} is unknown").into()),
                    };
                }
            }
            Err(format!("currency exchange rate for {cur} is unknown").into())
        }
    }
}

fn attr(s: &str) -> Option<fend_core::CustomUnitAttribute> {
    use fend_core::CustomUnitAttribute as A;
    Some(match s {
        "none" => A::None,
        "allow-long-prefix" => A::AllowLongPrefix,
        "allow-short-prefix" => A::AllowShortPrefix,
        "is-long-prefix" => A::IsLongPrefix,
        "alias" => A::Alias,
        _ => return None,
    })
}

fn fixed_random() -> u32 { 4 }

fn run(op: &str, args: &[Sx]) -> Option<Sx> {
    Some(match op {
        "run-exprs" => {
            let Some(cfg) = args.first().and_then(Sx::as_list) else { return Some(sx::bad()) };
            let Some(rates) = args.get(1).and_then(parse_rates) else { return Some(sx::bad()) };
            let mut ctx = fend_core::Context::new();
            if cfg.first().and_then(Sx::as_u64) == Some(1) {
                ctx.use_coulomb_and_farad();
            }
            if let Some(units) = cfg.get(2).and_then(Sx::as_list) {
                for u in units {
                    let Some(u) = u.as_list() else { return Some(sx::bad()) };
                    let f = |i: usize| u.get(i).and_then(Sx::as_str);
                    let (Some(s), Some(p), Some(d), Some(a)) = (f(0), f(1), f(2), f(3).and_then(attr)) else {
                        return Some(sx::bad());
                    };
                    ctx.define_custom_unit_v1(s, p, d, &a);
                }
            }
            ctx.set_decimal_separator_style(if cfg.get(1).and_then(Sx::as_u64) == Some(1) {
                fend_core::DecimalSeparatorStyle::Comma
            } else {
                fend_core::DecimalSeparatorStyle::Dot
            });
            let mut outs = vec![];
            for a in &args[2..] {
                let Some(e) = a.as_str() else { return Some(sx::bad()) };
                // what cli/src/context.rs does before every evaluation
                ctx.set_random_u32_fn(fixed_random);
                ctx.set_output_mode_terminal();
                ctx.set_exchange_rate_handler_v1(handler(rates.clone()));
                outs.push(match fend_core::evaluate_with_interrupt(e, &mut ctx, &fharness::NeverInt) {
                    Ok(r) => sx::l(vec![
                        sx::s("ok"),
                        sx::s(r.get_main_result()),
                        sx::a(u8::from(r.is_unit_type())),
                        sx::a(u8::from(r.has_trailing_newline())),
                        sx::a(u8::from(r.get_main_result_spans().next().is_none())),
                    ]),
                    Err(m) => sx::l(vec![sx::s("err"), sx::s(&m)]),
                });
            }
            sx::l(outs)
        }
        "version" => sx::s(&fend_core::get_version()),
        _ => return None,
    })
}

fn main() { fharness::serve(run); }
