//! C12 / C14: Context::serialize_variables / deserialize_variables through the
//! public API only.  Every operation works on fresh contexts; probes are
//! evaluated on a clone of the context so that they do not disturb each other
//! (evaluate inserts `_` and `ans`).
use fharness::sx::{self, Sx};
use std::alloc::{GlobalAlloc, Layout, System};
use std::sync::atomic::{AtomicUsize, Ordering};
use std::time::{Duration, Instant};

/// Records the largest single allocation request (bytes) since the last reset.
struct Tracking;
static MAX_REQ: AtomicUsize = AtomicUsize::new(0);
unsafe impl GlobalAlloc for Tracking {
    unsafe fn alloc(&self, l: Layout) -> *mut u8 {
        MAX_REQ.fetch_max(l.size(), Ordering::Relaxed);
        System.alloc(l)
    }
    unsafe fn dealloc(&self, p: *mut u8, l: Layout) { System.dealloc(p, l) }
    unsafe fn alloc_zeroed(&self, l: Layout) -> *mut u8 {
        MAX_REQ.fetch_max(l.size(), Ordering::Relaxed);
        System.alloc_zeroed(l)
    }
    unsafe fn realloc(&self, p: *mut u8, l: Layout, n: usize) -> *mut u8 {
        MAX_REQ.fetch_max(n, Ordering::Relaxed);
        System.realloc(p, l, n)
    }
}
#[global_allocator]
static A: Tracking = Tracking;

/// Interrupt that fires after a wall-clock deadline (keeps polled loops from
/// turning into harness hangs; un-polled loops still hang and are seen by the
/// parent).
struct Deadline(Instant);
impl fend_core::Interrupt for Deadline {
    fn should_interrupt(&self) -> bool { Instant::now() > self.0 }
}

fn text(a: &Sx) -> Option<String> { a.as_bytes().and_then(|b| String::from_utf8(b.to_vec()).ok()) }
fn texts(a: &Sx) -> Option<Vec<String>> { a.as_list()?.iter().map(text).collect() }

/// Scripted random source: a fixed 64-bit LCG, restarted before every
/// evaluation, so that `sample` / `roll` are a deterministic function of the
/// value they are applied to (before and after a reload alike).
static RNG_STATE: std::sync::atomic::AtomicU64 = std::sync::atomic::AtomicU64::new(0);
const RNG_SEED: u64 = 0x9e37_79b9_7f4a_7c15;
fn scripted_u32() -> u32 {
    let s = RNG_STATE.load(Ordering::Relaxed).wrapping_mul(6364136223846793005).wrapping_add(1442695040888963407);
    RNG_STATE.store(s, Ordering::Relaxed);
    (s >> 33) as u32
}
fn new_ctx() -> fend_core::Context {
    let mut c = fend_core::Context::new();
    c.set_random_u32_fn(scripted_u32);
    c
}

fn eval1(src: &str, ctx: &mut fend_core::Context, ms: u64) -> Sx {
    RNG_STATE.store(RNG_SEED, Ordering::Relaxed);
    let int = Deadline(Instant::now() + Duration::from_millis(ms));
    let r = std::panic::catch_unwind(std::panic::AssertUnwindSafe(|| {
        fend_core::evaluate_with_interrupt(src, ctx, &int)
    }));
    match r {
        Ok(Ok(r)) => sx::l(vec![sx::s("o"), Sx::S(r.get_main_result().as_bytes().to_vec())]),
        Ok(Err(m)) => sx::l(vec![sx::s("e"), Sx::S(m.into_bytes())]),
        Err(p) => sx::l(vec![sx::s("p"), Sx::S(fharness::panic_payload(p).into_bytes())]),
    }
}

fn history(ctx: &mut fend_core::Context, stmts: &[String]) -> Vec<Sx> {
    stmts.iter().map(|s| eval1(s, ctx, 4000)).collect()
}

/// every probe (with `$` replaced by the variable name) for every name, each on
/// a clone of the context.  The whole request shares one time budget so that
/// many slow-but-interruptible probes cannot look like a hang to the parent;
/// probes beyond the budget answer ("s").
fn probes(ctx: &fend_core::Context, names: &[String], probes: &[String]) -> Sx {
    let end = Instant::now() + Duration::from_millis(4000);
    sx::l(names.iter().map(|n| {
        sx::l(probes.iter().map(|p| {
            let left = end.saturating_duration_since(Instant::now()).as_millis() as u64;
            if left == 0 { return sx::l(vec![sx::s("s")]); }
            let mut c = ctx.clone();
            eval1(&p.replace('$', n), &mut c, left.min(300))
        }).collect())
    }).collect())
}

fn save(ctx: &fend_core::Context) -> Result<Vec<u8>, String> {
    let mut out = vec![];
    ctx.serialize_variables(&mut out)?;
    Ok(out)
}

fn run(op: &str, args: &[Sx]) -> Option<Sx> {
    Some(match op {
        // (save "stmt" ...) -> ("ok" image (stmt results...))
        "save" => {
            let Some(stmts) = args.iter().map(text).collect::<Option<Vec<_>>>() else { return Some(sx::bad()) };
            let mut ctx = new_ctx();
            let rs = history(&mut ctx, &stmts);
            match save(&ctx) {
                Ok(b) => sx::l(vec![sx::s("ok"), Sx::S(b), sx::l(rs)]),
                Err(m) => sx::l(vec![sx::s("save-err"), Sx::S(m.into_bytes())]),
            }
        }
        // (live (names) (probes) (stmts) (post)) -> ("ok" ((probe results per name)...))
        "live" => {
            let (Some(names), Some(ps), Some(stmts), Some(post)) =
                (args.first().and_then(texts), args.get(1).and_then(texts), args.get(2).and_then(texts), args.get(3).and_then(texts))
                else { return Some(sx::bad()) };
            let mut ctx = new_ctx();
            let r1 = history(&mut ctx, &stmts);
            let r2 = history(&mut ctx, &post);
            sx::l(vec![sx::s("ok"), probes(&ctx, &names, &ps), sx::l(r1), sx::l(r2)])
        }
        // (load image) -> ("ok" image2 max_alloc) | ("err" msg max_alloc) | ("panic" msg max_alloc)
        "load" => {
            let Some(img) = args.first().and_then(Sx::as_bytes) else { return Some(sx::bad()) };
            let mut ctx = new_ctx();
            MAX_REQ.store(0, Ordering::Relaxed);
            let r = std::panic::catch_unwind(std::panic::AssertUnwindSafe(|| {
                let mut rd = img;
                let r = ctx.deserialize_variables(&mut rd);
                (r, rd.len())
            }));
            let m = sx::a(MAX_REQ.load(Ordering::Relaxed));
            match r {
                Ok((Ok(()), left)) => match save(&ctx) {
                    Ok(b) => sx::l(vec![sx::s("ok"), Sx::S(b), m, sx::a(left)]),
                    Err(e) => sx::l(vec![sx::s("save-err"), Sx::S(e.into_bytes()), m]),
                },
                Ok((Err(e), _)) => sx::l(vec![sx::s("err"), Sx::S(e.into_bytes()), m]),
                Err(p) => sx::l(vec![sx::s("panic"), Sx::S(fharness::panic_payload(p).into_bytes()), m]),
            }
        }
        // (loaded image (names) (probes) (post)) -> ("ok" ((probe results per name)...) image-after-probes-context)
        //                                          | ("err" msg)
        "loaded" => {
            let (Some(img), Some(names), Some(ps), Some(post)) =
                (args.first().and_then(Sx::as_bytes), args.get(1).and_then(texts), args.get(2).and_then(texts), args.get(3).and_then(texts))
                else { return Some(sx::bad()) };
            let mut ctx = new_ctx();
            let mut rd = img;
            if let Err(e) = ctx.deserialize_variables(&mut rd) {
                return Some(sx::l(vec![sx::s("err"), Sx::S(e.into_bytes())]));
            }
            let r2 = history(&mut ctx, &post);
            sx::l(vec![sx::s("ok"), probes(&ctx, &names, &ps), sx::l(r2)])
        }
        // (evalx image "expr" ...) -> ("ok" (result per expr)) | ("err" msg): every expression on a clone of the
        // loaded context (one shared time budget; expressions beyond it answer ("s"))
        "evalx" => {
            let Some(img) = args.first().and_then(Sx::as_bytes) else { return Some(sx::bad()) };
            let Some(exprs) = args[1..].iter().map(text).collect::<Option<Vec<_>>>() else { return Some(sx::bad()) };
            let mut ctx = new_ctx();
            let mut rd = img;
            if let Err(e) = ctx.deserialize_variables(&mut rd) {
                return Some(sx::l(vec![sx::s("err"), Sx::S(e.into_bytes())]));
            }
            let end = Instant::now() + Duration::from_millis(6000);
            let rs = exprs.iter().map(|e| {
                let left = end.saturating_duration_since(Instant::now()).as_millis() as u64;
                if left == 0 { return sx::l(vec![sx::s("s")]); }
                let mut c = ctx.clone();
                eval1(e, &mut c, left.min(40))
            }).collect();
            // the context must still be writable after all that
            let saved = save(&ctx).is_ok();
            sx::l(vec![sx::s("ok"), sx::l(rs), sx::a(u8::from(saved))])
        }
        // (sizes) -> (size_of::<usize>() isize::MAX (five container element sizes))
        "sizes" => sx::l(vec![sx::a(std::mem::size_of::<usize>()), sx::a(isize::MAX as u128),
                              sx::l(fend_core::verif_hooks::ser::container_elem_sizes().iter().map(|&x| sx::a(x)).collect())]),
        _ => return None,
    })
}

fn main() { fharness::serve(run); }
