//! C17: dice distributions (Dist::new_die / bop / mean / sample / format)
use fharness::sx::{self, Sx};
use fend_core::verif_hooks::dist as hk;
use std::cell::RefCell;
use std::collections::VecDeque;

thread_local! {
    /// values the "host random source" returns, in order; when exhausted the
    /// last value is repeated (and the call is counted)
    static RANDOM: RefCell<(VecDeque<u32>, u32, u64)> = RefCell::new((VecDeque::new(), 0, 0));
}

fn set_random(vals: &[u32]) {
    RANDOM.with(|r| { let mut r = r.borrow_mut(); r.0 = vals.iter().copied().collect(); r.1 = vals.last().copied().unwrap_or(0); r.2 = 0; });
}
fn random_calls() -> u64 { RANDOM.with(|r| r.borrow().2) }
fn next_random() -> u32 {
    RANDOM.with(|r| { let mut r = r.borrow_mut(); r.2 += 1; let last = r.1; r.0.pop_front().unwrap_or(last) })
}

/// little-endian base-2^64 limbs -> decimal text
fn limbs_to_decimal(limbs: &[u64]) -> String {
    let mut v: Vec<u64> = limbs.to_vec();
    while v.len() > 1 && *v.last().unwrap() == 0 { v.pop(); }
    if v.len() == 1 { return v[0].to_string(); }
    const CH: u128 = 1_000_000_000_000_000_000; // 10^18
    let mut chunks: Vec<u64> = vec![];
    while !(v.len() == 1 && v[0] == 0) {
        let mut rem: u128 = 0;
        for limb in v.iter_mut().rev() {
            let cur = (rem << 64) | u128::from(*limb);
            *limb = (cur / CH) as u64;
            rem = cur % CH;
        }
        chunks.push(rem as u64);
        while v.len() > 1 && *v.last().unwrap() == 0 { v.pop(); }
    }
    let mut s = String::new();
    for (i, c) in chunks.iter().rev().enumerate() {
        if i == 0 { s.push_str(&c.to_string()); } else { s.push_str(&format!("{:018}", c)); }
    }
    if s.is_empty() { s.push('0'); }
    s
}

fn rat(r: &hk::RawRat) -> Vec<Sx> {
    let n = limbs_to_decimal(&r.num);
    let n = if r.negative && n != "0" { format!("-{n}") } else { n };
    vec![Sx::A(n), Sx::A(limbs_to_decimal(&r.den))]
}

/// one part: (re_num re_den p_num p_den p_f64_bits) for a plain real rational outcome,
/// ("x" pi? re.. pi? im.. p..) otherwise
fn part(p: &hk::RawPart) -> Sx {
    let im_zero = p.im.num.iter().all(|&l| l == 0);
    if !p.re_is_pi && im_zero {
        let mut v = rat(&p.re); v.extend(rat(&p.prob)); v.push(sx::a(p.prob_f64_bits)); sx::l(v)
    } else {
        let mut v = vec![sx::s("x"), sx::a(u8::from(p.re_is_pi))];
        v.extend(rat(&p.re)); v.push(sx::a(u8::from(p.im_is_pi))); v.extend(rat(&p.im)); v.extend(rat(&p.prob)); v.push(sx::a(p.prob_f64_bits));
        sx::l(v)
    }
}

fn parts(r: Result<Vec<hk::RawPart>, String>) -> Sx {
    match r {
        Ok(ps) => sx::ok(sx::l(ps.iter().map(part).collect())),
        Err(m) => sx::l(vec![sx::s("err"), sx::s(&m)]),
    }
}

fn u32s(x: &Sx) -> Option<Vec<u32>> {
    x.as_list()?.iter().map(|v| v.as_u64().and_then(|v| u32::try_from(v).ok())).collect()
}

fn run(op: &str, args: &[Sx]) -> Option<Sx> {
    set_random(&[]);
    Some(match op {
        // (parts "expr") -> ("ok" ((kn kd pn pd) ...)) | ("err" "msg")      L1, stored order
        "parts" => {
            let Some(e) = args.first().and_then(Sx::as_str) else { return Some(sx::bad()) };
            parts(hk::eval_parts(e, None, &fharness::NeverInt))
        }
        // (parts-rnd "expr" (r...)) -> same, with the random source returning r... in order
        "parts-rnd" => {
            let Some(e) = args.first().and_then(Sx::as_str) else { return Some(sx::bad()) };
            let Some(rs) = args.get(1).and_then(u32s) else { return Some(sx::bad()) };
            set_random(&rs);
            let r = parts(hk::eval_parts(e, Some(next_random), &fharness::NeverInt));
            sx::l(vec![r, sx::a(random_calls())])
        }
        // (sample-each "expr" (r...)) -> ("ok" (res...)) one Dist::sample per r on the same distribution   L1
        "sample-each" => {
            let Some(e) = args.first().and_then(Sx::as_str) else { return Some(sx::bad()) };
            let Some(rs) = args.get(1).and_then(u32s) else { return Some(sx::bad()) };
            set_random(&rs);
            match hk::sample_each(e, next_random, rs.len(), &fharness::NeverInt) {
                Ok(v) => sx::l(vec![sx::s("ok"), sx::l(v.into_iter().map(parts).collect()), sx::a(random_calls())]),
                Err(m) => sx::l(vec![sx::s("err"), sx::s(&m)]),
            }
        }
        // (eval "expr" (r...) mode) -> ("ok" "text") | ("err" "msg")           L2, public API
        // mode 0 = default output, 1 = terminal fixed width; random source as above ((): rng disabled)
        "eval" => {
            let Some(e) = args.first().and_then(Sx::as_str) else { return Some(sx::bad()) };
            let Some(rs) = args.get(1).and_then(u32s) else { return Some(sx::bad()) };
            let mode = args.get(2).and_then(Sx::as_u64).unwrap_or(0);
            let mut ctx = fend_core::Context::new();
            if !rs.is_empty() { set_random(&rs); ctx.set_random_u32_fn(next_random); }
            if mode == 1 { ctx.set_output_mode_terminal(); }
            match fend_core::evaluate_with_interrupt(e, &mut ctx, &fharness::NeverInt) {
                Ok(r) => sx::l(vec![sx::s("ok"), sx::s(r.get_main_result()), sx::a(random_calls())]),
                Err(m) => sx::l(vec![sx::s("err"), sx::s(&m)]),
            }
        }
        _ => return None,
    })
}

fn main() { fharness::serve(run); }
