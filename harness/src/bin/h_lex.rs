//! Lex area (extension of C06 / C08): the real lexer's token trace with the
//! remaining byte length after every token, and the oracle tables
//! (alphabetic characters, parse_number, Date::parse) for one input.
use fend_core::verif_hooks::lang::Dump;
use fend_core::verif_hooks::lex;
use fharness::sx::{self, Sx};

fn conv(d: &Dump) -> Sx {
    match d {
        Dump::A(n) => sx::a(n),
        Dump::S(b) => Sx::S(b.clone()),
        Dump::L(v) => sx::l(v.iter().map(conv).collect()),
    }
}

fn run(op: &str, args: &[Sx]) -> Option<Sx> {
    Some(match op {
        // (trace (codepoints) comma?) -> (status ((token rem-bytes boundary?) ...))
        "trace" => {
            let Some(t) = args.first().and_then(Sx::as_cp_string) else { return Some(sx::bad()) };
            let comma = args.get(1).and_then(Sx::as_u64).unwrap_or(0) != 0;
            conv(&lex::trace(&t, comma))
        }
        // (oracle (codepoints) comma?) -> ((alpha) (numtab) (datetab))
        "oracle" => {
            let Some(t) = args.first().and_then(Sx::as_cp_string) else { return Some(sx::bad()) };
            let comma = args.get(1).and_then(Sx::as_u64).unwrap_or(0) != 0;
            conv(&lex::oracle(&t, comma))
        }
        // (class-tables) -> ((whitespace scalars) (ascii alphabetic) (ascii whitespace))
        "class-tables" => conv(&lex::class_tables()),
        // (len-utf8 (codepoints)) -> (len ...)
        "len-utf8" => {
            let Some(t) = args.first().and_then(Sx::as_cp_string) else { return Some(sx::bad()) };
            sx::l(t.chars().map(|c| sx::a(c.len_utf8())).collect())
        }
        // (split-at (codepoints) mid) -> ("ok" "a" "b") | panics
        "split-at" => {
            let Some(t) = args.first().and_then(Sx::as_cp_string) else { return Some(sx::bad()) };
            let mid = args.get(1).and_then(Sx::as_u64).unwrap_or(0) as usize;
            let (x, y) = t.split_at(mid);
            sx::l(vec![sx::s("ok"), sx::s(x), sx::s(y)])
        }
        _ => return None,
    })
}

fn main() { fharness::serve(run); }
