//! C11 / C04 / C05: unit tables, name resolution, conversions, dimensional analysis
use fharness::sx::{self, Sx};
use fend_core::verif_hooks::units as hk;

fn real(r: &hk::RawReal) -> Sx {
    sx::l(vec![sx::a(r.pattern), sx::a(r.sign), Sx::A(r.num.clone()), Sx::A(r.den.clone())])
}
fn cplx(c: &hk::RawComplex) -> Sx { sx::l(vec![real(&c.re), real(&c.im)]) }
fn named(u: &hk::RawNamedUnit) -> Sx {
    sx::l(vec![
        sx::s(&u.prefix), sx::s(&u.singular), sx::s(&u.plural), sx::a(u8::from(u.alias)),
        sx::l(u.base_units.iter().map(|(k, v)| sx::l(vec![sx::s(k), cplx(v)])).collect()),
        cplx(&u.scale),
    ])
}
fn rawval(v: &hk::RawValue) -> Sx {
    sx::l(vec![
        sx::l(v.parts.iter().map(|(c, p)| sx::l(vec![cplx(c), real(p)])).collect()),
        sx::l(v.components.iter().map(|(u, e)| sx::l(vec![named(u), cplx(e)])).collect()),
        sx::a(u8::from(v.exact)), sx::a(u8::from(v.simplifiable)),
    ])
}
fn resolved(r: &Result<hk::Resolved, (String, String)>) -> Sx {
    match r {
        Err((k, m)) => sx::l(vec![sx::s("err"), sx::s(k), sx::s(m)]),
        Ok(r) => sx::l(vec![
            sx::s("ok"), rawval(&r.raw),
            match &r.reduced {
                Ok((u, ex)) => sx::l(vec![sx::s("ok"), named(u), sx::a(u8::from(*ex))]),
                Err(k) => sx::l(vec![sx::s("err"), sx::s(k)]),
            },
        ]),
    }
}

/// (cf rates ((s p d attr) ...)) or (cf rates (...) comma): comma = 1 selects DecimalSeparatorStyle::Comma
fn ctxspec(x: &Sx) -> Option<hk::CtxSpec> {
    let l = x.as_list()?;
    let cf = l.first()?.as_u64()? == 1;
    let rates = match l.get(1)?.as_u64()? { 1 => hk::Rates::Fake, 2 => hk::Rates::Failing, _ => hk::Rates::Absent };
    let mut custom = vec![];
    for c in l.get(2)?.as_list()? {
        let c = c.as_list()?;
        custom.push((c.first()?.as_str()?.to_string(), c.get(1)?.as_str()?.to_string(),
                     c.get(2)?.as_str()?.to_string(), c.get(3)?.as_str()?.to_string()));
    }
    let comma = l.get(3).and_then(Sx::as_u64) == Some(1);
    Some(hk::CtxSpec { coulomb_farad: cf, rates, custom_units: custom, comma })
}

/// the same context, built through the public API only (for L2 `eval`)
fn public_context(spec: &hk::CtxSpec) -> fend_core::Context {
    let mut ctx = fend_core::Context::new();
    if spec.coulomb_farad { ctx.use_coulomb_and_farad(); }
    if spec.comma { ctx.set_decimal_separator_style(fend_core::DecimalSeparatorStyle::Comma); }
    match spec.rates {
        hk::Rates::Absent => {}
        hk::Rates::Fake => ctx.set_exchange_rate_handler_v1(
            |c: &str| -> Result<f64, Box<dyn std::error::Error + Send + Sync + 'static>> { Ok(hk::fake_rate(c)) }),
        hk::Rates::Failing => ctx.set_exchange_rate_handler_v1(
            |_c: &str| -> Result<f64, Box<dyn std::error::Error + Send + Sync + 'static>> { Err("verif: exchange rates unavailable".into()) }),
    }
    for (s, p, d, a) in &spec.custom_units {
        let attr = match a.as_str() {
            "l" => fend_core::CustomUnitAttribute::AllowLongPrefix,
            "s" => fend_core::CustomUnitAttribute::AllowShortPrefix,
            "lp" => fend_core::CustomUnitAttribute::IsLongPrefix,
            "alias" => fend_core::CustomUnitAttribute::Alias,
            _ => fend_core::CustomUnitAttribute::None,
        };
        ctx.define_custom_unit_v1(s, p, d, &attr);
    }
    ctx
}

fn run(op: &str, args: &[Sx]) -> Option<Sx> {
    Some(match op {
        "units-raw" => sx::l(hk::raw_unit_defs().iter().map(|d|
            sx::l(vec![sx::a(d.group), sx::s(d.singular), sx::s(d.plural), sx::s(d.definition)])).collect()),
        "units-literals" => sx::l(hk::source_literals().iter().map(|s| sx::s(s)).collect()),
        "implicit-map" => sx::l(hk::implicit_unit_map().iter().map(|(a, b)| sx::l(vec![sx::s(a), sx::s(b)])).collect()),
        // (builtin-query "ident" sp cs)
        "builtin-query" => {
            let Some(id) = args.first().and_then(Sx::as_str) else { return Some(sx::bad()) };
            let sp = args.get(1).and_then(Sx::as_u64) == Some(1);
            let cs = args.get(2).and_then(Sx::as_u64) == Some(1);
            match hk::builtin_query(id, sp, cs) {
                None => sx::l(vec![sx::s("none")]),
                Some((s, p, d)) => sx::l(vec![sx::s("some"), sx::s(&s), sx::s(&p), sx::s(&d)]),
            }
        }
        // (builtin-query-many sp cs "id" "id" ...) -> list of answers
        "builtin-query-many" => {
            let sp = args.first().and_then(Sx::as_u64) == Some(1);
            let cs = args.get(1).and_then(Sx::as_u64) == Some(1);
            let mut out = vec![];
            for a in &args[2.min(args.len())..] {
                let Some(id) = a.as_str() else { return Some(sx::bad()) };
                out.push(match hk::builtin_query(id, sp, cs) {
                    None => sx::l(vec![sx::s("none")]),
                    Some((s, p, d)) => sx::l(vec![sx::s("some"), sx::s(&s), sx::s(&p), sx::s(&d)]),
                });
            }
            sx::l(out)
        }
        // every scalar value >= 128 whose full upper-case mapping is all ASCII, and
        // every ASCII one whose mapping differs from the ASCII fold: (cp (upper cps))
        "upper-survey" => {
            let mut out = vec![];
            for cp in 0u32..=0x10ffff {
                let Some(ch) = char::from_u32(cp) else { continue };
                let up: String = ch.to_string().to_uppercase();
                let report = if cp < 128 { up != ch.to_ascii_uppercase().to_string() } else { up.is_ascii() };
                if report { out.push(sx::l(vec![sx::a(cp), sx::cps(&up)])); }
            }
            sx::l(out)
        }
        "fake-rate" => {
            let Some(id) = args.first().and_then(Sx::as_str) else { return Some(sx::bad()) };
            sx::s(&format!("{}", hk::fake_rate(id)))
        }
        // (resolve ctx "ident")
        "resolve" => {
            let Some(spec) = args.first().and_then(ctxspec) else { return Some(sx::bad()) };
            let Some(id) = args.get(1).and_then(Sx::as_str) else { return Some(sx::bad()) };
            resolved(&hk::resolve(id, &spec))
        }
        // (resolve-status ctx "ident" ...) -> list of 0 (ok) | "Variant"
        "resolve-status" => {
            let Some(spec) = args.first().and_then(ctxspec) else { return Some(sx::bad()) };
            let mut out = vec![];
            for a in &args[1..] {
                let Some(id) = a.as_str() else { return Some(sx::bad()) };
                out.push(match hk::resolve(id, &spec) { Ok(_) => sx::a(0), Err((k, _)) => sx::s(&k) });
            }
            sx::l(out)
        }
        // (eval-expr ctx "expr")
        "eval-expr" => {
            let Some(spec) = args.first().and_then(ctxspec) else { return Some(sx::bad()) };
            let Some(e) = args.get(1).and_then(Sx::as_str) else { return Some(sx::bad()) };
            resolved(&hk::eval_expr(e, &spec))
        }
        // (eval-expr-simplified ctx "expr"): evaluate, then Value::simplify
        "eval-expr-simplified" => {
            let Some(spec) = args.first().and_then(ctxspec) else { return Some(sx::bad()) };
            let Some(e) = args.get(1).and_then(Sx::as_str) else { return Some(sx::bad()) };
            resolved(&hk::eval_expr_simplified(e, &spec))
        }
        // (default-units "key" ...) -> (("some" "unit") | ("none") ...): lookup_default_unit
        "default-units" => {
            let mut out = vec![];
            for a in args {
                let Some(k) = a.as_str() else { return Some(sx::bad()) };
                out.push(match hk::default_unit_for(k) { Some(u) => sx::l(vec![sx::s("some"), sx::s(&u)]), None => sx::l(vec![sx::s("none")]) });
            }
            sx::l(out)
        }
        // (history ctx step ...) on ONE context; step = ("e" "input") | ("d" "sing" "plur" "def" "attr")
        // -> one ("o" text) | ("e" msg) per "e" step, in order (public API only)
        "history" => {
            let Some(spec) = args.first().and_then(ctxspec) else { return Some(sx::bad()) };
            let mut ctx = public_context(&spec);
            let mut outs = vec![];
            for st in &args[1..] {
                let Some(st) = st.as_list() else { return Some(sx::bad()) };
                match st.first().and_then(Sx::as_str) {
                    Some("e") => {
                        let Some(t) = st.get(1).and_then(Sx::as_str) else { return Some(sx::bad()) };
                        outs.push(match fend_core::evaluate_with_interrupt(t, &mut ctx, &fharness::NeverInt) {
                            Ok(r) => sx::l(vec![sx::s("o"), sx::s(r.get_main_result())]),
                            Err(m) => sx::l(vec![sx::s("e"), sx::s(&m)]),
                        });
                    }
                    Some("d") => {
                        let g = |i: usize| st.get(i).and_then(Sx::as_str);
                        let (Some(a), Some(b), Some(d), Some(at)) = (g(1), g(2), g(3), g(4)) else { return Some(sx::bad()) };
                        let attr = match at {
                            "l" => fend_core::CustomUnitAttribute::AllowLongPrefix,
                            "s" => fend_core::CustomUnitAttribute::AllowShortPrefix,
                            "lp" => fend_core::CustomUnitAttribute::IsLongPrefix,
                            "alias" => fend_core::CustomUnitAttribute::Alias,
                            _ => fend_core::CustomUnitAttribute::None,
                        };
                        ctx.define_custom_unit_v1(a, b, d, &attr);
                    }
                    _ => return Some(sx::bad()),
                }
            }
            sx::l(outs)
        }
        // (eval ctx "input" ...) -> (("o" "text") | ("e" "msg") ...) in sequence on one context (public API only)
        "eval" => {
            let Some(spec) = args.first().and_then(ctxspec) else { return Some(sx::bad()) };
            let mut ctx = public_context(&spec);
            let mut outs = vec![];
            for a in &args[1..] {
                let Some(t) = a.as_str() else { return Some(sx::bad()) };
                outs.push(match fend_core::evaluate_with_interrupt(t, &mut ctx, &fharness::NeverInt) {
                    Ok(r) => sx::l(vec![sx::s("o"), sx::s(r.get_main_result())]),
                    Err(m) => sx::l(vec![sx::s("e"), sx::s(&m)]),
                });
            }
            sx::l(outs)
        }
        _ => return None,
    })
}

fn main() { fharness::serve(run); }
