//! C16: calendar arithmetic.  L2 = fend_core::evaluate on expression text;
//! L1 = Date::{next,prev,diff_months,parse,Display} on raw (year, month, day)
//! through /repo/core/src/verif_hooks/date.rs.
use fend_core::verif_hooks::date as hd;
use fharness::sx::{self, Sx};

fn ymd(args: &[Sx]) -> Option<hd::Ymd> {
    let y = i32::try_from(args.first()?.as_i64()?).ok()?;
    let m = u8::try_from(args.get(1)?.as_i64()?).ok()?;
    let d = u8::try_from(args.get(2)?.as_i64()?).ok()?;
    Some((y, m, d))
}

fn sx_ymd(d: hd::Ymd) -> Sx {
    sx::l(vec![sx::a(d.0), sx::a(d.1), sx::a(d.2)])
}

fn run(op: &str, args: &[Sx]) -> Option<Sx> {
    Some(match op {
        // (eval (cps)) -> ("o" (cps)) | ("e" (cps)); fresh context each time
        "eval" => {
            let Some(t) = args.first().and_then(Sx::as_cp_string) else { return Some(sx::bad()) };
            let mut ctx = fend_core::Context::new();
            match fend_core::evaluate_with_interrupt(&t, &mut ctx, &fharness::NeverInt) {
                Ok(r) => sx::l(vec![sx::s("o"), sx::cps(r.get_main_result())]),
                Err(m) => sx::l(vec![sx::s("e"), sx::cps(&m)]),
            }
        }
        // (year-lits y) -> 372 results of evaluating "@y-m-d" for m in 1..=12, d in 1..=31
        // (year-step y dir) -> the same for "@y-m-d + 1 day" (dir 1) / "@y-m-d - 1 day" (dir 0)
        // each result: the output text, or 0 for an error
        "year-lits" | "year-step" => {
            let Some(y) = args.first().and_then(Sx::as_i64) else { return Some(sx::bad()) };
            let suffix = if op == "year-lits" { "" } else {
                match args.get(1).and_then(Sx::as_i64) { Some(1) => " + 1 day", Some(0) => " - 1 day", _ => return Some(sx::bad()) }
            };
            let mut outs = Vec::with_capacity(372);
            for m in 1..=12 {
                for d in 1..=31 {
                    let mut ctx = fend_core::Context::new();
                    let e = format!("@{y}-{m}-{d}{suffix}");
                    outs.push(match fend_core::evaluate_with_interrupt(&e, &mut ctx, &fharness::NeverInt) {
                        Ok(r) => sx::s(r.get_main_result()),
                        Err(_) => sx::a(0),
                    });
                }
            }
            sx::l(outs)
        }
        "next" | "prev" => {
            let Some(d) = ymd(args) else { return Some(sx::bad()) };
            let r = if op == "next" { hd::next(d) } else { hd::prev(d) };
            match r {
                Some(Ok(r)) => sx::ok(sx_ymd(r)),
                Some(Err(m)) => sx::l(vec![sx::s("err"), sx::s(&m)]),
                None => sx::l(vec![sx::s("unconstructible")]),
            }
        }
        "show" => {
            let Some(d) = ymd(args) else { return Some(sx::bad()) };
            match hd::show(d) { Some(t) => sx::ok(sx::s(&t)), None => sx::l(vec![sx::s("unconstructible")]) }
        }
        // (diffm y m d months)
        "diffm" => {
            let Some(d) = ymd(args) else { return Some(sx::bad()) };
            let Some(n) = args.get(3).and_then(Sx::as_i64) else { return Some(sx::bad()) };
            match hd::diff_months(d, n) {
                None => sx::l(vec![sx::s("unconstructible")]),
                Some(hd::DiffMonths::Date(r)) => sx::ok(sx_ymd(r)),
                Some(hd::DiffMonths::NonExistent(y, day, b, a)) =>
                    sx::l(vec![sx::s("nonexistent"), sx::a(y), sx::a(day), sx_ymd(b), sx_ymd(a)]),
                Some(hd::DiffMonths::Other(m)) => sx::l(vec![sx::s("err"), sx::s(&m)]),
            }
        }
        // (parse (cps)) -> ("ok" (y m d)) | ("err")
        "parse" => {
            let Some(t) = args.first().and_then(Sx::as_cp_string) else { return Some(sx::bad()) };
            match hd::parse(&t) { Some(r) => sx::ok(sx_ymd(r)), None => sx::l(vec![sx::s("err")]) }
        }
        _ => return None,
    })
}

fn main() { fharness::serve(run); }
