//! C01: BigUint / BigRat arithmetic on raw representations (L1) and
//! expression evaluation through the public API (L2)
use fharness::sx::{self, Sx};
use fend_core::verif_hooks::num::{self as hk, Out, RawRat, RawUint};

fn as_raw(x: &Sx) -> Option<RawUint> {
    let l = x.as_list()?;
    if l.len() != 2 { return None; }
    match l[0].as_str()? {
        "s" => Some(RawUint::Small(l[1].as_u64()?)),
        "l" => Some(RawUint::Large(l[1].as_u64s()?)),
        _ => None,
    }
}

fn raw_sx(r: &RawUint) -> Sx {
    match r {
        RawUint::Small(n) => sx::l(vec![sx::s("s"), sx::a(n)]),
        RawUint::Large(v) => sx::l(vec![sx::s("l"), sx::l(v.iter().map(sx::a).collect())]),
    }
}

// ("r" neg num den)
fn as_rat(x: &Sx) -> Option<RawRat> {
    let l = x.as_list()?;
    if l.len() != 4 || l[0].as_str()? != "r" { return None; }
    Some(RawRat { neg: l[1].as_u64()? != 0, num: as_raw(&l[2])?, den: as_raw(&l[3])? })
}

fn rat_sx(r: &RawRat) -> Sx {
    sx::l(vec![sx::s("r"), sx::a(u8::from(r.neg)), raw_sx(&r.num), raw_sx(&r.den)])
}

fn out_sx(o: Out) -> Sx {
    match o {
        Out::Uint(u) => sx::ok(raw_sx(&u)),
        Out::Uint2(q, r) => sx::ok(sx::l(vec![raw_sx(&q), raw_sx(&r)])),
        Out::Ord(c) => sx::ok(sx::a(c)),
        Out::Bool(b) => sx::ok(sx::a(u8::from(b))),
        Out::Rat(r) => sx::ok(rat_sx(&r)),
        Out::ExactRat(r, e) => sx::ok(sx::l(vec![sx::a(u8::from(e)), rat_sx(&r)])),
        Out::Err(code, msg) => sx::l(vec![sx::s("err"), sx::a(code), sx::s(&msg)]),
        Out::Unknown => sx::l(vec![sx::s("unknown-op")]),
    }
}

fn eval_one(ctx: &mut fend_core::Context, t: &str) -> Sx {
    match fend_core::evaluate_with_interrupt(t, ctx, &fharness::NeverInt) {
        Ok(r) => sx::l(vec![sx::s("o"), sx::s(r.get_main_result())]),
        Err(m) => sx::l(vec![sx::s("e"), sx::s(&m)]),
    }
}

fn run(op: &str, args: &[Sx]) -> Option<Sx> {
    // (bu-<op> oc a [b]) : the oc argument is only meaningful to the model
    if let Some(name) = op.strip_prefix("bu-") {
        return Some(match args.len() {
            2 => {
                let Some(a) = as_raw(&args[1]) else { return Some(sx::bad()) };
                out_sx(hk::biguint_op1(name, &a))
            }
            3 => {
                let (Some(a), Some(b)) = (as_raw(&args[1]), as_raw(&args[2])) else { return Some(sx::bad()) };
                out_sx(hk::biguint_op2(name, &a, &b))
            }
            _ => sx::bad(),
        });
    }
    // (br-<op> oc a [b])
    if let Some(name) = op.strip_prefix("br-") {
        return Some(match args.len() {
            2 => {
                let Some(a) = as_rat(&args[1]) else { return Some(sx::bad()) };
                out_sx(hk::bigrat_op(name, &a, &a))
            }
            3 => {
                let (Some(a), Some(b)) = (as_rat(&args[1]), as_rat(&args[2])) else { return Some(sx::bad()) };
                out_sx(hk::bigrat_op(name, &a, &b))
            }
            _ => sx::bad(),
        });
    }
    Some(match op {
        // (err-msgs) -> ("division by zero" "zero to the power of zero ..." "exponent too large")
        "err-msgs" => sx::l(hk::admissible_error_messages().iter().map(|m| sx::s(m)).collect()),
        // (eval "text" ...) -> one ("o" "result") | ("e" "message") per text, each on a fresh context
        "eval" => {
            let mut outs = vec![];
            for a in args {
                let Some(t) = a.as_str() else { return Some(sx::bad()) };
                let mut ctx = fend_core::Context::new();
                outs.push(eval_one(&mut ctx, t));
            }
            sx::l(outs)
        }
        _ => return None,
    })
}

fn main() { fharness::serve(run); }
