//! C02 / C03 (number formatting, literal lexing, roots, approx. marker) and the
//! string-literal op of C18.
use fharness::sx::{self, Sx};
use fend_core::verif_hooks::fmt as hk;

fn rawrat(a: &[Sx]) -> Option<hk::RawRat> {
    // neg (num limbs) (den limbs) exact base_tag base
    if a.len() < 6 { return None; }
    Some(hk::RawRat {
        negative: a[0].as_u64()? != 0,
        num: a[1].as_u64s()?,
        den: a[2].as_u64s()?,
        exact: a[3].as_u64()? != 0,
        base_tag: u8::try_from(a[4].as_u64()?).ok()?,
        base: u8::try_from(a[5].as_u64()?).ok()?,
    })
}

fn rawrat_l(x: &Sx) -> Option<hk::RawRat> { rawrat(x.as_list()?) }

fn limbs(v: &[u64]) -> Sx { sx::l(v.iter().map(|x| sx::a(*x)).collect()) }

fn raw_out(r: &hk::RawRat) -> Sx {
    sx::l(vec![sx::a(u8::from(r.negative)), limbs(&r.num), limbs(&r.den), sx::a(u8::from(r.exact)),
               sx::a(r.base_tag), sx::a(r.base)])
}

fn res_raw(r: Result<hk::RawRat, String>) -> Sx {
    match r { Ok(v) => sx::ok(raw_out(&v)), Err(e) => sx::err(&e) }
}

fn ctx(comma: bool) -> fend_core::Context {
    let mut c = fend_core::Context::new();
    if comma { c.set_decimal_separator_style(fend_core::DecimalSeparatorStyle::Comma); }
    c
}

fn eval1(t: &str, c: &mut fend_core::Context) -> Sx {
    match fend_core::evaluate_with_interrupt(t, c, &fharness::NeverInt) {
        Ok(r) => sx::l(vec![sx::s("ok"), sx::cps(r.get_main_result())]),
        Err(m) => sx::l(vec![sx::s("err"), sx::cps(&m)]),
    }
}

fn run(op: &str, args: &[Sx]) -> Option<Sx> {
    Some(match op {
        // (fmt-rat neg (num) (den) exact base_tag base style_tag style_n comma force_large) -> ("ok" "text")
        "fmt-rat" => {
            let Some(r) = rawrat(args) else { return Some(sx::bad()) };
            if args.len() < 10 { return Some(sx::bad()); }
            let (Some(st), Some(n), Some(comma), Some(fl)) = (args[6].as_u64(), args[7].as_u64(), args[8].as_u64(), args[9].as_u64())
                else { return Some(sx::bad()) };
            let style = hk::Style { tag: st as u8, n };
            match hk::format_rat(&r, style, comma != 0, fl != 0) {
                Ok(t) => sx::ok(sx::cps(&t)),
                Err(e) => sx::err(&e),
            }
        }
        // (fmt-cx (re rawrat) re_pi (im rawrat) im_pi style_tag style_n comma) -> ("ok" (cps))
        "fmt-cx" => {
            if args.len() < 7 { return Some(sx::bad()); }
            let (Some(re), Some(rp), Some(im), Some(ip), Some(st), Some(n), Some(comma)) =
                (rawrat_l(&args[0]), args[1].as_u64(), rawrat_l(&args[2]), args[3].as_u64(), args[4].as_u64(), args[5].as_u64(), args[6].as_u64())
                else { return Some(sx::bad()) };
            match hk::format_complex(&re, rp != 0, &im, ip != 0, hk::Style { tag: st as u8, n }, comma != 0) {
                Ok(t) => sx::ok(sx::cps(&t)),
                Err(e) => sx::err(&e),
            }
        }
        // (fmt-int (limbs) force_large base_tag base write_prefix sf_some sf) -> ("ok" (cps) exact num_digits)
        "fmt-int" => {
            if args.len() < 7 { return Some(sx::bad()); }
            let (Some(l), Some(fl), Some(bt), Some(b), Some(wp), Some(sfs), Some(sf)) =
                (args[0].as_u64s(), args[1].as_u64(), args[2].as_u64(), args[3].as_u64(), args[4].as_u64(), args[5].as_u64(), args[6].as_u64())
                else { return Some(sx::bad()) };
            let sfl = if sfs != 0 { Some(sf as usize) } else { None };
            match hk::format_biguint(&l, fl != 0, bt as u8, b as u8, wp != 0, sfl) {
                Ok((t, ex, nd)) => sx::l(vec![sx::s("ok"), sx::cps(&t), sx::a(u8::from(ex)), sx::a(nd)]),
                Err(e) => sx::err(&e),
            }
        }
        // (iroot (x limbs) (n limbs)) -> ("ok" (root limbs) exact)
        "iroot" => {
            let (Some(x), Some(n)) = (args.first().and_then(Sx::as_u64s), args.get(1).and_then(Sx::as_u64s)) else { return Some(sx::bad()) };
            match hk::root_biguint(&x, &n) {
                Ok((r, ex)) => sx::l(vec![sx::s("ok"), limbs(&r), sx::a(u8::from(ex))]),
                Err(e) => sx::err(&e),
            }
        }
        // (pow-rat (rawrat) (rawrat)) -> ("ok" (rawrat))
        "pow-rat" => {
            let (Some(x), Some(e)) = (args.first().and_then(rawrat_l), args.get(1).and_then(rawrat_l)) else { return Some(sx::bad()) };
            res_raw(hk::pow_rat(&x, &e))
        }
        "add-rat" => {
            let (Some(x), Some(y)) = (args.first().and_then(rawrat_l), args.get(1).and_then(rawrat_l)) else { return Some(sx::bad()) };
            res_raw(hk::add_rat(&x, &y))
        }
        // (lex comma (cps)) -> ("ok" (tok ...)) | ("err" "Name" (tok ...))
        "lex" => {
            let (Some(comma), Some(t)) = (args.first().and_then(Sx::as_u64), args.get(1).and_then(Sx::as_cp_string)) else { return Some(sx::bad()) };
            let (toks, e) = hk::lex_tokens(&t, comma != 0, 64);
            let ts = sx::l(toks.iter().map(|t| match t {
                hk::Tok::Num(Ok(r)) => sx::l(vec![sx::s("num"), raw_out(r)]),
                hk::Tok::Num(Err(e)) => sx::l(vec![sx::s("numx"), sx::s(e)]),
                hk::Tok::Str(s) => sx::l(vec![sx::s("str"), sx::cps(s)]),
                hk::Tok::Other(d) => sx::l(vec![sx::s("other"), sx::s(d)]),
            }).collect());
            match e { None => sx::l(vec![sx::s("ok"), ts]), Some(e) => sx::l(vec![sx::s("err"), sx::s(&e), ts]) }
        }
        // (eval comma (cps)) -> ("ok" (cps)) | ("err" (cps))   fresh context
        "eval" => {
            let (Some(comma), Some(t)) = (args.first().and_then(Sx::as_u64), args.get(1).and_then(Sx::as_cp_string)) else { return Some(sx::bad()) };
            let mut c = ctx(comma != 0);
            eval1(&t, &mut c)
        }
        // (eval-seq comma (cps) (cps) ...) -> (res res ...) on one fresh context
        "eval-seq" => {
            let Some(comma) = args.first().and_then(Sx::as_u64) else { return Some(sx::bad()) };
            let mut c = ctx(comma != 0);
            let mut outs = vec![];
            for a in &args[1..] {
                let Some(t) = a.as_cp_string() else { return Some(sx::bad()) };
                outs.push(eval1(&t, &mut c));
            }
            sx::l(outs)
        }
        // (strlit (cps of the whole literal incl. quotes)) -> ("ok" (cps)) | ("err" (cps message))
        // the literal is evaluated as a fend expression: the main result of a
        // string value is its text
        "strlit" => {
            let Some(t) = args.first().and_then(Sx::as_cp_string) else { return Some(sx::bad()) };
            let mut c = ctx(false);
            eval1(&t, &mut c)
        }
        // (strlit-lex (cps)) -> same shape as lex: token level, error by variant name
        "strlit-lex" => {
            let Some(t) = args.first().and_then(Sx::as_cp_string) else { return Some(sx::bad()) };
            let (toks, e) = hk::lex_tokens(&t, false, 4);
            match (toks.first(), e) {
                (_, Some(e)) => sx::err(&e),
                (Some(hk::Tok::Str(s)), None) => sx::l(vec![sx::s("ok"), sx::cps(s), sx::a(toks.len())]),
                _ => sx::err("NotAStringToken"),
            }
        }
        _ => return None,
    })
}

fn main() { fharness::serve(run); }
