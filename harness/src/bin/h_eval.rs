//! eval area (C13 preview purity, C09 variables/lambdas, C07 interruption).
//! Everything goes through the public API of fend-core; the hook module is
//! used only to *observe* (per-entry snapshot of the context, FendError
//! variant names, AST dump).
use fend_core::verif_hooks::eval as hook;
use fend_core::Interrupt;
use fharness::sx::{self, Sx};
use std::cell::Cell;
use std::sync::atomic::{AtomicU64, Ordering};
use std::sync::Arc;
use std::time::Instant;

// ---------------------------------------------------------------------------
// instrumented host callbacks

static RNG_CALLS: AtomicU64 = AtomicU64::new(0);
static RNG_STATE: AtomicU64 = AtomicU64::new(0);

/// deterministic "random" source: splitmix on a counter; counts its calls
fn counting_rng() -> u32 {
    RNG_CALLS.fetch_add(1, Ordering::SeqCst);
    let mut z = RNG_STATE.fetch_add(0x9E37_79B9_7F4A_7C15, Ordering::SeqCst).wrapping_add(0x9E37_79B9_7F4A_7C15);
    z = (z ^ (z >> 30)).wrapping_mul(0xBF58_476D_1CE4_E5B9);
    z = (z ^ (z >> 27)).wrapping_mul(0x94D0_49BB_1331_11EB);
    ((z ^ (z >> 31)) >> 16) as u32
}

fn rate_of(currency: &str) -> Option<f64> {
    Some(match currency {
        "EUR" => 1.0,
        "USD" => 1.25,
        "GBP" => 0.8,
        "JPY" => 160.0,
        "AUD" => 1.5,
        "NZD" => 1.75,
        "CHF" => 0.95,
        _ => return None,
    })
}

struct Host {
    rate_calls: Arc<AtomicU64>,
}

const F_RNG: u64 = 1;
const F_RATES: u64 = 2;
const F_COULOMB: u64 = 4;
const F_TERMINAL: u64 = 8;
const F_COMMA: u64 = 16;
const F_CUSTOM_UNIT: u64 = 32;

fn make_context(flags: u64, setup: &[String]) -> (fend_core::Context, Host) {
    RNG_STATE.store(0, Ordering::SeqCst);
    let mut ctx = fend_core::Context::new();
    let host = Host { rate_calls: Arc::new(AtomicU64::new(0)) };
    if flags & F_RNG != 0 {
        ctx.set_random_u32_fn(counting_rng);
    }
    if flags & F_RATES != 0 {
        let counter = host.rate_calls.clone();
        ctx.set_exchange_rate_handler_v1(
            move |currency: &str| -> Result<f64, Box<dyn std::error::Error + Send + Sync + 'static>> {
                counter.fetch_add(1, Ordering::SeqCst);
                rate_of(currency).ok_or_else(|| format!("no rate for {currency}").into())
            },
        );
    }
    if flags & F_COULOMB != 0 {
        ctx.use_coulomb_and_farad();
    }
    if flags & F_TERMINAL != 0 {
        ctx.set_output_mode_terminal();
    }
    if flags & F_COMMA != 0 {
        ctx.set_decimal_separator_style(fend_core::DecimalSeparatorStyle::Comma);
    }
    if flags & F_CUSTOM_UNIT != 0 {
        ctx.define_custom_unit_v1("blorp", "blorps", "3 m", &fend_core::CustomUnitAttribute::AllowLongPrefix);
    }
    for s in setup {
        let _ = fend_core::evaluate_with_interrupt(s, &mut ctx, &fharness::NeverInt);
    }
    RNG_CALLS.store(0, Ordering::SeqCst);
    host.rate_calls.store(0, Ordering::SeqCst);
    (ctx, host)
}

// ---------------------------------------------------------------------------
// an interrupt that fires at its k-th call, counts calls, and records times

struct Probe {
    k: u64,
    calls: Cell<u64>,
    last: Cell<Option<Instant>>,
    max_gap_us: Cell<u64>,
    fired_at: Cell<Option<Instant>>,
    calls_after_fire: Cell<u64>,
}

impl Probe {
    fn new(k: Option<u64>) -> Self {
        Probe {
            k: k.unwrap_or(u64::MAX),
            calls: Cell::new(0),
            last: Cell::new(None),
            max_gap_us: Cell::new(0),
            fired_at: Cell::new(None),
            calls_after_fire: Cell::new(0),
        }
    }
    /// call before starting the evaluation: the first gap is start -> first poll
    fn start(&self) {
        self.last.set(Some(Instant::now()));
    }
    /// call after the evaluation returned: the last gap is last poll -> return
    fn finish(&self) -> u64 {
        let now = Instant::now();
        if let Some(l) = self.last.get() {
            let g = now.duration_since(l).as_micros() as u64;
            if g > self.max_gap_us.get() {
                self.max_gap_us.set(g);
            }
        }
        self.fired_at.get().map_or(0, |t| now.duration_since(t).as_micros() as u64)
    }
}

impl Interrupt for Probe {
    fn should_interrupt(&self) -> bool {
        let now = Instant::now();
        if let Some(l) = self.last.get() {
            let g = now.duration_since(l).as_micros() as u64;
            if g > self.max_gap_us.get() {
                self.max_gap_us.set(g);
            }
        }
        self.last.set(Some(now));
        let c = self.calls.get();
        self.calls.set(c + 1);
        if c >= self.k {
            if self.fired_at.get().is_none() {
                self.fired_at.set(Some(now));
            } else {
                self.calls_after_fire.set(self.calls_after_fire.get() + 1);
            }
            true
        } else {
            false
        }
    }
}

// ---------------------------------------------------------------------------
// observation helpers

fn hex(bytes: &[u8]) -> String {
    let mut o = String::with_capacity(bytes.len() * 2);
    for b in bytes {
        o.push_str(&format!("{b:02x}"));
    }
    o
}

fn res_text(r: &Result<String, String>) -> Sx {
    match r {
        Ok(t) => sx::l(vec![sx::s("o"), sx::cps(t)]),
        Err(t) => sx::l(vec![sx::s("e"), sx::cps(t)]),
    }
}

/// ((name-cps) bytes-hex debug-cps plain) per variable, sorted by name
fn snapshot_vars(ctx: &fend_core::Context) -> Sx {
    sx::l(hook::variables_snapshot(ctx)
        .iter()
        .map(|e| {
            sx::l(vec![
                sx::cps(&e.name),
                match &e.bytes {
                    Ok(b) => sx::s(&hex(b)),
                    Err(m) => sx::l(vec![sx::s("e"), sx::cps(m)]),
                },
                sx::cps(&e.debug),
                res_text(&e.plain),
            ])
        })
        .collect())
}

/// ((name-cps) digest) per variable: 64-bit hash of bytes, Debug and plain text
fn digest_vars(ctx: &fend_core::Context) -> Sx {
    use std::hash::{Hash, Hasher};
    sx::l(hook::variables_snapshot(ctx)
        .iter()
        .map(|e| {
            let mut h = std::collections::hash_map::DefaultHasher::new();
            e.bytes.hash(&mut h);
            e.debug.hash(&mut h);
            e.plain.hash(&mut h);
            sx::l(vec![sx::cps(&e.name), sx::s(&format!("{:016x}", h.finish()))])
        })
        .collect())
}

fn snapshot_settings(ctx: &fend_core::Context) -> Sx {
    sx::l(hook::settings_snapshot(ctx).iter().map(|(k, v)| sx::l(vec![sx::s(k), sx::cps(v)])).collect())
}

/// probe expressions evaluated on a *copy* of the context without handlers
/// (settings such as C/F mode, decimal separator and custom units are only
/// observable through evaluation results)
const PROBES: &[&str] = &["1 C to F", "1.5 + 1", "2 blorps to m", "1/3 to 3 dp", "_", "ans"];

fn run_probes(ctx: &fend_core::Context) -> Sx {
    sx::l(PROBES
        .iter()
        .map(|p| {
            let mut c = hook::without_handlers(ctx);
            match fend_core::evaluate_with_interrupt(p, &mut c, &fharness::NeverInt) {
                Ok(r) => sx::l(vec![sx::s("o"), sx::cps(r.get_main_result())]),
                Err(m) => sx::l(vec![sx::s("e"), sx::cps(&m)]),
            }
        })
        .collect())
}

/// Behavioural probes: every stored variable is evaluated and applied to fixed arguments on a COPY of the context
/// (without handlers).  Serialized images cannot show state shared between a context and its clones (scope nodes
/// are Arc-shared); the results of these probes can.
const APPLY: &[&str] = &["", " 1", " 1 2", " 2 3 4"];

fn behaviour(ctx: &fend_core::Context) -> Vec<(String, String)> {
    let mut out = vec![];
    for e in hook::variables_snapshot(ctx) {
        if e.name == "_" || e.name == "ans" {
            continue;
        }
        for suffix in APPLY {
            let input = format!("({}){}", e.name, suffix);
            let mut c = hook::without_handlers(ctx);
            let r = match fend_core::evaluate_with_interrupt(&input, &mut c, &fharness::NeverInt) {
                Ok(r) => format!("o:{}", r.get_main_result()),
                Err(m) => format!("e:{m}"),
            };
            out.push((input, r));
        }
    }
    out
}

fn fend_result(r: &fend_core::FendResult) -> Sx {
    let spans: String = r.get_main_result_spans().map(|s| s.string().to_string()).collect();
    sx::l(vec![
        sx::cps(r.get_main_result()),
        sx::a(u8::from(r.is_unit_type())),
        sx::a(u8::from(r.has_trailing_newline())),
        sx::a(u8::from(spans == r.get_main_result())),
    ])
}

/// run an observation; a panic inside it becomes ("panic" message)
fn guard(f: impl FnOnce() -> Sx) -> Sx {
    std::panic::catch_unwind(std::panic::AssertUnwindSafe(f))
        .unwrap_or_else(|pl| sx::l(vec![sx::s("panic"), sx::cps(&fharness::panic_payload(pl))]))
}

fn strings(x: &Sx) -> Option<Vec<String>> {
    x.as_list()?.iter().map(Sx::as_cp_string).collect()
}

fn opt_k(x: &Sx) -> Option<Option<u64>> {
    let v = x.as_i64()?;
    Some(if v < 0 { None } else { Some(v as u64) })
}

// ---------------------------------------------------------------------------

fn run(op: &str, args: &[Sx]) -> Option<Sx> {
    Some(match op {
        // (preview flags (setup...) input (k...))
        //  -> ("ok" before-vars(full) before-settings before-probes reference (per-k ...))
        // per k: (k result|("panic") polls rng-calls rate-calls vars-before vars-after(digests)
        //         settings-before settings-after probes-before probes-after
        //         rng-still-works rates-still-work calls-after-fire)
        "preview" => {
            let (Some(flags), Some(setup), Some(input), Some(ks)) = (
                args.first().and_then(Sx::as_u64),
                args.get(1).and_then(strings),
                args.get(2).and_then(Sx::as_cp_string),
                args.get(3).and_then(Sx::as_list),
            ) else {
                return Some(sx::bad());
            };
            let (ctx0, _host0) = make_context(flags, &setup);
            let before_vars = snapshot_vars(&ctx0);
            let before_settings = snapshot_settings(&ctx0);
            let before_probes = run_probes(&ctx0);
            // reference: what a plain evaluation answers on a handler-less copy
            let reference = std::panic::catch_unwind(std::panic::AssertUnwindSafe(|| {
                let mut c = hook::without_handlers(&ctx0);
                let p = Probe::new(None);
                let r = fend_core::evaluate_with_interrupt(&input, &mut c, &p);
                let kind = {
                    let mut c2 = hook::without_handlers(&ctx0);
                    match hook::evaluate_kind(&input, &mut c2, &fharness::NeverInt) {
                        Ok(_) => "Ok".to_string(),
                        Err((k, _)) => k,
                    }
                };
                match r {
                    Ok(r) => sx::l(vec![sx::s("o"), fend_result(&r), sx::a(p.calls.get()), sx::s(&kind)]),
                    Err(m) => sx::l(vec![sx::s("e"), sx::cps(&m), sx::a(p.calls.get()), sx::s(&kind)]),
                }
            }))
            .unwrap_or_else(|pl| sx::l(vec![sx::s("panic"), sx::cps(&fharness::panic_payload(pl))]));
            let mut per_k = vec![];
            for kx in ks {
                let Some(k) = opt_k(kx) else { return Some(sx::bad()) };
                // a fresh but identical context per firing point
                let (mut ctx, host) = make_context(flags, &setup);
                let vars_before = digest_vars(&ctx);
                let settings_before = snapshot_settings(&ctx);
                let probes_before = run_probes(&ctx);
                RNG_CALLS.store(0, Ordering::SeqCst);
                let p = Probe::new(k);
                let r = std::panic::catch_unwind(std::panic::AssertUnwindSafe(|| {
                    fend_core::evaluate_preview_with_interrupt(&input, &mut ctx, &p)
                }));
                let rng_calls = RNG_CALLS.load(Ordering::SeqCst);
                let rate_calls = host.rate_calls.load(Ordering::SeqCst);
                let ctx_for_probes = ctx.clone();
                let vars_after = guard(|| digest_vars(&ctx));
                let settings_after = snapshot_settings(&ctx);
                let probes_after = guard(|| run_probes(&ctx));
                // are the handlers still usable through the context?
                let c0 = RNG_CALLS.load(Ordering::SeqCst);
                let _ = guard(|| { let _ = fend_core::evaluate_with_interrupt("roll d6", &mut ctx, &fharness::NeverInt); sx::a(0) });
                let rng_works = RNG_CALLS.load(Ordering::SeqCst) > c0;
                let _ = guard(|| { let _ = fend_core::evaluate_with_interrupt("1 GBP to JPY", &mut ctx, &fharness::NeverInt); sx::a(0) });
                let rates_work = host.rate_calls.load(Ordering::SeqCst) > rate_calls;
                // the context that saw the preview against a twin that never did (built the same way, sharing nothing)
                let behaviour_diff = guard(|| {
                    let (twin, _twin_host) = make_context(flags, &setup);
                    let (a, b) = (behaviour(&ctx_for_probes), behaviour(&twin));
                    let mut d = vec![];
                    for ((i, x), (_, y)) in a.iter().zip(b.iter()) {
                        if x != y {
                            d.push(sx::l(vec![sx::cps(i), sx::cps(x), sx::cps(y)]));
                        }
                    }
                    if a.len() != b.len() {
                        d.push(sx::l(vec![sx::s("length"), sx::a(a.len()), sx::a(b.len())]));
                    }
                    sx::l(vec![sx::a(a.len()), sx::l(d)])
                });
                per_k.push(sx::l(vec![
                    sx::a(k.map_or(-1i64, |v| v as i64)),
                    match &r {
                        Ok(r) => fend_result(r),
                        Err(_) => sx::l(vec![sx::s("panic")]),
                    },
                    sx::a(p.calls.get()),
                    sx::a(rng_calls),
                    sx::a(rate_calls),
                    vars_before,
                    vars_after,
                    settings_before,
                    settings_after,
                    probes_before,
                    probes_after,
                    sx::a(u8::from(rng_works)),
                    sx::a(u8::from(rates_work)),
                    sx::a(p.calls_after_fire.get()),
                    behaviour_diff,
                ]));
            }
            sx::l(vec![sx::s("ok"), before_vars, before_settings, before_probes, reference, sx::l(per_k)])
        }
        // (evalseq flags ((input k) ...)) on one context
        //  -> per step (result polls vars calls-after-fire rng-calls rate-calls)
        // result = ("o" text is_unit) | ("e" message kind)
        "evalseq" => {
            let (Some(flags), Some(steps)) = (args.first().and_then(Sx::as_u64), args.get(1).and_then(Sx::as_list)) else {
                return Some(sx::bad());
            };
            let (mut ctx, host) = make_context(flags, &[]);
            let mut outs = vec![];
            for st in steps {
                let Some(st) = st.as_list() else { return Some(sx::bad()) };
                let (Some(input), Some(k)) = (st.first().and_then(Sx::as_cp_string), st.get(1).and_then(opt_k)) else {
                    return Some(sx::bad());
                };
                // pseudo-step: save the variables and load them into a fresh context with the same settings
                if input == "@@roundtrip" {
                    let mut buf = Vec::new();
                    let res = match ctx.serialize_variables(&mut buf) {
                        Err(m) => sx::l(vec![sx::s("e"), sx::cps(&m), sx::s("Serialize")]),
                        Ok(()) => {
                            let (mut fresh, _h) = make_context(flags, &[]);
                            match fresh.deserialize_variables(&mut buf.as_slice()) {
                                Ok(()) => { ctx = fresh; sx::l(vec![sx::s("o"), sx::cps("roundtrip"), sx::a(0)]) }
                                Err(m) => sx::l(vec![sx::s("e"), sx::cps(&m), sx::s("Deserialize")]),
                            }
                        }
                    };
                    outs.push(sx::l(vec![res, sx::a(0), snapshot_vars(&ctx), sx::a(0), sx::a(0), sx::a(0), sx::a(0)]));
                    continue;
                }
                // error kind from an identical run on a copy (same firing point)
                let kind = {
                    let mut c2 = ctx.clone();
                    let p2 = Probe::new(k);
                    match hook::evaluate_kind(&input, &mut c2, &p2) {
                        Ok(_) => "Ok".to_string(),
                        Err((kd, _)) => kd,
                    }
                };
                let r0 = RNG_CALLS.load(Ordering::SeqCst);
                let x0 = host.rate_calls.load(Ordering::SeqCst);
                let p = Probe::new(k);
                p.start();
                let r = fend_core::evaluate_with_interrupt(&input, &mut ctx, &p);
                let after_fire_us = p.finish();
                let res = match &r {
                    Ok(r) => sx::l(vec![sx::s("o"), sx::cps(r.get_main_result()), sx::a(u8::from(r.is_unit_type()))]),
                    Err(m) => sx::l(vec![sx::s("e"), sx::cps(m), sx::s(&kind)]),
                };
                outs.push(sx::l(vec![
                    res,
                    sx::a(p.calls.get()),
                    snapshot_vars(&ctx),
                    sx::a(p.calls_after_fire.get()),
                    sx::a(RNG_CALLS.load(Ordering::SeqCst) - r0),
                    sx::a(host.rate_calls.load(Ordering::SeqCst) - x0),
                    sx::a(after_fire_us),
                ]));
            }
            sx::l(outs)
        }
        // (parse input) -> ("ok" tree) | ("err" message)
        "parse" => {
            let Some(input) = args.first().and_then(Sx::as_cp_string) else { return Some(sx::bad()) };
            fn conv(t: &hook::Tree) -> Sx {
                match t {
                    hook::Tree::S(s) => sx::s(s),
                    hook::Tree::L(v) => sx::l(v.iter().map(conv).collect()),
                }
            }
            let ctx = fend_core::Context::new();
            match hook::parse_tree(&input, &ctx) {
                Ok(t) => sx::ok(conv(&t)),
                Err(m) => sx::l(vec![sx::s("err"), sx::cps(&m)]),
            }
        }
        // (polls flags (setup...) input k) -> (result-kind polls max-gap-us total-us after-fire-us calls-after-fire result-len)
        // one evaluation on a fresh context with a counting interrupt that
        // fires at call k (k = -1: never); times are wall-clock, search aid only
        "polls" => {
            let (Some(flags), Some(setup), Some(input), Some(k)) = (
                args.first().and_then(Sx::as_u64),
                args.get(1).and_then(strings),
                args.get(2).and_then(Sx::as_cp_string),
                args.get(3).and_then(opt_k),
            ) else {
                return Some(sx::bad());
            };
            let (mut ctx, _host) = make_context(flags, &setup);
            let p = Probe::new(k);
            let t0 = Instant::now();
            p.start();
            let r = fend_core::evaluate_with_interrupt(&input, &mut ctx, &p);
            let after_fire_us = p.finish();
            let total = t0.elapsed().as_micros() as u64;
            let (kind, len) = match &r {
                Ok(r) => ("ok".to_string(), r.get_main_result().len()),
                Err(m) => (if m == "interrupted" { "interrupted".to_string() } else { format!("err:{m}") }, 0),
            };
            sx::l(vec![
                sx::cps(&kind),
                sx::a(p.calls.get()),
                sx::a(p.max_gap_us.get()),
                sx::a(total),
                sx::a(after_fire_us),
                sx::a(p.calls_after_fire.get()),
                sx::a(len),
            ])
        }
        // (bigpolls "op" a_small (a limbs) b_small (b limbs)) -> ("ok" polls) | ("err" message)
        "bigpolls" => {
            let (Some(opn), Some(sa), Some(a), Some(sb), Some(b)) = (
                args.first().and_then(Sx::as_str),
                args.get(1).and_then(Sx::as_u64),
                args.get(2).and_then(Sx::as_u64s),
                args.get(3).and_then(Sx::as_u64),
                args.get(4).and_then(Sx::as_u64s),
            ) else {
                return Some(sx::bad());
            };
            match hook::biguint_polls(opn, sa != 0, &a, sb != 0, &b) {
                Ok(n) => sx::ok(sx::a(n)),
                Err(m) => sx::l(vec![sx::s("err"), sx::cps(&m)]),
            }
        }
        _ => return None,
    })
}

fn main() {
    fharness::serve(run);
}
