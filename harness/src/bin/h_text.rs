//! C18: JSON escaping, inline substitution, string literals
use fharness::sx::{self, Sx};
use fend_core::verif_hooks::InlineFendResultComponent as P;

fn part(p: &P) -> Sx {
    let k = match p { P::Unprocessed(_) => "u", P::FendOutput(_) => "o", P::FendError(_) => "e" };
    sx::l(vec![sx::s(k), sx::cps(p.get_contents())])
}

fn run(op: &str, args: &[Sx]) -> Option<Sx> {
    Some(match op {
        "json-escape" => {
            let Some(t) = args.first().and_then(Sx::as_cp_string) else { return Some(sx::bad()) };
            let mut out = String::new();
            fend_core::json::escape_string(&t, &mut out);
            sx::ok(sx::s(&out))
        }
        // (inline (cps)) -> ("ok" (parts...) "json")
        "inline" => {
            let Some(t) = args.first().and_then(Sx::as_cp_string) else { return Some(sx::bad()) };
            let mut ctx = fend_core::Context::new();
            let r = fend_core::substitute_inline_fend_expressions(&t, &mut ctx, &fharness::NeverInt);
            sx::l(vec![sx::s("ok"), sx::l(r.get_parts().iter().map(part).collect()), sx::s(&r.to_json())])
        }
        // (eval-seq (cps) (cps) ...) -> (("ok" (cps)) | ("err" (cps)) ...) on one fresh context
        "eval-seq" => {
            let mut ctx = fend_core::Context::new();
            let mut outs = vec![];
            for a in args {
                let Some(t) = a.as_cp_string() else { return Some(sx::bad()) };
                outs.push(match fend_core::evaluate_with_interrupt(&t, &mut ctx, &fharness::NeverInt) {
                    Ok(r) => sx::l(vec![sx::s("o"), sx::cps(r.get_main_result())]),
                    Err(m) => sx::l(vec![sx::s("e"), sx::cps(&m)]),
                });
            }
            sx::l(outs)
        }
        _ => return None,
    })
}

fn main() { fharness::serve(run); }
