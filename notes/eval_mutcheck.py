"""run a /verif check against the scratch copy of fend (mutation testing without touching /repo)
usage: mutcheck.py Cxx [seed]"""
import sys, os, importlib, shutil
sys.path.insert(0, '/verif/gen')
import vlib
S = '/root/scratch/wp-eval'
H = os.environ.get('HARNESS', 'harness')
T = os.environ.get('TARGET', 'target')
def build_impl(area, profile='debug', plain=False):
    env = dict(vlib.ENV, CARGO_TARGET_DIR=S + '/' + T)
    rc, out = vlib.sh(['cargo', 'build', '--offline', '--manifest-path', S + '/' + H + '/Cargo.toml', '--bin', 'h_' + area], timeout=1800, env=env)
    if rc != 0:
        raise RuntimeError(out[-3000:])
    return S + '/' + T + '/debug/h_' + area
vlib.build_impl = build_impl
out = S + '/out_' + T
shutil.rmtree(out, ignore_errors=True)
os.makedirs(out)
shutil.copytree('/verif/known_findings.d', out + '/known_findings.d')
for d in ('coq', 'tools', 'modelrun', '.cache'):
    os.symlink('/verif/' + d, out + '/' + d)
vlib.ROOT = out
prop = sys.argv[1].upper()
seed = int(sys.argv[2]) if len(sys.argv) > 2 else 1
mod = importlib.import_module(prop.lower())
c = vlib.Check(prop, 'quick', seed)
c.proof = lambda *a, **k: True      # proofs are not affected by a mutation of the Rust
try:
    mod.check(c)
except Exception as e:
    import traceback; traceback.print_exc()
    c.violation('check-infrastructure-failure', {'error': repr(e)}, no_input=True)
rc = c.finish()
for name, path, ni in c.violations[:6]:
    print('  ', name, open(path).read()[:400].replace('\n', ' '))
sys.exit(rc)
