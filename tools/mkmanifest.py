#!/usr/bin/env python3
"""Writes MANIFEST.json from the table below (single source of truth)."""
import json, os
ROOT = os.path.abspath(os.path.join(os.path.dirname(__file__), '..'))
props = [json.loads(l) for l in open(os.path.join(ROOT, 'properties.jsonl'))]

CLAIMED = {
 'C18': dict(
   text='Theorems for all Unicode strings (coq/Properties/C18.v): the JSON escaper never panics, emits printable ASCII, and an RFC 8259 decoder maps its output back to the input; inline substitution = raw cut of the input with each [[expr]] replaced by the evaluator result, concatenated sources = input, JSON form = one object per part whose contents decode to the part. The model is tied to core/src/json.rs and inline_substitutions.rs by differential execution on every run, and the decoder spec is applied to the implementation output itself.',
   note='Trusted: Coq kernel + vm_compute (65536-unit sweep), extraction + 40-line OCaml driver (cross-checked by vm_compute sample), Rust harness, hand model tied by correspondence only; evaluator is an oracle. String-literal escapes are covered by correspondence only so far.',
   technique='Coq proof (induction + finite kernel sweep) + differential model/implementation correspondence',
   ref='DESIGN.md §8 C18'),

 'C06': dict(
   text='Partial by nature. Proved (coq/Properties/C06.v): panic-freedom of the modelled functions reachable from evaluate/preview/inline (JSON escaper and inline JSON for all Unicode text, superscript-exponent accumulation for digit strings of any length in checked and unchecked builds, the i^y selector); the other areas add their own no-panic theorems in their property files. Observed, not proved: everything else, by crash probes on the default build (feature off) in debug (overflow checks) and release profiles over 48 context configurations: suite+manual corpus read from /repo, mutations, token soup, every typed prefix, bounded nesting ramps. Native stack exhaustion is reachable (two open known findings).',
   note='Trusted: Coq kernel; extraction+driver; harness_plain; 8 MiB stack / 4 GiB address-space limits of the probe workers. Hangs and >=128 MiB allocation failures are counted as resource exhaustion (C07), not crashes. Models tied by correspondence (superscripts vs evaluate).',
   technique='Coq panic-freedom theorems for modelled functions + differential crash probing of the real library',
   ref='DESIGN.md §8 C06'),
}

NA_REASON = 'not yet built in this revision of /verif (planned: DESIGN.md §8); no check is claimed until its model, theorems and correspondence run exist'

checks = []
na = []
for p in props:
    i = p['id']
    if i in CLAIMED:
        c = CLAIMED[i]
        checks.append({
            'property_id': i,
            'quick_cmd': 'bin/vcheck %s --tier quick' % i,
            'thorough_cmd': 'bin/vcheck %s --tier thorough' % i,
            'evidence_file': 'evidence/%s.json' % i,
            'replay_cmd_template': 'bin/vcheck %s --replay {path}' % i,
            'engine': 'coq+correspondence',
            'level_claimed': {'category': 'proof', 'text': c['text'], 'design_ref': c['ref']},
            'level_note': c['note'],
            'technique': c['technique'],
        })
    else:
        na.append({'property_id': i, 'reason': NA_REASON})

m = {
 'version': 1,
 'setup_cmd': 'tools/setup.sh',
 'hooks': {
   'guard': 'cargo feature verif-hooks (fend-core; forwarded by fend)',
   'enable': 'harness/Cargo.toml depends on fend-core with features=["verif-hooks"]; cli built with --features verif-hooks',
   'baseline_off_cmd': 'cd /repo && cargo test --workspace --no-fail-fast --offline',
   'source_commits': [l.strip() for l in os.popen('git -C /repo log --format=%H --grep="^verif:"').read().split()],
   'add_only': True,
 },
 'engines': [{'name': 'coq+correspondence', 'path': 'bin/vcheck', 'serves_properties': [c['property_id'] for c in checks],
              'kind_free_text': 'Coq 8.16 development (coq/), extracted executable model (modelrun/), Rust harness over /repo working tree (harness/), Python driver (gen/)'}],
 'checks': checks,
 'not_applicable': na,
 'notes': 'See DESIGN.md. Known findings: known_findings.json.',
}
json.dump(m, open(os.path.join(ROOT, 'MANIFEST.json'), 'w'), indent=1)
# merge the per-property fragments into the single committed known-findings file
frag_dir = os.path.join(ROOT, 'known_findings.d')
allf = []
for fn in sorted(os.listdir(frag_dir)) if os.path.isdir(frag_dir) else []:
    if fn.endswith('.json'):
        allf += json.load(open(os.path.join(frag_dir, fn)))
json.dump({'comment': 'Genuine defects of printfn/fend found by the checks in /verif (merged from known_findings.d/*.json by tools/mkmanifest.py). status=open: the check prints a KNOWN-FINDING line for it and does not fail; status=fixed: repaired by the named fix: commit in /repo, suppresses nothing. Never written at run time.',
           'findings': allf}, open(os.path.join(ROOT, 'known_findings.json'), 'w'), indent=1, ensure_ascii=False)
print('claimed:', [c['property_id'] for c in checks])
