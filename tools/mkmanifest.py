#!/usr/bin/env python3
"""Writes MANIFEST.json from the table below (single source of truth)."""
import json, os
ROOT = os.path.abspath(os.path.join(os.path.dirname(__file__), '..'))
props = [json.loads(l) for l in open(os.path.join(ROOT, 'properties.jsonl'))]

CLAIMED = {
 'C18': dict(
   text='Theorems for all Unicode strings (coq/Properties/C18.v): the JSON escaper never panics, emits printable ASCII, and an RFC 8259 decoder maps its output back to the input; inline substitution = raw cut of the input with each [[expr]] replaced by the evaluator result, concatenated sources = input, JSON form = one object per part whose contents decode to the part. The model is tied to core/src/json.rs and inline_substitutions.rs by differential execution on every run, and the decoder spec is applied to the implementation output itself.',
   note='Trusted: Coq kernel + vm_compute (65536-unit sweep), extraction + 40-line OCaml driver (cross-checked by vm_compute sample), Rust harness, hand model tied by correspondence only; evaluator is an oracle. String-literal escapes are covered by correspondence only so far.',
   technique='Coq proof (induction + finite kernel sweep) + differential model/implementation correspondence',
   ref='DESIGN.md §8 C18'),

 'C08': dict(
   text='Full-strength theorems over all ASTs of the documented operator class (coq/Properties/C08.v, 11 theorems, no axioms): the Gallina mirror of parser.rs (39-constructor call enum, one per Rust function and loop, fuel = call depth, proved sufficient: C08_parser_terminates) parses the minimal-parenthesis printing of ANY table AST to exactly that AST with Parens nodes where the printer wrote them (C08_level_complete for all 16 levels, C08_parse_print_min(_completed)), hence value(min) = value(full) for any evaluator ignoring Parens (C08_precedence) and redundant parentheses are harmless (C08_redundant_parens). Tie: the model parser consumes the REAL lexer token stream (hook) and must return the real parser AST / ParseError on table ASTs (all 144 operator pairs + random trees to depth 6/9), a heuristics corpus and token soup; evaluate(min) = evaluate(full) = independent Python precedence-climbing reference.',
   note='Trusted: Coq kernel; extraction+driver (vm_compute cross-sample); hook lex_parse dump; lexer itself is not modelled (theorems start at token streams; that printed text lexes to the printer tokens is checked per case). Outside the table class (mixed fractions, implicit sums, to, lambdas, of) correspondence only.',
   technique='Coq proof by structural induction on ASTs over a faithful recursive-descent parser model + token-level differential correspondence',
   ref='DESIGN.md §8 C08, notes/C08.md'),
 'C16': dict(
   text='34 theorems over unbounded Z for every representable (non-zero i32) year, BC included, by induction and lia, no sweeps (coq/Properties/C16.v): rata-die day number is a bijection with the valid dates; next/prev change it by exactly 1, preserve validity and only fail with an error at the ends of the i32 range; add/sub n days round-trip; the code weekday formula = rd mod 7 (consecutive days, anchored 1970-01-01 = Thursday; unreachable!() is dead); weeks/months/years land on the calendar-correct date or report non-existence with the right neighbours; a literal is accepted iff 1000 <= Y <= i32::MAX, no leading zero, and (Y,M,D) is a real Gregorian date. The model mirrors date.rs after four fix: commits that this check motivated. Tie: L1 hook on raw dates + L2 evaluate of every operation the property names against model and rd-based spec (132k cases quick; every day of 999-10001 thorough).',
   note='Trusted: Coq kernel; extraction+driver; hook (Date via existing (de)serialize). The numeric operand of +/- (unit matching, try_as_usize_unit) is outside the model. Adding months is tied at L1 only.',
   technique='Coq proof over Z (closed-form day number, induction, lia) + differential correspondence',
   ref='DESIGN.md §8 C16, notes/C16.md'),
 'C17': dict(
   text='21 theorems for all N, M and all arithmetic combinations, by induction (coq/Properties/C17.v, no axioms): new_die gives count_tuples/M^N for every outcome, bop is the independent-rolls convolution with merged distinct outcomes, eval agrees with the naive unmerged denotation on every probability and on the support, probabilities sum to 1 and are positive, listing strictly increasing, mean = exact expectation (N(M+1)/2 for NdM), two-decimal percentage within half a unit of the exact value, sample always returns a member of the support and, under the stated weight oracle (premise, not axiom), every non-negligible outcome is produced by some r (explicit witness). Tie: L1 exact parts (hook decodes the Dist from the existing serializer) and sampling under a harness-controlled random source at 0, 2^32-1, a grid and every cumulative threshold +-1; L2 printed distribution, mean, roll; spec also as independent Python Fraction convolution.',
   note='Trusted: Coq kernel; extraction+driver; hook; f64 conversion of probabilities and {:.2} float formatting are oracles (either neighbour accepted within 5e-13 of a rounding tie). Interrupts, the exact flag and terminal bars are outside the model.',
   technique='Coq proof by induction over dice expressions in Q + differential correspondence with exact parts',
   ref='DESIGN.md §8 C17, notes/C17.md'),
 'C19': dict(
   text='Partial by nature. Proved (coq/Properties/C19.v, 14 theorems, no axioms) for all argument lists, all core behaviours and all TOML value trees: the argument fold of args.rs (positional joined by one space, -e/-f/--, file precedence, help > version > default-config > repl/eval), eval_exprs prints exactly the core result of the last expression (trailing-newline flag honoured), stops at the first error with exit 1 and "Error: …" on stderr, exit 0 iff all succeed, variables carry over, stdin mode = one expression; the config visitors are total, malformed config gives the default, unknown keys are ignored and listed. Oracles (premises, not axioms): process/stdio, file system, fend_core, the toml crate, terminal detection. Tie: the built fend binary (from /repo, feature on) on random argument lists, stdin mode, generated and mutated TOML configs vs the model fed with in-process fend_core results; three defects found here were repaired by fix: commits and their witnesses stay in the corpus.',
   note='Trusted: Coq kernel; extraction+driver; h_cli harness and the --verif-hook ops; colours and the REPL are not modelled (colours only through strip-the-escapes comparison and two fixed-witness checks).',
   technique='Coq proof of the CLI decision logic over oracles + differential execution of the real binary',
   ref='DESIGN.md §8 C19, notes/C19.md'),
 'C20': dict(
   text='Theorems for ALL byte strings (coq/Properties/C20.v, 16 theorems, no axioms): the repaired EU parser and the UN parser never panic (every split_at / slice / find site explicit; UN under the UTF-8 premise proved from validity), cache framing and expiry are total, every returned (currency, rate-token) occurs verbatim in the file, and a prefix of a file never yields a rate the intact file did not contain (EU needs >= 10 entries; UN only the exact trailer); the original EU parser is refuted with a computed witness (the defect repaired by fix 348454e). f64 parsing of the rate token is an oracle whose one used fact (empty token is not a normal number) is checked against the real parser on every run. Tie: every prefix and every single-character substitution of representative EU and UN cache files through the parser hook (parsed list vs model) and through the real binary doing a conversion with FEND_CACHE_DIR (stdout/stderr/exit vs model prediction).',
   note='Trusted: Coq kernel; extraction+driver; --verif-hook rates op (includes exchange_rates.rs into a private module); no network in the sandbox (cache miss = DNS error, exit 1); system clock for freshness (edits near the expiry boundary are skipped and counted).',
   technique='Coq proof over byte strings (explicit panic sites, prefix monotonicity) + differential execution of hook and binary on all truncations',
   ref='DESIGN.md §8 C20, notes/C20.md'),
 'C07': dict(
   text='Partial by nature (wall-clock is the runtime\'s). Proved (coq/Properties/C07.v, 29 theorems, no axioms): a tick/poll cost model written from the loop structure of every long-running function gives gap bounds polynomial in operand SIZE for the polled loops (mul, divmod, pow, factorial, fibonacci, one-bit shifts, new_die, and -- after fix commits 30274a2, a55ff29, f8353e2 that this check motivated -- the date step loops, the lshift_n insert loop and Dist::bop) and minimal poll counts; the loops as they were are kept as *_old skeletons with gap_unbounded refutations; the exponential juxtaposition parse is refuted and stays an open known finding. Statement-level machine for the evaluator under an interrupt firing at its k-th poll: the outcome is Interrupted or the uninterrupted result (C07_interrupt_or_same), work after the firing poll is bounded (C07_interrupt_prompt), the variables afterwards are a prefix of the uninterrupted run\'s writes, `_`/`ans` move together and only once the value exists (C07_interrupt_state, _ans_unchanged), preview leaves no trace. Tie: FireAt k for every k on short runs and sampled k on long ones (outcome and context afterwards in the model\'s reachable set), per-operation poll counts never below the model\'s minimum (removing a poll is an alarm, adding one is not), witnesses of the repaired loops replayed.',
   note='Trusted: Coq kernel; extraction+driver; h_eval harness with a counting/firing Interrupt; cost skeletons are tied to the code only through poll counts and replays; wall-clock is recorded, never a verdict.',
   technique='Coq proof over a poll/cost skeleton and an interrupt state machine + differential firing-point sweeps',
   ref='DESIGN.md §8 C07, notes/C07.md'),
 'C09': dict(
   text='Proved for the core calculus (coq/Properties/C09.v, 17 theorems, no axioms): scope lookup is innermost-first, closures keep the parameter bindings they were created with (lexical), beta in environment form and in capture-avoiding substitution form (general, via a closing/lockstep theorem: configurations with the same closed form evaluate alike, also under an interrupt), scope irrelevance for closed terms, user variables shadow built-in names with the one syntactic exception `a b` = unit a_b stated and proved (it is also an open known finding against the property text), `_`/`ans` = last successful result, unchanged on failure, completed assignments survive a later failure. Numeric primitives are abstract (Section parameters), instantiated with integers for the tie. Not proved: let-substitution for assigned names (call-by-value variable vs re-evaluated text needs an existential-fuel simulation) -- tested only. Tie: random programs (assignments, \\x. / x: / x => lambdas, curried, higher-order, shadowing, failures) paired with their substituted / beta-reduced forms through evaluate on fresh contexts, `_`/`ans` probed after each step, model vs implementation on values and error kinds.',
   note='Trusted: Coq kernel; extraction+driver; h_eval harness; hooks (per-variable snapshot, AST dump). Context variables are late-bound by design: theorems are stated with that split.',
   technique='Coq proof (logical relations, closing/lockstep) over a call-by-name lambda calculus model + differential program pairs',
   ref='DESIGN.md §8 C09, notes/C09.md'),
 'C13': dict(
   text='Partial by nature (the weight is on the tie). Proved (coq/Properties/C13.v, 9 theorems, no axioms) for EVERY evaluator (an arbitrary effect program: may assign, draw random numbers, request rates, fail, be interrupted at any poll): preview returns the context unchanged unless the evaluator panics (C13_preview_ctx_unchanged_except_known with the panicking-evaluator refutation as a model fact: the restore depends on C06 panic-freedom), the random source and the rate handler are unreachable during a preview, the output is empty or a single line (no C0/C1 control, DEL, U+2028/2029 -- filter repaired by fix eacb46c, old filter refuted), at most 50 bytes, not unit-typed, not an echo of the input. Tie: a corpus of inputs (valid, invalid, assignments, random expressions, currency conversions, long and multi-line outputs) and every prefix of each, on contexts with variables and counting rng / rate callbacks, with FireAt k for all small k: before/after = per-variable serialized image + settings + handler identity + callback counters.',
   note='Trusted: Coq kernel; extraction+driver; h_eval harness and the eval hooks (snapshots). The evaluator is an oracle.',
   technique='Coq proof parametric in the evaluator + differential before/after snapshots of the real context',
   ref='DESIGN.md §8 C13, notes/C13.md'),
 'C01': dict(
   text='Full strength, 19 theorems, no axioms (coq/Properties/C01.v), for limb vectors of ARBITRARY length incl. non-canonical ones (leading zero limbs): the limb-level mirror of biguint.rs satisfies add/sub/mul/cmp/lshift/rshift/divmod (binary long division, all early exits)/gcd (fuel proved sufficient)/pow = arithmetic on N (sub panics iff the result would be negative, and the rational layer never calls it so); bigrat.rs add/mul/div/neg/simplify/cmp/pow = arithmetic in Q; expression level C01_exact: for every expression of the property fragment (literals, + - * /, unary minus, integer powers of rationals, complex field operations, real/imag/conjugate) the model result is flagged exact and equals the value computed in Q[i], and the only errors are division by zero, 0^0 and an exponent beyond machine range, each only when the expression contains such a node. Three arithmetic defects were found by failing proofs on the faithful model (lost carry in BigUint::add, leading-zero exponents, unreduced integer exponents) and repaired by fix: commits; the old code is kept as *_old with refutation witnesses. Tie: L1 every BigUint/BigRat operation on raw limb vectors through hooks (value AND representation), L2 random expression trees through evaluate compared at representation level via @debug, against the model and against independent Python Fraction arithmetic; debug and release profiles.',
   note='Trusted: Coq kernel; extraction+driver; hooks verif_hooks/num.rs. Interrupts not modelled. Outside the fragment (pi patterns, units, roots, complex powers) the model answers COutside.',
   technique='Coq proof by induction over limb vectors / expressions against N and Q + representation-level differential correspondence',
   ref='DESIGN.md §8 C01, notes/C01.md'),
 'C02': dict(
   text='Full strength incl. the canonical-form stretch item, 10 theorems, no axioms (coq/Properties/C02.v): lexing the rendering of any structured literal (bases 2..36 and prefix forms, digit separators under both styles, fraction, recurring digits, exponent) yields exactly the value the notation defines; integer printing (u128 grouped divisor = base^rounds, maximal) yields the canonical digits of n in every base; terminates_in_base is exact; the printed integer part + non-recurring + recurring digits denote |x| (geometric series) and the pre-period is the least and the period divides every period (Brent, for any fuel on which the run returns Ok); fraction and mixed-fraction layouts denote x; every exact rendering read back gives the same value (C02_roundtrip) and switching the separator style only swaps . and , (C02_sep_swap). Tie: L1 format/lex hooks and L2 `X to base B to float|fraction|mixed_fraction|exact` re-evaluated, vs model and an independent Python reference renderer; thorough: every p/q with q <= 64 x bases 2..36 x 5 styles x both separators.',
   note='Trusted: Coq kernel; extraction+driver; hooks verif_hooks/fmt.rs (values via existing (de)serializers). Fuel sufficiency of Brent is not proved (out-of-fuel would surface in the tie). Dice literals and superscripts are outside this model (C17, C06).',
   technique='Coq proof (induction, geometric-series identity, Brent minimality) + differential correspondence with exact reference',
   ref='DESIGN.md §8 C02, notes/C02.md'),
 'C03': dict(
   text='18 theorems, no axioms (coq/Properties/C03.v): text shown without approx. reads back to the exact value for every style (C03_marker); n dp output is floor(|x| b^n)/b^n and flagged exact iff nothing was dropped; n sf on integers likewise; integer n-th root r^n <= x < (r+1)^n with exact flag iff perfect power; rational roots/powers exact iff a rational root exists, otherwise result and true root lie in an interval of relative width 2^-48 < 1e-12; the exact flag of any expression over exact/approximate leaves is false as soon as an approximate leaf is used (C03_flag_monotone, full strength since fix 198ba44; the old zero short-cut refuted with witness 1 + (sqrt 2 - sqrt 2)). Partial: the cut position of `n sf` on non-integers is covered by correspondence only (n = 0..60). A second marker defect (pi*pi unit scale) was found by the tie and repaired (4dad8b2). Tie: L1 hooks and L2 to N dp / N sf / roots / mixed exact-approximate expressions vs model and Python Fraction reference.',
   note='Trusted: Coq kernel; extraction+driver; hooks. Units layer flags are checked by probes, not modelled here (see C04/C05).',
   technique='Coq proof + differential correspondence with exact truncation/root oracles',
   ref='DESIGN.md §8 C03, notes/C03.md'),
 'C04': dict(
   text='12 theorems, no axioms (coq/Properties/C04.v). General, for ALL rational magnitudes and all unit lists (pi a formal symbol): conversion is multiplication by a ratio independent of x (C04_convert_formula/_ratio), converting back returns x exactly incl. the affine temperature case (C04_convert_inverse), going through an intermediate unit equals converting directly (C04_convert_transitive), scaling commutes (C04_convert_linear), sums use scale only. Finite, over the unit table regenerated from /repo on every run by the tree\'s own resolver and proved by kernel computation: all scales non-zero, temperature fixed points, and 289 defining-standard factors (inch = 2.54 cm, lb = 0.45359237 kg, ...; a table edit that breaks one names the entry). Tie: L2 `@noapprox (x A to B) to fraction`, round trips, (1 A)/(1 B) on sampled pairs/triples per dimension class (thorough: all ordered pairs per class, 570k evaluations) vs exact arithmetic on the resolved records.',
   note='Trusted: Coq kernel + vm_compute (finite obligations); tools/gen_tables.py translator and the units hook (raw tables verbatim; resolved records); Value::simplify is not modelled; laws carry the hypothesis "result flagged exact" (proved for rational scales).',
   technique='Coq proof (general laws) + kernel computation over a translator-generated table + differential correspondence',
   ref='DESIGN.md §8 C04, notes/C04.md'),
 'C10': dict(
   text='36 theorems, no axioms (coq/Properties/C10.v), unbounded: factorial, fibonacci, nCr, nPr, mod = the mathematical functions for any representation of the naturals involved; bitwise and/or/xor = N.land/lor/lxor for limb lists of any lengths incl. leading zeros; shifts = N.shiftl/shiftr for every accepted count; try_as_usize accepts exactly the values below 2^64 whatever the representation (after fix 2c2d128); floor/ceil/round = the exact mathematical rounding for EVERY rational (after fix 7d3085c replaced the f64 route; the old route is refuted: every value >= 2^64+1 came back wrong); domain errors for negative, fractional, non-real arguments incl. nPr (fix 07532bc); number -> English words is inverted by an independent reader for n < 10^66 and errors beyond; roman numerals have value n and greedy canonical form for 1..10^9; char/codepoint round trip on scalars. Tie: L1 raw-limb hooks, L2 evaluate vs Python int/Fraction and the Coq spec (thorough: every Unicode scalar, all 0<=r<=n<=400, 2.6M evaluations).',
   note='Trusted: Coq kernel; extraction+driver; hooks. Not modelled: Real::approximate for pi-multiples in floor etc. (L2 only), the decimal formatter inside to_words.',
   technique='Coq proof against N/Z/binomial specs (bit-level via N.testbit) + differential correspondence',
   ref='DESIGN.md §8 C10, notes/C10.md'),
 'C11': dict(
   text='16 theorems, no axioms (coq/Properties/C11.v). Finite theorems are exhaustive kernel computations (vm_compute + forallb_forall) over the unit table regenerated from /repo on every run: every one of the ~960 names resolves and the model lookup reproduces the tree\'s resolved value for each; singular = plural; short = long spellings; sqX = X2 = X^2 and cbX = X3 = X^3 (after fix commits e3398ae, d57dc01 for the dm family and gal/dyne, found here); prefix legality for all 76 x 960 prefix-name pairs (a prefixed name resolves iff the rule allows); no-prefix units reject prefixes; prefixable definitions reachable except the listed T/link (open finding). General lemmas: lookup is deterministic and selects the first definition, custom units take precedence and follow the same rules. Four open findings are listed (shadowed prefixable definitions, custom long prefixes unusable, cyclic custom unit aborts, `as` parsed as a keyword). Tie: the table is the tie (translator) plus L2 `1 <name>`, `(1 a) == (1 b)`, `1 <prefix><name> to <name>`, case variants, every custom-unit attribute kind.',
   note='Trusted: Coq kernel + vm_compute; tools/gen_tables.py and the units hook (the hook_needed accessor of the property); deterministic fake exchange rates for currency units.',
   technique='kernel computation over a translator-generated table (exhaustive) + general lookup lemmas + differential correspondence',
   ref='DESIGN.md §8 C11, notes/C11.md'),
 'C05': dict(
   text='15 theorems, no axioms (coq/Properties/C05.v). For ALL values and unit lists: the base-unit exponent map of a unit expression is the sum of exponent x base decomposition with cancelled entries removed and distinct keys (C05_hashmap_is_sum, _keys_distinct); mul/div/pow combine dimension exponents additively (C05_mul_dim, _div_dim, _pow_dim); add/sub/convert succeed only for equal dimensions (after renaming celsius/fahrenheit to kelvin by MERGING exponents -- fix 1210896, found here: the old insert overwrote an existing kelvin exponent; old code refuted with witness (1 celsius kelvin) + (1 kelvin)) or an exact zero, otherwise the Incompatible error (C05_add_needs_same_dim, _add_incompatible_is_error, _convert_needs_same_dim); functions needing pure numbers reject dimensioned arguments (C05_unitless_required); and for whole expression trees over any resolver: a result has exactly the dimension physics assigns (independent typing HasDim from base decompositions) and an ill-dimensioned tree is an error (C05_sound, C05_ill_dimensioned_is_error, full strength). Finite: dimensions of all table names by kernel computation over the regenerated table. Tie: L1 evaluate_to_value hook and L2 evaluate on random unit-expression trees (depth <= 5) over the whole table: numeric result vs incompatible error vs the physics typing; hash-order-sensitive probes repeated.',
   note='Trusted: Coq kernel + vm_compute; translator and units hook; exponents are rationals in the model (complex/irrational exponents outside it, skipped and counted).',
   technique='Coq proof over unit-expression trees against an independent dimension typing + differential correspondence',
   ref='DESIGN.md §8 C05, notes/C05.md'),
 'C15': dict(
   text='Partial by nature (libm is an oracle). 51 theorems (coq/Properties/C15.v). Full strength for every libm: sin/cos at ALL multiples of pi/6 and pi/2 of any size and sign are the true values and unmarked (C15_sin_special, C15_cos_special, via Coq Reals; the 2^64 cut-off of the original code refuted and repaired by fix 06c1b45), a result flagged exact is the true value, the only unmarked bridge results are sin 0, ln 1, exp 0; x^0 = exact 1 (fix d3c0150), x^1, 1^x; the rational fend uses for pi is within 1e-23 of PI and e within 1e-18 (interval); angle units convert exactly (pi pattern); the f64 bridge: from_f64 is within 2^-64 below 2^64, exact above, an error on non-finite values (fix d752faf; the saturating cast of the original refuted: sinh 46 = 2^64), soft-float rounding within 2^-53, into_f64 within 2^-50 for one-limb operands; integer and rational root bisection brackets. Conditional (premise on libm at the consulted point, never an axiom): the 1e-9 accuracy bound for sin, cos, atan. Refuted in general and listed as open findings: accuracy next to singular points (acos(1-1e-17)), irrational exponents unsupported. Tie: L1 bit/limb-exact against hooks with the platform libm answering the model\'s queries; L2 digits of f(x) to 15 dp for 16 functions compared with per-point Coq lemmas certified by interval (about 750 per quick run; certified test oracles, not the universal theorem), special points to 100 pi, domain edges, angle units.',
   note='Axioms (standard library only, allow-listed by name for C15 alone): ClassicalDedekindReals.sig_not_dec, sig_forall_dec, FunctionalExtensionality.functional_extensionality_dep, Classical_Prop.classic, and the PrimInt63 / Uint63 primitives and their specification axioms used by the interval tactic. Trusted: Coq kernel, Coquelicot, Interval, Flocq; libm; extraction of the rational part only (nothing mentioning R is extracted).',
   technique='Coq proof over Reals (special points, constants by interval arithmetic) + soft-float bridge model + per-point certified oracles',
   ref='DESIGN.md §8 C15, notes/C15.md'),
 'C06': dict(
   text='Partial by nature. Proved (coq/Properties/C06.v): panic-freedom of the modelled functions reachable from evaluate/preview/inline (JSON escaper and inline JSON for all Unicode text, superscript-exponent accumulation for digit strings of any length in checked and unchecked builds, the i^y selector); the other areas add their own no-panic theorems in their property files. Observed, not proved: everything else, by crash probes on the default build (feature off) in debug (overflow checks) and release profiles over 48 context configurations: suite+manual corpus read from /repo, mutations, token soup, every typed prefix, bounded nesting ramps. Native stack exhaustion is reachable (two open known findings).',
   note='Trusted: Coq kernel; extraction+driver; harness_plain; 8 MiB stack / 4 GiB address-space limits of the probe workers. Hangs and >=128 MiB allocation failures are counted as resource exhaustion (C07), not crashes. Models tied by correspondence (superscripts vs evaluate).',
   technique='Coq panic-freedom theorems for modelled functions + differential crash probing of the real library',
   ref='DESIGN.md §8 C06'),
}

NA_REASON = 'not yet built in this revision of /verif (planned: DESIGN.md §8); no check is claimed until its model, theorems and correspondence run exist'

checks = []
na = []
for p in props:
    i = p['id']
    if i in CLAIMED:
        c = CLAIMED[i]
        checks.append({
            'property_id': i,
            'quick_cmd': 'bin/vcheck %s --tier quick' % i,
            'thorough_cmd': 'bin/vcheck %s --tier thorough' % i,
            'evidence_file': 'evidence/%s.json' % i,
            'replay_cmd_template': 'bin/vcheck %s --replay {path}' % i,
            'engine': 'coq+correspondence',
            'level_claimed': {'category': 'proof', 'text': c['text'], 'design_ref': c['ref']},
            'level_note': c['note'],
            'technique': c['technique'],
        })
    else:
        na.append({'property_id': i, 'reason': NA_REASON})

m = {
 'version': 1,
 'setup_cmd': 'tools/setup.sh',
 'hooks': {
   'guard': 'cargo feature verif-hooks (fend-core; forwarded by fend)',
   'enable': 'harness/Cargo.toml depends on fend-core with features=["verif-hooks"]; cli built with --features verif-hooks',
   'baseline_off_cmd': 'cd /repo && cargo test --workspace --no-fail-fast --offline',
   'source_commits': [l.strip() for l in os.popen('git -C /repo log --format=%H --grep="^verif:"').read().split()],
   'add_only': True,
 },
 'engines': [{'name': 'coq+correspondence', 'path': 'bin/vcheck', 'serves_properties': [c['property_id'] for c in checks],
              'kind_free_text': 'Coq 8.16 development (coq/), extracted executable model (modelrun/), Rust harness over /repo working tree (harness/), Python driver (gen/)'}],
 'checks': checks,
 'not_applicable': na,
 'notes': 'See DESIGN.md. Known findings: known_findings.json.',
}
json.dump(m, open(os.path.join(ROOT, 'MANIFEST.json'), 'w'), indent=1)
# merge the per-property fragments into the single committed known-findings file
frag_dir = os.path.join(ROOT, 'known_findings.d')
allf = []
for fn in sorted(os.listdir(frag_dir)) if os.path.isdir(frag_dir) else []:
    if fn.endswith('.json'):
        allf += json.load(open(os.path.join(frag_dir, fn)))
json.dump({'comment': 'Genuine defects of printfn/fend found by the checks in /verif (merged from known_findings.d/*.json by tools/mkmanifest.py). status=open: the check prints a KNOWN-FINDING line for it and does not fail; status=fixed: repaired by the named fix: commit in /repo, suppresses nothing. Never written at run time.',
           'findings': allf}, open(os.path.join(ROOT, 'known_findings.json'), 'w'), indent=1, ensure_ascii=False)
print('claimed:', [c['property_id'] for c in checks])
