#!/bin/sh
# runs every registered quick check once (seed from VERIF_SEED, default 1); prints one line per property
cd "$(dirname "$0")/.."
for p in C01 C02 C03 C04 C05 C06 C07 C08 C09 C10 C11 C12 C13 C14 C15 C16 C17 C18 C19 C20; do
  timeout 3000 bin/vcheck $p 2>&1 | grep -E "^(PASS|FAIL|VIOLATION)" | tail -3
done
