#!/bin/sh
# usage: try_mutants.sh <Cxx> <worktree> -- applies out/m*/patch.diff in turn in the
# scratch worktree and runs the check against it (VERIF_REPO); prints the verdicts
prop="$1"; wt="$2"
cd "$wt" || exit 2
for d in out/m*; do
  git apply "$d/patch.diff" || { echo "$d: does not apply"; continue; }
  echo "== $d"
  (cd /verif && VERIF_REPO="$wt" timeout 1500 bin/vcheck "$prop" 2>&1 | grep -v KNOWN | tail -2)
  git apply -R "$d/patch.diff"
done
