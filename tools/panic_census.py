#!/usr/bin/env python3
"""Panic-site census for C06 (no input can crash fend).

Scans core/src/**/*.rs and cli/src/**/*.rs of the repository under test
(vlib.REPO) for *potential* panic sites and compares them with the reviewed
mapping tools/panic_sites.json, which says for every site whether its
deadness is a theorem (and which one) or only observed by the crash probes.

    python3 tools/panic_census.py            totals + unreviewed/stale notes
    python3 tools/panic_census.py --list     every site found on the tree
    python3 tools/panic_census.py --md       regenerate the generated block (between the census markers) of notes/PANIC_SITES.md
    python3 tools/panic_census.py --json     summary() as JSON
    python3 tools/panic_census.py --skeleton mapping skeleton for new sites (stdout)

From gen/c06.py (one line):
    import sys, vlib; sys.path.insert(0, vlib.ROOT + '/tools'); import panic_census; panic_census.attach(c)
(attach(c) = c.extra['panic_census'] = summary() + prints note_lines(); informational, never a violation)

What is a site (kind):
  unwrap expect unreachable panic assert unimplemented todo
  split_at            str/slice split_at / split_at_mut
  remove              .remove(i) / .swap_remove(i)   (Vec/String index; map removals are listed too and reviewed away)
  index               x[i]      (slice / Vec / array / str / map indexing)
  slice               x[a..b]   (range indexing; a bare x[..] cannot panic and is not listed)
  stdcall             a few std calls that panic on a bad argument: to_digit/from_digit/from_str_radix with a
                      non-literal radix, RefCell borrow_mut, copy_from_slice, drain, split_off, Vec::insert(0, ..),
                      with_capacity / reserve with a non-literal size (capacity overflow), ilog2/ilog10/ilog (zero)
  arith               (date/*.rs, date.rs and lexer.rs only) + - * on machine integers; debug builds panic on
                      overflow.  Cheap lexical flagging.
  divrem              (every file) / and % with a non-literal divisor on non-float operands: division by zero
Not sites: debug_assert*, `as` casts, `?`, arithmetic elsewhere (the bignum limb code uses explicit
wrapping/overflowing operations or u128 accumulators; it is the subject of C01's model, not of this census).

Excluded text: comments, string literals, items under #[cfg(test)] (and `mod tests`/`mod test` blocks), items under
#[cfg(feature = "verif-hooks")], and the verif_hooks files.

Key of a site = (file, fn, kind, ord, text):
  fn    qualified name of the innermost enclosing `fn` (closures belong to their fn): `impl-header::name`, nested
        fns joined with `::`; `<top>` outside any fn.
  text  the source line with comments removed and whitespace collapsed.
  ord   0-based ordinal among the sites of the same (file, fn, kind, text) -- it only disambiguates repeated
        identical lines / several sites on one line.  No line numbers: edits elsewhere in the file, and even in
        the same function, do not shift keys.  (`line` is stored for the reader and refreshed by --md; it is not
        part of the key.)
Python stdlib only."""
import json, os, re, sys

sys.path.insert(0, os.path.join(os.path.dirname(os.path.abspath(__file__)), '..', 'gen'))
try:
    import vlib
    REPO = vlib.REPO
    ROOT = vlib.ROOT
except Exception:                       # stand-alone use outside the framework
    REPO = os.environ.get('VERIF_REPO', '/repo').rstrip('/')
    ROOT = os.path.abspath(os.path.join(os.path.dirname(os.path.abspath(__file__)), '..'))

MAPPING = os.path.join(ROOT, 'tools', 'panic_sites.json')
NOTES = os.path.join(ROOT, 'notes', 'PANIC_SITES.md')
STATUSES = ('proved-dead', 'proved-error-not-panic', 'probe-only', 'cfg-or-unreachable-by-construction')
SCAN_DIRS = ('core/src', 'cli/src')
ARITH_FILES = re.compile(r'^core/src/(lexer\.rs|date\.rs|date/[a-z_]+\.rs)$')

# ----------------------------------------------------------------------------
# lexical masking: comments and the contents of string/char literals -> spaces

def mask_source(src):
    """Returns (code, nocomment): `code` has comments and literal contents blanked
    (same length, newlines kept); `nocomment` has only comments blanked."""
    n = len(src)
    code = list(src)
    noc = list(src)
    i = 0

    def blank(a, b, both):
        for k in range(a, b):
            if src[k] != '\n':
                code[k] = ' '
                if both:
                    noc[k] = ' '
    while i < n:
        ch = src[i]
        nx = src[i + 1] if i + 1 < n else ''
        if ch == '/' and nx == '/':
            j = src.find('\n', i)
            j = n if j < 0 else j
            blank(i, j, True)
            i = j
        elif ch == '/' and nx == '*':
            depth, j = 1, i + 2
            while j < n and depth:
                if src.startswith('/*', j):
                    depth += 1; j += 2
                elif src.startswith('*/', j):
                    depth -= 1; j += 2
                else:
                    j += 1
            blank(i, j, True)
            i = j
        elif ch == '"' or (ch in 'rb' and re.match(r'(?:b?r#*"|b")', src[i:i + 12]) and not (i and (src[i - 1].isalnum() or src[i - 1] == '_'))):
            m = re.match(r'b?r(#*)"', src[i:i + 12])
            if m:                                        # raw string
                close = '"' + m.group(1)
                start = i + m.end()
                j = src.find(close, start)
                j = n if j < 0 else j
                blank(start, j, False)
                i = j + len(close)
            else:
                start = src.index('"', i) + 1
                j = start
                while j < n and src[j] != '"':
                    j += 2 if src[j] == '\\' else 1
                blank(start, j, False)
                i = j + 1
        elif ch == "'":
            # char literal or lifetime
            m = re.match(r"'(?:\\(?:x[0-9a-fA-F]{2}|u\{[0-9a-fA-F_]+\}|.)|[^\\'\n])'", src[i:i + 14])
            if m:
                blank(i + 1, i + m.end() - 1, False)
                i += m.end()
            else:
                i += 1
        else:
            i += 1
    return ''.join(code), ''.join(noc)

# ----------------------------------------------------------------------------
# structure: enclosing fn / impl, skipped regions

IDENT = r'[A-Za-z_][A-Za-z0-9_]*'
KEYWORDS_BEFORE_BRACKET = {'in', 'return', 'mut', 'let', 'else', 'match', 'if', 'as', 'const', 'static', 'dyn',
                           'impl', 'ref', 'move', 'break', 'where', 'for', 'while'}


def _impl_header(text):
    """'impl<T: X> Trait<T> for Type<T> where ..' -> 'Trait<T> for Type<T>'"""
    t = text.strip()
    t = t[4:].lstrip() if t.startswith('impl') else t
    if t.startswith('<'):                               # generic parameter list of the impl itself
        depth = 0
        for k, c in enumerate(t):
            if c == '<':
                depth += 1
            elif c == '>' and t[k - 1] != '-':
                depth -= 1
                if depth == 0:
                    t = t[k + 1:]
                    break
    t = re.split(r'\bwhere\b', t)[0]
    return re.sub(r'\s+', ' ', t).strip()


def structure(code):
    """Walks the masked code once.  Returns (owner, skip): for every character
    offset the qualified name of the enclosing fn, and whether it lies in a
    skipped item (#[cfg(test)], mod tests, #[cfg(feature = "verif-hooks")])."""
    n = len(code)
    owner = [None] * n
    skip = bytearray(n)
    other_cfg = [None] * n
    stack = []            # entries: dict(kind='fn'|'impl'|'mod'|'block', name, skip, cfg)
    pending = None        # item header seen, waiting for its `{` or `;`
    pending_attr_skip = False
    pending_attr_cfg = None
    paren = 0
    tok = re.compile(r'#!?\[|\b(?:fn|impl|mod|trait)\b|[{}();\[\]]')
    i = 0
    cur_names = []
    cur_skip = False
    cur_cfg = None
    last = 0

    def fill(a, b):
        name = '::'.join(cur_names) if cur_names else '<top>'
        for k in range(a, b):
            owner[k] = name
            if cur_skip:
                skip[k] = 1
            other_cfg[k] = cur_cfg
    bracket = 0
    while True:
        m = tok.search(code, i)
        if not m:
            fill(last, n)
            break
        t = m.group(0)
        s, e = m.start(), m.end()
        if t in ('#[', '#!['):
            # attribute: find the matching ]
            depth, j = 1, e
            while j < n and depth:
                if code[j] == '[':
                    depth += 1
                elif code[j] == ']':
                    depth -= 1
                j += 1
            attr = re.sub(r'\s+', '', code[s:j])
            if attr.startswith('#[cfg('):
                # string contents are masked: feature names are blanks.  Look at the raw shape.
                if attr == '#[cfg(test)]':
                    pending_attr_skip = True
                elif re.fullmatch(r'#\[cfg\(feature=""\)\]', attr):
                    pending_attr_skip = True            # only `verif-hooks` is used as a bare feature gate
                else:
                    pending_attr_cfg = attr
            i = j
            continue
        if t in ('fn', 'impl', 'mod', 'trait') and paren == 0 and bracket == 0:
            if t == 'fn':
                mm = re.match(r'\s+(' + IDENT + ')', code[e:e + 200])
                if mm:
                    pending = dict(kind='fn', name=mm.group(1), start=s)
                    i = e + mm.end()
                    continue
                # `fn(` type or `Fn` -- not an item
            elif t == 'impl':
                # an `impl` item starts a line (after attributes/pub/unsafe); `impl Trait` in types does not
                line_start = code.rfind('\n', 0, s) + 1
                if re.fullmatch(r'\s*(?:unsafe\s+)?', code[line_start:s]) and pending is None:
                    j = e
                    depth = 0
                    while j < n and not (code[j] == '{' and depth == 0):
                        j += 1
                    pending = dict(kind='impl', name=_impl_header(code[s:j]), start=s)
                    i = j
                    continue
            elif t in ('mod', 'trait'):
                mm = re.match(r'\s+(' + IDENT + ')', code[e:e + 200])
                if mm and pending is None:
                    pending = dict(kind=t, name=mm.group(1), start=s)
                    i = e + mm.end()
                    continue
            i = e
            continue
        if t == '(':
            paren += 1
        elif t == ')':
            paren = max(0, paren - 1)
        elif t == '[':
            bracket += 1
        elif t == ']':
            bracket = max(0, bracket - 1)
        elif t == ';':
            if pending is not None and paren == pending.get('paren', 0) and bracket == 0:
                pending = None                          # declaration without body (`mod x;`, trait method)
                pending_attr_skip = False
                pending_attr_cfg = None
            elif pending is None and paren == 0 and bracket == 0:
                pending_attr_skip = False               # attribute belonged to a bodiless item (use, const ..)
                pending_attr_cfg = None
        elif t == '{':
            fill(last, s)
            last = s
            if pending is not None and paren == 0:
                ent = dict(kind=pending['kind'], name=pending['name'], paren=paren, bracket=bracket)
                ent['skip'] = pending_attr_skip or (pending['kind'] == 'mod' and pending['name'] in ('tests', 'test'))
                ent['cfg'] = pending_attr_cfg
                pending = None
            else:
                ent = dict(kind='block', name=None, skip=False, cfg=None, paren=paren, bracket=bracket)
                if pending is None:
                    ent['skip'] = pending_attr_skip
                    ent['cfg'] = pending_attr_cfg
            if pending is None:
                pending_attr_skip = False
                pending_attr_cfg = None
            stack.append(ent)
            paren = 0
            bracket = 0
            cur_names = [x['name'] for x in stack if x['kind'] in ('fn', 'impl', 'trait')]
            cur_skip = any(x['skip'] for x in stack)
            cfgs = [x['cfg'] for x in stack if x['cfg']]
            cur_cfg = cfgs[-1] if cfgs else None
        elif t == '}':
            fill(last, e)
            last = e
            if stack:
                ent = stack.pop()
                paren = ent.get('paren', 0)
                bracket = ent.get('bracket', 0)
            cur_names = [x['name'] for x in stack if x['kind'] in ('fn', 'impl', 'trait')]
            cur_skip = any(x['skip'] for x in stack)
            cfgs = [x['cfg'] for x in stack if x['cfg']]
            cur_cfg = cfgs[-1] if cfgs else None
        i = e
    return owner, skip, other_cfg

# ----------------------------------------------------------------------------
# site patterns (applied to the masked code)

MACROS = {'unreachable': 'unreachable', 'panic': 'panic', 'unimplemented': 'unimplemented', 'todo': 'todo',
          'assert': 'assert', 'assert_eq': 'assert', 'assert_ne': 'assert'}
RE_MACRO = re.compile(r'(?<![A-Za-z0-9_])(unreachable|panic|unimplemented|todo|assert|assert_eq|assert_ne)\s*!')
RE_METHOD = re.compile(r'\.\s*(unwrap|expect|split_at|split_at_mut|remove|swap_remove|borrow_mut|copy_from_slice|'
                       r'drain|split_off|to_digit|from_str_radix|insert|ilog2|ilog10|ilog)\s*\(')
RE_PATHCALL = re.compile(r'(?<![A-Za-z0-9_])(?:char|u8|u16|u32|u64|u128|usize|i8|i16|i32|i64|i128|isize)\s*::\s*'
                         r'(from_digit|from_str_radix)\s*\(')
INT_TYPES = r'(?:u8|u16|u32|u64|u128|usize|i8|i16|i32|i64|i128|isize)'


def _matching(code, i, open_c, close_c):
    depth = 0
    n = len(code)
    j = i
    while j < n:
        c = code[j]
        if c == open_c:
            depth += 1
        elif c == close_c:
            depth -= 1
            if depth == 0:
                return j
        j += 1
    return n - 1


def _args(code, open_paren):
    close = _matching(code, open_paren, '(', ')')
    inner = code[open_paren + 1:close]
    out, depth, cur = [], 0, ''
    for c in inner:
        if c in '([{':
            depth += 1
        elif c in ')]}':
            depth -= 1
        if c == ',' and depth == 0:
            out.append(cur.strip()); cur = ''
        else:
            cur += c
    if cur.strip():
        out.append(cur.strip())
    return out


def _is_int_lit(s):
    return re.fullmatch(r'\d[\d_]*(?:' + INT_TYPES + ')?', s.strip()) is not None


def find_sites_in(code, rel):
    """Yields (offset, kind) on the masked code."""
    for m in RE_MACRO.finditer(code):
        yield m.start(1), MACROS[m.group(1)]
    for m in RE_METHOD.finditer(code):
        name = m.group(1)
        op = m.end() - 1
        if name == 'unwrap':
            if code[op:op + 2] != '()' and not re.match(r'\(\s*\)', code[op:op + 8]):
                continue
            yield m.start(1), 'unwrap'
        elif name == 'expect':
            yield m.start(1), 'expect'
        elif name in ('split_at', 'split_at_mut'):
            yield m.start(1), 'split_at'
        elif name in ('remove', 'swap_remove'):
            a = _args(code, op)
            if len(a) == 1 and a[0].startswith('&'):
                continue                                # map/set removal by key reference: cannot panic
            yield m.start(1), 'remove'
        elif name == 'to_digit':
            a = _args(code, op)
            if len(a) == 1 and not _is_int_lit(a[0]):
                yield m.start(1), 'stdcall'
        elif name == 'from_str_radix':
            a = _args(code, op)
            if len(a) == 2 and not _is_int_lit(a[1]):
                yield m.start(1), 'stdcall'
        elif name == 'insert':
            a = _args(code, op)
            if len(a) == 2 and _is_int_lit(a[0]):     # Vec::insert(index, x); map inserts are not sites
                yield m.start(1), 'stdcall'
        else:
            yield m.start(1), 'stdcall'
    for m in re.finditer(r'(?:::|\.)\s*(with_capacity|reserve)\s*\(', code):
        a = _args(code, m.end() - 1)
        if len(a) == 1 and not _is_int_lit(a[0]):       # `capacity overflow` panic / allocator abort on a huge request
            yield m.start(1), 'stdcall'
    for m in RE_PATHCALL.finditer(code):
        a = _args(code, m.end() - 1)
        if len(a) == 2 and not _is_int_lit(a[1]):
            yield m.start(1), 'stdcall'
    # indexing: `[` directly after an identifier / `)` / `]` / `?`
    # names declared somewhere in this file with a fixed-size array type `name: [T; N]`: a literal index into
    # such an array is checked at compile time (rustc's deny-by-default `unconditional_panic`), so it is no site
    fixed_arrays = set(re.findall(r'\b(' + IDENT + r')\s*:\s*&?\s*(?:mut\s+)?\[[^\[\];]+;\s*[A-Za-z0-9_]+\s*\]', code))
    fixed_arrays |= set(re.findall(r'\blet\s+(?:mut\s+)?(' + IDENT + r')\s*=\s*\[[^\[\];]+;\s*[A-Za-z0-9_]+\s*\]\s*;', code))
    for m in re.finditer(r'\[', code):
        s = m.start()
        if s == 0:
            continue
        p = code[s - 1]
        if not (p.isalnum() or p in '_)]?'):
            continue
        if p.isalnum() or p == '_':
            k = s - 1
            while k >= 0 and (code[k].isalnum() or code[k] == '_'):
                k -= 1
            word = code[k + 1:s]
            if word in KEYWORDS_BEFORE_BRACKET or word[0].isdigit():
                continue
            if k >= 0 and code[k] == "'":               # lifetime
                continue
        close = _matching(code, s, '[', ']')
        inner = code[s + 1:close].strip()
        if inner == '..':
            continue
        if _is_int_lit(inner) and (p.isalnum() or p == '_') and word in fixed_arrays:
            continue                                    # literal index into a [T; N]: bounds-checked by rustc
        if inner == '' or ';' in inner and '..' not in inner:   # `x[]`?? / array type or repeat expression
            continue
        # attribute-like or macro pattern contexts cannot reach here (`#[`, `![` have other predecessors)
        depth = 0
        is_range = False
        for q in range(len(inner) - 1):
            c = inner[q]
            if c in '([{':
                depth += 1
            elif c in ')]}':
                depth -= 1
            elif c == '.' and inner[q + 1] == '.' and depth == 0:
                is_range = True
        yield s, 'slice' if is_range else 'index'
    # + - * between operands on machine integers (date/lexer files only: debug builds panic on overflow), and
    # / % with a non-literal divisor (every file: division by zero panics in every build)
    for m in re.finditer(r'(?<![-+*/%=<>!&|^(,\[{:;])\s(\+|-|\*|/|%)(=?)\s+(?=\S)', code):
        s = m.start(1)
        op = m.group(1)
        if op in '+-*' and not ARITH_FILES.match(rel):
            continue
        k = m.start()
        while k >= 0 and code[k] in ' \t':
            k -= 1
        if k < 0 or not (code[k].isalnum() or code[k] in '_)]\'"'):
            continue                                    # left context must end an operand (not unary, not `->`)
        lw = re.search(r'(' + IDENT + r')$', code[:k + 1])
        if lw and lw.group(1) in ('return', 'in', 'as', 'let', 'mut', 'match', 'if', 'else', 'impl', 'dyn'):
            continue
        rest = code[m.end():m.end() + 40]
        if op in '/%':
            if re.match(r'\d', rest):
                continue                                # literal divisor (no literal 0 divisor occurs)
            yield s, 'divrem'
        else:
            yield s, 'arith'

# ----------------------------------------------------------------------------

def rust_files(repo=None):
    repo = repo or REPO
    out = []
    for d in SCAN_DIRS:
        base = os.path.join(repo, d)
        for dirpath, dirnames, filenames in os.walk(base):
            dirnames[:] = sorted(x for x in dirnames if x != 'verif_hooks')
            for f in sorted(filenames):
                if f.endswith('.rs') and not f.startswith('verif_hooks'):
                    out.append(os.path.relpath(os.path.join(dirpath, f), repo))
    return sorted(out)


def normalise(line):
    return re.sub(r'\s+', ' ', line).strip()


# sites in `impl Trait for X` fns that are not type-specific enough are still unique through the impl header.

def scan(repo=None):
    """-> list of site dicts (file, fn, kind, ord, text, line, cfg), in source order."""
    repo = repo or REPO
    sites = []
    for rel in rust_files(repo):
        with open(os.path.join(repo, rel), encoding='utf-8') as f:
            src = f.read()
        code, noc = mask_source(src)
        owner, skip, cfgs = structure(code)
        line_starts = [0]
        for k, c in enumerate(src):
            if c == '\n':
                line_starts.append(k + 1)
        noc_lines = noc.split('\n')
        import bisect
        found = sorted(set(find_sites_in(code, rel)))
        counts = {}
        for off, kind in found:
            if skip[off]:
                continue
            ln = bisect.bisect_right(line_starts, off) - 1
            text = normalise(noc_lines[ln])
            if kind in ('arith', 'divrem') and re.search(r'\b(?:f64|f32)\b|_f64\b|\d\.\d', text):
                continue                                # floating point: no panic
            fn = owner[off] or '<top>'
            if kind in ('index', 'slice', 'arith', 'divrem') and fn == '<top>':
                continue                                # const tables / types at item level
            kk = (rel, fn, kind, text)
            o = counts.get(kk, 0)
            counts[kk] = o + 1
            sites.append(dict(file=rel, fn=fn, kind=kind, ord=o, text=text, line=ln + 1, cfg=cfgs[off],
                              detail=_detail(code, off, kind)))
    return sites


def _detail(code, off, kind):
    """Which token of the line the site is (for the reader; not part of the key)."""
    if kind in ('index', 'slice'):
        k = off - 1
        while k >= 0 and (code[k].isalnum() or code[k] in '_.'):
            k -= 1
        return normalise(code[k + 1:_matching(code, off, '[', ']') + 1])[:60]
    if kind in ('arith', 'divrem'):
        a = max(code.rfind('\n', 0, off) + 1, off - 14)
        b = code.find('\n', off)
        b = min(b if b >= 0 else len(code), off + 16)
        return normalise(code[a:off] + '<<' + code[off] + '>>' + code[off + 1:b])
    m = re.match(r'[A-Za-z0-9_]+!?', code[off:off + 24])
    return m.group(0) if m else ''


def key_of(e):
    return (e['file'], e['fn'], e['kind'], int(e['ord']), e['text'])


def key_str(k):
    return '%s :: %s :: %s#%d :: %s' % k


def load_mapping(path=None):
    path = path or MAPPING
    if not os.path.exists(path):
        return []
    with open(path, encoding='utf-8') as f:
        return json.load(f)['sites']


def known_theorems():
    """Names of the Theorem/Corollary statements of coq/Properties/*.v (to notice a cited theorem that was
    renamed or removed)."""
    out = set()
    d = os.path.join(ROOT, 'coq', 'Properties')
    if os.path.isdir(d):
        for f in sorted(os.listdir(d)):
            if f.endswith('.v'):
                with open(os.path.join(d, f), encoding='utf-8') as fh:
                    out.update(re.findall(r'^(?:Theorem|Corollary)\s+([A-Za-z0-9_\']+)', fh.read(), re.M))
    return out


def finding_status():
    """{'Cxx/class': 'open'|'fixed'} from known_findings.d/*.json (an entry's `known_finding` field says the
    site IS reachable through that listed finding; when the finding is fixed the entry wants a new review)."""
    out = {}
    d = os.path.join(ROOT, 'known_findings.d')
    if os.path.isdir(d):
        for f in sorted(os.listdir(d)):
            if f.endswith('.json'):
                try:
                    with open(os.path.join(d, f), encoding='utf-8') as fh:
                        for e in json.load(fh):
                            out['%s/%s' % (e.get('property'), e.get('class'))] = e.get('status')
                except (ValueError, OSError):
                    pass
    return out


def summary(repo=None, mapping_path=None):
    """Dict for the evidence.  Informational: unreviewed/stale entries are notes, not violations."""
    sites = scan(repo)
    mapping = load_mapping(mapping_path)
    by_key = {key_of(e): e for e in mapping}
    found_keys = [key_of(s) for s in sites]
    found_set = set(found_keys)
    totals = {s: 0 for s in STATUSES}
    by_kind = {}
    unreviewed = []
    for s in sites:
        e = by_key.get(key_of(s))
        by_kind[s['kind']] = by_kind.get(s['kind'], 0) + 1
        if e is None:
            unreviewed.append(s)
        else:
            totals[e['status']] = totals.get(e['status'], 0) + 1
    stale = [e for e in mapping if key_of(e) not in found_set]
    live = [e for e in mapping if key_of(e) in found_set]
    theorems = sorted({t for e in live if e['status'].startswith('proved') for t in e.get('theorems', [])})
    cited = sorted({t for e in live for t in e.get('theorems', [])})
    have = known_theorems()
    missing = [t for t in cited if t not in have]
    fstat = finding_status()
    with_finding = [e for e in live if e.get('known_finding')]
    open_f = [e for e in with_finding if fstat.get(e['known_finding']) == 'open']
    reachable = sorted({e['known_finding'] for e in open_f})
    not_open = sorted({'%s (%s)' % (e['known_finding'], fstat.get(e['known_finding'], 'not listed'))
                       for e in with_finding if fstat.get(e['known_finding']) != 'open'})
    by_construction_dead_module = sum(1 for e in live if e['file'].endswith('continued_fraction.rs'))
    out = {
        'repo': repo or REPO,
        'files_scanned': len(rust_files(repo)),
        'sites_found': len(sites),
        'by_kind': dict(sorted(by_kind.items())),
        'by_status': totals,
        'proved': totals['proved-dead'] + totals['proved-error-not-panic'],
        'theorems_cited': theorems,
        'cited_theorems_missing_from_coq': missing,
        'sites_reachable_through_open_findings': len(open_f),
        'open_findings_cited': reachable,
        'cited_findings_no_longer_open': not_open,
        'sites_in_dead_module_continued_fraction': by_construction_dead_module,
        'unreviewed': len(unreviewed),
        'unreviewed_keys': [key_str(key_of(s)) + '  (line %d)' % s['line'] for s in unreviewed[:30]],
        'stale': len(stale),
        'stale_keys': [key_str(key_of(e)) for e in stale[:30]],
        'note': ('informational: a site not in tools/panic_sites.json is unreviewed (counts as probe-only until '
                 'reviewed), a mapping entry not found on the tree is stale; neither is a violation'),
    }
    return out


def note_lines(s=None):
    """Lines a check may print (notes only)."""
    s = s or summary()
    out = ['panic census: %d sites; proved-dead %d, proved-error-not-panic %d, by-construction %d, probe-only %d; '
           'unreviewed %d, stale %d' % (s['sites_found'], s['by_status']['proved-dead'],
                                        s['by_status']['proved-error-not-panic'],
                                        s['by_status']['cfg-or-unreachable-by-construction'],
                                        s['by_status']['probe-only'], s['unreviewed'], s['stale'])]
    for k in s['unreviewed_keys']:
        out.append('note: unreviewed panic site: ' + k)
    for k in s['stale_keys']:
        out.append('note: stale census entry: ' + k)
    for t in s['cited_theorems_missing_from_coq']:
        out.append('note: census cites a theorem that is not in coq/Properties: ' + t)
    for t in s['cited_findings_no_longer_open']:
        out.append('note: census marks a site reachable through a finding that is not open: ' + t)
    return out

def attach(c):
    """For gen/c06.py: puts summary() into the evidence (c.extra['panic_census']) and prints the note lines.
    Informational only -- never raises, never calls c.violation."""
    try:
        s = summary()
        lines = note_lines(s)
    except Exception as e:                              # a scanner problem must not fail the property check
        s = {'error': repr(e)}
        lines = ['note: panic census could not be computed: %r' % (e,)]
    c.extra['panic_census'] = s
    for l in lines:
        print(l)
    return s


# ----------------------------------------------------------------------------
# notes/PANIC_SITES.md

def _md_escape(t):
    return t.replace('|', '\\|').replace('`', "'")


BEGIN_MARK = '<!-- census:begin (generated by tools/panic_census.py --md; do not edit by hand) -->'
END_MARK = '<!-- census:end -->'
SHORT = {'proved-dead': 'PD', 'proved-error-not-panic': 'PE', 'cfg-or-unreachable-by-construction': 'BC',
         'probe-only': 'PO'}


def render_tables(repo=None):
    """The generated part of notes/PANIC_SITES.md: totals, per-file counts, one table per file."""
    sites = scan(repo)
    mapping = load_mapping()
    by_key = {key_of(e): e for e in mapping}
    s = summary(repo)
    L = []
    L.append('## Totals')
    L.append('')
    L.append('| status | sites |')
    L.append('|---|---|')
    for st in STATUSES:
        L.append('| %s (%s) | %d |' % (st, SHORT[st], s['by_status'][st]))
    L.append('| unreviewed: found on the tree, not in the mapping (?) | %d |' % s['unreviewed'])
    L.append('| **total found** | **%d** |' % s['sites_found'])
    L.append('')
    L.append('Of the by-construction sites %d are in the dead module `num/continued_fraction.rs`. '
             '%d probe-only sites are *known to be reachable* through an open listed finding (%s). '
             'Stale mapping entries: %d.' % (s['sites_in_dead_module_continued_fraction'],
                                            s['sites_reachable_through_open_findings'],
                                            ', '.join(s['open_findings_cited']) or 'none', s['stale']))
    L.append('')
    L.append('By kind: ' + ', '.join('%s %d' % kv for kv in s['by_kind'].items()) + '.')
    L.append('')
    L.append('| file | sites | PD | PE | BC | PO | ? |')
    L.append('|---|---|---|---|---|---|---|')
    files = []
    for x in sites:
        if x['file'] not in files:
            files.append(x['file'])
    for f in files:
        cnt = {'PD': 0, 'PE': 0, 'BC': 0, 'PO': 0, '?': 0}
        tot = 0
        for x in sites:
            if x['file'] != f:
                continue
            tot += 1
            e = by_key.get(key_of(x))
            cnt[SHORT[e['status']] if e else '?'] += 1
        L.append('| %s | %d | %d | %d | %d | %d | %d |' % (f, tot, cnt['PD'], cnt['PE'], cnt['BC'], cnt['PO'], cnt['?']))
    L.append('')
    L.append('## Sites by file')
    for f in files:
        L.append('')
        L.append('### %s' % f)
        L.append('')
        fsites = [x for x in sites if x['file'] == f]
        ents = [by_key.get(key_of(x)) for x in fsites]
        if len(fsites) > 20 and all(e is not None for e in ents) and len({(e['status'], e['by']) for e in ents}) == 1:
            e = ents[0]
            kinds = {}
            for x in fsites:
                kinds[x['kind']] = kinds.get(x['kind'], 0) + 1
            L.append('%d sites (%s), lines %d-%d, all **%s**: %s' % (
                len(fsites), ', '.join('%s %d' % kv for kv in sorted(kinds.items())), fsites[0]['line'],
                fsites[-1]['line'], SHORT[e['status']], e['by']))
            continue
        L.append('| line | fn | kind | site | status | by (theorems; Coq files) | model site |')
        L.append('|---|---|---|---|---|---|---|')
        for x, e in zip(fsites, ents):
            st = SHORT[e['status']] if e else '?'
            if e:
                by = e.get('by', '')
                if e.get('theorems'):
                    by += ' -- **' + ', '.join(e['theorems']) + '**'
                if e.get('coq_files'):
                    by += ' (' + ', '.join(c.replace('coq/', '') for c in e['coq_files'][:3]) + ')'
                if e.get('caveat'):
                    by += ' -- *caveat:* ' + e['caveat']
                if e.get('known_finding'):
                    by += ' -- **open finding ' + e['known_finding'] + '**'
            else:
                by = 'unreviewed'
            ms = e.get('model_site') if e else None
            kind = x['kind'] + ('#%d' % x['ord'] if x['ord'] else '')
            src = x['detail'] if x['kind'] in ('arith', 'divrem', 'index', 'slice') and x['detail'] else x['text']
            L.append('| %d | %s | %s | `%s` | %s | %s | %s |' % (
                x['line'], _md_escape(x['fn']), kind, _md_escape(src[:90]), st, _md_escape(by),
                '' if ms in (None, '') else _md_escape(str(ms))))
    L.append('')
    return '\n'.join(L)


def write_md(repo=None):
    """Replaces the block between the markers of notes/PANIC_SITES.md (prose outside it is hand-written)."""
    body = BEGIN_MARK + '\n\n' + render_tables(repo) + '\n' + END_MARK
    if os.path.exists(NOTES):
        with open(NOTES, encoding='utf-8') as f:
            old = f.read()
    else:
        old = '# Panic-site census (C06)\n\n' + BEGIN_MARK + '\n' + END_MARK + '\n'
    if BEGIN_MARK in old and END_MARK in old:
        a = old.index(BEGIN_MARK)
        b = old.index(END_MARK) + len(END_MARK)
        new = old[:a] + body + old[b:]
    else:
        new = old.rstrip('\n') + '\n\n' + body + '\n'
    with open(NOTES, 'w', encoding='utf-8') as f:
        f.write(new)


def skeleton(repo=None):
    """Mapping entries (status probe-only, by 'unreviewed') for sites not in the mapping."""
    have = {key_of(e) for e in load_mapping()}
    out = []
    for s in scan(repo):
        if key_of(s) not in have:
            out.append(dict(file=s['file'], fn=s['fn'], kind=s['kind'], ord=s['ord'], text=s['text'],
                            line=s['line'], status='probe-only', by='', theorems=[], model_site=None))
    return out


def main(argv):
    if '--list' in argv:
        for s in scan():
            print('%s:%d\t%s\t%s#%d\t%s' % (s['file'], s['line'], s['fn'], s['kind'], s['ord'], s['text']))
        return 0
    if '--skeleton' in argv:
        json.dump(skeleton(), sys.stdout, indent=1, ensure_ascii=False)
        print()
        return 0
    if '--md' in argv:
        write_md()
        print('wrote', NOTES)
        return 0
    s = summary()
    if '--json' in argv:
        json.dump(s, sys.stdout, indent=1, ensure_ascii=False)
        print()
        return 0
    for l in note_lines(s):
        print(l)
    return 0


if __name__ == '__main__':
    sys.exit(main(sys.argv[1:]))
