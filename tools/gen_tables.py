#!/usr/bin/env python3
"""tools/gen_tables.py  -- translator for DESIGN 3.3: dumps the unit tables of
the fend tree under test (vlib.REPO: /repo, or $VERIF_REPO for mutant runs;
through the read-only hooks, harness binary h_units)
into coq/Units/Generated/UnitTable.v as Coq data:

  gen_defs        ALL_UNIT_DEFS verbatim (group, singular, plural, definition)
  gen_short       SHORT_PREFIXES  (effective list, found by probing the lookup
                  function with every string literal of units/builtin.rs)
  gen_currencies  CURRENCY_IDENTIFIERS (same method)
  gen_bodies      definition body -> value computed by the tree's evaluator
  gen_cur_values  currency identifier -> unit value (fake exchange rates)
  gen_names       name -> number returned by the tree's resolver + its
                  reduction by the tree's to_hashmap_and_scale
  gen_stems       stems of the sqX / cbX / X2 / X3 families, resolved
  gen_prefix_status  prefix -> status of prefix++name for every name
  gen_pi_probe    the tree's own approximation of pi
  gen_defaults    lookup_default_unit: base-unit map -> unit name (DEFAULT_UNITS
                  and the base units, found by probing with every literal)

The file is rewritten only when its content changes.  Usable standalone
(tools/setup.sh) and from gen/c11.py etc. (generate())."""
import os, sys, hashlib
sys.path.insert(0, os.path.join(os.path.dirname(os.path.abspath(__file__)), '..', 'gen'))
import vlib
from vlib import sx, Sym, parse_sx
from fractions import Fraction

OUT = os.path.join(vlib.COQ, 'Units', 'Generated', 'UnitTable.v')
CTX = [0, 1, []]          # C/F mode, fake exchange rates, no custom units


class TranslatorError(Exception):
    pass


def call(lines, min_chunk=4):
    exe = vlib.build_impl('units')
    outs = vlib.run_batch([exe], lines, timeout=120, min_chunk=min_chunk)
    res = []
    for l, o in zip(lines, outs):
        p = vlib.try_parse(o)
        if p is None or (isinstance(p, list) and p and p[0] in (b'panic', b'abort', b'hang', b'bad-request', b'unknown-op')):
            raise TranslatorError('hook call failed: %s -> %s' % (l[:200], o[:300]))
        res.append(p)
    return res


# ---------------------------------------------------------------------------
# decoding of hook records (python side: Fractions), used by the checks too

def dec_real(r):
    pat, sign, num, den = r
    if den == 0:
        raise TranslatorError('zero denominator in dumped number')
    q = Fraction(num, den)
    if sign == 1:
        q = -q
    return ('pi' if pat == 2 else 's', q)

def dec_cplx_real(c):
    """complex -> real pattern; refuses non-zero imaginary parts"""
    re, im = c
    if im[2] != 0:
        raise TranslatorError('complex number in unit table: outside the model')
    return dec_real(re)

def dec_q(c):
    k, q = dec_cplx_real(c)
    if k != 's' and q != 0:
        raise TranslatorError('pi-pattern exponent in unit table: outside the model')
    return q

def dec_named(u):
    prefix, sing, plur, alias, base, scale = u
    return {'prefix': prefix.decode(), 'sing': sing.decode(), 'plur': plur.decode(), 'alias': bool(alias),
            'base': [(k.decode(), dec_q(v)) for k, v in base], 'scale': dec_cplx_real(scale)}

def dec_value(v):
    parts, comps, exact, simp = v
    if len(parts) != 1:
        raise TranslatorError('distribution in unit table: outside the model')
    return {'val': dec_cplx_real(parts[0][0]), 'units': [(dec_named(u), dec_q(e)) for u, e in comps],
            'exact': bool(exact), 'simp': bool(simp)}

def dec_resolved(r):
    """-> ('ok', value, reduced|None) | ('notfound',) | ('err', variant)"""
    if r[0] == b'err':
        if r[1] == b'IdentifierNotFound':
            return ('notfound',)
        return ('err', r[1].decode())
    val = dec_value(r[1])
    red = None
    if r[2][0] == b'ok':
        red = (dec_named(r[2][1]), bool(r[2][2]))
    return ('ok', val, red)


# ---------------------------------------------------------------------------
# Coq printing

def cstr(s):
    return '[' + ';'.join(str(ord(c)) for c in s) + ']'

def cq(q):
    return '(Qmake %s %d)' % (('(%d)' % q.numerator) if q.numerator < 0 else str(q.numerator), q.denominator)

def creal(r):
    return '(%s %s)' % ('Pi' if r[0] == 'pi' else 'Simple', cq(r[1]))

def cbool(b):
    return 'true' if b else 'false'

def cnamed(u):
    return '(mknu %s %s %s %s [%s] %s)' % (cstr(u['prefix']), cstr(u['sing']), cstr(u['plur']), cbool(u['alias']),
                                           ';'.join('(%s,%s)' % (cstr(k), cq(v)) for k, v in u['base']), creal(u['scale']))

def cvalue(v):
    return '(mkval %s [%s] %s %s)' % (creal(v['val']), ';'.join('(mkue %s %s)' % (cnamed(u), cq(e)) for u, e in v['units']),
                                      cbool(v['exact']), cbool(v['simp']))

def cres(r, with_reduced=False):
    """lres (value * option (named_unit * bool))  or  lres value"""
    if r[0] == 'notfound':
        return 'LNotFound'
    if r[0] == 'err':
        return '(LErr EOther)'
    if with_reduced:
        red = 'None' if r[2] is None else '(Some (%s, %s))' % (cnamed(r[2][0]), cbool(r[2][1]))
        return '(LOk (%s, %s))' % (cvalue(r[1]), red)
    return '(LOk %s)' % cvalue(r[1])

def clist(items, per_line=1):
    return '[\n  ' + ';\n  '.join(items) + '\n]' if items else '[]'


# ---------------------------------------------------------------------------

def strip_rule(d):
    """python mirror of the header parsing of expr_unit, used ONLY to know
    which body strings to send to the evaluator hook"""
    d = d.strip()
    if d == '$CURRENCY':
        return None
    for p in ('l@', 'lp@', 's@', 'sp@'):
        if d.startswith(p):
            d = d[len(p):]
    if d == '!':
        return None
    if d.startswith('='):
        d = d[1:]
    return d

def family_of(n):
    """(stem, power) candidates of a shorthand name"""
    out = []
    if n.startswith('sq') and len(n) > 2:
        out.append((n[2:], 2))
    if n.startswith('cb') and len(n) > 2:
        out.append((n[2:], 3))
    if n.endswith('2') and len(n) > 1:
        out.append((n[:-1], 2))
    if n.endswith('3') and len(n) > 1:
        out.append((n[:-1], 3))
    return out


def collect():
    """runs the hooks; returns a dict with everything the table holds"""
    raw = call([sx([Sym('units-raw')])])[0]
    lits = [l.decode() for l in call([sx([Sym('units-literals')])])[0]]
    defs = [(g, s.decode(), p.decode(), d.decode()) for g, s, p, d in raw]
    if not defs:
        raise TranslatorError('empty unit table')
    # --- private arrays, by probing the lookup function with every literal
    q_sp = call([sx([Sym('builtin-query-many'), 1, 1] + lits)])[0]
    q_np = call([sx([Sym('builtin-query-many'), 0, 1] + lits)])[0]
    short = [(l, a[3].decode()) for l, a, b in zip(lits, q_sp, q_np) if a[0] == b'some' and a != b]
    currencies = sorted(l for l, b in zip(lits, q_np) if b[0] == b'some' and b[3] == b'$CURRENCY')
    # order inside each ASCII-case-insensitive class of short prefixes: the
    # entry returned for a case-insensitive query comes first
    def fold(s):
        return ''.join(chr(ord(c) + 32) if 'A' <= c <= 'Z' else c for c in s)
    classes = {}
    for n, d in short:
        classes.setdefault(fold(n), []).append((n, d))
    probes = [k for k, v in classes.items() if len(v) > 1]
    firsts = {}
    if probes:
        ans = call([sx([Sym('builtin-query-many'), 1, 0] + probes)])[0]
        for k, a in zip(probes, ans):
            if a[0] == b'some':
                firsts[k] = a[1].decode()
    ordered = []
    done = set()
    for n, d in short:
        k = fold(n)
        if k in done:
            continue
        done.add(k)
        members = classes[k]
        f = firsts.get(k)
        if f is not None and any(m == f for m, _ in members):
            members = [(m, e) for m, e in members if m == f] + [(m, e) for m, e in members if m != f]
        ordered += members
    short = ordered
    # --- names
    names = []
    for g, s, p, d in defs:
        for n in (s, p):
            if n and n not in names:
                names.append(n)
    all_names = names + [c for c in currencies if c not in names]
    # --- evaluator on definition bodies
    bodies = []
    for g, s, p, d in defs:
        b = strip_rule(d)
        if b is not None and b not in bodies:
            bodies.append(b)
    for n, d in short:
        b = strip_rule(d)
        if b is not None and b not in bodies:
            bodies.append(b)
    body_vals = [dec_resolved(r) for r in call([sx([Sym('eval-expr'), CTX, b]) for b in bodies])]
    cur_vals = [dec_resolved(r) for r in call([sx([Sym('resolve'), CTX, c]) for c in currencies])]
    name_vals = [dec_resolved(r) for r in call([sx([Sym('resolve'), CTX, n]) for n in all_names])]
    # --- family stems
    stems = []
    for n in all_names:
        for st, _ in family_of(n):
            if st not in stems:
                stems.append(st)
    stem_vals = [dec_resolved(r) for r in call([sx([Sym('resolve'), CTX, s]) for s in stems])]
    # --- prefixes: every name usable as a prefix (its definition carries lp@ or sp@), plus the short prefixes
    def is_prefix_def(d):
        d = d.strip()
        for p in ('l@', 's@'):
            if d.startswith(p):
                d = d[len(p):]
        return d.startswith('lp@') or d.startswith('sp@')
    prefixes = []
    for g, s, p, d in defs:
        if is_prefix_def(d):
            for n in (s, p):
                if n and n not in prefixes:
                    prefixes.append(n)
    for n, d in short:
        if n not in prefixes:
            prefixes.append(n)
    status = call([sx([Sym('resolve-status'), CTX] + [p + u for u in all_names]) for p in prefixes], min_chunk=2)
    pstatus = []
    okpairs = []
    for p, row in zip(prefixes, status):
        codes = []
        for u, st in zip(all_names, row):
            if st == 0:
                codes.append(0); okpairs.append((p, u))
            elif st == b'IdentifierNotFound':
                codes.append(1)
            else:
                codes.append(2)
        pstatus.append((p, codes))
    pi_probe = dec_resolved(call([sx([Sym('eval-expr'), CTX, '1/(1/pi)'])])[0])
    # --- lookup_default_unit, by probing with every literal and literal^1
    keys = []
    for l in lits:
        for k in (l, l + '^1'):
            if k not in keys:
                keys.append(k)
    ans = call([sx([Sym('default-units')] + keys[i:i + 400]) for i in range(0, len(keys), 400)])
    flat = [a for chunk in ans for a in chunk]
    defaults = []
    for k, a in zip(keys, flat):
        if a[0] == b'some':
            try:
                m = [(part.rsplit('^', 1)[0], int(part.rsplit('^', 1)[1])) for part in k.split(' ')]
            except Exception:
                raise TranslatorError('default-unit key not of the form name^int ...: %r' % k)
            defaults.append((m, a[1].decode()))
    return {'defs': defs, 'short': short, 'currencies': currencies, 'names': names, 'all_names': all_names,
            'bodies': list(zip(bodies, body_vals)), 'cur_vals': list(zip(currencies, cur_vals)),
            'name_vals': list(zip(all_names, name_vals)), 'stems': list(zip(stems, stem_vals)),
            'prefixes': prefixes, 'pstatus': pstatus, 'ok_pairs': okpairs, 'pi_probe': pi_probe, 'defaults': defaults}


def reduced_or_fail(r, what):
    if r[0] != 'ok' or r[2] is None:
        raise TranslatorError('no reduced record for %s' % what)
    return r[2]


def render(t):
    o = []
    w = o.append
    w('(* GENERATED by tools/gen_tables.py from the fend tree being checked -- do not edit. *)')
    w('From FendV Require Import Base.Prelude Units.Defs Units.Lookup.')
    w('From Coq Require Import QArith.')
    w('Close Scope Q_scope.')
    w('Open Scope N_scope.')
    w('')
    w('Definition gen_defs : list (N * rawdef) := ' + clist(['(%d, (%s, %s, %s)) (* %s *)' % (g, cstr(s), cstr(p), cstr(d), safe(s)) for g, s, p, d in t['defs']]) + '.')
    w('')
    w('Definition gen_short : list (str * str) := ' + clist(['(%s, %s) (* %s *)' % (cstr(n), cstr(d), safe(n)) for n, d in t['short']]) + '.')
    w('')
    w('Definition gen_currencies : list str := ' + clist([cstr(c) for c in t['currencies']]) + '.')
    w('')
    w('Definition gen_bodies : list (str * lres value) := ' + clist(['(%s, %s) (* %s *)' % (cstr(b), cres(v), safe(b)) for b, v in t['bodies']]) + '.')
    w('')
    w('Definition gen_cur_values : list (str * lres value) := ' + clist(['(%s, %s)' % (cstr(c), cres(v)) for c, v in t['cur_vals']]) + '.')
    w('')
    w('Definition gen_names : list (str * lres (value * option (named_unit * bool))) := ' +
      clist(['(%s, %s) (* %s *)' % (cstr(n), cres(v, True), safe(n)) for n, v in t['name_vals']]) + '.')
    w('')
    w('Definition gen_stems : list (str * lres (value * option (named_unit * bool))) := ' +
      clist(['(%s, %s) (* %s *)' % (cstr(n), cres(v, True), safe(n)) for n, v in t['stems']]) + '.')
    w('')
    w('Definition gen_prefixes : list str := ' + clist(['%s (* %s *)' % (cstr(p), safe(p)) for p in t['prefixes']]) + '.')
    w('')
    w('Definition gen_prefix_status : list (str * list N) := ' +
      clist(['(%s, [%s]) (* %s *)' % (cstr(p), ';'.join(map(str, codes)), safe(p)) for p, codes in t['pstatus']]) + '.')
    w('')
    pv = t['pi_probe']
    w('Definition gen_pi_probe : lres value := %s.' % cres(pv))
    w('')
    w('Definition gen_defaults : list (hmap * str) := ' +
      clist(['([%s], %s) (* %s *)' % (';'.join('(%s,%s)' % (cstr(k), cq(Fraction(e))) for k, e in m), cstr(u), safe(u)) for m, u in t['defaults']]) + '.')
    w('')
    return '\n'.join(o)


def safe(s):
    """name as a comment-safe ASCII rendering"""
    return ''.join(c if (32 <= ord(c) < 127 and c not in '"*()') else '?' for c in s)


def generate(force=False):
    """regenerates the table; returns (path, changed, table-dict)"""
    t = collect()
    text = render(t)
    os.makedirs(os.path.dirname(OUT), exist_ok=True)
    old = open(OUT).read() if os.path.exists(OUT) else None
    changed = old != text
    if changed or force:
        with vlib.Lock('coq.lock'):
            tmp = OUT + '.tmp'
            with open(tmp, 'w') as fh:
                fh.write(text)
            os.replace(tmp, OUT)
    return OUT, changed, t


STUB = """(* PLACEHOLDER written by tools/gen_tables.py because the translator could not run
   (%s).  It only keeps the rest of the development buildable; the units
   properties cannot be proved over it.  Re-run tools/gen_tables.py. *)
From FendV Require Import Base.Prelude Units.Defs Units.Lookup.
From Coq Require Import QArith.
Close Scope Q_scope.
Open Scope N_scope.
Definition gen_defs : list (N * rawdef) := [].
Definition gen_short : list (str * str) := [].
Definition gen_currencies : list str := [].
Definition gen_bodies : list (str * lres value) := [].
Definition gen_cur_values : list (str * lres value) := [].
Definition gen_names : list (str * lres (value * option (named_unit * bool))) := [].
Definition gen_stems : list (str * lres (value * option (named_unit * bool))) := [].
Definition gen_prefixes : list str := [].
Definition gen_prefix_status : list (str * list N) := [].
Definition gen_pi_probe : lres value := LNotFound.
Definition gen_defaults : list (hmap * str) := [].
"""


def ensure_exists(reason):
    """on a fresh tree _CoqProject lists the generated file: never leave it missing"""
    if not os.path.exists(OUT):
        os.makedirs(os.path.dirname(OUT), exist_ok=True)
        with open(OUT, 'w') as fh:
            import re as _re
            fh.write(STUB % _re.sub(r'[^A-Za-z0-9 .,:_/-]', ' ', reason)[:300])


if __name__ == '__main__':
    try:
        path, changed, t = generate()
    except Exception as e:          # TranslatorError, a failed cargo build, a missing tool chain ...
        ensure_exists(repr(e))
        print('gen_tables: FAILED: %r%s' % (e, '' if isinstance(e, TranslatorError) else ' (placeholder table kept the tree buildable)'))
        sys.exit(1)
    print('gen_tables: %s %s (%d definitions, %d names, %d prefixes, %d resolved prefixed names, sha1 %s)' % (
        path, 'rewritten' if changed else 'unchanged', len(t['defs']), len(t['all_names']), len(t['prefixes']),
        len(t['ok_pairs']), hashlib.sha1(open(path, 'rb').read()).hexdigest()[:12]))
