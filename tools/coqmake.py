#!/usr/bin/env python3
"""tools/coqmake.py <target.vo> ...  (targets relative to coq/; none = all)
Full .vo build under the shared lock, regenerating the Makefile when
_CoqProject changed.  Prints errors; exits with make's status."""
import os, sys
sys.path.insert(0, os.path.join(os.path.dirname(os.path.abspath(__file__)), '..', 'gen'))
import vlib
rc, out = vlib.coq_make(sys.argv[1:])
lines = [l for l in out.splitlines() if not l.startswith(('COQDEP', 'COQC', 'make[')) ]
print('\n'.join(lines[-80:]))
sys.exit(rc)
