#!/usr/bin/env python3
"""One-off writer of coq/Units/Standards.v (the file is committed; this script
is kept so that the list stays readable).  Each entry states a defining factor
in SI base units: 1 <name> = <factor> x <product of SI base units>.
Sources: BIPM SI brochure (9th ed.), NIST SP 811 appendix B (exact factors
only), IAU 2012 B2 (au), 2015 B2; international yard and pound agreement 1959;
IEC 80000-13 (binary prefixes)."""
import os, sys
from fractions import Fraction as F

M, KG, S, A, K, MOL, CD, BIT = 'meter', 'kilogram', 'second', 'ampere', 'kelvin', 'mole', 'candela', 'bit'
E = []
def add(names, factor, **dims):
    for n in names.split():
        E.append((n, factor, dims))
def d(**kw): return kw

inch = F('0.0254'); lb = F('0.45359237'); g0 = F('9.80665'); gal = 231 * inch**3
# length
add('meter meters metre m', 1, meter=1)
add('inch inches', inch, meter=1); add('foot feet ft', 12*inch, meter=1); add('yard yards yd', 36*inch, meter=1)
add('mile miles mi statute_mile', 63360*inch, meter=1); add('mil thou', inch/1000, meter=1)
add('nautical_mile nmi NM', 1852, meter=1); add('fathom fathoms', 72*inch, meter=1)
add('furlong', 7920*inch, meter=1); add('chain', 792*inch, meter=1); add('rod', 198*inch, meter=1); add('link', F(792,100)*inch, meter=1)
add('league', 3*63360*inch, meter=1); add('hand', 4*inch, meter=1); add('micron', F(1,10**6), meter=1)
add('astronomical_unit au AU', 149597870700, meter=1)
add('light_year lightyear ly', 299792458*31557600, meter=1); add('light_second', 299792458, meter=1)
add('cable', F(1852,10), meter=1)
# mass
add('kilogram kilograms', 1, kilogram=1); add('gram grams g', F(1,1000), kilogram=1)
add('pound pounds lb lbs', lb, kilogram=1); add('ounce oz', lb/16, kilogram=1); add('grain grains', lb/7000, kilogram=1)
add('stone', 14*lb, kilogram=1); add('short_ton', 2000*lb, kilogram=1); add('hundredweight cwt', 100*lb, kilogram=1)
add('tonne tonnes t', 1000, kilogram=1); add('carat ct', F(2,10000), kilogram=1); add('dram', lb/256, kilogram=1)
add('troy_ounce ozt', 480*lb/7000, kilogram=1); add('troy_pound', 5760*lb/7000, kilogram=1); add('pennyweight dwt', 24*lb/7000, kilogram=1)
# time
add('second seconds s sec', 1, second=1); add('minute min', 60, second=1); add('hour hr h', 3600, second=1)
add('day days d', 86400, second=1); add('week', 604800, second=1); add('fortnight', 1209600, second=1)
add('julian_year', 31557600, second=1); add('gregorian_year', 31556952, second=1)
add('common_year calendar_year', 31536000, second=1); add('leap_year', 31622400, second=1)
# volume, area
add('liter litre l L', F(1,1000), meter=3); add('cc', F(1,10**6), meter=3)
add('gallon gallons', gal, meter=3); add('quart qt', gal/4, meter=3); add('pint pt', gal/8, meter=3); add('cup', gal/16, meter=3)
add('gill', gal/32, meter=3); add('fluid_ounce floz', gal/128, meter=3); add('tablespoon tbsp', gal/256, meter=3); add('teaspoon tsp', gal/768, meter=3)
add('acre', 4840*(36*inch)**2, meter=2); add('hectare ha', 10000, meter=2); add('are', 100, meter=2); add('barn', F(1,10**28), meter=2)
# speed, acceleration
add('knot kn', F(1852,3600), meter=1, second=-1); add('mph', 63360*inch/3600, meter=1, second=-1); add('kph kmh', F(1000,3600), meter=1, second=-1)
add('c lightspeed light_speed', 299792458, meter=1, second=-1); add('gravity', g0, meter=1, second=-2)
add('Gal Gals gallileo', F(1,100), meter=1, second=-2)
# force, pressure, energy, power
add('newton N', 1, kilogram=1, meter=1, second=-2); add('dyne dynes dyn', F(1,10**5), kilogram=1, meter=1, second=-2)
add('lbf', lb*g0, kilogram=1, meter=1, second=-2); add('gf pond', g0/1000, kilogram=1, meter=1, second=-2)
add('pascal Pa', 1, kilogram=1, meter=-1, second=-2); add('bar', 10**5, kilogram=1, meter=-1, second=-2)
add('atmosphere atm', 101325, kilogram=1, meter=-1, second=-2); add('Torr', F(101325,760), kilogram=1, meter=-1, second=-2)
add('psi', lb*g0/inch**2, kilogram=1, meter=-1, second=-2); add('at', g0*10**4, kilogram=1, meter=-1, second=-2)
add('barye Ba', F(1,10), kilogram=1, meter=-1, second=-2)
add('joule J', 1, kilogram=1, meter=2, second=-2); add('erg ergs', F(1,10**7), kilogram=1, meter=2, second=-2)
add('calorie cal', F('4.184'), kilogram=1, meter=2, second=-2); add('electron_volt eV', F('1.602176634e-19'), kilogram=1, meter=2, second=-2)
add('Wh', 3600, kilogram=1, meter=2, second=-2); add('ton_of_tnt', F('4.184e9'), kilogram=1, meter=2, second=-2)
add('watt W', 1, kilogram=1, meter=2, second=-3); add('horsepower hp', 550*12*inch*lb*g0, kilogram=1, meter=2, second=-3)
add('poise P', F(1,10), kilogram=1, meter=-1, second=-1); add('stokes St', F(1,10**4), meter=2, second=-1)
# electromagnetism
add('ampere A amp', 1, ampere=1); add('coulomb', 1, ampere=1, second=1); add('Ah', 3600, ampere=1, second=1)
add('volt V', 1, kilogram=1, meter=2, second=-3, ampere=-1); add('ohm', 1, kilogram=1, meter=2, second=-3, ampere=-2)
add('siemens S', 1, kilogram=-1, meter=-2, second=3, ampere=2); add('farad', 1, kilogram=-1, meter=-2, second=4, ampere=2)
add('weber Wb', 1, kilogram=1, meter=2, second=-2, ampere=-1); add('tesla', 1, kilogram=1, second=-2, ampere=-1)
add('henry H', 1, kilogram=1, meter=2, second=-2, ampere=-2); add('gauss', F(1,10**4), kilogram=1, second=-2, ampere=-1)
add('maxwell Mx', F(1,10**8), kilogram=1, meter=2, second=-2, ampere=-1); add('biot Bi', 10, ampere=1)
add('hertz Hz', 1, second=-1)
# radiation, photometry, chemistry
add('becquerel Bq', 1, second=-1); add('curie Ci', F('3.7e10'), second=-1); add('rutherford Rd', 10**6, second=-1)
add('gray Gy sievert Sv', 1, meter=2, second=-2); add('rem rad_radiation', F(1,100), meter=2, second=-2)
add('roentgen', F('2.58e-4'), ampere=1, second=1, kilogram=-1)
add('candela cd lumen lm', 1, candela=1); add('lux lx nit nt', 1, candela=1, meter=-2); add('phot stilb', 10**4, candela=1, meter=-2)
add('mole mol', 1, mole=1); add('katal kat', 1, mole=1, second=-1)
# temperature (scale part), data
add('kelvin K', 1, kelvin=1); add('rankine', F(5,9), kelvin=1)
add('bit bits b', 1, bit=1); add('byte bytes B octet', 8, bit=1); add('nibble', 4, bit=1); add('bps', 1, bit=1, second=-1)
# constants of the 2019 SI
add('planck', F('6.62607015e-34'), kilogram=1, meter=2, second=-1); add('boltzmann', F('1.380649e-23'), kilogram=1, meter=2, second=-2, kelvin=-1)
add('avogadro N_A', F('6.02214076e23'), mole=-1); add('electron_charge', F('1.602176634e-19'), ampere=1, second=1)
# pure numbers: prefixes and number words
for i, n in enumerate('deca hecto kilo'.split(), 1): add(n, 10**i)
add('deka', 10)
for i, n in enumerate('mega giga tera peta exa zetta yotta ronna quetta'.split(), 2): add(n, 10**(3*i))
for i, n in enumerate('deci centi milli'.split(), 1): add(n, F(1,10**i))
for i, n in enumerate('micro nano pico femto atto zepto yocto ronto quecto'.split(), 2): add(n, F(1,10**(3*i)))
for i, n in enumerate('kibi mebi gibi tebi pebi exbi zebi yobi'.split(), 1): add(n, 2**(10*i))
add('percent %', F(1,100)); add('ppm', F(1,10**6)); add('ppb', F(1,10**9)); add('dozen', 12); add('gross', 144); add('score', 20)
add('million', 10**6); add('billion', 10**9); add('googol', 10**100); add('radian rad steradian sr', 1)
# angles: multiples of pi
PI = []
def addpi(names, coef):
    for n in names.split(): PI.append((n, coef))
addpi('degree degrees deg arcdeg', F(1,180)); addpi('arcmin arcminute', F(1,10800)); addpi('arcsec arcsecond', F(1,648000))
addpi('circle turn revolution rev', 2); addpi('gradian gon grad', F(1,200)); addpi('rightangle quadrant', F(1,2)); addpi('sphere', 4)

def cstr(s): return '[' + ';'.join(str(ord(c)) for c in s) + ']'
def cq(q):
    q = F(q); return '(Qmake %s %d)' % (('(%d)' % q.numerator) if q.numerator < 0 else q.numerator, q.denominator)
out = ['(* Units area: the defining factors of units in SI base units (BIPM SI brochure 9th ed., NIST SP 811',
       '   exact factors, IAU 2012 B2, the 1959 yard and pound agreement, IEC 80000-13).  An entry',
       '   (name, factor, dims) says: 1 name = factor x the product of SI base units dims.',
       '   Written by tools/mk_standards.py (one-off; not regenerated by the checks). *)',
       'From FendV Require Import Base.Prelude Units.Defs.', 'From Coq Require Import QArith.', 'Close Scope Q_scope.', 'Open Scope N_scope.', '',
       'Definition standards : list (str * real * hmap) := [']
items = []
for n, f, dims in E:
    items.append('  (%s, Simple %s, [%s]) (* %s *)' % (cstr(n), cq(f), ';'.join('(%s,%s)' % (cstr(k), cq(v)) for k, v in sorted(dims.items())), n.replace('%', 'percent')))
for n, f in PI:
    items.append('  (%s, Pi %s, []) (* %s *)' % (cstr(n), cq(f), n))
out.append(';\n'.join(items))
out.append('].')
open(os.path.join(os.path.dirname(os.path.abspath(__file__)), '..', 'coq', 'Units', 'Standards.v'), 'w').write('\n'.join(out) + '\n')
print(len(items), 'standards written')
