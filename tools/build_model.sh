#!/bin/sh
# usage: build_model.sh <area>   -- compiles coq/model_<area>.ml (extracted by
# coq/Extract/X<Area>.v) with the generic driver into .cache/modelrun/<area>/modelrun
set -e
area="$1"
root="$(cd "$(dirname "$0")/.." && pwd)"
d="$root/.cache/modelrun/$area"
mkdir -p "$d"
if [ -x "$d/modelrun" ] && cmp -s "$root/coq/model_$area.ml" "$d/model.ml" && cmp -s "$root/modelrun/driver.ml" "$d/driver.ml"; then
  exit 0
fi
cp "$root/coq/model_$area.ml" "$d/model.ml"
cp "$root/coq/model_$area.mli" "$d/model.mli"
cp "$root/modelrun/driver.ml" "$d/driver.ml"
cd "$d"
ocamlfind ocamlopt -w -a -O3 model.mli model.ml driver.ml -o modelrun 2>/dev/null || ocamlfind ocamlopt -w -a model.mli model.ml driver.ml -o modelrun
