#!/usr/bin/env python3
"""Assembles DESIGN.md from design/*.md, notes/Cxx.md and the JSON ledgers."""
import json, os, glob, subprocess
ROOT = os.path.abspath(os.path.join(os.path.dirname(__file__), '..'))
def rd(p):
    return open(os.path.join(ROOT, p), encoding='utf-8').read().rstrip() + '\n\n'
props = [json.loads(l) for l in open(os.path.join(ROOT, 'properties.jsonl'))]
man = json.load(open(os.path.join(ROOT, 'MANIFEST.json')))
claimed = {c['property_id']: c for c in man['checks']}
findings = []
for f in sorted(glob.glob(os.path.join(ROOT, 'known_findings.d', '*.json'))):
    findings += json.load(open(f))
seeded = []
for d in sorted(glob.glob(os.path.join(ROOT, 'seeded', '*'))):
    mp = os.path.join(d, 'meta.json')
    if os.path.exists(mp):
        m = json.load(open(mp)); m['_id'] = os.path.basename(d); seeded.append(m)

out = [rd('design/00_head.md')]
# ---- section 0
s0 = ['## 0. Status at a glance\n']
s0.append('| property | claimed | theorems (obligations) | open findings | fixed findings | seeded changes caught (first trial / after strengthening / total) |')
s0.append('|---|---|---|---|---|---|')
for p in props:
    i = p['id']
    ev = None
    ep = os.path.join(ROOT, 'evidence', i + '.json')
    if os.path.exists(ep):
        try: ev = json.load(open(ep))
        except Exception: ev = None
    ob = ev['coverage'].get('obligations') if ev else ''
    of = sum(1 for k in findings if k['property'] == i and k.get('status', 'open') == 'open')
    ff = sum(1 for k in findings if k['property'] == i and k.get('status') == 'fixed')
    sd = [m for m in seeded if m.get('property') == i]
    def _res(m):
        return str(m.get('verified_by_integrator', {}).get('result', ''))
    first = sum(1 for m in sd if _res(m).startswith('caught'))
    now = sum(1 for m in sd if 'caught' in _res(m) and 'pending' not in _res(m))
    caught = '%d at first trial, %d now, of %d' % (first, now, len(sd))
    s0.append('| %s %s | %s | %s | %d | %d | %s |' % (i, p['title'][:60], 'yes' if i in claimed else 'no (see MANIFEST not_applicable)', ob, of, ff, caught if sd else '-'))
out.append('\n'.join(s0) + '\n\n---------------------------------------------------------------------------\n\n')
for part in ['design/01_why.md', 'design/02_architecture.md', 'design/04_conventions.md', 'design/05_violations.md', 'design/06_trusted.md', 'design/07_hooks.md']:
    if os.path.exists(os.path.join(ROOT, part)):
        out.append(rd(part))
# ---- section 8
out.append('## 8. Per-property sections\n\nEach section below is `notes/Cxx.md`, written with the code of that property.\n\n')
for p in props:
    i = p['id']
    np_ = os.path.join(ROOT, 'notes', i + '.md')
    if os.path.exists(np_):
        txt = open(np_, encoding='utf-8').read().rstrip()
        # demote headings by two levels
        lines = []
        for ln in txt.split('\n'):
            if ln.startswith('#'):
                ln = '##' + ln
            lines.append(ln)
        out.append('\n'.join(lines) + '\n\n')
    else:
        out.append('### %s — %s\n\nNot built yet in this revision (listed under not_applicable in MANIFEST.json).\n\n' % (i, p['title']))
out.append('---------------------------------------------------------------------------\n\n')
# ---- section 9
s9 = ['## 9. Genuine defects found, and their disposition\n',
      'Every entry was reproduced against the real code through a registered check (witness input below). `fixed` = repaired by the named minimal `fix:` commit in /repo (the pinned suite passes with it; the witness stays in the check\'s corpus, so a regression is reported as a VIOLATION); `open` = recorded in known_findings.json, the check prints a KNOWN-FINDING line and any *other* violation of the same property is still reported.\n',
      '| property | class | status | what fails | witness | where |', '|---|---|---|---|---|---|']
for k in findings:
    s9.append('| %s | %s | %s | %s | `%s` | %s |' % (k['property'], k.get('class'), k.get('status', 'open') + ((' ' + k['commit']) if k.get('commit') else ''),
              str(k.get('what', '')).replace('|', '/').replace('\n', ' ')[:400], str(k.get('witness', '')).replace('|', '/').replace('`', "'").replace('\n', ' ')[:160], str(k.get('where', '')).replace('|', '/')[:120]))
out.append('\n'.join(s9) + '\n\n')
if os.path.exists(os.path.join(ROOT, 'design/09_findings_notes.md')):
    out.append(rd('design/09_findings_notes.md'))
out.append('---------------------------------------------------------------------------\n\n')
out.append(rd('design/10_tiers.md'))
# ---- section 11
s11 = ['## 11. Validating the machinery: seeded changes and mutation trials\n',
       'Seeded changes were written by fresh sub-agents that were given only the text of one property and a scratch worktree of /repo (nothing from /verif). Each compiles, passes the pinned suite, and breaks the property only under specific conditions; each was confirmed by `tools/confirm_mutant.sh` (suite passes with the patch, demonstration fails with it and passes without) and then tried against the check with `VERIF_REPO=<worktree> bin/vcheck Cxx`. Where a check missed a change it was strengthened (generically, not for the one change) and re-run; both results are recorded. The authors of each property\'s check additionally tried their own list of mutations (section 8, "mutations").\n',
       'Round 1 (60 changes, three per property) was followed by a second round (three more per property, written by fresh sub-agents that were told what round 1 had done and asked for different, subtler slips). The second round exposed many more blind spots of the generators than the first -- unusual but legal features (quoted units, dice with units, superscript exponents, base-prefixed dice, raw strings), multi-step histories on one context (caches, custom units defined late), sizes beyond a threshold (1024-byte strings, 16-term chains, 32 groups, integers of several digit groups), extreme values of a host input (random source 0 / u32::MAX, exponents around 2^32, non-UTF-8 paths). Every miss was answered by a generic extension of the generator or by new model coverage (never by special-casing the seeded input), after which the change was re-tried; the table gives the first-trial result and the follow-up. The authors of the seeded changes also reported defects of the unchanged tree they noticed on the way (comma-style unit definitions, the superscript exponent swallowing the next character); these were reproduced, repaired by `fix:` commits and are listed in section 9. The follow-up work itself found further genuine defects of the unchanged tree (built-in constants lexed in the comma style: `e` = 2718281828459045235; a standard-library sort panic when printing a distribution with non-real outcomes, reached through a loaded image; equal non-real dice outcomes never merged; roots of scale-alias units over-marked as approximate), and running every thorough tier once at the end exposed one false alarm of a check (C17: strictly ascending printed labels demanded although distinct outcomes 5e-20 apart legitimately print alike), which was corrected as a false alarm, not listed as a finding. One seeded change (C15-r2m2) deletes functions that the `verif-hooks` accessors call: the hook build then fails and the check reports `check-infrastructure-failure ... no-failing-input-found` -- the property is no longer shown to hold -- while the behavioural part of the same change alone is reported with concrete failing inputs.\n',
       '| id | round | change | needs | result | caught by |', '|---|---|---|---|---|---|']
for m in seeded:
    v = m.get('verified_by_integrator', {})
    s11.append('| %s | %s | %s | %s | %s | %s |' % (m['_id'], m.get('round', 1), str(m.get('summary', '')).replace('|', '/')[:260], str(m.get('needs', '')).replace('|', '/')[:200], str(v.get('result', '')).replace('|', '/')[:260], str(v.get('how', '')).replace('|', '/')[:260]))
out.append('\n'.join(s11) + '\n\n---------------------------------------------------------------------------\n\n')
out.append(rd('design/12_tooling.md'))
out.append('---------------------------------------------------------------------------\n\n# Appendix R0. Round-0 prototype notes and proof plans (historical)\n\n')
out.append(rd('design/99_appendix_round0.md'))
open(os.path.join(ROOT, 'DESIGN.md'), 'w', encoding='utf-8').write(''.join(out))
print('DESIGN.md written:', sum(len(x) for x in out), 'bytes')
