#!/bin/sh
# MANIFEST.setup_cmd: build everything from files on disk, offline.
root="$(cd "$(dirname "$0")/.." && pwd)"
cd "$root"
export CARGO_NET_OFFLINE=true CARGO_TARGET_DIR="$root/.cache/target"
mkdir -p .cache
# 1. generated tables (translator, DESIGN 3.3) -- needs the harness
cargo build --offline --manifest-path harness/Cargo.toml --bins 2>&1 | tail -3
CARGO_TARGET_DIR="$root/.cache/target-plain" cargo build --offline --manifest-path harness_plain/Cargo.toml --bins 2>&1 | tail -1
CARGO_TARGET_DIR="$root/.cache/target-plain" cargo build --offline --release --manifest-path harness_plain/Cargo.toml --bins 2>&1 | tail -1
python3 tools/gen_tables.py || true
python3 tools/gen_builtin_names.py || true
# 2. the whole Coq development (full .vo build)
python3 tools/coqmake.py | grep -v 'Closed under the global context' | tail -40
# 3. extracted models
for f in coq/model_*.ml; do
  a="$(basename "$f" .ml)"; a="${a#model_}"
  tools/build_model.sh "$a"
done
echo setup-done
