#!/bin/sh
# usage: confirm_mutant.sh <seeded/ID dir>  -- integrator's own confirmation of a
# seeded change in a scratch worktree (outside /repo and /verif): (a) compiles,
# (b) the pinned suite passes with it, (c) the demo fails with it and passes
# without it.  Prints one summary line; details in <dir>/confirm.log
d="$(cd "$1" && pwd)"
id="$(basename "$d")"
wt="/tmp/confirm/$id"
rm -rf "$wt"; mkdir -p /tmp/confirm
git -C /repo worktree add -q --detach "$wt" HEAD || exit 2
cd "$wt"
export CARGO_TARGET_DIR="$wt/target" CARGO_NET_OFFLINE=true
log="$d/confirm.log"; : > "$log"
run_demo() {
  if [ -f "$d/demo.rs" ]; then
    cp "$d/demo.rs" core/tests/seeded_demo.rs
    timeout 900 cargo test --offline -p fend-core --test seeded_demo >> "$log" 2>&1; rc=$?
    rm -f core/tests/seeded_demo.rs
    return $rc
  elif [ -f "$d/demo.sh" ]; then
    timeout 900 sh "$d/demo.sh" "$wt" >> "$log" 2>&1
    return $?
  fi
  return 99
}
echo "== demo at HEAD" >> "$log"; run_demo; base=$?
git apply "$d/patch.diff" || { echo "$id: patch does not apply"; exit 2; }
echo "== suite with patch" >> "$log"
timeout 1800 cargo test --workspace --no-fail-fast --offline >> "$log" 2>&1; suite=$?
echo "== demo with patch" >> "$log"; run_demo; mut=$?
cd /; git -C /repo worktree remove --force "$wt"
echo "$id: demo_at_head_rc=$base suite_with_patch_rc=$suite demo_with_patch_rc=$mut" | tee -a "$log"
