"""C05 — dimensional analysis is sound: incompatible quantities never combine.
Proof: coq/Properties/C05.v (exponent bookkeeping of mul/div/pow, equal
dimensions for add/sub/convert, unitless requirement, soundness of whole
expression trees against the physics typing HasDim, at full strength since fend
commit 1210896; the refutation of the old reduce_hashmap is kept as documentation).
Tie: random unit-expression trees (depth <= 5) over the whole unit table:
fend_core::evaluate (numeric result vs `incompatible` error, base units as
printed by a failed conversion to the fresh base unit 'zz', exact value),
the hook's raw evaluator result against the extracted model's meval; spec =
dimension and value computed in python from each unit's base decomposition."""
import json, re
from fractions import Fraction
import vlib
from vlib import sx, Sym, parse_sx, try_parse
import units_common as U
from units_common import e_str
import c04 as C4

TRUSTED_BASE = [
    'Coq 8.16.1 kernel + vm_compute (C05_name_dimensions over the regenerated table; refutation witness)',
    'tools/gen_tables.py + ' + vlib.REPO + '/core/src/verif_hooks/units.rs (base-unit decomposition and scale of every name as the tree\'s own to_hashmap_and_scale computes them)',
    'hand-written model coq/Units/Algebra.v + Units/Dim.v (meval) tied to core/src/num/unit.rs by the differential run only',
    'python dimension/value calculus in gen/c05.py (the physics side: exponents add under * and /, scale under ^, must agree under + - to); parser of fend\'s base-unit error text',
    'extraction ExtrOcamlBasic -> OCaml, modelrun/driver.ml, cross-checked against vm_compute on a sample',
]
ASSUMPTIONS = [
    'exponents are rational literals; complex and irrational exponents are outside the model (stated in DESIGN)',
    'the numeric result of pure-number functions (ln ...) is not modelled: only their acceptance or rejection is compared',
]

TEMPS = ('celsius', 'fahrenheit', 'kelvin')


# ---------------------------------------------------------------------------
# trees: ('num', q) ('name', n) ('mul', a, b) ('div', a, b) ('pow', a, q) ('neg', a) ('add', a, b) ('sub', a, b) ('conv', a, b)

def render(t):
    k = t[0]
    if k == 'num':
        return C4.xlit(t[1])
    if k == 'name':
        # a quoted user base unit is only recognised after a number: (1 'm')
        return "(1 %s)" % t[1] if t[1].startswith("'") else '(%s)' % t[1]
    if k == 'neg':
        return '(-%s)' % render(t[1])
    if k == 'pow':
        return '(%s^%s)' % (render(t[1]), C4.xlit(t[2]))
    op = {'mul': '*', 'div': '/', 'add': '+', 'sub': '-', 'conv': 'to'}[k]
    return '(%s %s %s)' % (render(t[1]), op, render(t[2]))

def to_sx(t):
    k = t[0]
    if k == 'num':
        return [Sym('num'), [t[1].numerator, t[1].denominator]]
    if k == 'name':
        if t[1].startswith("'"):
            return [Sym('mul'), [Sym('num'), [1, 1]], [Sym('name'), e_str(t[1])]]
        return [Sym('name'), e_str(t[1])]
    if k == 'neg':
        return [Sym('neg'), to_sx(t[1])]
    if k == 'pow':
        return [Sym('pow'), to_sx(t[1]), [t[2].numerator, t[2].denominator]]
    return [Sym(k), to_sx(t[1]), to_sx(t[2])]

def size(t):
    return 1 + sum(size(x) for x in t[1:] if isinstance(x, tuple))

def names_of(t):
    if t[0] == 'name':
        return [t[1]]
    return [n for x in t[1:] if isinstance(x, tuple) for n in names_of(x)]


class Spec:
    """physics side: the value in base units and the raw (unrenamed) dimension"""
    def __init__(self, x, scale, pw, dims, exact=True):
        self.x, self.scale, self.pw, self.dims, self.exact = x, scale, pw, dims, exact   # quantity = x * scale * pi^pw

def reduce_dims(d):
    """celsius, fahrenheit -> kelvin (adding exponents); returns (dims, adj, offset, mixed)"""
    items = list(d.items())
    if len(items) == 1 and items[0] in (('celsius', 1), ('fahrenheit', 1)):
        adj, off = C4.T_OFF[items[0][0]]
        return {'kelvin': Fraction(1)}, adj, off, False
    out = {}
    adj = Fraction(1)
    ok = True
    for k, e in d.items():
        if k == 'fahrenheit':
            if e.denominator == 1:
                adj *= Fraction(5, 9) ** int(e)
            else:
                ok = False
        kk = 'kelvin' if k in ('celsius', 'fahrenheit') else k
        out[kk] = out.get(kk, 0) + e
    mixed = len([k for k in d if k in TEMPS]) > 1
    return {k: e for k, e in out.items() if e != 0}, (adj if ok else None), Fraction(0), mixed


class Incompatible(Exception):
    pass
class NeedsUnitless(Exception):
    pass
class OtherError(Exception):
    pass
class Mixed(Exception):
    """(unused since fend commit 1210896: maps holding two temperature bases are merged correctly)"""
    pass


def spec_eval(t, units):
    k = t[0]
    if k == 'num':
        return Spec(t[1], Fraction(1), 0, {})
    if k == 'name':
        u = units[t[1]]
        return Spec(Fraction(1), u.coef, 1 if u.pat == 'pi' else 0, dict(u.dims), u.exact)
    if k == 'neg':
        a = spec_eval(t[1], units)
        return Spec(None if a.x is None else -a.x, a.scale, a.pw, a.dims, a.exact)
    if k in ('mul', 'div'):
        a, b = spec_eval(t[1], units), spec_eval(t[2], units)
        sg = 1 if k == 'mul' else -1
        if k == 'div' and b.x == 0:
            raise OtherError('division by zero')
        d = dict(a.dims)
        for kk, e in b.dims.items():
            d[kk] = d.get(kk, 0) + sg * e
        d = {kk: e for kk, e in d.items() if e != 0}
        if sg == 1 and (a.x == 0 or b.x == 0):
            x = Fraction(0)
        elif sg == -1 and a.x == 0 and b.x is None:
            x = Fraction(0)
        elif None in (a.x, b.x):
            x = None
        else:
            x = a.x * b.x if sg == 1 else a.x / b.x
        if None in (a.scale, b.scale):
            sc = None
        else:
            sc = a.scale * b.scale if sg == 1 else a.scale / b.scale
        return Spec(x, sc, a.pw + sg * b.pw, d, a.exact and b.exact)
    if k == 'pow':
        a, q = spec_eval(t[1], units), t[2]
        if q.denominator != 1:
            # rational power: dimension is exact, the value in general irrational
            # a negative base gives a complex number (outside the model): value unknown
            if a.x == 0 and q < 0:
                raise OtherError('zero to a negative power')
            return Spec(a.x if a.x in (0, 1) else None, Fraction(1) if a.scale == 1 else None, 0,
                        {kk: e * q for kk, e in a.dims.items() if e * q != 0}, False)
        n = int(q)
        nd = {kk: e * q for kk, e in a.dims.items() if e * q != 0}
        if a.x is not None and a.x == 0 and n <= 0:
            raise OtherError('zero to a non-positive power')
        x = None if a.x is None else a.x ** n
        sc = None if a.scale is None else a.scale ** n
        return Spec(x, sc, a.pw * n, nd, a.exact and x is not None and sc is not None)
    if k in ('add', 'sub'):
        a, b = spec_eval(t[1], units), spec_eval(t[2], units)
        if b.x == 0:
            return a                       # adding a zero is the one permitted no-op
        da, adja, _, ma = reduce_dims(a.dims)
        db, adjb, _, mb = reduce_dims(b.dims)
        if da != db:
            raise Incompatible()
        if None in (a.x, b.x, a.scale, b.scale, adja, adjb) or a.pw != b.pw:
            return Spec(None, a.scale, a.pw, a.dims, False)
        bx = b.x * (b.scale * adjb) / (a.scale * adja)
        return Spec(a.x + bx if k == 'add' else a.x - bx, a.scale, a.pw, a.dims, a.exact and b.exact)
    if k == 'conv':
        a, b = spec_eval(t[1], units), spec_eval(t[2], units)
        if b.x is not None and b.x != 1:
            raise OtherError('right-hand side of unit conversion has a numerical value')
        da, adja, offa, ma = reduce_dims(a.dims)
        db, adjb, offb, mb = reduce_dims(b.dims)
        if da != db:
            raise Incompatible()
        if a.x == 0 and offa == offb:
            return Spec(Fraction(0), b.scale, b.pw, b.dims, a.exact and b.exact)
        if None in (a.x, a.scale, b.scale, adja, adjb) or (a.pw != b.pw):
            return Spec(None, b.scale, b.pw, b.dims, False)
        x = (a.x * a.scale * adja + offa - offb) / (b.scale * adjb)
        return Spec(x, b.scale, b.pw, b.dims, a.exact and b.exact)
    raise ValueError(k)


def base_value(s):
    """value of the quantity in the code's base units (temperatures by scale only)"""
    if s.x is None or s.scale is None or s.pw != 0:
        return None
    return s.x * s.scale


def parse_base_units(text):
    """'kilogram meter^2 / second^2' -> dims"""
    if text == 'unitless':
        return {}
    d = {}
    inv = False
    # exponents may be printed as mixed fractions with a space inside parentheses: m^(1 1/3)
    text = re.sub(r'\((\d+) (\d+/\d+)\)', r'(\1_\2)', text)
    for tok in text.split(' '):
        if tok == '/':
            inv = True
            continue
        if '^' in tok:
            n, e = tok.split('^', 1)
            neg = e.startswith('-')
            e = e.lstrip('-').replace('(', '').replace(')', '')
            ex = sum(Fraction(p) for p in e.split('_'))       # mixed fraction: 1_1/3
            if neg:
                ex = -ex
        else:
            n, ex = tok, Fraction(1)
        d[n] = -ex if inv else ex
        inv = False
    return d


# ---------------------------------------------------------------------------
# generator

class Gen:
    def __init__(self, c, units):
        self.r = c.rng
        self.units = units
        by = {}
        for u in units.values():
            if not u.mixes:
                by.setdefault(u.cls, []).append(u.name)
        self.by_class = by
        self.classes = [k for k, v in by.items() if len(v) >= 2]
        self.common = [n for n in ['m', 'km', 'inch', 'foot', 'mile', 's', 'minute', 'hour', 'kg', 'g', 'lb', 'N', 'J', 'W', 'Pa', 'K', 'celsius', 'fahrenheit',
                                   'kelvin', 'rankine', 'A', 'V', 'ohm', 'Hz', 'mol', 'cd', 'bit', 'byte', 'percent', 'dozen', 'degree', 'radian',
                                   'USD', 'EUR', 'liter', 'gallon', 'acre', 'mph', 'knot', 'kWh', 'cal', 'psi', 'bar', 'year', 'day'] if n in units]
        self.all = list(units)

    def num(self):
        r = self.r
        k = r.random()
        if k < 0.5:
            return ('num', Fraction(r.randint(1, 12)))
        if k < 0.7:
            return ('num', Fraction(r.randint(1, 99), r.choice([2, 3, 4, 5, 10, 100])))
        if k < 0.8:
            return ('num', Fraction(0))
        return ('num', Fraction(r.randint(1, 1000), r.randint(1, 50)))

    def name(self):
        r = self.r
        return ('name', r.choice(self.common) if r.random() < 0.6 else r.choice(self.all))

    def unit_expr(self, depth):
        """a unit expression without numbers (a conversion target)"""
        r = self.r
        if depth <= 0 or r.random() < 0.5:
            return self.name()
        k = r.random()
        if k < 0.4:
            return ('mul', self.unit_expr(depth - 1), self.unit_expr(depth - 1))
        if k < 0.8:
            return ('div', self.unit_expr(depth - 1), self.unit_expr(depth - 1))
        return ('pow', self.unit_expr(depth - 1), r.choice([Fraction(2), Fraction(3), Fraction(-1), Fraction(1, 2), Fraction(-2)]))

    def quantity(self, depth):
        r = self.r
        if depth <= 0:
            return ('mul', self.num(), self.name()) if r.random() < 0.8 else self.num()
        k = r.random()
        if k < 0.15:
            return ('mul', self.num(), self.name())
        if k < 0.3:
            return ('mul', self.quantity(depth - 1), self.quantity(depth - 1))
        if k < 0.45:
            return ('div', self.quantity(depth - 1), self.quantity(depth - 1))
        if k < 0.55:
            return ('pow', self.quantity(depth - 1), r.choice([Fraction(2), Fraction(3), Fraction(-1), Fraction(0), Fraction(1), Fraction(1, 2), Fraction(-2), Fraction(2, 3)]))
        if k < 0.6:
            return ('neg', self.quantity(depth - 1))
        a = self.quantity(depth - 1)
        if k < 0.85:
            b = self.like(a) if r.random() < 0.65 else self.quantity(depth - 1)
            return (r.choice(['add', 'sub']), a, b)
        b = (self.like_unit(a) if r.random() < 0.65 else None) or self.unit_expr(2)
        return ('conv', a, b)

    def swap(self, n):
        u = self.units.get(n)
        if u is None or u.mixes:
            return n
        return self.r.choice(self.by_class.get(u.cls, [n]))

    def like(self, t):
        """a tree of the same shape whose names are replaced by names of the same dimension class"""
        k = t[0]
        if k == 'num':
            return self.num() if self.r.random() < 0.7 else t
        if k == 'name':
            return ('name', self.swap(t[1]))
        if k == 'pow':
            return ('pow', self.like(t[1]), t[2])
        if k == 'neg':
            return ('neg', self.like(t[1]))
        if k in ('add', 'sub'):
            return self.like(t[1])
        if k == 'conv':
            return ('mul', self.num(), self.like_unit(t[2]) or self.name())
        return (k, self.like(t[1]), self.like(t[2]))

    def like_unit(self, t):
        """a number-free unit expression of the same dimension as t"""
        k = t[0]
        if k == 'num':
            return None
        if k == 'name':
            return ('name', self.swap(t[1]))
        if k == 'pow':
            x = self.like_unit(t[1])
            return None if x is None else ('pow', x, t[2])
        if k == 'neg':
            return self.like_unit(t[1])
        if k in ('add', 'sub'):
            return self.like_unit(t[1])
        if k == 'conv':
            return self.like_unit(t[2])
        a, b = self.like_unit(t[1]), self.like_unit(t[2])
        if a is None and b is None:
            return None
        if a is None:
            return b if k == 'mul' else ('pow', b, Fraction(-1))
        if b is None:
            return a
        return (k, a, b)


def l2(c, exprs):
    return C4.l2(c, exprs)


def classify_error(msg):
    if 'are incompatible' in msg:
        return 'incompatible'
    return 'other'


def check(c):
    try:
        _check(c)
        U.regression_witnesses(c)
    finally:
        c.repr_drift += U.DRIFT['pi_approximation_flagged_exact']
        if U.DRIFT['pi_approximation_flagged_exact']:
            c.notes.append('values flagged exact by fend although they hold its approximation of pi (flag dropped in to_hashmap_and_scale): %d' % U.DRIFT['pi_approximation_flagged_exact'])


def _check(c):
    r = c.rng
    c.rule = ('random unit-expression trees, depth <= 5, over every table name usable in an expression plus sampled prefixed names; operators * / ^(rational literal) unary- + - to; '
              'about 60% of additions/conversions are generated with an operand of the same dimension class (same shape, other units), the rest freely; '
              'per tree: evaluate (number vs `incompatible` error), `(T) to \'zz\'` (base units printed), exact value via division by the base units, raw result vs the extracted model; '
              'plus pure-number functions on dimensioned arguments and zero-addition; non-trivial = contains + - or to; distinct by expression text')
    t = U.table(c)
    if t is None:
        return
    ok = c.proof(['C05'], extra_targets=['Extract/XUnits.vo'])
    if c.tier == 'thorough' and ok:
        c.thorough_proof(['C05'])
    if not ok and c.proof_failed and c.proof_failed.get('stage') == 'make':
        diag = ('From FendV Require Import Base.Prelude Units.Defs Units.Algebra Units.Lookup Units.Index Units.Legality Units.Table.\n'
                'From FendV Require Import Units.Generated.UnitTable.\nDefinition mark (n : N) := n.\n'
                'Eval vm_compute in (mark 1, filter (fun n => negb (chk_reduced_agrees n)) all_names).\n')
        for thm, ents in U.diagnose(diag, {1: 'C05_name_dimensions'}, 'c05').items():
            for e in ents[:5]:
                c.violation('table-' + thm, {'kind': 'finite-obligation', 'theorem': thm, 'table_entry': e, 'all_failing': ents[:30]})

    units = C4.universe(c, t)
    # user base units written with quotes, spelled like built-in units: distinct base units
    QUOTED = ["'m'", "'s'", "'N'", "'kg'", "'K'", "'g'", "'J'", "'xyz'", "'USD'", "'percent'"]
    for qn in QUOTED:
        units[qn] = C4.Unit(qn, ({'prefix': '', 'sing': qn[1:-1], 'plur': qn[1:-1], 'alias': False, 'base': [(qn[1:-1], Fraction(1))], 'scale': ('s', Fraction(1))}, True))
    g = Gen(c, units)
    g.common += QUOTED[:6] * 2

    # ---- fixed corpus first
    N = lambda n: ('name', n)
    Q = lambda a, b=1: ('num', Fraction(a, b))
    corpus = [
        ('add', ('mul', Q(1), N('km')), ('mul', Q(1), N('s'))),
        ('add', ('mul', Q(1), N('km')), ('mul', Q(0), N('s'))),
        ('add', ('mul', Q(0), N('km')), ('mul', Q(1), N('s'))),
        ('add', ('mul', Q(3), N('km')), ('mul', Q(5), N('mile'))),
        ('sub', ('mul', Q(3), N('hour')), ('mul', Q(5), N('minute'))),
        ('conv', ('div', ('mul', Q(3), N('km')), ('mul', Q(2), N('s'))), N('mph')),
        ('conv', ('mul', Q(1), N('J')), ('div', ('mul', N('kg'), ('pow', N('m'), Fraction(2))), ('pow', N('s'), Fraction(2)))),
        ('conv', ('mul', Q(1), N('J')), ('div', N('kg'), N('s'))),
        ('add', ('mul', Q(10), N('celsius')), ('mul', Q(9), N('fahrenheit'))),
        ('conv', ('mul', Q(0), N('celsius')), N('fahrenheit')),
        ('conv', ('div', ('mul', Q(1), N('J')), N('celsius')), ('div', N('J'), N('K'))),
        ('add', ('mul', ('mul', Q(1), N('celsius')), N('kelvin')), ('mul', Q(1), N('kelvin'))),          # the known defect
        ('conv', ('mul', ('div', ('mul', Q(1), N('J')), ('mul', N('kg'), N('celsius'))), ('mul', N('K'), N('kg'))), N('J')),
        ('pow', ('mul', Q(4), N('m')), Fraction(1, 2)),
        ('pow', ('mul', Q(2), N('m')), Fraction(0)),
        ('mul', ('pow', ('mul', Q(2), N('m')), Fraction(-1)), ('mul', Q(3), N('m'))),
        ('add', ('mul', Q(1), N('percent')), Q(1)),
        ('add', Q(1), ('mul', Q(1), N('m'))),
        ('conv', ('mul', Q(1), N('km')), ('mul', Q(2), N('m'))),
        ('add', ('mul', Q(1), N('USD')), ('mul', Q(1), N('EUR'))),
        ('add', ('mul', Q(1), N('USD')), ('mul', Q(1), N('kg'))),
        ('add', ('mul', Q(1), N('degree')), ('mul', Q(1), N('radian'))),
        # units are what their base decomposition says, not how they are spelled
        ('add', ('mul', Q(2), N("'m'")), ('mul', Q(3), N('m'))),
        ('add', ('mul', Q(2), N("'m'")), ('mul', Q(3), N("'m'"))),
        ('conv', ('mul', Q(10), N('N')), N("'N'")),
        ('conv', ('mul', Q(10), N("'N'")), N('N')),
        ('sub', ('mul', Q(5), N('kg')), ('mul', Q(1), N("'kg'"))),
        ('div', ('mul', Q(6), N("'s'")), ('mul', Q(3), N('s'))),
        ('conv', ('mul', ('mul', Q(2), N("'m'")), N('s')), ('mul', N('m'), N("'s'"))),
        ('add', ('mul', Q(1), N('K')), ('mul', Q(1), N("'K'"))),
    ]
    trees = [x for x in corpus if all(n in units for n in names_of(x))]
    n_rand = 2500 if c.tier == 'quick' else 40000
    while len(trees) < len(corpus) + n_rand:
        x = g.quantity(r.choice([1, 2, 3, 3, 4, 4, 5]))
        if size(x) <= 60:
            trees.append(x)
    texts = [render(x) for x in trees]

    # ---- spec
    specs = []
    for x in trees:
        try:
            s = spec_eval(x, units)
            specs.append(('ok', s))
        except Incompatible:
            specs.append(('incompatible',))
        except Mixed:
            specs.append(('mixed',))
        except OtherError as e:
            specs.append(('other', str(e)))
        except (ZeroDivisionError, OverflowError) as e:
            specs.append(('other', repr(e)))

    # ---- L2: value or error; base units; exact value
    ev = l2(c, texts)
    zz = l2(c, ["(%s) to 'zz'" % s for s in texts])
    BASE = {'second', 'meter', 'kilogram', 'kelvin', 'ampere', 'mole', 'candela', 'neper', 'celsius', 'fahrenheit', 'bit', 'BASE_CURRENCY'}
    val_idx, val_lines = [], []
    for i, (sp, e) in enumerate(zip(specs, ev)):
        if sp[0] == 'ok' and e[0] == 'o' and sp[1].exact and base_value(sp[1]) is not None and set(sp[1].dims) <= BASE \
                and all(ex.denominator == 1 for ex in sp[1].dims.values()):
            den = ' '.join('%s^%d' % (k, int(ex)) for k, ex in sorted(sp[1].dims.items()))
            val_idx.append(i)
            val_lines.append('@noapprox ((%s / (1 %s)) to unitless) to fraction' % (texts[i], den) if den else '@noapprox (%s to unitless) to fraction' % texts[i])
    vals = dict(zip(val_idx, l2(c, val_lines)))
    c.dist['exact-value-checked'] = len(val_idx)
    nbad = 0
    known_mix = 0
    for i, (x, txt, sp, e, z) in enumerate(zip(trees, texts, specs, ev, zz)):
        kind = 'tree-' + sp[0]
        c.note_case(txt, any(op in txt for op in (' + ', ' - ', ' to ')), kind)
        rep = {'kind': 'impl-vs-spec', 'input': txt, 'impl': e, 'spec': sp[0]}
        bad = None
        if e[0] == 'crash':
            bad = dict(rep, what='crash')
        elif sp[0] == 'mixed':
            # the known class: the implementation depends on hash order here; physics decides what is right
            try:
                phys = phys_dims(x, units)
            except Incompatible:
                phys = 'incompatible'
            wrong = (phys == 'incompatible' and e[0] == 'o') or (phys != 'incompatible' and e[0] == 'e' and classify_error(e[1]) == 'incompatible')
            if wrong:
                known_mix += 1
                if not c.known_finding('temperature_mix_overwrite'):
                    bad = dict(rep, what='temperature bases mixed in one hash map: dimension check wrong', physics=str(phys))
            continue_checks = False
        elif sp[0] == 'incompatible':
            if not (e[0] == 'e' and classify_error(e[1]) == 'incompatible'):
                bad = dict(rep, what='dimensions differ but the result is not an `incompatible` error')
        elif sp[0] == 'other':
            if e[0] == 'e' and classify_error(e[1]) == 'incompatible':
                bad = dict(rep, what='`incompatible` error where the dimensions agree', spec_error=sp[1])
        else:
            s = sp[1]
            if e[0] == 'e':
                if classify_error(e[1]) == 'incompatible':
                    bad = dict(rep, what='`incompatible` error where the dimensions agree')
                # other errors (exponent too large, ...) are outside C05
            else:
                # dimension as printed by the failed conversion to 'zz'
                m = re.search(r"units '(.*)' and 'zz' are incompatible", z[1]) if z[0] == 'e' else None
                want, _, _, mixed = reduce_dims(s.dims)
                if m is None:
                    bad = dict(rep, what="conversion to a fresh base unit did not fail with a base-unit message", zz=z)
                else:
                    try:
                        got = parse_base_units(m.group(1))
                    except Exception:
                        got = None
                    if got != want:
                        bad = dict(rep, what='dimension of the result differs from physics' + (' (temperature bases mixed)' if mixed else ''),
                                   printed=m.group(1), want=U.dims_str(want))
                    if mixed:
                        known_mix += 1
                if bad is None and i in vals:
                    v = vals[i]
                    pn = C4.parse_num(v[1]) if v[0] == 'o' else None
                    if pn is None or pn[1] != '' or pn[0] != base_value(s):
                        bad = dict(rep, what='value in base units differs', value_query=val_lines[val_idx.index(i)], impl_value=v, want=str(base_value(s)))
        if bad and nbad < 25:
            nbad += 1
            c.violation('dimension-' + re.sub(r'[^a-z]+', '-', bad['what'])[:40], bad)
    c.extra['trees_mixing_temperature_bases'] = known_mix
    c.sample({'op': 'L2', 'input': texts[5], 'impl': ev[5], 'base_units': zz[5][1][-80:]})

    # ---- configurations: the dimension rules do not depend on the separator style or the C/F mode
    k_cfg = 500 if c.tier == 'quick' else 5000
    U.config_sweep(c, texts[:k_cfg] + ["(%s) to 'zz'" % s for s in texts[:k_cfg // 2]] + ['1.5 km + 2.5 s', '2.5 m + 1.5 cm', '(1.5 kg) * (2.5 m) to J', 'ln(2.5 m)'],
                   'dimension-check')

    # ---- L1: raw evaluator result vs the extracted model
    k = min(len(trees), 1200 if c.tier == 'quick' else 12000)
    idx = list(range(len(corpus))) + r.sample(range(len(corpus), len(trees)), k - len(corpus)) if len(trees) > k else list(range(len(trees)))
    idx = [i for i in idx if i < len(trees)]
    iraw = [U.i_lres(o) for o in c.impl('units', [sx([Sym('eval-expr'), U.CTX_DEFAULT, texts[i]]) for i in idx])]
    mo = c.model('units', [sx([Sym('meval'), 200, to_sx(trees[i])]) for i in idx])
    ndiff = 0
    for i, iv, o in zip(idx, iraw, mo):
        p = try_parse(o)
        if not (isinstance(p, list) and len(p) == 2):
            c.violation('model-bad-answer', {'kind': 'tie', 'input': texts[i], 'model': o[:300]}, no_input=True)
            continue
        res, _ = p
        if isinstance(res, list) and res and res[0] == b'ok':
            mv = ('ok', U.m_value(res[1]))
        elif isinstance(res, list) and res and res[0] == b'err':
            mv = ('err', res[1])
        else:
            mv = ('bad', res)
        if mv[0] == 'err' and mv[1] == 11:
            c.dist['model-outside-fragment'] = c.dist.get('model-outside-fragment', 0) + 1
            continue                      # irrational power: outside the modelled fragment
        if iv[0] == 'unsupported':
            c.dist['impl-complex-result'] = c.dist.get('impl-complex-result', 0) + 1
            continue
        c.dist['raw-result-compared'] = c.dist.get('raw-result-compared', 0) + 1
        if mv[0] == 'ok' and iv[0] == 'ok':
            same = U.value_same(mv[1], iv[1]) or (not mv[1]['exact'] and not iv[1]['exact'] and same_units(mv[1], iv[1]))
        elif mv[0] == 'err' and iv[0] == 'err':
            # error kind: EIncompatible (6) <-> IncompatibleConversion
            same = (mv[1] == 6) == (iv[1] == 'IncompatibleConversion')
        else:
            same = False
        if not same and ndiff < 15:
            ndiff += 1
            c.violation('meval-model-differs', {'kind': 'impl-vs-model', 'layer': 'L1 evaluate_to_value (hook eval_expr)', 'input': texts[i],
                                                'impl': repr(iv)[:500], 'model': repr(mv)[:500]}, no_input=True)

    # ---- pure-number functions reject dimensioned arguments; zero addition
    dimd = [(x, txt, sp[1]) for x, txt, sp in zip(trees, texts, specs)
            if sp[0] == 'ok' and reduce_dims(sp[1].dims)[0]][: (600 if c.tier == 'quick' else 6000)]
    dimd += [(None, '%s %s' % (C4.xlit(C4.rand_x(r) or Fraction(1)), u.name), None) for u in r.sample([u for u in units.values() if u.rdims and not u.name.startswith("'")], 150)]
    forms = ['ln(%s)', 'log2(%s)', 'log10(%s)', 'log(%s)', 'exp(%s)', '(%s) mod 7', '(%s) xor 3', '(%s) and 3', '(%s) or 3', '(%s)!', '(%s) nCr 2', '(%s) nPr 2',
             '5 nCr (%s)', '2^(%s)', '7 mod (%s)', 'fib(%s)', 'sin(%s)', 'cos(%s)', 'tan(%s)', 'asin(%s)', 'acos(%s)', 'atan(%s)', 'sinh(%s)', 'cosh(%s)',
             'tanh(%s)', 'asinh(%s)', 'acosh(%s)', 'atanh(%s)', 'arg(%s)', 'cis(%s)', '1 << (%s)', '(%s) >> 1']
    fl, fmeta = [], []
    for x, txt, s in dimd:
        f = r.choice(forms)
        fl.append(f % txt); fmeta.append(txt)
    fo = l2(c, fl)
    evd = dict(zip(texts, ev))
    for inp, txt, o in zip(fl, fmeta, fo):
        c.note_case(inp, True, 'pure-number-function')
        if txt in evd and evd[txt][0] != 'o':
            continue
        if o[0] != 'e':
            c.violation('dimensioned-argument-accepted', {'kind': 'impl-vs-spec', 'input': inp, 'impl': o})
    okt = [(txt, sp[1]) for txt, sp, e in zip(texts, specs, ev)
           if sp[0] == 'ok' and e[0] == 'o'][: (300 if c.tier == 'quick' else 3000)]
    other = ['kg', 's', 'K', 'USD', 'bit', 'm^2']
    za = l2(c, ['((%s) + (0 %s)) == (%s)' % (txt, r.choice(other), txt) for txt, s in okt])
    for (txt, s), o in zip(okt, za):
        c.note_case('zero+' + txt, True, 'zero-addition')
        if o != ('o', 'true'):
            c.violation('zero-addition-not-a-noop', {'kind': 'impl-vs-spec', 'input': '((%s) + (0 <unit>)) == (%s)' % (txt, txt), 'impl': o})

    # ---- pure-number functions of a dimensionless but SCALED argument use the scale
    import math
    def fib(n):
        a, b = 0, 1
        for _ in range(n):
            a, b = b, a + b
        return a
    small = [u for u in units.values() if not u.rdims and u.pat == 's' and u.exact and u.coef.denominator == 1 and 2 <= u.coef <= 20 and not u.name.startswith("'")]
    sc_cases = []
    for u in small:
        n = int(u.coef)
        sc_cases += [('fib(1 %s)' % u.name, fib(n)), ('(1 %s)!' % u.name, math.factorial(n)), ('2^(1 %s)' % u.name, 2 ** n), ('(1 %s) mod 7' % u.name, n % 7),
                     ('(1 %s) nCr 2' % u.name, n * (n - 1) // 2), ('(2 %s) nPr 1' % u.name, 2 * n), ('(1 %s) xor 1' % u.name, n ^ 1), ('100 mod (1 %s)' % u.name, 100 % n)]
    sc_cases += [('sin(90 degrees)', 1), ('cos(1 turn)', 1), ('sin(30 degrees) * 2', 1), ('fib(50 percent * 20)', 55), ('(300 percent)!', 6)]
    so = l2(c, ['(%s) == %d' % (e, v) for e, v in sc_cases])
    for (e, v), o in zip(sc_cases, so):
        c.note_case('scaled-arg:' + e, True, 'pure-number-function-scaled-argument')
        if o != ('o', 'true'):
            c.violation('pure-number-function-ignores-scale', {'kind': 'impl-vs-spec', 'input': '(%s) == %d' % (e, v), 'impl': o})

    # ---- a zero that permits adding across dimensions must be a one-point exact zero:
    #      dice expressions (distributions) with units obey the dimension rule like everything else
    dice = ['(d6 - 1)', '(d4 - d4)', '(2d6 - 2)', '((d6 - 1) * 0 + (d2 - 1))', '(d10 - 1)', 'd6']
    cl = [us for us in g.by_class.values() if us]
    dc = []
    for _ in range(150 if c.tier == 'quick' else 1500):
        ca, cb = r.sample(cl, 2)
        A, B, A2 = r.choice(ca), r.choice(cb), r.choice(ca)
        if any(n.startswith("'") for n in (A, B, A2)):
            continue
        d = r.choice(dice)
        op = r.choice(['+', '-'])
        dc.append(('(%s %s) %s (%s %s)' % (C4.xlit(C4.rand_x(r) or Fraction(1)), A, op, d, B), 'e'))
        dc.append(('(%s %s) %s (%s %s)' % (C4.xlit(C4.rand_x(r) or Fraction(1)), A, op, d, A2), 'o'))
        dc.append(('(%s %s) to %s' % (d, A, B), 'e'))
    dc += [('4 m + (d6 - 1) kg', 'e'), ('4 m + (d6 - 1) cm', 'o'), ('(d6 - 1) kg + 4 m', 'e'), ('4 m - (d6 - 1) s', 'e')]
    do = l2(c, [e for e, w in dc])
    for (e, w), o in zip(dc, do):
        c.note_case('dice:' + e, True, 'dice-with-units')
        good = (o[0] == 'e' and classify_error(o[1]) == 'incompatible') if w == 'e' else (o[0] == 'o')
        if not good:
            c.violation('dice-dimension', {'kind': 'impl-vs-spec', 'input': e, 'impl': (o[0], o[1][:200]), 'want': 'incompatible error' if w == 'e' else 'a value'})

    # ---- regression witnesses of the repaired defect temperature_mix_overwrite (fend commit 1210896),
    #      repeated because the old behaviour depended on the hash order of the run
    wit = ['(1 celsius kelvin) + (1 kelvin)', '(1 J/(kg celsius)) * (1 K) * (1 kg) to J', '1 celsius^2 kelvin^3 to kelvin^5',
           '1 celsius^2 kelvin^3 to kelvin^2', '((9 fahrenheit)^2 * (1 K)) == ((9 fahrenheit)^2 * (1 K))', '(1 celsius / kelvin) to unitless']
    want = ['e', ('o', '1 J'), ('o', '1 kelvin^5'), 'e', ('o', 'true'), ('o', '1')]
    for rep in range(4):
        pr = l2(c, wit)
        for inp, w, got in zip(wit, want, pr):
            c.note_case('witness:' + inp, True, 'regression-witness')
            good = (got[0] == 'e' and 'incompatible' in got[1]) if w == 'e' else got == w
            if not good and not c.known_finding('temperature_mix_overwrite'):
                c.violation('temperature-mix', {'kind': 'impl-vs-spec', 'input': inp, 'impl': got, 'want': w})


def same_units(a, b):
    return len(a['units']) == len(b['units']) and all(U.named_same(u, w, False) and e == f for (u, e), (w, f) in zip(a['units'], b['units']))


def phys_dims(t, units):
    """physics dimension (temperature bases identified), no overwrite; raises Incompatible"""
    k = t[0]
    red = lambda d: {kk: e for kk, e in reduce_dims(d)[0].items()}
    if k == 'num':
        return {}
    if k == 'name':
        return red(units[t[1]].dims)
    if k == 'neg':
        return phys_dims(t[1], units)
    if k == 'pow':
        return {kk: e * t[2] for kk, e in phys_dims(t[1], units).items() if e * t[2] != 0}
    a, b = phys_dims(t[1], units), phys_dims(t[2], units)
    if k in ('mul', 'div'):
        sg = 1 if k == 'mul' else -1
        d = dict(a)
        for kk, e in b.items():
            d[kk] = d.get(kk, 0) + sg * e
        return {kk: e for kk, e in d.items() if e != 0}
    if k in ('add', 'sub'):
        try:
            if spec_eval(t[2], units).x == 0:
                return a
        except Exception:
            pass
        if a != b:
            raise Incompatible()
        return a
    if a != b:
        raise Incompatible()
    return b


def replay(c, obj):
    print(json.dumps(obj, indent=1, ensure_ascii=False))
    if 'input' in obj:
        print('evaluate      :', l2(c, [obj['input']])[0])
        print("to 'zz'       :", l2(c, ["(%s) to 'zz'" % obj['input']])[0])
    return 0
