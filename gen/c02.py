"""C02 — numeric literals and exact renderings round-trip in every base and style.
Proof: coq/Properties/C02.v.  Tie: L1 hooks (Value::format on raw sign/num/den,
BigUint::format on raw limbs, the lexer's first number token) against the
model coq/Fmt/{Format,Lex}.v; L2 `X to base B to <style>` through
fend_core::evaluate and re-evaluation of the printed text.  Spec: exact
rational arithmetic (fmtlib.render: Python Fraction, written from the property
statement) and the Coq notation definitions lit_value / read_rendering run
through the extracted model."""
import json
from fractions import Fraction
from math import gcd
import vlib
from vlib import sx, Sym, parse_sx, try_parse, cps
import fmtlib as F

TRUSTED_BASE = [
    'Coq 8.16.1 kernel + vm_compute (finite sweeps: digit characters 0..35, bases 2..36 for the u128 grouping bound)',
    'extraction ExtrOcamlBasic -> OCaml 4.13.1, modelrun/driver.ml (byte <-> N conversion only); cross-checked against vm_compute on a sample',
    'harness/src/bin/h_fmt.rs and ' + vlib.REPO + '/core/src/verif_hooks/fmt.rs (builds a Value through the crate codec, calls Value::format / BigUint::format / lexer::lex / evaluate)',
    'hand-written models coq/Fmt/Format.v, coq/Fmt/Lex.v tied to core/src/num/{biguint,bigrat,base,formatting_style,real,complex,unit}.rs and core/src/lexer.rs only by this differential run',
    'big integers are taken at value level (Coq N); limb arithmetic is C01; u64 Display of Rust std is modelled as plain decimal',
    'gen/fmtlib.py reference renderer (Python int/Fraction) for the digit-for-digit clause',
]
ASSUMPTIONS = [
    'values are real, unitless, pi-free rationals (term = "", no parentheses); complex/unit/pi decorations are not modelled',
    'dice literals and superscript exponents are outside the literal grammar (model answers ModelUnmodelled; generators avoid them)',
    'Brent run of the model gets fuel 3*den+8 (capped): theorems hold for any fuel on which the run returns Ok',
]

ALL_BASES = [(5, b) for b in range(2, 37)]
PREFIX_BASES = [(1, 2), (2, 8), (3, 16)] + [(4, b) for b in (2, 3, 7, 10, 12, 16, 20, 36)]


def gen_fmt_cases(c):
    """(x_neg, num, den, vexact, bk, style, comma, kind)"""
    r = c.rng
    quick = c.tier == 'quick'
    out = []
    qmax = 24 if quick else 64
    exact_styles = ['float', 'exact', 'fraction', 'mixed_fraction', 'auto']
    # --- exhaustive small fractions: every p/q, q <= qmax, 0 <= p <= q, plus improper ones
    k = 0
    for bk in ALL_BASES:
        for q in range(1, qmax + 1):
            ps = list(range(0, q + 1)) + [q + 1, 2 * q + 1, 7 * q + 3, q * bk[1] + 1]
            for p in ps:
                if quick:
                    sts = ['float', exact_styles[k % 5]]
                    commas = [k % 7 == 0]
                else:
                    sts = exact_styles
                    commas = [False, True]
                k += 1
                for st in dict.fromkeys(sts):
                    for comma in commas:
                        out.append((k % 3 == 0 and p != 0, p, q, True, bk, st, comma, 'small-exhaustive'))
    # --- prefixed bases on a sample of the same grid
    for bk in PREFIX_BASES:
        for q in range(1, (12 if quick else 40) + 1):
            for p in (1, q - 1 if q > 1 else 1, q + 1, 3 * q + 2):
                for st in exact_styles:
                    out.append((r.random() < 0.3, p, q, True, bk, st, r.random() < 0.3, 'prefixed-base'))
    # --- random big numerators, structured denominators
    n_big = 700 if quick else 12000
    for _ in range(n_big):
        bk = r.choice(ALL_BASES + PREFIX_BASES)
        b = F.base_val(bk)
        kind = r.choice(['bigint', 'terminating', 'longperiod', 'mixedpre', 'random'])
        p = r.randrange(1, 10 ** r.choice([3, 19, 20, 39, 40, 60]))
        if kind == 'bigint':
            q = 1
            p = r.choice([p, b ** r.randrange(1, 70) + r.choice([-1, 0, 1]), 2 ** 64 + r.choice([-1, 0, 1]),
                          2 ** 128 + r.choice([-1, 0, 1]), (b ** r.randrange(20, 40)) * r.randrange(1, b)])
        elif kind == 'terminating':
            q = 1
            for f in F.prime_factors(b):
                q *= f ** r.randrange(0, 12)
            q = max(q, 2)
        elif kind == 'longperiod':
            lp = F.long_period_primes(b, 7, r.choice([60, 200, 400 if quick else 1500]), 3)
            q = r.choice(lp) if lp else 7
        elif kind == 'mixedpre':
            lp = F.long_period_primes(b, 3, 60, 6)
            q = (r.choice(lp) if lp else 7) * r.choice(F.prime_factors(b)) ** r.randrange(1, 6)
        else:
            q = r.randrange(2, 2000)
        st = r.choice(exact_styles)
        out.append((r.random() < 0.4, p, q, True, bk, st, r.random() < 0.3, kind))
    # --- boundary corpus
    for bk in [(5, 10), (5, 2), (5, 16), (5, 36), (3, 16), (4, 36)]:
        for (p, q) in [(0, 1), (0, 5), (1, 1), (10, 10), (6, 4), (1, 2 ** 64), (2 ** 64, 3), (2 ** 64 - 1, 2 ** 64),
                       (10 ** 38, 10 ** 38 + 1), (1, 3 * 2 ** 20), (1, 7), (1, 97), (22, 7), (355, 113)]:
            for st in exact_styles:
                if q > 10 ** 6 and st == 'float' and not F.terminates(q // gcd(p, q), F.base_val(bk)):
                    continue        # astronomically long period: fend (and the model) would run for ever
                out.append((True, p, q, True, bk, st, False, 'boundary'))
                out.append((False, p, q, False, bk, st, True, 'boundary-inexact-input'))
    return out


def check_fmt(c):
    cases = gen_fmt_cases(c)
    # every 11th case hands the numbers over as non-canonical `Large` vectors (a leading zero limb): same value, same text
    lines = [F.fmt_rat_line(neg, p, q, vex, bk, st, comma, lead=(1 if i % 11 == 5 else 0))
             for i, (neg, p, q, vex, bk, st, comma, kind) in enumerate(cases)]
    impl = c.impl('fmt', lines)
    model = c.model('fmt', lines)
    read_lines, read_idx = [], []
    for i, (neg, p, q, vex, bk, st, comma, kind) in enumerate(cases):
        x = Fraction(-p if neg else p, q)
        key = 'f:%s:%d/%d:%s:%s:%d:%d' % ('-' if neg else '', p, q, bk, st, comma, vex)
        c.note_case(key, q > 1 or p >= bk[1], kind + ':' + F.style_text(st))
        want_t, want_ex = F.render(x, st, bk, comma, vex)
        want = F.shown(want_t, want_ex)
        got = F.res_text(impl[i])
        if got != ('ok', want):
            c.violation('rendering-not-canonical', {'kind': 'impl-vs-spec', 'op': 'fmt-rat', 'line': lines[i], 'x': str(x),
                                                    'base': bk, 'style': F.style_text(st), 'comma': comma,
                                                    'impl': got, 'expected': want})
            continue
        if impl[i] != model[i]:
            c.violation('fmt-rat-model-differs', {'kind': 'impl-vs-model', 'op': 'fmt-rat', 'line': lines[i],
                                                  'impl': impl[i], 'model': model[i]}, no_input=True)
        if want_ex:
            read_lines.append(sx([Sym('read'), int(comma), bk[0], bk[1], cps(got[1])]))
            read_idx.append(i)
    # the Coq reader (notation definition) applied to the implementation's exact renderings
    rd = c.model('fmt', read_lines)
    for i, o in zip(read_idx, rd):
        neg, p, q, vex, bk, st, comma, kind = cases[i]
        x = Fraction(-p if neg else p, q)
        po = try_parse(o)
        if not (isinstance(po, list) and po[0] == b'some' and F.q_of(po[1]) == x):
            c.violation('rendering-does-not-read-back', {'kind': 'impl-vs-spec', 'op': 'read', 'line': lines[i], 'x': str(x),
                                                         'impl_text': F.res_text(impl[i]), 'read': o})
    c.sample({'op': 'fmt-rat', 'line': lines[len(lines) // 2], 'impl': impl[len(lines) // 2]})


# ---------------------------------------------------------------------------
def gen_int_cases(c):
    r = c.rng
    out = []
    n = 500 if c.tier == 'quick' else 8000
    bks = ALL_BASES + PREFIX_BASES
    for bk in bks:
        b = F.base_val(bk)
        # group size: largest k with b^k < u128::MAX / b ... probe around the divisor
        k = 1
        while b ** k < (2 ** 128 - 1) // b:
            k += 1
        for v in [0, 1, b - 1, b, b ** k - 1, b ** k, b ** k + 1, b ** (2 * k), b ** (2 * k) - 1, b ** (2 * k) + b ** k,
                  b ** (k + 1), 2 ** 64 - 1, 2 ** 64, 2 ** 128 - 1, 2 ** 128, (b ** k) * (b - 1), b ** (3 * k) + 1]:
            out.append((v, 0, bk, r.random() < 0.5, None, 'int-boundary'))
    for _ in range(n):
        bk = r.choice(bks)
        b = F.base_val(bk)
        v = r.choice([r.randrange(0, 2 ** r.choice([8, 63, 64, 65, 127, 128, 129, 300, 700])),
                      b ** r.randrange(0, 80) * r.randrange(1, b ** 3)])
        sf = r.choice([None, None, 1, 2, 3, 5, 20, 38, 39, 40, 100])
        lead = r.choice([0, 0, 0, 1, 2])
        out.append((v, lead, bk, r.random() < 0.5, sf, 'int-random' if sf is None else 'int-sf'))
    return out


def check_int(c):
    cases = gen_int_cases(c)
    lines = []
    for (v, lead, bk, wp, sf, kind) in cases:
        l = F.limbs(v) + [0] * lead
        lines.append(sx([Sym('fmt-int'), l, int(lead > 0 or len(l) > 1), bk[0], bk[1], int(wp), int(sf is not None), sf or 0]))
    impl = c.impl('fmt', lines)
    model = c.model('fmt', lines)
    for i, (v, lead, bk, wp, sf, kind) in enumerate(cases):
        b = F.base_val(bk)
        c.note_case('i:%d:%s:%s:%s:%d' % (v, bk, wp, sf, lead), v >= b, kind)
        ds = F.int_digits(v, b)
        ex = True
        if sf is not None and v != 0:
            sh = ds[:sf] + '0' * max(0, len(ds) - sf)
            ex = sh == ds
            ds = sh
        want = sx([b'ok', cps((F.prefix(bk) if wp else '') + ds), int(ex), len(ds)])
        if impl[i] != want:
            c.violation('integer-digits-wrong', {'kind': 'impl-vs-spec', 'op': 'fmt-int', 'line': lines[i], 'value': str(v),
                                                 'impl': impl[i], 'expected': want})
        elif impl[i] != model[i]:
            c.violation('fmt-int-model-differs', {'kind': 'impl-vs-model', 'op': 'fmt-int', 'line': lines[i],
                                                  'impl': impl[i], 'model': model[i]}, no_input=True)


# ---------------------------------------------------------------------------
# literals

def gen_drun(r, b, n, seps, upper_ok=True):
    ds = [[r.randrange(0, b), int(upper_ok and r.random() < 0.3)]]
    for _ in range(n - 1):
        s = r.choice([0, 0, 0, 1, 2]) if seps else 0
        ds.append([s, r.randrange(0, b), int(upper_ok and r.random() < 0.3)])
    return ds


def gen_lit(r, big=False):
    bk = r.choice([(5, 10)] * 6 + [(1, 2), (2, 8), (3, 16)] + [(4, r.randrange(2, 37)) for _ in range(4)])
    b = F.base_val(bk)
    ln = lambda: r.choice([1, 1, 2, 3, 5, 9, 20, 41 if big else 12])
    seps = r.random() < 0.4
    has_int = r.random() < 0.92
    fk = r.choice(['n', 'n', 'f', 'f', 'fr', 'r'])
    if not has_int and fk == 'n':
        fk = 'f'
    i = [gen_drun(r, b, ln(), seps)] if has_int else []
    if fk == 'n':
        f = []
    elif fk == 'f':
        f = ['f', gen_drun(r, b, ln(), seps)]
    elif fk == 'fr':
        f = ['f', gen_drun(r, b, ln(), seps), gen_drun(r, b, r.choice([1, 2, 3, 6]), seps)]
    else:
        f = ['r', gen_drun(r, b, r.choice([1, 2, 3, 6]), seps)]
    e = []
    if b <= 10 and r.random() < 0.35:
        e = [int(r.random() < 0.3), r.choice([0, 1, 2]), gen_drun(r, b, r.choice([1, 1, 2]), False, False)]
    # a literal without prefix is only a number token if it starts with a digit 0-9 or the point: always true in base 10
    return [bk[0], bk[1], i, f, e]


FOLLOWS = ['', ' ', ' + 1', ')', '*2', ' kg', '/3', '^2', '!', ' to float', ';', '=', '%']

MALFORM = ['_', ',', '.', '(', ')', 'e', 'E', '+', '-', '#', 'g', 'z', '9', '0', '1', 'x', ' ', '__', '..', '()', '(1', 'e+', 'e-', '1.', '0x', '37#', '1#']


def huge_exponent(t):
    import re
    return any(len(m.group(1).replace('_', '').replace(',', '').replace('.', '')) > 3 for m in re.finditer(r'[eE][+-]?([0-9_,.]+)', t))


def check_lex(c):
    r = c.rng
    n = 1500 if c.tier == 'quick' else 25000
    lits = [gen_lit(r, big=(k % 9 == 0)) for k in range(n)]
    for comma in (0, 1):
        ll = [sx([Sym('lit'), comma] + l) for l in lits]
        spec = c.model('fmt', ll)
        texts, vals, oks = [], [], []
        for o in spec:
            p = parse_sx(o)
            oks.append(p[0] == 1)
            texts.append(F.txt(p[1]))
            vals.append(F.q_of(p[2]))
        inputs = []
        for k, t in enumerate(texts):
            fo = FOLLOWS[k % len(FOLLOWS)]
            inputs.append((t, fo))
        lines = [sx([Sym('lex'), comma, cps(t + fo)]) for (t, fo) in inputs]
        frest = [sx([Sym('lex'), comma, cps('0' + (fo if fo[:1] in (' ', '') else ' ' + fo))]) for (t, fo) in inputs]
        impl = c.impl('fmt', lines)
        implrest = c.impl('fmt', frest)
        model = c.model('fmt', lines)
        for k, (t, fo) in enumerate(inputs):
            lit = lits[k]
            if not oks[k]:
                c.notes.append('generator produced an ill-formed literal: %r' % (lit,))
                continue
            c.note_case('l:%d:%s%s' % (comma, t, fo), len(t) > 1, 'literal:' + ('int' if not lit[3] else lit[3][0] + ('r' if len(lit[3]) > 2 else '')) + (':exp' if lit[4] else '') + (':b%d' % lit[1] if lit[0] != 5 else ''))
            pi = try_parse(impl[k])
            ok = False
            if isinstance(pi, list) and pi[0] == b'ok' and pi[1] and pi[1][0][0] == b'num':
                raw = pi[1][0][1]
                v = Fraction(-F.unlimbs(raw[1]) if raw[0] else F.unlimbs(raw[1]), F.unlimbs(raw[2]))
                pr = try_parse(implrest[k])
                ok = (v == vals[k] and raw[3] == 1 and raw[5] == lit[1] and (raw[4] == lit[0])
                      and isinstance(pr, list) and pr[0] == b'ok' and pr[1][1:] == pi[1][1:])
            if not ok:
                c.violation('literal-value-wrong', {'kind': 'impl-vs-spec', 'op': 'lex', 'text': t, 'follow': fo, 'comma': comma,
                                                    'lit': lit, 'impl': impl[k], 'expected_value': str(vals[k])})
                continue
            pm = try_parse(model[k])
            if not (isinstance(pm, list) and pm[0] == b'ok' and F.q_of(pm[1]) == vals[k] and pm[2] == lit[0] and pm[3] == lit[1]
                    and F.txt(pm[4]) == fo):
                c.violation('lex-model-differs', {'kind': 'impl-vs-model', 'op': 'lex', 'text': t + fo, 'impl': impl[k], 'model': model[k]},
                            no_input=True)
        # ---- malformed stream: correspondence only (value, consumed length, error kind)
        mal = []
        for k in range(0, len(texts), 6 if c.tier == 'quick' else 3):
            t = texts[k]
            how = r.randrange(5)
            m = r.choice(MALFORM)
            if how == 0:
                t2 = t + m
            elif how == 1:
                pos = r.randrange(0, len(t) + 1)
                t2 = t[:pos] + m + t[pos:]
            elif how == 2:
                t2 = t[:r.randrange(0, len(t))]
            elif how == 3:
                pos = r.randrange(0, len(t))
                t2 = t[:pos] + m + t[pos + 1:]
            else:
                t2 = m + t
            t2 = t2.lstrip(' ')       # the lexer skips leading white space before any token
            if huge_exponent(t2):
                continue            # 10^(10^20): fend (and the model) would compute for ever
            if t2[:1] and not any(ord(ch) > 127 for ch in t2):
                mal.append(t2)
        mal += ['1.', '1.(', '1.(3', '0x', '1__0', '1_', '_1', '1,', '1e', '1e+', '1e5', '1E-2', '6#3e9', '0b1e5', '10#12', '1#5', '37#1', '36#zz',
                '012', '0.', '.5', '.(3)', '5.e3', '1.5.3', '1(3)', '1.2(3)(4)', '3.5(0)', '1e18446744073709551616', '1e-18446744073709551616',
                '1e18446744073709551615x'[:-1] if False else '2#1e1', '0o8', '0b2', '0xg', '0x.8', '16#.8', '9#8.8(8)', '1.(a)', '1.( 3)', '1.(3a)', '1e0', '1e-0',
                '0e5', '00', '0_0', '1_e5', '1e_5', '1e5_', '1.5e', '1.e', '11#1e5', '15#1e5', '1d', '1e', '1.0(0)']
        ml = [sx([Sym('lex'), comma, cps(t)]) for t in mal]
        impl = c.impl('fmt', ml)
        model = c.model('fmt', ml)
        rest_lines, rest_idx = [], []
        pms = []
        for k, t in enumerate(mal):
            pi, pm = try_parse(impl[k]), try_parse(model[k])
            pms.append(pm)
            c.note_case('m:%d:%s' % (comma, t), True, 'malformed-or-boundary')
            if not isinstance(pi, list) or not isinstance(pm, list):
                c.violation('lex-crash', {'kind': 'impl-crash', 'op': 'lex', 'text': t, 'impl': impl[k], 'model': model[k]})
                continue
            if pm[0] == b'err' and pm[1] == b'ModelUnmodelled':
                continue
            if pm[0] == b'notnum':
                first = (pi[1] if pi[0] == b'ok' else pi[2])[:1]
                if first and first[0][0] == b'num':
                    c.violation('lex-token-kind-differs', {'kind': 'impl-vs-model', 'op': 'lex', 'text': t, 'comma': comma, 'impl': impl[k], 'model': model[k]}, no_input=True)
                continue
            if pm[0] == b'err':
                if not (pi[0] == b'err' and pi[1] == pm[1] and pi[2] == []):
                    c.violation('lex-error-kind-differs', {'kind': 'impl-vs-model', 'op': 'lex', 'text': t, 'comma': comma, 'impl': impl[k], 'model': model[k]}, no_input=True)
                continue
            first = pi[1][0] if (pi[0] in (b'ok', b'err') and len(pi) > 1 and pi[-1]) else None
            if pi[0] == b'err' and len(pi) == 3:
                first = pi[2][0] if pi[2] else None
            if not (first and first[0] == b'num'):
                c.violation('lex-number-missing', {'kind': 'impl-vs-model', 'op': 'lex', 'text': t, 'comma': comma, 'impl': impl[k], 'model': model[k]}, no_input=True)
                continue
            raw = first[1]
            v = Fraction(-F.unlimbs(raw[1]) if raw[0] else F.unlimbs(raw[1]), F.unlimbs(raw[2]))
            if not (v == F.q_of(pm[1]) and raw[4] == pm[2] and raw[5] == pm[3]):
                c.violation('lex-value-differs', {'kind': 'impl-vs-model', 'op': 'lex', 'text': t, 'comma': comma, 'impl': impl[k], 'model': model[k]}, no_input=True)
                continue
            rest_lines.append(sx([Sym('lex'), comma, cps('0 ' + F.txt(pm[4]))]))
            rest_idx.append(k)
        rr = c.impl('fmt', rest_lines)
        for k, o in zip(rest_idx, rr):
            pi, pr = try_parse(impl[k]), try_parse(o)
            ti = (pi[0], pi[1][1:]) if pi[0] == b'ok' else (pi[0], pi[1], pi[2][1:])
            tr = (pr[0], pr[1][1:]) if pr[0] == b'ok' else (pr[0], pr[1], pr[2][1:])
            if ti != tr:
                c.violation('lex-consumed-length-differs', {'kind': 'impl-vs-model', 'op': 'lex', 'text': mal[k], 'comma': comma,
                                                            'impl': impl[k], 'model': model[k], 'impl_on_model_rest': o}, no_input=True)
    c.sample({'op': 'lex', 'text': texts[7], 'value': str(vals[7])})


# ---------------------------------------------------------------------------
# L2: through evaluate, and back

def check_l2(c):
    r = c.rng
    n = 500 if c.tier == 'quick' else 6000
    cases = []
    styles = ['float', 'exact', 'fraction', 'mixed_fraction']
    for k in range(n):
        b = r.choice(list(range(2, 37)))
        q = r.choice([r.randrange(1, 40), r.randrange(1, 400), b ** r.randrange(1, 5), r.choice(F.long_period_primes(b, 3, 120, 4) or [7])])
        p = r.choice([r.randrange(0, 4 * q + 1), r.randrange(0, 10 ** 25)])
        neg = r.random() < 0.35 and p != 0
        st = styles[k % 4]
        comma = k % 5 == 0
        cases.append((neg, p, q, b, st, comma))
    def lit(p, q, comma):
        return '(%d/%d)' % (p, q)
    lines = []
    for (neg, p, q, b, st, comma) in cases:
        e = '%s%s to base %d to %s' % ('-' if neg else '', lit(p, q, comma), b, st)
        lines.append(sx([Sym('eval'), int(comma), cps(e)]))
    impl = c.impl('fmt', lines)
    back_lines, back_idx = [], []
    for i, (neg, p, q, b, st, comma) in enumerate(cases):
        x = Fraction(-p if neg else p, q)
        c.note_case('e:%s:%d:%s:%d' % (x, b, st, comma), x.denominator > 1, 'L2:' + st)
        want_t, want_ex = F.render(x, st, (5, b), comma, True)
        got = F.res_text(impl[i])
        if got != ('ok', F.shown(want_t, want_ex)):
            c.violation('L2-rendering-wrong', {'kind': 'impl-vs-spec', 'op': 'eval', 'expr': F.txt(parse_sx(lines[i])[2]), 'impl': got,
                                               'expected': F.shown(want_t, want_ex)})
            continue
        back = '(%s) to base 10 to fraction' % F.prefixed(got[1], (5, b))
        back_lines.append(sx([Sym('eval'), int(comma), cps(back)]))
        back_idx.append(i)
    bo = c.impl('fmt', back_lines)
    for i, o, bl in zip(back_idx, bo, back_lines):
        neg, p, q, b, st, comma = cases[i]
        x = Fraction(-p if neg else p, q)
        want = ('-' if x < 0 else '') + (str(abs(x.numerator)) if x.denominator == 1 else '%d/%d' % (abs(x.numerator), x.denominator))
        got = F.res_text(o)
        if got != ('ok', want):
            c.violation('L2-reparse-differs', {'kind': 'impl-vs-spec', 'op': 'eval', 'first': F.txt(parse_sx(lines[i])[2]),
                                               'printed': F.res_text(impl[i]), 'reparse_expr': F.txt(parse_sx(bl)[2]), 'impl': got, 'expected': want})
    # separator swap at L2: the comma-style output is the dot-style output with '.' and ',' exchanged
    sw = []
    for (neg, p, q, b, st, comma) in cases[:200]:
        e = '%s(%d/%d) to base %d to %s' % ('-' if neg else '', p, q, b, st)
        sw.append(sx([Sym('eval'), 0, cps(e)]))
        sw.append(sx([Sym('eval'), 1, cps(e)]))
    so = c.impl('fmt', sw)
    tr = str.maketrans('.,', ',.')
    for j in range(0, len(so), 2):
        a, b2 = F.res_text(so[j]), F.res_text(so[j + 1])
        if a[0] != 'ok' or b2[0] != 'ok' or a[1].translate(tr) != b2[1]:
            c.violation('separator-swap', {'kind': 'impl-vs-spec', 'op': 'eval', 'expr': F.txt(parse_sx(sw[j])[2]), 'dot': a, 'comma': b2})
    c.sample({'op': 'eval', 'expr': F.txt(parse_sx(lines[3])[2]), 'impl': F.res_text(impl[3])})


def check(c):
    c.rule = ('L1 fmt-rat: every p/q, q<=24 (thorough 64), 0<=p<=q plus improper, every base 2..36, styles float/exact/fraction/mixed/auto, both separators; '
              'prefixed bases; random p to 10^60 over terminating / long-period / mixed denominators; L1 fmt-int: limb vectors around b^rounds, 2^64, 2^128, '
              'sf limits, leading zero limbs; L1 lex: literals from the show_lit grammar (separators, case, fraction, recurring, exponent, all prefixes) with follow '
              'strings, plus a malformed stream; L2: (p/q) to base B to style, reparse with prefix restored. non-trivial = not a single digit; distinct by case key')
    c.proof(['C02'], extra_targets=['Extract/XFmt.vo'])
    if c.tier == 'thorough':
        c.thorough_proof(['C02'])
    check_fmt(c)
    check_int(c)
    check_lex(c)
    check_l2(c)
    if c.tier == 'thorough':
        c.exhaustive = True
        c.extra['exhaustive_scope'] = 'every p/q with q <= 64, 0 <= p <= q (plus 4 improper p per q), every base 2..36, 5 styles, both separators, through Value::format'


def replay(c, obj):
    print(json.dumps(obj, indent=1, default=str))
    if 'line' in obj:
        print('impl :', c.impl('fmt', [obj['line']])[0])
        print('model:', c.model('fmt', [obj['line']], cross=False)[0])
    elif 'text' in obj:
        line = sx([Sym('lex'), int(obj.get('comma', 0)), cps(obj['text'] + obj.get('follow', ''))])
        print('impl :', c.impl('fmt', [line])[0])
        print('model:', c.model('fmt', [line], cross=False)[0])
    elif 'expr' in obj:
        line = sx([Sym('eval'), int(obj.get('comma', 0)), cps(obj['expr'])])
        print('impl :', c.impl('fmt', [line])[0])
    return 0
