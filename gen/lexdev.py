#!/usr/bin/env python3
"""development driver for gen/lexcheck.py (not a registered property):
   python3 gen/lexdev.py [parts...] [--tier thorough] [--noproof]
runs lexcheck.run on a scratch Check object (prop id C96: writes no evidence)."""
import os, sys, json, time
sys.path.insert(0, os.path.dirname(os.path.abspath(__file__)))
import vlib, lexcheck

def main():
    args = sys.argv[1:]
    tier = 'thorough' if '--tier' in args and args[args.index('--tier') + 1] == 'thorough' else 'quick'
    parts = tuple(a for a in args if a in ('tie', 'tables', 'print')) or ('tie', 'tables', 'print')
    seed = int(os.environ.get('VERIF_SEED', '1') or 1)
    c = vlib.Check('C96', tier, seed)
    t0 = time.time()
    if '--noproof' not in args:
        ok = c.proof(['C06Lex', 'C08Lex'], extra_targets=['Extract/XLex.vo'])
        print('proof:', ok, c.proof_failed, 'theorems', len(c.theorems), 'discharged', c.discharged)
        for n, a in c.axioms.items():
            if a:
                print('  axioms', n, a)
    lexcheck.run(c, parts)
    print('time %.1fs evaluations %d nontrivial %d vm_cross %d' % (time.time() - t0, c.evaluations, len(c.nontrivial), c.vm_cross))
    print('dist', json.dumps(c.dist, sort_keys=True))
    print('extra', json.dumps(c.extra))
    print('notes', c.notes[:5])
    for name, path, no_input in c.violations[:40]:
        print('VIOLATION', name, path, 'no-input' if no_input else '')
    print('violations:', len(c.violations))
    return 1 if c.violations or c.proof_failed else 0

if __name__ == '__main__':
    sys.exit(main())
