"""Lexer extension of C06 (no input can crash fend) and C08 (operator precedence).

Proofs: coq/Properties/C06Lex.v, coq/Properties/C08Lex.v over the model
coq/Lex/Lexer.v (core/src/lexer.rs: next_token, the iterator state machine,
skip_whitespace_and_comments, parse_ident, parse_symbol, parse_quote_unit, raw
strings, parse_date's scanning, parse_string_literal; parse_number, Date::parse
and non-ASCII is_alphabetic are oracles).

run(c, parts=...) is called from gen/c06.py and gen/c08.py.  It does not call
c.proof: add 'C06Lex' / 'C08Lex' to the caller's c.proof([...]) list and
'Extract/XLex.vo' to its extra_targets.

parts:
 'tie'    impl token trace (tokens, payload text, remaining byte length after
          every token, error variant) vs the extracted model, with the oracle
          tables taken from the implementation for the very input; spec on the
          impl alone: no panic/abort, strictly decreasing remaining length at
          char boundaries, parse_number contract (rest is a proper suffix).
          inputs: (a) suite + manual corpus, (b) token soup with random
          spacing in both separator styles, (c) adversarial UTF-8 at every
          slice site, (d) every prefix of a sample.
 'tables' char::is_whitespace (all scalars), ASCII is_alphabetic,
          is_ascii_whitespace, len_utf8, str::split_at vs the model's
          definitions (exhaustive below U+3100 and at every UTF-8 length edge).
 'print'  C08_lex_print: random token lists of the printed class with random
          spellings/spacing; the Coq side-condition [items_ok] is evaluated by
          the extracted model; whenever it holds the real lexer must return
          exactly the tokens (impl vs spec), and the model lexer too.
"""
import re, hashlib
from vlib import sx, Sym, parse_sx, try_parse, cps
import corpus

TRUSTED_BASE_LEX = [
    'coq/Lex/Lexer.v is a hand-written model of core/src/lexer.rs on code-point lists with byte offsets; tied to the code only by the differential run of gen/lexcheck.py',
    'Lex/Utf8Bridge.v relates the code-point split_at to the byte-level str::split_at model of Crash/Utf8.v; that str::find / match_indices / char_indices / chars return what the model says is Rust std semantics (checked on every run for split_at, len_utf8, is_whitespace only)',
    'oracles: parse_number, Date::parse, non-ASCII char::is_alphabetic (tables read from the implementation per input; hook verif_hooks::lex::oracle); the contract "parse_number returns a proper suffix" is validated on every table entry',
    'hooks: /repo/core/src/verif_hooks/lex.rs, and two cfg(verif-hooks) accessors appended to core/src/lexer.rs (Lexer::verif_remaining, verif_parse_number)',
]

# ---------------------------------------------------------------------------
# inputs

MB = ['é', 'ß', '€', '𝕊', '×', '✕', '÷', '∕', '−', '≠', 'λ', 'π', '′', '″', '’', '”', '%', '‰', '‱', '°', '℃', '£', '¥', '$', '½', '㎏', '﷼',
      '\u00a0', '\u2028', '\u3000', '\u0085', '\u1680', '\u200b', '\ufeff', '\U0010ffff', '\u0080', '\u07ff', '\u0800', '\uffff', '\U00010000',
      '²', '⁹', 'ŀ', 'Ā', '\u0301', '中', 'م', '\u0000', '\u007f', 'ǅ', 'ª', 'ⅷ', '٣']

LEXTOK = ['0', '1', '7', '12', '1.5', '.5', '1,5', ',5', '1e3', '1e', '1e+', '0x1f', '0b', '16#ff', '1.(3)', '1.0(3', '1_000', '1_', 'd6', '2d6', 'd', 'dd6', '1d', '6#3e9', '2²', '2⁰¹',
          'x', 'y', 'kg', 'foo', 'x_1', 'k9', "x'", 'x"', 'a.b', 'a.5', 'x.', '$5', '$x', '£3', '%', '%%', '%x', 'π', 'πr', '2π', '°', '°C', '½', '_', ',', 'é', 'naïve', '中文',
          'to', 'as', 'in', 'per', 'of', 'mod', 'xor', 'XOR', 'and', 'AND', 'or', 'OR', 'nCr', 'choose', 'nPr', 'permute', 'tox', 'modx', 'Mod', 'Xor',
          '(', ')', '+', '-', '−', '*', '×', '✕', '**', '×*', '/', '÷', '∕', '^', '&', '|', ':', '=', '=>', '==', '===', '!', '!=', '≠', '<', '<<', '<>', '<=', '>', '>>', '>=', ';',
          '\\', 'λ', '.', '..', '[', ']', '{', '}', '~', '`', '?', '#', '##', '# ', '#!', '# c\n', '#!c\n', '# é\n', '#"', '"#', '#"raw"#', '#"é"#', '#""#', '#"a"b"#', '#"\n"#',
          '"', "'", '""', "''", '"a"', "'a'", '"é"', "'€'", '"a\'b"', "'a\"b'", '"\\n"', '"\\\\"', '"\\""', "'\\''", '"\\a\\b\\e\\f\\r\\t\\v"', '"\\x41"', '"\\x7f"', '"\\x80"', '"\\x4"', '"\\x"',
          '"\\xé1"', '"\\x4é"', '"\\u{41}"', '"\\u{e9}"', '"\\u{10ffff}"', '"\\u{110000}"', '"\\u{d800}"', '"\\u{}"', '"\\u{"', '"\\u"', '"\\u41"', '"\\u{4g}"', '"\\u{0000000041}"',
          '"\\u{ffffffff}"', '"\\u{é}"', '"\\z  a"', '"\\z\n\t a"', '"\\z\u00a0a"', '"\\z\x0ba"', '"\\z"', '"\\^A"', '"\\^?"', '"\\^>"', '"\\^`"', '"\\^["', '"\\^~"', '"\\x77"', '"\\x78"', '"\\x7g"', '"\\x0a"', '"\\^@"', '"\\^_"', '"\\^a"', '"\\^ŀ"', '"\\^é"', '"\\^"', '"\\q"', '"\\é"', '"\\',
          '@', '@1', '@2020', '@2020-', '@2020-01', '@2020-01-', '@2020-01-02', '@2020-13-02', '@2020-01-021', '@0999-01-01', '@2020-1-2', '@20200102', '@x', '@é', '@-', '@2020-01-02x', '@2020-01-02-03',
          "5'", '5"', "5'x", '5"x', "5'é", "5 'é", "5''", "5'1", "5'x'", "5'x.y", "5'λ", "5'%", "to 'x", "to'x'", "in \"x\"", "5 '", "5'€", "5'x€y", "5'ǅ", "5'ª",
          ' ', '  ', '\t', '\n', '\r\n', '\u00a0', '\u2028', '\u3000', '\u0085', '\u200b', '\x0b', '\x0c', '\x1c', '\x1f']

# every character the lexer names in is_valid_in_ident (fixed copies: a change of
# the Rust lists must show up as a difference, so they are not read from /repo)
ALLOWED_CPS = [44, 95, 8539, 188, 8540, 189, 8541, 190, 8542, 8537, 8531, 8532, 8538, 8533, 8534, 8535, 8536, 176, 36, 8451, 8457, 8487, 8456, 8485, 8468, 162, 163, 165,
               8364, 8361, 8362, 8356, 8360, 3647, 8353, 8355, 8358, 8359, 8363, 8365, 8366, 8367, 8369, 65020, 65129, 65504, 65505, 65509, 65510] + \
              [c for c in range(13169, 13278) if c not in (13173, 13175, 13176, 13177, 13178, 13179, 13180, 13181, 13182, 13183, 13250, 13255, 13259, 13261, 13262, 13265, 13266, 13272, 13274)]
SPECIAL_CPS = [37, 8240, 8241, 8242, 8243, 8217, 8221, 960, 955, 46, 39, 34] + list(range(48, 58))
NEIGHBOUR_CPS = [13168, 13173, 13175, 13183, 13250, 13255, 13259, 13261, 13262, 13265, 13266, 13272, 13274, 13278, 8530, 8543, 8450, 8452, 65019, 65021, 187, 191, 161, 164, 166, 175, 177]
IDENT_TEMPLATES = ['%s', 'a%s', '%sa', '%s1', '1%s', '%s%s', "a'%s", '%s.5', '$%s', '%s%%', '%%%s', "5'a%s"]


def ident_family():
    out = []
    for cp in ALLOWED_CPS + SPECIAL_CPS + NEIGHBOUR_CPS:
        ch = chr(cp)
        for t in IDENT_TEMPLATES:
            out.append(t.replace('%%', '\0').replace('%s', ch).replace('\0', '%'))
    return out


ADV_TEMPLATES = [
    # after # and inside comments
    '#%s', '# %s', '#!%s', '# a%s\n%s1', '#%s\n', '# \n%s', '#\n', '# %s',
    # raw strings
    '#"%s', '#"%s"#', '#"a"%s#', '#"%s"#%s', '#"a"#%s', '"#%s', '%s"#', '#"%s"', '#"%s#"',
    # dates
    '@%s', '@1%s', '@2020%s', '@2020-%s', '@2020-01%s', '@2020-01-%s', '@2020-01-02%s', '@%s2020-01-02', '@2020%s01-02',
    # string literals
    '"%s', '"%s"', "'%s'", '"a%s', '"\\%s', '"\\%s"', '"\\x%s', '"\\x%s1"', '"\\x4%s"', '"\\u%s', '"\\u{%s', '"\\u{4%s}"', '"\\u{%s}"', '"\\^%s', '"\\^%s"', '"\\z%s"', '"\\z %s "',
    '"%s\\', '"a"%s', "'%s", '"%s\'', "'%s\"", '"\\z%s', '"\\u{41%s',
    # quote units (after a number / after to)
    "5'%s", "5\"%s", "5'a%s", "5'%sa", "5'%s%s", "1 to '%s", "5' %s", "5'a%s.b", "5'%s'", "5%s'a", "5 %s'",
    # lambda / backslash state
    '\\%s', '\\%s.%s', '\\x.%s', 'λ%s', 'λ%s.1', '\\.%s', '\\%s.5', '\\ .5', '\\x .5', '\\x.5', '\\a.b.c', '\\a.b c.d', '\\,5',
    # identifiers
    'a%sb', '%sa', 'a%s', '%s%s', '%s1', '%s.', '%s.5', 'a.%s', "a'%s", 'a"%s', '$%s', '%s$', 'a_%s', '%s_', '%s,', ',%s',
    # symbols
    '%s=', '=%s', '!%s', '!=%s', '*%s', '*%s*', '<%s', '<%s<', '>%s', '>%s>', '=%s>', '=%s=', '×%s*', '(%s)', '%s+%s', '1%s2', '1 %s 2', '<', '>', '<=', '<%s>',
    # numbers next to multi-byte characters
    '1%s', '%s1', '.%s', ',%s', 'd%s', 'd6%s', '1e%s', '1.%s', '0x%s', '1%s.5', '2%s²',
    '%s',
]


def adversarial(r, n):
    out = []
    for t in ADV_TEMPLATES:
        k = t.count('%s')
        for m in MB:
            out.append(t % ((m,) * k) if k else t)
        if k == 0:
            continue
    # two different characters in two-slot templates, random
    two = [t for t in ADV_TEMPLATES if t.count('%s') == 2]
    for _ in range(n):
        t = r.choice(two)
        out.append(t % (r.choice(MB), r.choice(MB)))
    # templates joined
    for _ in range(n):
        a, b = r.choice(ADV_TEMPLATES), r.choice(ADV_TEMPLATES)
        s = (a % ((r.choice(MB),) * a.count('%s'))) + r.choice(['', ' ', '\n']) + (b % ((r.choice(MB),) * b.count('%s')))
        out.append(s)
    seen = set()
    res = []
    for s in out:
        if s not in seen:
            seen.add(s); res.append(s)
    return res


SPACERS = ['', '', '', ' ', ' ', ' ', '  ', '\t', '\n', '\u00a0', '\u3000', ' # c\n', '#!x\n', '# é']


def soup(r, n):
    toks = LEXTOK + corpus.TOKENS + MB
    out = []
    for _ in range(n):
        ln = r.choice([1, 2, 2, 3, 3, 4, 5, 6, 8, 12])
        out.append(''.join(r.choice(toks) + r.choice(SPACERS) for _ in range(ln)))
    return out


def heavy(t):
    """inputs on which parse_number starts a value-proportional computation
    (huge exponents): resource exhaustion is C07's subject, not the lexer's"""
    return re.search(r'[0-9][eE][+-]?[0-9]{4,}', t) is not None or re.search(r'[0-9]{1,}[⁰¹²³⁴⁵⁶⁷⁸⁹]{3,}', t) is not None \
        or re.search(r'd[0-9]{6,}', t) is not None or re.search(r'[0-9]{3,}d[0-9]', t) is not None


# ---------------------------------------------------------------------------
# comparison

def short(p):
    """payloads (Debug renderings of numbers / dates / errors) are opaque to the
    model: long ones are replaced by a prefix and a digest on both sides"""
    if isinstance(p, bytes) and len(p) > 160:
        return p[:60] + b'#' + hashlib.sha1(p).hexdigest().encode()
    return p


def short_oracle(o):
    return [o[0], [[e[0], e[1], short(e[2]), e[3]] for e in o[1]], [[e[0], e[1], short(e[2])] for e in o[2]]]


def short_tok(t):
    if isinstance(t, list) and len(t) == 2 and t[0] in (b'n', b'd'):
        return [t[0], short(t[1])]
    return t


def trace_line(t, comma):
    return sx([Sym('trace'), cps(t), 1 if comma else 0])


def oracle_line(t, comma):
    return sx([Sym('oracle'), cps(t), 1 if comma else 0])


def model_line(t, comma, orc):
    return sx([Sym('lex'), 1 if comma else 0, cps(t), orc[0], orc[1], orc[2]])


def crashed(o):
    return o.startswith('("panic"') or o.startswith('("abort"') or o.startswith('("panic-at"')


def hung(o):
    return o.startswith('("hang"')


def contract_ok(orc):
    """parse_number's contract on every table entry: Ok => rest is a proper
    suffix of the input at a char boundary (the hook tests suffix/boundary and
    reports not-a-suffix otherwise), at least one character consumed"""
    for e in orc[1]:
        if e[1] == b'ok':
            if e[3] < 1 or e[3] > e[0]:
                return False, e
        elif e[1] != b'err':
            return False, e
    return True, None


def compare(c, kind, text, comma, ti, orc, mo):
    """decision table for one input; returns True when everything agrees"""
    rep = {'kind': kind, 'text': text, 'cps': cps(text)[:400], 'comma': comma, 'impl': ti[:3000], 'model': (mo or '')[:3000]}
    if crashed(ti):
        # a crash of the lexer itself: C06 violation with a concrete input
        c.violation('lexer-crash', dict(rep, what='impl-vs-spec: the real lexer panicked/aborted'))
        return False
    if hung(ti):
        c.note_case('lexhang:' + text, False, 'lex-hang(resource)')
        return True
    p = try_parse(ti)
    if not (isinstance(p, list) and len(p) == 2 and isinstance(p[0], list) and isinstance(p[1], list)):
        c.violation('lexer-trace-unreadable', rep, no_input=True)
        return False
    status, items = p
    # spec on the implementation alone: progress at char boundaries
    prev = len(text.encode('utf-8'))
    for it in items:
        if not (isinstance(it, list) and len(it) == 3):
            c.violation('lexer-trace-unreadable', rep, no_input=True)
            return False
        if it[2] != 1 or not (it[1] < prev):
            c.violation('lexer-no-progress-or-bad-boundary', dict(rep, what='impl-vs-spec: remaining input must shrink at a char boundary after every token'))
            return False
        prev = it[1]
    if mo is None:
        return True
    m = try_parse(mo)
    if not (isinstance(m, list) and len(m) == 2):
        c.violation('lex-model-output-unreadable', rep, no_input=True)
        return False
    mstatus, mitems = m
    if mstatus and mstatus[0] == b'panic':
        c.violation('lex-model-panics', dict(rep, what='the model reaches a Panic site although the implementation does not crash (model drift or broken oracle contract)'), no_input=True)
        return False
    if mstatus == [b'oracle-missing']:
        c.violation('lex-oracle-table-gap', dict(rep, what='the model asked an oracle question the hook did not answer: model and implementation dispatch differently'), no_input=True)
        return False
    itoks = [[short_tok(it[0]), it[1]] for it in items]
    if itoks != mitems:
        k = 0
        while k < len(itoks) and k < len(mitems) and itoks[k] == mitems[k]:
            k += 1
        c.violation('lex-tokens-differ', dict(rep, first_difference=k, impl_tok=repr(itoks[k:k + 1]), model_tok=repr(mitems[k:k + 1])), no_input=True)
        return False
    ok = False
    if status == [b'ok']:
        ok = mstatus == [b'ok']
    elif status and status[0] == b'err':
        if mstatus and mstatus[0] == b'err' and len(mstatus) >= 2 and mstatus[1] == b'oracle':
            ok = mstatus[2] == short(status[1])
        elif mstatus and mstatus[0] == b'err':
            ok = mstatus[1:] == status[2:]
    if not ok:
        c.violation('lex-status-differs', dict(rep, impl_status=repr(status), model_status=repr(mstatus)), no_input=True)
        return False
    return True


def classify(text, status_ok, ntok):
    if not status_ok:
        return 'lexerr'
    return 'ok-%s' % ('0' if ntok == 0 else '1-2' if ntok <= 2 else '3-9' if ntok <= 9 else '10+')


def run_tie(c, cases):
    """cases: list of (kind, text, comma)"""
    tl = [trace_line(t, cm) for _, t, cm in cases]
    ol = [oracle_line(t, cm) for _, t, cm in cases]
    timp = c.impl('lex', tl)
    oimp = c.impl('lex', ol)
    mlines, midx, orcs = [], [], {}
    skipped = 0
    for i, (kind, t, cm) in enumerate(cases):
        o = try_parse(oimp[i])
        if not (isinstance(o, list) and len(o) == 3):
            # the oracle hook evaluates parse_number at positions the lexer may
            # never visit; a failure there is not a lexer failure
            skipped += 1
            continue
        good, ent = contract_ok(o)
        if not good:
            c.violation('parse-number-contract', {'kind': kind, 'text': t, 'comma': cm, 'entry': repr(ent),
                                                  'what': 'parse_number returned Ok with a rest that is not a proper suffix at a char boundary: the hypothesis num_contract of C06_lex_no_panic fails'})
            continue
        o = short_oracle(o)
        orcs[i] = o
        mlines.append(model_line(t, cm, o))
        midx.append(i)
    mouts = c.model('lex', mlines)
    mo_of = dict(zip(midx, mouts))
    agree = 0
    for i, (kind, t, cm) in enumerate(cases):
        good = compare(c, kind, t, cm, timp[i], orcs.get(i), mo_of.get(i))
        p = try_parse(timp[i])
        if good and isinstance(p, list) and len(p) == 2:
            agree += 1
            st_ok = p[0] == [b'ok']
            ntok = len(p[1])
            c.note_case('lex:%d:%s' % (cm, t), ntok >= 2 or not st_ok, kind + ':' + classify(t, st_ok, ntok))
    c.extra['lex_oracle_unavailable'] = c.extra.get('lex_oracle_unavailable', 0) + skipped
    c.extra['lex_cases_agreeing'] = c.extra.get('lex_cases_agreeing', 0) + agree
    if midx:
        j = midx[-1]
        c.sample({'op': 'lex', 'text': cases[j][1], 'comma': cases[j][2], 'impl': timp[j][:300], 'model': mo_of[j][:300]})


def part_tie(c):
    r = c.rng
    quick = c.tier == 'quick'
    base = corpus.suite_inputs() + corpus.manual_examples()
    base = [t for t in base if not heavy(t)]
    cases = []
    for t in base:
        cases.append(('corpus', t, False))
    for t in r.sample(base, min(len(base), 300 if quick else len(base))):
        cases.append(('corpus', t, True))
    for t in soup(r, 2500 if quick else 25000):
        if not heavy(t):
            cases.append(('soup', t, r.random() < 0.35))
    for t in LEXTOK + MB:
        cases.append(('alphabet', t, False))
        cases.append(('alphabet', t, True))
    for t in ident_family():
        cases.append(('ident-chars', t, False))
    for t in adversarial(r, 600 if quick else 8000):
        if not heavy(t):
            cases.append(('adversarial', t, r.random() < 0.25))
    # every prefix (by character) of a sample
    pool = [t for k, t, _ in cases if k in ('corpus', 'adversarial', 'soup') and 2 <= len(t) <= 60]
    for t in r.sample(pool, min(len(pool), 120 if quick else 1000)):
        cm = r.random() < 0.2
        for k in range(len(t)):
            cases.append(('prefix', t[:k], cm))
    seen = set()
    uniq = []
    for k, t, cm in cases:
        if (t, cm) not in seen:
            seen.add((t, cm)); uniq.append((k, t, cm))
    c.extra['lex_tie_cases'] = len(uniq)
    run_tie(c, uniq)


# ---------------------------------------------------------------------------
# tables

def part_tables(c):
    o = try_parse(c.impl('lex', [sx([Sym('class-tables')])], timeout=60)[0])
    if not (isinstance(o, list) and len(o) == 3):
        c.violation('lex-class-tables-unavailable', {'impl': repr(o)[:500]}, no_input=True)
        return
    ws, alpha, aws = set(o[0]), set(o[1]), set(o[2])
    pts = list(range(0, 0x3100)) + sorted(ws) + [0xd7ff, 0xe000, 0xfffd, 0xffff, 0x10000, 0x10ffff, 0x1d54a, 0xfeff]
    chunks = [pts[i:i + 512] for i in range(0, len(pts), 512)]
    outs = c.model('lex', [sx([Sym('classes'), ch]) for ch in chunks], cross=False)
    lens = c.impl('lex', [sx([Sym('len-utf8'), [p for p in ch if not 0xd800 <= p <= 0xdfff]]) for ch in chunks])
    bad = 0
    for ch, mo, lo in zip(chunks, outs, lens):
        m = try_parse(mo)
        lo = try_parse(lo)
        sc = [p for p in ch if not 0xd800 <= p <= 0xdfff]
        if not (isinstance(m, list) and len(m) == len(ch) and isinstance(lo, list) and len(lo) == len(sc)):
            c.violation('lex-classes-unreadable', {'model': mo[:300]}, no_input=True)
            return
        lmap = dict(zip(sc, lo))
        for p, row in zip(ch, m):
            exp = [1 if p in ws else 0, 1 if p in aws else 0, 1 if p in alpha else 0]
            if row[:3] != exp or (p in lmap and row[3] != lmap[p]) or row[5] != (0 if 0xd800 <= p <= 0xdfff else 1):
                bad += 1
                c.violation('lex-char-class-differs', {'codepoint': p, 'model [ws,asciiws,asciialpha,len,hex,scalar]': row,
                                                       'impl [ws,asciiws,asciialpha]': exp, 'impl_len': lmap.get(p)}, no_input=True)
                if bad > 5:
                    return
            c.note_case('cls:%d' % p, False, 'char-class')
    c.extra['lex_whitespace_scalars'] = len(ws)
    # split_at: code-point model vs byte-level model vs str::split_at
    r = c.rng
    strs = ['', 'a', 'é', '€', '𝕊', 'aé', 'éa', 'a€b', '𝕊𝕊', 'é€𝕊a', '\u07ff\u0800', '\uffff\U00010000', '\u007f\u0080']
    for _ in range(60 if c.tier == 'quick' else 600):
        strs.append(''.join(r.choice(MB + ['a', 'b', '1']) for _ in range(r.randrange(1, 6))))
    lines, il = [], []
    for s in strs:
        n = len(s.encode('utf-8'))
        for mid in range(0, n + 2):
            lines.append(sx([Sym('split-at'), cps(s), mid]))
    mo = c.model('lex', lines)
    io = c.impl('lex', lines)
    for ln, m, i in zip(lines, mo, io):
        pm, pi = try_parse(m), try_parse(i)
        good = isinstance(pm, list) and len(pm) == 2
        if good:
            cp, by = pm
            if cp[0] == b'ok':
                good = by == cp and pi == cp
            else:
                good = cp[0] == b'panic' and by[0] == b'panic' and isinstance(pi, list) and pi[0] == b'panic'
        if not good:
            c.violation('lex-split-at-differs', {'line': ln[:500], 'model (code points, bytes)': m[:500], 'impl': i[:500]}, no_input=True)
            return
        c.note_case('split:' + ln, False, 'split-at')


# ---------------------------------------------------------------------------
# printed class (C08_lex_print)

SPELL = {0: ['('], 1: [')'], 2: ['+'], 3: ['-', '−'], 4: ['*', '×', '✕'], 5: ['/', '÷', '∕', 'per'], 6: ['mod'], 7: ['^', '**', '×*', '✕*'],
         8: ['&', 'and', 'AND'], 9: ['|', 'or', 'OR'], 10: ['xor', 'XOR'], 11: ['to', 'as', 'in'], 12: ['!'], 13: [':', '=>'], 16: ['of'],
         17: ['<<'], 18: ['>>'], 19: [';'], 20: ['='], 21: ['=='], 22: ['!=', '<>', '≠'], 23: ['nCr', 'choose'], 24: ['nPr', 'permute']}
P_NUMS = ['0', '1', '2', '7', '10', '12', '1.5', '0x1f', '1e3', '6#100', '0.(3)', '1,000', '2.5e-3', 'd6', '0b101', '.5', '3d6', '1_0']
P_IDS_GOOD = ['x', 'y', 'a', 'b', 'foo', 'kg', 'm', 's', 'pi', 'e', 'i', 'sin', 'light', 'k9', 'x_1', 'sqrt', '%', '$', '°', 'lightyear', 'ans', '_', 'é', "x'", 'a.b',
              'tox', 'd', 'dx', 'π', '£', '中', 'a中', 'Xor', 'naïve', '‰', '½', '㎏', 'x"', 'k.9']
P_IDS_WILD = ['πr', 'd6', '2x', 'mod', 'to', ',x', '.x', 'x.', '\u00a0x', 'λ', '£5', '$5', "x'y", '%x', 'x%', '′', 'x′', 'x×', '#x', '@x', "'x", '"x', 'XOR', 'x y', 'x+', '']


def gen_items(r, wild):
    """random token list of the printed class: (tokdump, text, spaces-before)"""
    n = r.choice([1, 2, 3, 4, 5, 6, 8, 12])
    items = []
    for _ in range(n):
        k = r.random()
        if k < 0.3:
            t = r.choice(P_NUMS)
            tok = ['n', t]
        elif k < 0.55:
            t = r.choice(P_IDS_GOOD if not wild or r.random() < 0.6 else P_IDS_WILD)
            tok = ['i', t]
        else:
            code = r.choice(list(SPELL))
            t = r.choice(SPELL[code])
            if wild and r.random() < 0.05:
                t = r.choice(SPELL[r.choice(list(SPELL))])
            tok = ['y', code]
        sp = r.choice([0, 0, 1, 1, 2]) if wild else None
        items.append([tok, t, sp])
    return items


def wordlike(tok, text):
    return tok[0] in ('n', 'i') or text[0].isalpha()


def c08_spacing(r, items):
    """the rule of gen/c08.py: a space between two word-like tokens and between
    two symbolic tokens; otherwise at random"""
    prev = None
    for it in items:
        cur = wordlike(it[0], it[1])
        if prev is None:
            it[2] = r.choice([0, 0, 1])
        elif prev == cur:
            it[2] = r.choice([1, 1, 2])
        else:
            it[2] = r.choice([0, 0, 1])
        prev = cur
    return items


def part_print(c):
    r = c.rng
    quick = c.tier == 'quick'
    n = 2500 if quick else 40000
    # payloads of the number texts, and the alphabetic characters in use
    cases = []
    for i in range(n):
        wild = i % 2 == 1
        items = gen_items(r, wild)
        if not wild:
            items = c08_spacing(r, items)
        cases.append((items, r.random() < 0.15, wild))
    texts = [''.join(' ' * it[2] + it[1] for it in items) for items, _, _ in cases]
    timp = c.impl('lex', [trace_line(t, cm) for t, (_, cm, _) in zip(texts, cases)])
    oimp = c.impl('lex', [oracle_line(t, cm) for t, (_, cm, _) in zip(texts, cases)])
    pay_dot, pay_comma = {}, {}
    lines = [trace_line(t, False) for t in P_NUMS] + [trace_line(t, True) for t in P_NUMS]
    outs = c.impl('lex', lines)
    for k, t in enumerate(P_NUMS * 2):
        p = try_parse(outs[k])
        d = pay_dot if k < len(P_NUMS) else pay_comma
        if isinstance(p, list) and p[0] == [b'ok'] and len(p[1]) == 1 and p[1][0][0][0] == b'n':
            d[t] = short(p[1][0][0][1])
    mlines, midx = [], []
    for i, ((items, cm, wild), text) in enumerate(zip(cases, texts)):
        o = try_parse(oimp[i])
        if not (isinstance(o, list) and len(o) == 3):
            continue
        pay = pay_comma if cm else pay_dot
        enc = []
        usable = True
        for tok, t, sp in items:
            if tok[0] == 'n':
                if t not in pay:
                    usable = False
                    break
                enc.append([[b'n', pay[t]], cps(t), sp])
            elif tok[0] == 'i':
                enc.append([[b'i', t.encode('utf-8')], cps(t), sp])
            else:
                enc.append([[b'y', tok[1]], cps(t), sp])
        if not usable:
            continue
        o = short_oracle(o)
        mlines.append(sx([Sym('print-check'), 1 if cm else 0, o[0], o[1], o[2], enc]))
        midx.append(i)
    mouts = c.model('lex', mlines)
    holds = 0
    for i, mo in zip(midx, mouts):
        items, cm, wild = cases[i]
        text = texts[i]
        m = try_parse(mo)
        rep = {'kind': 'print', 'text': text, 'comma': cm, 'items': repr(items)[:1500], 'impl': timp[i][:2000], 'model': mo[:2000]}
        if not (isinstance(m, list) and len(m) == 4):
            c.violation('lex-print-check-unreadable', rep, no_input=True)
            continue
        items_ok, nums_ok, model_toks, expected = m
        p = try_parse(timp[i])
        if crashed(timp[i]):
            c.violation('lexer-crash', dict(rep, what='impl-vs-spec: the real lexer panicked/aborted'))
            continue
        c.note_case('print:%d:%s' % (cm, text), len(items) >= 3 and items_ok == 1, 'print-%s-%s' % ('wild' if wild else 'c08rule', 'hyp-holds' if items_ok == 1 and nums_ok == 1 else 'hyp-fails'))
        if not wild and not (items_ok == 1):
            # the spacing rule of gen/c08.py must imply the theorem's side condition
            c.violation('c08-spacing-rule-not-covered-by-items_ok', rep, no_input=True)
            continue
        if items_ok == 1 and nums_ok == 1:
            holds += 1
            itoks = [short_tok(it[0]) for it in p[1]] if isinstance(p, list) and len(p) == 2 and p[0] == [b'ok'] else None
            if itoks != expected:
                # the theorem's conclusion fails on the real lexer: impl-vs-spec
                c.violation('printed-text-does-not-lex-to-its-tokens', dict(rep, expected=repr(expected)[:1500], what='hypotheses of C08_lex_print hold (evaluated by the extracted Coq definitions) but the real lexer returns other tokens'))
                continue
            if model_toks != [b'ok', expected]:
                c.violation('lex-model-contradicts-its-theorem', rep, no_input=True)
    c.extra['lex_print_cases_with_hypotheses'] = holds
    if midx:
        c.sample({'op': 'print-check', 'text': texts[midx[-1]], 'model': mouts[-1][:300]})


def run(c, parts=('tie', 'tables', 'print')):
    c.rule = (c.rule + ' ' if c.rule else '') + (
        '[lexer] tie: suite+manual corpus, token soup with random spacing/comments, adversarial UTF-8 templates x %d multi-byte characters, '
        'every prefix of a sample; both separator styles; non-trivial = >= 2 tokens or a lexer error; distinct by (style, text). '
        'print: random token lists of the C08 printed class, hypotheses evaluated by the extracted Coq side condition.' % len(MB))
    if 'tables' in parts:
        part_tables(c)
    if 'tie' in parts:
        part_tie(c)
    if 'print' in parts:
        part_print(c)


def replay(c, obj):
    """re-run one recorded lexer case: prints the real trace, the oracle tables
    and the model's trace.  Returns True when obj is a lexer case."""
    if 'text' not in obj or obj.get('kind') not in ('corpus', 'soup', 'alphabet', 'adversarial', 'prefix', 'ident-chars', 'print'):
        return False
    t, cm = obj['text'], bool(obj.get('comma'))
    ti = c.impl('lex', [trace_line(t, cm)])[0]
    oi = c.impl('lex', [oracle_line(t, cm)])[0]
    print('text   %r (comma=%s)' % (t, cm))
    print('impl   ' + ti[:3000])
    print('oracle ' + oi[:1500])
    o = try_parse(oi)
    if isinstance(o, list) and len(o) == 3:
        print('model  ' + c.model('lex', [model_line(t, cm, short_oracle(o))], cross=False)[0][:3000])
    return True
