"""C04 — unit conversions are exact, invertible and mutually consistent.
Proof: coq/Properties/C04.v (general laws of the conversion model for all
magnitudes and unit expressions; finite obligations over the regenerated unit
table: non-zero scales, 286 defining factors, temperature points).
Tie: fend_core::evaluate on `@noapprox (x A to B) to fraction`,
`(x A to B to A) == x A`, `@noapprox ((1 A)/(1 B)) to fraction`, triples
`(x A to B to C) == (x A to C)`, linearity; spec = exact rational arithmetic
(python Fraction) on the records the tree's resolver returned; plus the raw
result of `x A to B` (hook) against the extracted model's convert_to."""
import json, re
from fractions import Fraction
import vlib
from vlib import sx, Sym, parse_sx, try_parse
import units_common as U
from units_common import e_str

TRUSTED_BASE = [
    'Coq 8.16.1 kernel + vm_compute (finite obligations over the regenerated table)',
    'tools/gen_tables.py + ' + vlib.REPO + '/core/src/verif_hooks/units.rs (resolved records: base-unit map and scale of every name, as computed by the tree\'s own to_hashmap_and_scale)',
    'coq/Units/Standards.v: 286 defining factors in SI base units, written by hand from BIPM SI brochure / NIST SP 811 exact factors / IAU 2012 B2 / IEC 80000-13',
    'hand-written model coq/Units/Algebra.v tied to core/src/num/unit.rs by the differential run only; Exact<Real> arithmetic modelled over Q with Simple/Pi patterns, pi treated as a formal symbol in the theorems',
    'python Fraction arithmetic in gen/c04.py (the spec side of the differential run); parsing of fend\'s printed fractions',
    'extraction ExtrOcamlBasic -> OCaml, modelrun/driver.ml, cross-checked against vm_compute on a sample',
]
ASSUMPTIONS = [
    'magnitudes are rational or rational multiples of pi; complex magnitudes and exponents are outside the model',
    'results that fend marks inexact (pi on one side only, pi^2, tan, ln) are compared with relative tolerance 1e-12',
]

NAME_OK = re.compile(r'^[^\W\d]\w*$', re.UNICODE)
T_OFF = {'celsius': (Fraction(1), Fraction(27315, 100)), 'fahrenheit': (Fraction(5, 9), Fraction(45967, 180))}

DIAG = r'''
From FendV Require Import Base.Prelude Units.Defs Units.Algebra Units.Lookup Units.Index Units.Legality Units.Table Units.Standards.
From FendV Require Import Units.Generated.UnitTable.
Definition mark (n : N) := n.
Eval vm_compute in (mark 1, filter (fun n => negb (chk_scale_nonzero n)) all_names).
Eval vm_compute in (mark 2, map (fun e => fst (fst e)) (filter (fun e => negb (chk_standard e)) standards)).
'''
DIAG_NAMES = {1: 'C04_scales_nonzero', 2: 'C04_standards'}


class Unit:
    """what a unit name denotes, from the implementation's reduced record"""
    def __init__(self, name, red):
        nu, ex = red
        self.name = name
        self.dims = dict(nu['base'])
        self.pat, self.coef = nu['scale']
        self.exact = ex
        # reduce_hashmap: singleton celsius / fahrenheit carry an offset; otherwise rename with (5/9)^e
        self.off = Fraction(0)
        self.adj = Fraction(1)
        self.affine = False
        if len(self.dims) == 1 and list(self.dims.items())[0] in (('celsius', 1), ('fahrenheit', 1)):
            k = list(self.dims)[0]
            self.adj, self.off = T_OFF[k]
            self.affine = True
            self.rdims = {'kelvin': Fraction(1)}
        else:
            rd = {}
            for k, e in self.dims.items():
                if k == 'fahrenheit' and e.denominator == 1:
                    self.adj *= Fraction(5, 9) ** int(e)
                kk = 'kelvin' if k in ('celsius', 'fahrenheit') else k
                rd[kk] = rd.get(kk, 0) + e
            self.rdims = {k: e for k, e in rd.items() if e != 0}
        self.mixes = len([k for k in self.dims if k in ('celsius', 'fahrenheit', 'kelvin')]) > 1
        self.cls = tuple(sorted(self.rdims.items()))


def expected(x, A, B):
    """(coef, pi_power, exact) of x A to B"""
    num = x * A.coef * A.adj
    den = B.coef * B.adj
    pw = (1 if A.pat == 'pi' else 0) - (1 if B.pat == 'pi' else 0)
    off = A.off - B.off
    if off != 0:
        # offsets only occur with rational scales
        return ((num + off) / den, 0, A.exact and B.exact)
    return (num / den, pw, A.exact and B.exact and pw >= 0)


def parse_num(text):
    """leading number of a fend result -> (Fraction, rest) or None"""
    t = text.strip()
    if t.startswith('approx. '):
        t = t[len('approx. '):]
    m = re.match(r'^(-?[0-9][0-9,]*(?:\.[0-9]+)?(?:/[0-9]+)?)(.*)$', t)
    if not m:
        return None
    try:
        return Fraction(m.group(1).replace(',', '')), m.group(2).strip()
    except Exception:
        return None


def close(a, b, tol=Fraction(1, 10**12)):
    return a == b or abs(a - b) <= tol * max(abs(a), abs(b))


def matches(got, exp):
    coef, pw, exact = exp
    want = coef * (U.PI ** pw)
    if pw == 0 and exact:
        return got == want
    return close(got, want, Fraction(1, 10**11))


def xlit(x):
    if x.denominator == 1:
        return '(%d)' % x.numerator if x < 0 else str(x.numerator)
    return '(%d/%d)' % (x.numerator, x.denominator)


def rand_x(r):
    k = r.random()
    if k < 0.25:
        return Fraction(r.randint(1, 20))
    if k < 0.4:
        return Fraction(r.randint(-50, 50), r.choice([1, 2, 3, 4, 5, 7, 8, 10, 12, 100]))
    if k < 0.55:
        return Fraction(r.randint(1, 10**6), 10 ** r.randint(0, 6))
    if k < 0.65:
        return Fraction(0)
    if k < 0.8:
        return Fraction(r.randint(1, 999), r.randint(1, 999))
    if k < 0.9:
        return Fraction(10) ** r.randint(-12, 24)
    return -Fraction(r.randint(1, 10**4), r.randint(1, 10**3))


def l2(c, exprs):
    lines = [sx([Sym('eval'), U.CTX_DEFAULT, e]) for e in exprs]
    outs = U.impl_patient(c, lines)
    res = []
    for o in outs:
        p = try_parse(o)
        if isinstance(p, list) and p and isinstance(p[0], list) and len(p[0]) == 2:
            res.append((p[0][0].decode(), p[0][1].decode('utf-8', 'replace')))
        else:
            res.append(('crash', o[:200]))
    return res


def universe(c, t):
    """name -> Unit, for every table name usable in an expression plus a sample of prefixed names"""
    r = c.rng
    units = {}
    for n, v in t['name_vals']:
        # constants (an alias with units and a magnitude, e.g. c, electronmass) are not units:
        # fend refuses them as conversion targets by design
        if v[0] == 'ok' and v[2] is not None and NAME_OK.match(n):
            if v[1]['val'] != ('s', Fraction(1)):
                c.dist['excluded-constant'] = c.dist.get('excluded-constant', 0) + 1
                continue
            units[n] = Unit(n, v[2])
    pairs = [(p, u) for p, u in t['ok_pairs'] if NAME_OK.match(p + u) and (p + u) not in units]
    k = 400 if c.tier == 'quick' else 4000
    pn = [p + u for p, u in r.sample(pairs, min(k, len(pairs)))] + ['km', 'cm', 'mm', 'kg', 'mg', 'ms', 'kilocelsius', 'millikelvin', 'MiB', 'kB', 'GHz', 'kWh', 'mA', 'kilofahrenheit']
    res = [U.i_lres(o) for o in c.impl('units', [sx([Sym('resolve'), U.CTX_DEFAULT, n]) for n in pn])]
    for n, v in zip(pn, res):
        if v[0] == 'ok' and v[2] is not None:
            units[n] = Unit(n, v[2])
    # a name must also be usable inside an expression: `as` (atto-second) is a keyword of fend,
    # other names are shadowed by built-in identifiers
    names = list(units)
    probe = l2(c, ['(2 %s to %s) == (2 %s)' % (n, n, n) for n in names])
    for n, o in zip(names, probe):
        if o != ('o', 'true'):
            del units[n]
            c.dist['excluded-not-usable-in-expression'] = c.dist.get('excluded-not-usable-in-expression', 0) + 1
    return units


def check(c):
    try:
        _check(c)
        U.regression_witnesses(c)
    finally:
        c.repr_drift += U.DRIFT['pi_approximation_flagged_exact']
        if U.DRIFT['pi_approximation_flagged_exact']:
            c.notes.append('values flagged exact by fend although they hold its approximation of pi (flag dropped in to_hashmap_and_scale): %d' % U.DRIFT['pi_approximation_flagged_exact'])


def _check(c):
    r = c.rng
    c.rule = ('units grouped by dimension class (base-unit map after celsius/fahrenheit -> kelvin) from the implementation\'s own records; '
              'quick: ~3000 sampled ordered pairs (A,B) + ~800 triples, thorough: all ordered pairs of table names per class; random rational x '
              '(integers, decimals, fractions, zero, negative, 1e-12..1e24); every pair is asked: @noapprox (x A to B) to fraction, (x A to B to A) == x A, '
              '@noapprox ((1 A)/(1 B)) to fraction, linearity; non-trivial = A != B; distinct by (A, B, x)')
    t = U.table(c)
    if t is None:
        return
    ok = c.proof(['C04'], extra_targets=['Extract/XUnits.vo'])
    if c.tier == 'thorough' and ok:
        c.thorough_proof(['C04'])
    if not ok and c.proof_failed and c.proof_failed.get('stage') == 'make':
        for thm, ents in U.diagnose(DIAG, DIAG_NAMES, 'c04').items():
            for e in ents[:5]:
                c.violation('table-' + thm, {'kind': 'finite-obligation', 'theorem': thm, 'table_entry': e, 'all_failing': ents[:30],
                                             'how_to_see': 'fend: 1 %s to <SI base units>' % e})

    units = universe(c, t)
    classes = {}
    for u in units.values():
        if u.mixes:
            continue
        classes.setdefault(u.cls, []).append(u)
    c.extra['dimension_classes'] = {U.dims_str(dict(k)): len(v) for k, v in sorted(classes.items(), key=lambda kv: -len(kv[1]))[:12]}
    c.extra['units_in_universe'] = len(units)

    # ---- the defining standards, observed at L2 (independent of the table dump):
    #      1 <name> to <SI expression> must print the factor
    std = standards_l2()
    outs = l2(c, ['@noapprox (1 %s to %s) to fraction' % (n, si) for n, f, si in std])
    for (n, f, si), o in zip(std, outs):
        c.note_case('std:' + n, True, 'standard')
        pn = parse_num(o[1]) if o[0] == 'o' else None
        if pn is None or pn[0] != f:
            if n in ('dyne', 'dyn', 'erg_via_dyne') and c.known_finding('dyne_is_gram_gallon'):
                continue
            c.violation('standard-factor', {'kind': 'impl-vs-spec', 'input': '@noapprox (1 %s to %s) to fraction' % (n, si), 'want': str(f), 'impl': o})
    c.sample({'op': 'L2', 'input': '@noapprox (1 inch to m) to fraction', 'impl': l2(c, ['@noapprox (1 inch to m) to fraction'])[0]})

    # ---- pairs
    pairs = []
    if c.tier == 'thorough':
        table_names = set(t['all_names'])
        for cls, us in classes.items():
            tn = [u for u in us if u.name in table_names]
            for A in tn:
                for B in tn:
                    pairs.append((A, B))
    budget = 3000 if c.tier == 'quick' else 20000
    cl = [us for us in classes.values() if len(us) >= 2]
    weights = [min(len(us), 60) for us in cl]
    # boundary corpus first
    for a, b in [('km', 'inch'), ('inch', 'cm'), ('lb', 'kg'), ('mile', 'm'), ('celsius', 'fahrenheit'), ('fahrenheit', 'kelvin'), ('kelvin', 'celsius'),
                 ('kilocelsius', 'K'), ('rankine', 'celsius'), ('celsius', 'kelvin'), ('fahrenheit', 'celsius'), ('kelvin', 'fahrenheit'), ('rankine', 'fahrenheit'), ('fahrenheit', 'rankine'), ('celsius', 'celsius'), ('degree', 'radian'), ('radian', 'degree'), ('degree', 'arcsec'), ('percent', 'ppm'),
                 ('USD', 'EUR'), ('JPY', 'GBP'), ('byte', 'bit'), ('MiB', 'kB'), ('year', 'second'), ('gallon', 'liter'), ('acre', 'hectare'),
                 ('mph', 'kph'), ('knot', 'mph'), ('psi', 'Pa'), ('hp', 'W'), ('eV', 'J'), ('cal', 'J'), ('light_year', 'parsec'), ('sphere', 'squaredegree')]:
        if a in units and b in units and units[a].cls == units[b].cls:
            pairs.append((units[a], units[b]))
    for _ in range(budget):
        us = r.choices(cl, weights)[0]
        pairs.append((r.choice(us), r.choice(us)))
    cases = [(A, B, rand_x(r)) for A, B in pairs]

    q1 = l2(c, ['@noapprox (%s %s to %s) to fraction' % (xlit(x), A.name, B.name) for A, B, x in cases])
    q2 = l2(c, ['(%s %s to %s to %s) == %s %s' % (xlit(x), A.name, B.name, A.name, xlit(x), A.name) for A, B, x in cases])
    q3 = l2(c, ['@noapprox ((1 %s)/(1 %s)) to fraction' % (A.name, B.name) for A, B, x in cases])
    ks = [Fraction(r.randint(-9, 9), r.randint(1, 9)) for _ in cases]
    q4 = l2(c, ['((%s * %s) %s to %s) == %s * (%s %s to %s)' % (xlit(k), xlit(x), A.name, B.name, xlit(k), xlit(x), A.name, B.name)
                for (A, B, x), k in zip(cases, ks)])
    # differences and comparisons use the scale only (no offsets): x A - y B, ==, !=
    ys = []
    for (A, B, x) in cases:
        kk = r.random()
        if kk < 0.4:
            ys.append(x * A.coef * A.adj / (B.coef * B.adj))          # equal by scale
        elif kk < 0.6 and (A.affine or B.affine) and A.pat == B.pat == 's':
            ys.append((x * A.coef * A.adj + A.off - B.off) / (B.coef * B.adj))   # the same temperature point (not equal by scale)
        else:
            ys.append(rand_x(r))
    q6 = l2(c, ['@noapprox ((%s %s) - (%s %s)) to fraction' % (xlit(x), A.name, xlit(y), B.name) for (A, B, x), y in zip(cases, ys)])
    q7 = l2(c, ['(%s %s) == (%s %s)' % (xlit(x), A.name, xlit(y), B.name) for (A, B, x), y in zip(cases, ys)])
    q8 = l2(c, ['(%s %s) != (%s %s)' % (xlit(x), A.name, xlit(y), B.name) for (A, B, x), y in zip(cases, ys)])
    nsub = 0
    for (A, B, x), y, o6, o7, o8 in zip(cases, ys, q6, q7, q8):
        if A.pat != B.pat or not (A.exact and B.exact):
            continue
        c.note_case('sub:%s-%s:%s:%s' % (A.name, B.name, x, y), True, 'difference-affine' if (A.affine or B.affine) else 'difference')
        want = x - y * (B.coef * B.adj) / (A.coef * A.adj)
        rep = {'kind': 'impl-vs-spec', 'A': A.name, 'B': B.name, 'x': str(x), 'y': str(y)}
        bad = None
        pn = parse_num(o6[1]) if o6[0] == 'o' else None
        # an exactly-zero rhs is a no-op; a zero lhs keeps the lhs unit: the number is the same
        # a dimensionless alias (five, kilo, ...) is folded into the number when printed
        shown = want * A.coef * A.adj if (pn is not None and pn[1] == '' and not A.rdims) else want
        if pn is None or pn[0] != shown:
            bad = dict(rep, input='@noapprox ((%s %s) - (%s %s)) to fraction' % (xlit(x), A.name, xlit(y), B.name), impl=o6, want=str(shown), law='difference')
        elif o7 != ('o', 'true' if want == 0 else 'false'):
            bad = dict(rep, input='(%s %s) == (%s %s)' % (xlit(x), A.name, xlit(y), B.name), impl=o7, want=str(want == 0).lower(), law='equality')
        elif o8 != ('o', 'false' if want == 0 else 'true'):
            bad = dict(rep, input='(%s %s) != (%s %s)' % (xlit(x), A.name, xlit(y), B.name), impl=o8, want=str(want != 0).lower(), law='inequality')
        if bad and nsub < 15:
            nsub += 1
            c.violation('conversion-' + bad['law'], bad)
    nbad = 0
    leftover = []
    for (A, B, x), o1, o2, o3, o4, k in zip(cases, q1, q2, q3, q4, ks):
        key = '%s>%s:%s' % (A.name, B.name, x)
        kind = 'pair-affine' if (A.affine or B.affine) else ('pair-pi' if 'pi' in (A.pat, B.pat) else ('pair-inexact' if not (A.exact and B.exact) else 'pair-exact'))
        c.note_case(key, A.name != B.name, kind)
        exp = expected(x, A, B)
        rep = {'kind': 'impl-vs-spec', 'A': A.name, 'B': B.name, 'x': str(x)}
        bad = None
        pn = parse_num(o1[1]) if o1[0] == 'o' else None
        if pn is None or not matches(pn[0], exp):
            bad = dict(rep, input='@noapprox (%s %s to %s) to fraction' % (xlit(x), A.name, B.name), impl=o1,
                       want='%s * pi^%d' % (exp[0], exp[1]), law='ratio')
        elif o2 != ('o', 'true') and exp[2]:
            bad = dict(rep, input='(%s %s to %s to %s) == %s %s' % (xlit(x), A.name, B.name, A.name, xlit(x), A.name), impl=o2, law='inverse')
        elif not (A.affine or B.affine) and o4 != ('o', 'true') and exp[2]:
            bad = dict(rep, input='((%s * %s) %s to %s) == %s * (%s %s to %s)' % (xlit(k), xlit(x), A.name, B.name, xlit(k), xlit(x), A.name, B.name), impl=o4, law='linear')
        else:
            # (1 A)/(1 B): the ratio of the scales (offsets play no part); when fend leaves units
            # (temperatures with offsets, distinct dimensionless units) the number must be 1
            pn3 = parse_num(o3[1]) if o3[0] == 'o' else None
            ratio = expected(Fraction(1), Unit_no_offset(A), Unit_no_offset(B))
            if pn3 is None:
                bad = dict(rep, input='@noapprox ((1 %s)/(1 %s)) to fraction' % (A.name, B.name), impl=o3, law='quotient')
            elif pn3[1] == '':
                if not matches(pn3[0], ratio):
                    bad = dict(rep, input='@noapprox ((1 %s)/(1 %s)) to fraction' % (A.name, B.name), impl=o3, want=str(ratio[0]), law='quotient')
            else:
                # fend kept units (offsets, or distinct dimensionless units): ask for the pure number
                leftover.append((A, B, ratio))
        if bad and nbad < 25:
            nbad += 1
            c.violation('conversion-' + bad['law'], bad)
    lo = leftover          # (temperature mixes were skipped before fend commit 1210896)
    c.dist['quotient-units-kept'] = len(leftover)
    q3b = l2(c, ['@noapprox (((1 %s)/(1 %s)) to unitless) to fraction' % (A.name, B.name) for A, B, ratio in lo])
    for (A, B, ratio), o in zip(lo, q3b):
        pn = parse_num(o[1]) if o[0] == 'o' else None
        if (pn is None or not matches(pn[0], ratio)) and nbad < 25:
            nbad += 1
            c.violation('conversion-quotient', {'kind': 'impl-vs-spec', 'A': A.name, 'B': B.name,
                                                'input': '@noapprox (((1 %s)/(1 %s)) to unitless) to fraction' % (A.name, B.name), 'impl': o, 'want': str(ratio[0])})
    if cases:
        A, B, x = cases[0]
        c.sample({'op': 'L2', 'input': '@noapprox (%s %s to %s) to fraction' % (xlit(x), A.name, B.name), 'impl': q1[0], 'spec': str(expected(x, A, B)[0])})

    # ---- triples: through an intermediate unit
    tri = []
    for _ in range(800 if c.tier == 'quick' else 8000):
        us = r.choices(cl, weights)[0]
        tri.append((r.choice(us), r.choice(us), r.choice(us), rand_x(r)))
    q5 = l2(c, ['(%s %s to %s to %s) == (%s %s to %s)' % (xlit(x), A.name, B.name, C.name, xlit(x), A.name, C.name) for A, B, C, x in tri])
    for (A, B, C, x), o in zip(tri, q5):
        c.note_case('tri:%s>%s>%s:%s' % (A.name, B.name, C.name, x), len({A.name, B.name, C.name}) == 3, 'triple')
        allexact = A.exact and B.exact and C.exact and len({A.pat, B.pat, C.pat}) == 1
        if o != ('o', 'true') and allexact:
            c.violation('conversion-transitive', {'kind': 'impl-vs-spec', 'input': '(%s %s to %s to %s) == (%s %s to %s)' % (xlit(x), A.name, B.name, C.name, xlit(x), A.name, C.name), 'impl': o})

    # ---- configurations: the same conversions with the comma decimal separator and in coulomb/farad mode
    def dec(x):
        """a terminating decimal literal (dot style) for x, or the fraction form"""
        d = x.denominator
        while d % 2 == 0:
            d //= 2
        while d % 5 == 0:
            d //= 5
        if d != 1 or x < 0:
            return xlit(x)
        k = 0
        while (x * 10 ** k).denominator != 1:
            k += 1
        n = int(x * 10 ** k)
        t_ = str(n).rjust(k + 1, '0')
        return t_ if k == 0 else t_[:-k] + '.' + t_[-k:]
    sub = cases[:30] + r.sample(cases, min(len(cases), 500 if c.tier == 'quick' else 4000))
    cfg = []
    for A, B, x in sub:
        cfg.append('@noapprox (%s %s to %s) to fraction' % (dec(abs(x)), A.name, B.name))
        if r.random() < 0.5:
            cfg.append('%s %s to %s' % (dec(abs(x)), A.name, B.name))
        if r.random() < 0.2:
            cfg.append('(%s %s) + (%s %s)' % (dec(abs(x)), A.name, dec(Fraction(r.randint(1, 999), 100)), B.name))
    cfg += ['@noapprox (1 %s to %s) to fraction' % (n, si) for n, f, si in std] + ['1 %s to %s' % (n, si) for n, f, si in std]
    cfg += ['1 inch to cm', '2.5 inches to cm', '1 lb to kg', '1 EUR to USD', '@noapprox (7 EUR to USD) to fraction', '1.5 km + 2.25 m', '0.001 mile to inch',
            '1 hectare mm', '1 acre foot', '98.6 fahrenheit to celsius', '1 calorie to J', '1 gallon to liters', '1 atm to Pa', '1 knot to m/s']
    U.config_sweep(c, cfg, 'conversion')

    simplify_checks(c, t, units, classes)
    currency_checks(c, t)
    history_checks(c, t, units, classes)

    # ---- L1: the raw result of `x A to B` against the model's convert_to on the model's values
    samp = r.sample(cases, min(len(cases), 800 if c.tier == 'quick' else 5000))
    names = sorted({A.name for A, B, x in samp} | {B.name for A, B, x in samp})
    mv = dict(zip(names, [U.m_lres(o) for o in c.model('units', [sx([Sym('resolve'), U.m_ctx(), [], e_str(n)]) for n in names], cross=False)]))
    iraw = [U.i_lres(o) for o in c.impl('units', [sx([Sym('eval-expr'), U.CTX_DEFAULT, '%s %s to %s' % (xlit(x), A.name, B.name)]) for A, B, x in samp])]
    lines = []
    idx = []
    for i, (A, B, x) in enumerate(samp):
        a, b = mv.get(A.name), mv.get(B.name)
        if a and b and a[0] == 'ok' and b[0] == 'ok':
            va = dict(a[1], val=('s', x) if a[1]['val'] == ('s', Fraction(1)) else a[1]['val'])
            if a[1]['val'] != ('s', Fraction(1)):
                continue        # an alias with units and a magnitude (e.g. c): x c is not "val := x"
            lines.append(sx([Sym('binop'), Sym('convert'), U.e_value(va), U.e_value(b[1])]))
            idx.append(i)
    mo = c.model('units', lines)
    for i, o in zip(idx, mo):
        A, B, x = samp[i]
        p = try_parse(o)
        m = ('ok', U.m_value(p[1])) if isinstance(p, list) and p and p[0] == b'ok' else ('err', p)
        iv = iraw[i]
        if iv[0] == 'ok' and m[0] == 'ok':
            same = U.value_same(m[1], iv[1])
        else:
            same = iv[0] != 'ok' and m[0] != 'ok'
        if not same:
            c.violation('convert-model-differs', {'kind': 'impl-vs-model', 'layer': 'L1 Value::convert_to (hook eval_expr)', 'input': '%s %s to %s' % (xlit(x), A.name, B.name),
                                                  'impl': repr(iv)[:500], 'model': repr(m)[:500]}, no_input=True)
    if c.tier == 'thorough':
        c.exhaustive = True
        c.extra['exhaustive_scope'] = 'all ordered pairs of table names within each dimension class (one random magnitude each)'


def simplify_checks(c, t, units, classes):
    """Value::simplify, the step between a computed value and its printed form.
    (a) L2 probe families: for every default unit of the tree (lookup_default_unit: newton, joule, ...,
        liter, the base units) products and quotients of units of other dimension classes whose
        dimensions combine to the default unit's: the PRINTED result (implicit replacement by the
        default unit) must equal the explicit conversion and the exact spec; default units whose own
        scale is not 1 (liter) get most of the budget;
    (b) L1: the tree's simplify on a raw value (hook) against the extracted model's simplify applied
        to the same raw value."""
    r = c.rng
    by_dims = {}
    for cls, us in classes.items():
        ok = [u for u in us if not u.affine and u.pat == 's' and u.exact and all(e.denominator == 1 for e in u.rdims.values())]
        if ok:
            by_dims[cls] = ok
    defaults = []
    for m, name in t['defaults']:
        if name in units:
            defaults.append((tuple(sorted((k, Fraction(e)) for k, e in m)), units[name]))
    nonunit = [d for d in defaults if d[1].coef != 1]
    c.extra['default_units'] = {u.name: str(u.coef) for _, u in defaults}
    c.extra['default_units_with_scale_not_1'] = [u.name for _, u in nonunit]
    def add(d1, d2, sg):
        out = dict(d1)
        for k, e in d2:
            out[k] = out.get(k, 0) + sg * e
        return tuple(sorted((k, e) for k, e in out.items() if e != 0))
    cases = []          # (text, spec value in default units, default Unit)
    def family(D, U_def, n):
        keys = list(by_dims)
        made = 0
        tries = 0
        while made < n and tries < 40 * n:
            tries += 1
            ca = r.choice(keys)
            if ca == D or not ca:
                continue
            for sg in (1, -1):
                # A * B = D  => dims(B) = D - dims(A);   A / B = D  => dims(B) = dims(A) - D
                need = add(D, ca, -1) if sg == 1 else add(ca, D, -1)
                if need in by_dims and need and need != D:
                    A, B = r.choice(by_dims[ca]), r.choice(by_dims[need])
                    x, y = rand_x(r), rand_x(r)
                    if x == 0 or y == 0:
                        x, y = Fraction(3), Fraction(2)
                    txt = '(%s %s) %s (%s %s)' % (xlit(x), A.name, '*' if sg == 1 else '/', xlit(y), B.name)
                    q = x * A.coef * A.adj * ((y * B.coef * B.adj) ** sg)
                    cases.append((txt, q / U_def.coef, U_def))
                    made += 1
    budget = 900 if c.tier == 'quick' else 9000
    for D, ud in nonunit:
        family(D, ud, budget // (2 * max(1, len(nonunit))))
    for D, ud in defaults:
        family(D, ud, budget // (2 * max(1, len(defaults))))
    fixed = [('1 hectare mm', Fraction(10000), 'liter'), ('1 acre foot', Fraction('1233481.83754752'), 'liter'), ('3 km * 2 hectares', Fraction(60000000000), 'liter'),
             ('(2 acre inch) + (1 L)', Fraction('205581.30625792'), 'liter'), ('1 are * 1 dm', Fraction(10000), 'liter'), ('(1 J) / (1 Pa)', Fraction(1000), 'liter'),
             ('(1 hectare mm) - (10000 L)', Fraction(0), 'liter'), ('1 lbf ft', Fraction('1.3558179483314004'), 'joule'), ('(1 V) / (1 ohm)', Fraction(1), 'ampere'),
             ('(5 kg) * (2 m / s^2)', Fraction(10), 'newton')]
    for txt, q, dn in fixed:
        if dn in units:
            cases.append((txt, q, units[dn]))
    imp = l2(c, ['@noapprox (%s) to fraction' % txt for txt, q, ud in cases])
    exp = l2(c, ['@noapprox ((%s) to %s) to fraction' % (txt, ud.name) for txt, q, ud in cases])
    nbad = 0
    for (txt, q, ud), a, b in zip(cases, imp, exp):
        c.note_case('simplify:' + txt, True, 'simplify-default-' + ('scaled' if ud.coef != 1 else 'coherent'))
        pa = parse_num(a[1]) if a[0] == 'o' else None
        pb = parse_num(b[1]) if b[0] == 'o' else None
        bad = None
        if pb is None or pb[0] != q:
            bad = ('explicit conversion differs from the spec', b)
        elif pa is None:
            bad = ('implicit (printed) result is not a number', a)
        else:
            first = pa[1].split(' ')[0] if pa[1] else ''
            via_default = first in (ud.name, plural_of(t, ud.name))
            if via_default:
                if pa[0] != q:
                    bad = ('printed result in the default unit differs from the explicit conversion and from the spec', a)
            else:
                c.dist['simplify-printed-in-another-unit'] = c.dist.get('simplify-printed-in-another-unit', 0) + 1
        if bad and nbad < 20:
            nbad += 1
            c.violation('simplify-default-unit', {'kind': 'impl-vs-spec', 'input': txt, 'what': bad[0], 'printed': a, 'explicit': b,
                                                  'explicit_query': '@noapprox ((%s) to %s) to fraction' % (txt, ud.name), 'want': '%s %s' % (q, ud.name)})
    if cases:
        c.sample({'op': 'L2 simplify', 'input': cases[0][0], 'printed': imp[0], 'explicit': exp[0], 'spec': str(cases[0][1])})
    # ---- L1: simplify on raw values
    pool = [u for us in by_dims.values() for u in us]
    exprs = [txt for txt, q, ud in cases[: (500 if c.tier == 'quick' else 4000)]]
    for _ in range(700 if c.tier == 'quick' else 6000):
        k = r.randint(2, 4)
        parts = []
        for j in range(k):
            u = r.choice(pool)
            e = r.choice(['', '', '', '^2', '^-1', '^3', '^-2'])
            parts.append(('%s %s%s' % (xlit(rand_x(r) or Fraction(1)), u.name, e)) if r.random() < 0.5 else ('%s%s' % (u.name, e)))
        txt = parts[0]
        for ptxt in parts[1:]:
            txt = '(%s) %s (%s)' % (txt, r.choice(['*', '*', '/']), ptxt)
        exprs.append(txt)
    exprs += ['5 percent * 80 kg', '50%^2', '5 % * 3 %', '(80 kg) * 5%', '2 dozen m', '3 m * 2 cm', '1 m s / s', '1 degree * 2 radian', '3 celsius * 2 K',
              '1 kWh / day', '(3 kg)^2 / kg', '1 km / 5 minutes', '3 million m', '2 km * 3 km * 4 km', '1 fahrenheit rankine', '6 %', '1 mile / gallon * liter']
    raw = [U.i_lres(o) for o in c.impl('units', [sx([Sym('eval-expr'), U.CTX_DEFAULT, e]) for e in exprs])]
    simp = [U.i_lres(o) for o in c.impl('units', [sx([Sym('eval-expr-simplified'), U.CTX_DEFAULT, e]) for e in exprs])]
    idx = [i for i, rv in enumerate(raw) if rv[0] == 'ok']
    mo = c.model('units', [sx([Sym('simplify'), U.e_value(raw[i][1])]) for i in idx])
    ndiff = 0
    for i, o in zip(idx, mo):
        p = try_parse(o)
        m = ('ok', U.m_value(p[1])) if isinstance(p, list) and p and p[0] == b'ok' else ('err', p[1] if isinstance(p, list) and len(p) > 1 else p)
        if m[0] == 'err' and m[1] == 11:
            c.dist['model-outside-fragment'] = c.dist.get('model-outside-fragment', 0) + 1
            continue
        c.note_case('simplify-raw:' + exprs[i], True, 'simplify-raw')
        iv = simp[i]
        same = (m[0] == 'ok' and iv[0] == 'ok' and U.value_same(m[1], iv[1])) or (m[0] != 'ok' and iv[0] not in ('ok',))
        if not same and ndiff < 15:
            ndiff += 1
            c.violation('simplify-model-differs', {'kind': 'impl-vs-model', 'layer': 'L1 Value::simplify (hook eval_expr_simplified)', 'input': exprs[i],
                                                   'impl': repr(iv)[:500], 'model': repr(m)[:500]}, no_input=True)


def currency_checks(c, t):
    """every currency unit is exactly 1/rate of the base currency (the rate as the handler's f64 prints),
    independently of the dumped records: spec = the fake rates themselves"""
    r = c.rng
    cur = t['currencies']
    rates = dict(zip(cur, [Fraction(try_parse(o).decode()) for o in c.impl('units', [sx([Sym('fake-rate'), x]) for x in cur])]))
    vals = dict(t['name_vals'])
    for x in cur:
        c.note_case('currency:' + x, True, 'currency-scale')
        v = vals.get(x)
        good = v and v[0] == 'ok' and v[2] is not None and v[2][1] and v[2][0]['scale'] == ('s', 1 / rates[x]) and v[2][0]['base'] == [('BASE_CURRENCY', Fraction(1))]
        if not good:
            c.violation('currency-scale', {'kind': 'impl-vs-spec', 'ident': x, 'input': '1 %s' % x, 'rate': str(rates[x]), 'want_scale': str(1 / rates[x]),
                                           'impl': repr(v)[:400]})
    pairs = [(r.choice(cur), r.choice(cur)) for _ in range(150 if c.tier == 'quick' else 2000)] + [('USD', 'GBP'), ('EUR', 'JPY')]
    outs = l2(c, ['@noapprox (7 %s to %s) to fraction' % (a, b) for a, b in pairs])
    for (a, b), o in zip(pairs, outs):
        c.note_case('currency:%s>%s' % (a, b), a != b, 'currency-pair')
        pn = parse_num(o[1]) if o[0] == 'o' else None
        want = 7 * rates[b] / rates[a]
        if pn is None or pn[0] != want or 'approx' in o[1]:
            c.violation('currency-conversion', {'kind': 'impl-vs-spec', 'input': '@noapprox (7 %s to %s) to fraction' % (a, b), 'impl': o, 'want': str(want)})


def history_checks(c, t, units, classes):
    """several statements on ONE context: names that differ only in ASCII case (Mm / mm, MB / Mb,
    mA / MA, Pa / pA ...) used one after the other, and ordinary conversions in sequence;
    each answer must be the one a fresh context gives"""
    r = c.rng
    # prefixed names that collide in case with another usable name
    cand = {}
    for p, u in t['ok_pairs']:
        n = p + u
        if NAME_OK.match(n):
            cand.setdefault(n.lower(), set()).add(n)
    for n in units:
        cand.setdefault(n.lower(), set()).add(n)
    groups = [sorted(v) for v in cand.values() if len(v) > 1]
    fixed = [['Mm', 'mm'], ['MB', 'Mb', 'mb', 'mB'], ['mA', 'MA'], ['Pa', 'pA', 'PA'], ['ms', 'Ms', 'mS', 'MS'], ['mg', 'Mg'], ['mW', 'MW'], ['mm', 'Mm', 'MM']]
    r.shuffle(groups)
    groups = fixed + groups[: (60 if c.tier == 'quick' else 600)]
    partner = {'meter': 'm', 'second': 's', 'kilogram': 'kg', 'ampere': 'A', 'bit': 'bit'}
    hist = []
    for g in groups:
        steps = []
        order = g * 2
        r.shuffle(order)
        for n in order:
            x = rand_x(r) or Fraction(1)
            k = r.random()
            if k < 0.5:
                steps.append(('e', '@noapprox (%s %s) to fraction' % (xlit(x), n)))
            else:
                other = r.choice(g)
                steps.append(('e', '@noapprox (%s %s to %s) to fraction' % (xlit(x), n, other)))
            if r.random() < 0.3:
                steps.append(('e', '(1 %s) == (1 %s)' % (n, r.choice(g))))
        hist.append(steps)
    pool = [u for us in classes.values() if len(us) >= 2 for u in us]
    for _ in range(60 if c.tier == 'quick' else 600):
        steps = []
        for _ in range(r.randint(3, 7)):
            A = r.choice(pool)
            B = r.choice(classes[A.cls])
            steps.append(('e', '@noapprox (%s %s to %s) to fraction' % (xlit(rand_x(r)), A.name, B.name)))
        hist.append(steps)
    U.history_check(c, hist, 'statement-history')


def plural_of(t, name):
    for g, s_, p, d in t['defs']:
        if s_ == name:
            return p or s_
    return name


def Unit_no_offset(u):
    """the same unit as it behaves inside a compound unit: scale (and (5/9)^e) only"""
    class V:
        pass
    v = V()
    v.coef, v.pat, v.exact, v.off = u.coef, u.pat, u.exact, Fraction(0)
    v.adj = u.adj
    return v


def standards_l2():
    """a readable subset of coq/Units/Standards.v as (name, factor, SI expression)"""
    F = Fraction
    inch = F('0.0254'); lb = F('0.45359237'); g0 = F('9.80665'); gal = 231 * inch ** 3
    return [
        ('inch', inch, 'm'), ('foot', 12 * inch, 'm'), ('yard', 36 * inch, 'm'), ('mile', 63360 * inch, 'm'), ('nautical_mile', F(1852), 'm'),
        ('astronomical_unit', F(149597870700), 'm'), ('light_year', F(299792458 * 31557600), 'm'),
        ('pound', lb, 'kg'), ('ounce', lb / 16, 'kg'), ('grain', lb / 7000, 'kg'), ('stone', 14 * lb, 'kg'), ('tonne', F(1000), 'kg'), ('carat', F(2, 10000), 'kg'),
        ('troy_ounce', 480 * lb / 7000, 'kg'),
        ('minute', F(60), 's'), ('hour', F(3600), 's'), ('day', F(86400), 's'), ('week', F(604800), 's'), ('julian_year', F(31557600), 's'),
        ('liter', F(1, 1000), 'm^3'), ('gallon', gal, 'm^3'), ('pint', gal / 8, 'm^3'), ('fluid_ounce', gal / 128, 'm^3'), ('acre', 4840 * (36 * inch) ** 2, 'm^2'),
        ('hectare', F(10000), 'm^2'), ('knot', F(1852, 3600), 'm/s'), ('mph', 63360 * inch / 3600, 'm/s'),
        ('newton', F(1), 'kg m / s^2'), ('dyne', F(1, 10 ** 5), 'kg m / s^2'), ('lbf', lb * g0, 'kg m / s^2'),
        ('pascal', F(1), 'kg / (m s^2)'), ('bar', F(10 ** 5), 'kg / (m s^2)'), ('atmosphere', F(101325), 'kg / (m s^2)'), ('psi', lb * g0 / inch ** 2, 'kg / (m s^2)'),
        ('joule', F(1), 'kg m^2 / s^2'), ('erg', F(1, 10 ** 7), 'kg m^2 / s^2'), ('calorie', F('4.184'), 'kg m^2 / s^2'), ('electron_volt', F('1.602176634e-19'), 'kg m^2 / s^2'),
        ('watt', F(1), 'kg m^2 / s^3'), ('horsepower', 550 * 12 * inch * lb * g0, 'kg m^2 / s^3'),
        ('volt', F(1), 'kg m^2 / (s^3 A)'), ('ohm', F(1), 'kg m^2 / (s^3 A^2)'), ('farad', F(1), 's^4 A^2 / (kg m^2)'), ('tesla', F(1), 'kg / (s^2 A)'),
        ('gauss', F(1, 10 ** 4), 'kg / (s^2 A)'), ('curie', F('3.7e10'), '1/s'), ('byte', F(8), 'bit'), ('rankine', F(5, 9), 'K'),
        ('kilo', F(1000), 'unitless'), ('kibi', F(1024), 'unitless'), ('percent', F(1, 100), 'unitless'), ('dozen', F(12), 'unitless'),
    ]


def replay(c, obj):
    print(json.dumps(obj, indent=1, ensure_ascii=False))
    if 'input' in obj:
        print('evaluate:', l2(c, [obj['input']])[0])
    return 0
