"""Shared helpers of the fmt area checks (gen/c02.py, gen/c03.py): an
independent reference for fend's number renderings written from the property
statements with Python's Fraction/int (exact), wire encoders for the h_fmt /
run_fmt ops, and case generators."""
from fractions import Fraction
from math import gcd
from vlib import sx, Sym, parse_sx, try_parse, cps

DIG = '0123456789abcdefghijklmnopqrstuvwxyz'
W = 1 << 64

def limbs(n):
    out = []
    while True:
        out.append(n % W)
        n //= W
        if n == 0:
            return out

def unlimbs(l):
    v = 0
    for x in reversed(l):
        v = v * W + x
    return v

def txt(cp_list):
    return ''.join(map(chr, cp_list))

# ---- bases ---------------------------------------------------------------
# (tag, b): 1 0b, 2 0o, 3 0x, 4 custom b#, 5 plain
def base_val(bk):
    return {1: 2, 2: 8, 3: 16}.get(bk[0], bk[1])

def prefix(bk):
    return {1: '0b', 2: '0o', 3: '0x', 4: '%d#' % bk[1], 5: ''}[bk[0]]

def has_prefix(bk):
    return bk[0] != 5

STYLES = {'fraction': (1, 0), 'mixed_fraction': (2, 0), 'float': (3, 0), 'exact': (4, 0), 'auto': (7, 0)}

def style_tag(st):
    """st = name or ('dp', n) / ('sf', n)"""
    if isinstance(st, tuple):
        return (5 if st[0] == 'dp' else 6, st[1])
    return STYLES[st]

def style_text(st):
    if isinstance(st, tuple):
        return '%d %s' % (st[1], st[0])
    return st

# ---- exact reference -----------------------------------------------------
def int_digits(n, b):
    if n == 0:
        return '0'
    s = []
    while n:
        s.append(DIG[n % b])
        n //= b
    return ''.join(reversed(s))

def terminates(q, b):
    """q reduced denominator: q | b^k for some k"""
    g = gcd(q, b)
    while g > 1:
        while q % g == 0:
            q //= g
        g = gcd(q, b)
    return q == 1

def expansion(p, q, b, limit=None):
    """0 <= p/q: (integer part, pre-period digits, period digits) by the
    first repeated remainder (minimal pre-period and period); with `limit`
    returns (ip, first `limit` digits, None) when no repeat/termination was
    seen within `limit` digits"""
    ip, r = divmod(p, q)
    seen = {}
    ds = []
    while r != 0 and r not in seen:
        if limit is not None and len(ds) >= limit:
            return ip, ''.join(ds), None
        seen[r] = len(ds)
        d, r = divmod(r * b, q)
        ds.append(DIG[d])
    if r == 0:
        return ip, ''.join(ds), ''
    mu = seen[r]
    return ip, ''.join(ds[:mu]), ''.join(ds[mu:])

def trunc_digits(p, q, b, n):
    """first n digits after the point of p/q (0 <= p/q), and whether the rest is zero"""
    ip, r = divmod(p, q)
    ds = []
    for _ in range(n):
        if r == 0:
            break
        d, r = divmod(r * b, q)
        ds.append(DIG[d])
    return ip, ''.join(ds), r == 0

def render(x, st, bk, comma=False, vexact=True, term=''):
    """reference rendering of the rational x: (text, exact flag).  Written
    from the C02/C03 statements: canonical digits, canonical expansion,
    truncation for dp/sf, exact iff nothing was dropped.  `term` is the
    imaginary suffix ('i'): appended to a decimal / integer (after a space in
    bases above 10), written in the numerator of a fraction, a coefficient 1
    omitted in a prefix-less base."""
    b = base_val(bk)
    pre = prefix(bk)
    point = ',' if comma else '.'
    if not vexact and st == 'auto':
        st = ('dp', 10)
    neg = x < 0
    a = -x if neg else x
    p, q = a.numerator, a.denominator
    sgn = '-' if neg else ''
    sp10 = ' ' if (term and b > 10) else ''
    if q == 1:
        if term and not has_prefix(bk) and p == 1:
            return sgn + term, vexact
        ds = int_digits(p, b)
        ex = True
        if isinstance(st, tuple) and st[0] == 'sf' and p != 0:
            n = st[1]
            shown = ds[:n] + '0' * max(0, len(ds) - n)
            ex = shown == ds
            ds = shown
        return sgn + pre + ds + sp10 + term, vexact and ex
    term_ = terminates(q, b)
    if st in ('fraction', 'mixed_fraction') or (st == 'exact' and not term_):
        if st == 'fraction' or p < q:
            if term and not has_prefix(bk) and p == 1:
                return sgn + term + '/' + pre + int_digits(q, b), vexact
            return sgn + pre + int_digits(p, b) + (' ' if (term and b >= 19) else '') + term + '/' + pre + int_digits(q, b), vexact
        i, r = divmod(p, q)
        return (sgn + pre + int_digits(i, b) + ' ' + pre + int_digits(r, b) + '/' + pre + int_digits(q, b)
                + (' ' + term if term else '')), vexact
    if st in ('float', 'exact') or (st == 'auto' and term_):
        ip, a1, rec = expansion(p, q, b)
        t = pre + int_digits(ip, b) + point + a1
        if rec:
            t += '(' + rec + ')'
        return sgn + t + sp10 + term, vexact
    # truncations
    ip = p // q
    ipd = int_digits(ip, b)
    ex_int = True
    if st == 'auto':
        n = 10
        lead = False
    elif st[0] == 'dp':
        n = st[1]
        lead = False
    else:
        sf = st[1]
        if ip == 0:
            n = max(sf - 1, 0) + 1      # significant digits after the leading zeros
            lead = True
        else:
            shown = ipd[:sf] + '0' * max(0, len(ipd) - sf)
            ex_int = shown == ipd
            ipd = shown
            n = max(sf - len(ipd), 0)
            lead = False
    r = p - ip * q
    ds = []
    cnt = 0
    started = not lead
    while r != 0 and cnt < n:
        d, r = divmod(r * b, q)
        ds.append(DIG[d])
        if d != 0:
            started = True
        if started:
            cnt += 1
    frac = ''.join(ds).rstrip('0')
    ex = (r == 0) and ex_int
    if frac:
        return sgn + pre + ipd + point + frac + sp10 + term, vexact and ex
    # nothing but zeros shown after the point: the minus sign is kept only
    # for a non-zero integer part
    return (sgn if ip != 0 else '') + pre + ipd + sp10 + term, vexact and ex

def render_complex(re, im, st, bk, comma=False, vexact=True, re_inexact=False, im_inexact=False):
    """re + im i as Value::format shows it: each part rendered on its own (an
    inexact value in auto style to 10 dp; auto with a non-zero imaginary part
    as `exact`), joined by ' + ' / ' - '; exact iff the value and both parts are.
    re_inexact / im_inexact: the part is an approximation (a multiple of pi)."""
    if not vexact and st == 'auto':
        st = ('dp', 10)
    if im != 0 and st == 'auto':
        st = 'exact'
    if im == 0:
        t, ex = render(re, st, bk, comma, True)
        return t, vexact and ex and not re_inexact
    if re == 0:
        t, ex = render(im, st, bk, comma, True, term='i')
        return t, vexact and ex and not im_inexact
    tr, er = render(re, st, bk, comma, True)
    ti, ei = render(abs(im), st, bk, comma, True, term='i')
    return tr + (' + ' if im > 0 else ' - ') + ti, vexact and er and ei and not re_inexact and not im_inexact


def shown(text, exact):
    return text if exact else 'approx. ' + text

# ---- wire ---------------------------------------------------------------
def fmt_rat_line(x_neg, num, den, vexact, bk, st, comma, force_large=0, lead=0):
    """lead = number of zero limbs appended to numerator and denominator
    (a non-canonical BigUint::Large, same value)"""
    t, n = style_tag(st)
    return sx([Sym('fmt-rat'), int(x_neg), limbs(num) + [0] * lead, limbs(den) + [0] * lead, int(vexact), bk[0], bk[1], t, n,
               int(comma), int(force_large or lead > 0)])

def res_text(o):
    """('ok', text) | ('err', name) | ('crash', raw)"""
    p = try_parse(o)
    if isinstance(p, list) and p and p[0] == b'ok' and len(p) >= 2 and isinstance(p[1], list):
        return ('ok', txt(p[1]))
    if isinstance(p, list) and p and p[0] == b'err':
        return ('err', p[1].decode() if isinstance(p[1], bytes) else repr(p[1]))
    return ('crash', o)

def q_of(sxq):
    """(neg num den) -> Fraction"""
    n, p, q = sxq
    return Fraction(-p if n else p, q)

def prefixed(text, bk):
    """restore the base prefix on every number of a rendering printed in a
    prefix-less base"""
    if has_prefix(bk) or bk[1] == 10:
        return text
    pre = '%d#' % bk[1]
    out = []
    tok = ''
    for ch in text:
        if ch in ' /-':
            if tok:
                out.append(pre + tok)
                tok = ''
            out.append(ch)
        else:
            tok += ch
    if tok:
        out.append(pre + tok)
    return ''.join(out)

# primes with the base as a primitive root give the longest periods
def is_prime(n):
    if n < 2:
        return False
    i = 2
    while i * i <= n:
        if n % i == 0:
            return False
        i += 1
    return True

def mult_order(b, q):
    if gcd(b, q) != 1:
        return 0
    k, v = 1, b % q
    while v != 1:
        v = v * b % q
        k += 1
    return k

def long_period_primes(b, lo, hi, count):
    out = []
    q = hi
    while q >= lo and len(out) < count:
        if is_prime(q) and gcd(q, b) == 1 and mult_order(b, q) == q - 1:
            out.append(q)
        q -= 1
    return out

def prime_factors(n):
    out = []
    d = 2
    while d * d <= n:
        if n % d == 0:
            out.append(d)
            while n % d == 0:
                n //= d
        d += 1
    if n > 1:
        out.append(n)
    return out
