"""C14 — loading variable bytes is memory-safe for arbitrary input.
Proof: coq/Properties/C14.v (model coq/Ser/Codec.v, proofs Ser/CodecSafe.v).
Tie: valid images written by the implementation are truncated at every point,
have single bytes substituted and 8-byte fields overwritten with extreme
values at (a sample of) every offset, plus random byte strings; for each
input
  * the implementation (Context::deserialize_variables, public API, one
    crash-isolated worker, 4 GiB address space) must answer Ok or Err - not
    panic, abort or hang - and its largest single allocation request (a
    recording global allocator in the harness) must stay in proportion to the
    input (the property verdict),
  * accept/reject and the re-saved entries must equal the model's, and the
    model's largest capacity request must predict the observed one,
  * every accepted image is probed: each variable is printed, debug-printed,
    used in arithmetic and applied; a crash there is a violation unless the
    model says the loaded value is not well-formed (finding loaded_not_wf)."""
import collections, json, time
from vlib import sx, Sym, parse_sx, try_parse
import ser_common as S

TRUSTED_BASE = [
    'Coq 8.16.1 kernel + vm_compute (witnesses)',
    'extraction ExtrOcamlBasic -> OCaml 4.13.1, modelrun/driver.ml; cross-checked against vm_compute on a sample',
    'harness/src/bin/h_ser.rs: public API only; a GlobalAlloc wrapper records the largest request; verif_hooks::ser::container_elem_sizes (size_of of five element types, three of them through mirror structs)',
    'the process abort on allocation failure and hangs are observed by the runner (gen/vlib.py), not modelled',
    'HashMap::with_capacity/reserve are modelled by entries x entry size (an under-approximation of hashbrown); only Vec::with_capacity has a documented panic condition',
    'what evaluation needs of a loaded value (wf_sem) is a hypothesis tested by the crash probe, not derived from a model of the evaluator',
]
ASSUMPTIONS = ['64-bit target (usize = u64, isize::MAX = 2^63 - 1)', 'inputs fit in memory (max element size x length <= isize::MAX) for C14_no_panic_except_known']

BASE_HISTORIES = [
    ['a = 5'], ['b = "hi"'], ['c = 3 kg to 2 dp'], ['f = \\x.x+1'], ['d = @2020-02-29'], ['x = 0x1f to hex'], ['r = 2^70'],
    ['p = pi/3'], ['q = 1/3 to 5 sf'], ['dd = d4'], ['t = true'], ['u = ()'], ['z = 2+3i'], ['fm = frac'], ['s = sin'],
    ['k = 5 km/h'], ['g = (x: x^2 + 2 kg)'], ['m = month of (@2020-02-29)'], ['w = day_of_week of (@2020-02-29)'], ['bb = base 7'],
    ['o = gravity of earth', 'oo = earth'], ['f = \\x.\\y.x+y', 'g = f 3'], ['h = (\\x.\\y.\\z.x+y+z) 1 2'], ['e = "é✓"', 'n = -7/3'],
    ['fl = floor'], ['l = x: x == "s"'], ['dp1 = dp', 'sf1 = sf'], ['st = (a = 1; a + 1)'], ['ap = x: (y = x; y!)'],
]
PROBES = ['$', '@debug $', '$ + 35', '$ 2', '($ 3) + 35', '$ to base 7', '-$', '1/$']

def bound(n, max_sz):
    """what `in proportion to the input' means for the verdict: four times the
    theorem's line (largest element size x input length) plus 1 MiB of slack
    (a bounded pre-allocation such as min(len, 1024) elements, hashbrown's
    rounding to a power of two, the harness's own buffers)"""
    return 4 * max_sz * n + (1 << 20)

def kind_of(o):
    p = try_parse(o)
    if isinstance(p, list) and p and isinstance(p[0], bytes):
        return p[0].decode('ascii', 'replace'), p
    return '??', p

def check(c):
    c.rule = ('valid images of 29 base histories (every value kind incl. closures with scopes) and of random histories; per image: every truncation, '
              'single-byte substitutions {0,1,2,3,6,7,12,13,14,16,17,31,32,36,37,0x7f,0x80,200,0xff,b^1,b+1,b-1} and 8-byte overwrites {0,1,2,2^32,2^40,2^60,2^61,2^63-1,2^63,2^64-1} '
              'at every offset (quick: a sample of offsets), random byte strings, valid-header-plus-garbage; non-trivial = the mutant differs from every valid image '
              'and is not rejected at its first field; distinct by image bytes')
    names_ok = S.regenerate_names(c)
    ok = c.proof(['C14'], extra_targets=['Extract/XSer.vo'])
    if c.tier == 'thorough':
        c.thorough_proof(['C14'])
    if not names_ok:
        return
    sizes = S.get_sizes(c)
    TODAY, FIXED = S.cfg_today(sizes), S.cfg_fixed(sizes)
    max_sz = max([8] + sizes)
    r = c.rng
    nm = parse_sx(c.model(S.AREA, ['(names)'], cross=False)[0])
    builtins = [b.decode() for b in nm[0]]

    # ---- valid images -----------------------------------------------------
    hists = [h for h in BASE_HISTORIES]
    for _ in range(6 if c.tier == 'quick' else 12):
        hists.append(S.gen_history(r, builtins, 1, 3)[0])
    saved = c.impl(S.AREA, [sx([Sym('save')] + h) for h in hists], timeout=40)
    images = []
    for h, o in zip(hists, saved):
        k, p = kind_of(o)
        if k == 'ok':
            images.append((h, p[1]))
    # ---- structure-aware variants (coq/Ser/Variants.v): one field of a valid value replaced by another
    # encoding / an in-range but impossible value / an emptied or duplicated container, re-encoded by the model
    vsrc = [(h, img) for h, img in images if c.tier != 'quick' or len(img) <= 1500]
    import vlib
    vout = vlib.run_batch([vlib.build_model(S.AREA)], [S.mline('variants', TODAY, img) for _, img in vsrc],
                          timeout=600, stack_unlimited=True, min_chunk=1)
    variants = []
    vseen = set()
    for (h, _), o in zip(vsrc, vout):
        vs = [v for v in (try_parse(o) or []) if isinstance(v, bytes)]
        fresh = []
        for v in vs:
            if v not in vseen:
                vseen.add(v)
                fresh.append(v)
        if c.tier == 'quick' and len(fresh) > 110:
            fresh = r.sample(fresh, 110)
        variants += [(h, 'variant', j, v) for j, v in enumerate(fresh)]
    c.extra['structure_aware_variants'] = len(variants)
    # ---- mutants ------------------------------------------------------------
    cases = list(variants)      # (origin, kind, offset, bytes)
    per_image = 330 if c.tier == 'quick' else None
    for h, img in images:
        cases.append((h, 'valid', 0, img))
        small = len(img) <= 150
        if c.tier == 'quick':
            ms = S.mutants(img, r, positions=(None if small else 20), limit=(1200 if small else per_image))
        else:
            # every offset of images up to 400 bytes; 120 sampled offsets (and every truncation) of larger ones
            ms = S.mutants(img, r, positions=(None if len(img) <= 400 else 120), limit=None)
        for k, off, b in ms:
            cases.append((h, k, off, b))
    for _ in range(300 if c.tier == 'quick' else 5000):
        n = r.choice([0, 1, 7, 8, 9, 16, 17, 40, 100])
        cases.append((None, 'random', 0, bytes(r.randrange(256) for _ in range(n))))
    for _ in range(300 if c.tier == 'quick' else 5000):
        # plausible header: count, name, then a tag and garbage biased to small bytes
        cnt = r.choice([0, 1, 1, 1, 2, 3])
        name = bytes(r.choice(b'abcxyz_') for _ in range(r.randint(0, 3)))
        body = bytes(r.choice([0, 0, 1, 1, 2, 3, 5, 6, 7, 8, 10, 13, r.randrange(256)]) for _ in range(r.randint(0, 60)))
        cases.append((None, 'header+garbage', 0, cnt.to_bytes(8, 'big') + len(name).to_bytes(8, 'big') + name + body))
    # regression corpus: the inputs of the repaired findings (coq/Ser/Witness.v witness_images)
    for w in parse_sx(c.model(S.AREA, ['(witnesses)'], cross=False)[0]):
        cases.insert(0, (None, 'witness', 0, w))
    # dedupe by bytes
    seen = set()
    uniq = []
    for cs in cases:
        if cs[3] not in seen:
            seen.add(cs[3])
            uniq.append(cs)
    cases = uniq
    valid_set = {img for _, img in images}

    t0 = time.time()
    il = c.impl(S.AREA, [sx([Sym('load'), cs[3]]) for cs in cases])
    t1 = time.time()
    # one batch for the model (each c.model call re-validates the extraction build):
    # the inputs under the model of the tree, under the model with every repair (only if that is a
    # different configuration), and the images the implementation wrote after an accepted load
    idx2, lines2 = [], []
    for i, o in enumerate(il):
        k, p = kind_of(o)
        if k == 'ok':
            idx2.append(i)
            lines2.append(S.mline('entries', TODAY, p[1]))
    lt = [S.mline('entries', TODAY, cs[3]) for cs in cases]
    need_fixed = (TODAY[0], TODAY[2], TODAY[3]) != (FIXED[0], FIXED[2], FIXED[3])
    lf = [S.mline('entries', FIXED, cs[3]) for cs in cases] if need_fixed else []
    mo = c.model(S.AREA, lt + lf + lines2)
    mt = mo[:len(lt)]
    mf = mo[len(lt):len(lt) + len(lf)] if need_fixed else mt
    m2 = dict(zip(idx2, mo[len(lt) + len(lf):]))

    t2 = time.time()
    accepted = []
    suspicious = []
    outcome = collections.Counter()
    for i, cs in enumerate(cases):
        origin, mk, off, b = cs
        ik, ip = kind_of(il[i])
        tk, tp = kind_of(mt[i])
        fk, fp = kind_of(mf[i])
        A = tp[-1] if isinstance(tp, list) and isinstance(tp[-1], int) else 0
        n = len(b)
        replay = {'kind': 'impl-vs-spec', 'mutation': mk, 'offset': off, 'origin_history': origin, 'image_hex': b.hex(), 'impl': il[i][:200], 'model_today': mt[i][:120]}
        first_field_reject = (tk == 'err' and n < 8) or mk == 'valid'
        c.note_case(b.hex(), (b not in valid_set) and not first_field_reject, mk)
        outcome[(ik, tk)] += 1
        crash = ik in ('panic', 'abort', 'hang', '??')
        observed = ip[-2] if ik == 'ok' else (ip[-1] if ik in ('err', 'panic') and isinstance(ip[-1], int) else 0)
        out_of_proportion = observed > bound(n, max_sz)
        if crash or out_of_proportion:
            # property violated on this input
            # classifier of the listed finding = negation of Ser.CodecCor.alloc_okb
            if A > max_sz * n and c.known_finding('alloc_untrusted_len'):
                continue
            c.violation('load-crashes-or-overallocates', dict(replay, observed_max_alloc=observed, model_max_alloc=A,
                                                             what=('crash' if crash else 'allocation out of proportion')))
            continue
        # ---- clean answer: the tie ----
        if A >= (1 << 33):
            # the pinned reader would have asked for >= 8 GiB here: the capacity is no longer taken from the input
            if ik == fk:
                c.notes.append('alloc_untrusted_len did not reproduce (%s at %d)' % (mk, off))
            else:
                c.violation('accept-reject-differs-from-model', dict(replay, kind='impl-vs-model', layer='L2 accept/reject', model_fixed=mf[i][:120]), no_input=True)
            continue
        if ik != tk and mk == 'witness':
            # an input of a repaired finding is handled differently again: a regression, with its input
            c.violation('regression-of-repaired-finding', dict(replay, what='implementation %s, model of the repaired code %s' % (ik, tk)))
            continue
        if ik != tk:
            if ik == fk and ik == 'err' and tk == 'ok':
                # rejected by the implementation, accepted by the model of the pinned reader, rejected by the
                # model of the validating reader: the load path now validates (finding loaded_not_wf repaired)
                c.notes.append('validation observed: %s at %d rejected' % (mk, off))
                continue
            c.violation('accept-reject-differs-from-model', dict(replay, kind='impl-vs-model', layer='L2 accept/reject'), no_input=True)
            if ik == 'ok':
                suspicious.append(i)     # accepted although the model rejects: search for a crash on it below
            continue
        if A > 4096 and A > observed:
            # the implementation pre-allocated less than the model of the pinned reader predicts (a capped or
            # dropped with_capacity): same result, different allocation strategy - never worse for the property
            c.repr_drift += 1
        if ik == 'ok':
            ents = S.split_entries(tp)
            p2k, p2 = kind_of(m2.get(i, ''))
            if p2k != 'ok' or collections.Counter(e['canon'] for e in ents) != collections.Counter(e['canon'] for e in S.split_entries(p2)):
                c.violation('resaved-entries-differ-from-model', dict(replay, kind='impl-vs-model', layer='L2 bytes after reload'), no_input=True)
                continue
            if ip[3] != tp[2]:
                c.violation('consumed-length-differs-from-model', dict(replay, kind='impl-vs-model', layer='bytes left', impl_left=ip[3], model_left=tp[2]), no_input=True)
                continue
            accepted.append((i, ents))
    c.extra['outcomes_impl_model'] = {'%s/%s' % k: v for k, v in sorted(outcome.items())}

    # the tie broke on images the implementation accepts and the model rejects: look for a property violation
    # on them (their variables and kinds as the non-validating reader sees them)
    if suspicious:
        suspicious = suspicious[:400]
        lo = c.model(S.AREA, [S.mline('entries', S.cfg_pinned(sizes), cases[i][3]) for i in suspicious], cross=False)
        for i, o in zip(suspicious, lo):
            kk, pp = kind_of(o)
            if kk == 'ok':
                accepted.append((i, S.split_entries(pp)))
                cases[i] = (cases[i][0], 'variant', cases[i][2], cases[i][3])   # never sampled away
    # ---- evaluation battery on accepted images ---------------------------
    # every accepted structure-aware variant, a sample of the other accepted images (all in thorough tier);
    # per variable an operation battery chosen by the kind of the loaded value (ser_common.battery)
    acc_var = [a for a in accepted if cases[a[0]][1] in ('variant', 'witness')]
    acc_oth = [a for a in accepted if cases[a[0]][1] not in ('variant', 'witness')]
    if c.tier == 'quick' and len(acc_oth) > 300:
        acc_oth = r.sample(acc_oth, 300)
    accepted = acc_var + acc_oth
    plan = []
    for i, ents in accepted:
        exprs, seen_val = [], set()
        for e in ents[:6]:
            val = e['bytes'][8 + len(e['name']):]
            if val in seen_val:          # `_`, `ans` and the variable usually hold the same value
                continue
            seen_val.add(val)
            nm_ = e['name'].decode('utf-8', 'replace')
            exprs += [p_.replace('$', nm_) for p_ in S.battery(e['kind'])]
        plan.append(exprs)
    pl = c.impl(S.AREA, [sx([Sym('evalx'), cases[i][3]] + ex) for (i, _), ex in zip(accepted, plan)], timeout=30)
    # a request that died as a whole (abort / hang): find the expression by running them one at a time
    redo = [(n, x) for n, o in enumerate(pl) if kind_of(o)[0] != 'ok' for x in plan[n]]
    redo_out = c.impl(S.AREA, [sx([Sym('evalx'), cases[accepted[n][0]][3], x]) for n, x in redo], timeout=30) if redo else []
    culprit = {}
    for (n, x), o in zip(redo, redo_out):
        if kind_of(o)[0] != 'ok' and n not in culprit:
            culprit[n] = (x, o[:80])
    t3 = time.time()
    c.extra['phase_seconds'] = {'impl_load': round(t1 - t0, 1), 'model': round(t2 - t1, 1), 'crash_probe': round(t3 - t2, 1)}
    probe_stats = collections.Counter()
    nexpr = nskipped = 0
    for n, ((i, ents), o) in enumerate(zip(accepted, pl)):
        origin, mk, off, b = cases[i]
        k, p = kind_of(o)
        wf = all(e['wfs'] for e in ents)
        bad = None
        if k != 'ok':
            x, how = culprit.get(n, ('(no single expression reproduces it)', o[:80]))
            bad = 'evaluating %r against the loaded context: %s' % (x, how)
        else:
            for x, res in zip(plan[n], p[1]):
                nexpr += 1
                if res[0] == b's':
                    nskipped += 1
                if res[0] == b'p':
                    bad = 'evaluating %r against the loaded context panics: %s' % (x, res[1][:100].decode('utf-8', 'replace'))
                    break
            if bad is None and p[2] != 1:
                bad = 'the loaded context cannot be saved again'
        probe_stats[('crash' if bad else 'fine', 'wf' if wf else 'not-wf', 'variant' if mk in ('variant', 'witness') else 'mutant')] += 1
        if bad:
            if (not wf) and c.known_finding('loaded_not_wf'):
                continue
            # classifier of finding dist_sort_not_total_order: exactly this panic of the standard sort
            if 'does not correctly implement a total order' in bad and c.known_finding('dist_sort_not_total_order'):
                continue
            c.violation('loaded-context-crashes', {'kind': 'impl-vs-spec', 'mutation': mk, 'offset': off, 'origin_history': origin,
                                                    'image_hex': b.hex(), 'what': bad, 'model_says_well_formed': wf})
    c.extra['battery_expressions'] = {'evaluated': nexpr, 'beyond_time_budget': nskipped}
    c.extra['crash_probe'] = {'/'.join(k): v for k, v in sorted(probe_stats.items())}
    c.extra['valid_images'] = len(images)
    c.extra['battery_sizes'] = {'number': len(S.BAT_NUM), 'date': len(S.BAT_DATE), 'string': len(S.BAT_STR), 'function': len(S.BAT_FN), 'other': len(S.BAT_OTHER)}
    if cases:
        c.sample({'mutation': cases[len(cases) // 3][1], 'offset': cases[len(cases) // 3][2], 'impl': il[len(cases) // 3][:60], 'model': mt[len(cases) // 3][:60]})
    if c.tier == 'thorough':
        c.extra['exhaustive_scope'] = 'every truncation point of %d valid images; every offset of those up to 400 bytes (120 sampled offsets of larger ones) for the listed substitution / overwrite values' % len(images)


def replay(c, obj):
    print(json.dumps({k: v for k, v in obj.items() if k != 'image_hex'}, indent=1))
    if 'image_hex' in obj:
        b = bytes.fromhex(obj['image_hex'])
        sizes = S.get_sizes(c)
        print('impl load  :', c.impl(S.AREA, [sx([Sym('load'), b])])[0][:200])
        print('model today:', c.model(S.AREA, [S.mline('dump', S.cfg_today(sizes), b)], cross=False)[0][:1500])
        print('model fixed:', c.model(S.AREA, [S.mline('entries', S.cfg_fixed(sizes), b)], cross=False)[0][:200])
    return 0
