"""C16 -- calendar arithmetic follows the proleptic Gregorian calendar.
Proof: coq/Properties/C16.v (model coq/Date/Calendar.v + DateParse.v against the
rata-die spec coq/Date/Gregorian.v).  Tie: L2 fend_core::evaluate on `@Y-M-D`,
`+ n days`, `- n days|weeks|months|years`, `day_of_week of`, `month of`,
`"..." to date`; L1 Date::{next,prev,diff_months,parse,Display} on raw
(year, month, day) through the verif-hooks.  Three answers per case:
impl, model (extracted Gallina mirror), spec (an independent calendar written
here, cross-checked against python's datetime, plus the *proved* Coq rd/g_valid
applied as a predicate to the implementation's own output)."""
import re, json, datetime
from vlib import sx, Sym, parse_sx, try_parse, cps

TRUSTED_BASE = [
    'Coq 8.16.1 kernel (vm_compute only for the closed constants rd_max - rd_min <= usize::MAX and the Examples)',
    'extraction ExtrOcamlBasic -> OCaml, modelrun/driver.ml; cross-checked against vm_compute on a sample of every batch',
    'harness/src/bin/h_date.rs (evaluate_with_interrupt on generated text; hook calls) and /repo/core/src/verif_hooks/date.rs (builds a Date through Date::deserialize, reads it through Date::serialize)',
    'hand-written model coq/Date/Calendar.v, coq/Date/DateParse.v tied to core/src/date.rs, date/*.rs, lexer.rs::parse_date only by this differential run',
    'the numeric operand of + / - (unit match, try_as_usize_unit) is fend number code outside this property: the model takes the integer count; non-integer / wrong-unit operands are only checked to be errors',
    'python spec calendar in gen/c16.py is a second opinion; the property verdict also uses the proved Coq rd / g_valid on the implementation output',
]
ASSUMPTIONS = [
    'Rust char::is_whitespace = Unicode White_Space (the 25 code points listed in DateParse.is_ws); char::to_digit(10) accepts exactly 0-9',
    'years are i32 (Year), months 1..12, days 1..31 (Day): hypothesis wfy / date_wf of the theorems',
]

I32_MAX = 2147483647
I32_MIN = -2147483648
USIZE_MAX = 2 ** 64 - 1
I64_MAX = 2 ** 63 - 1
DOW = ['Sunday', 'Monday', 'Tuesday', 'Wednesday', 'Thursday', 'Friday', 'Saturday']
MON = ['January', 'February', 'March', 'April', 'May', 'June', 'July', 'August', 'September', 'October', 'November', 'December']
WS = [9, 10, 11, 12, 13, 32, 0x85, 0xa0, 0x1680] + list(range(0x2000, 0x200b)) + [0x2028, 0x2029, 0x202f, 0x205f, 0x3000]

# ---------------------------------------------------------------------------
# independent calendar on astronomical year numbers (1 BC = 0), any integer

def leap(a): return (a % 4 == 0 and a % 100 != 0) or a % 400 == 0
def mdays(a, m): return (31, 29 if leap(a) else 28, 31, 30, 31, 30, 31, 31, 30, 31, 30, 31)[m - 1]
def dby(a): return 365 * (a - 1) + (a - 1) // 4 - (a - 1) // 100 + (a - 1) // 400
def rd(a, m, d): return dby(a) + sum(mdays(a, k) for k in range(1, m)) + d
def gvalid(a, m, d): return 1 <= m <= 12 and 1 <= d <= mdays(a, m)

def of_rd(n):
    a = (n * 400) // 146097 + 2
    while dby(a) >= n: a -= 1
    while dby(a + 1) < n: a += 1
    r = n - dby(a)
    m = 1
    while r > mdays(a, m):
        r -= mdays(a, m); m += 1
    return a, m, r

def astro(v): return v if v > 0 else v + 1          # fend year value -> astronomical
def yval(a): return a if a >= 1 else a - 1          # astronomical -> fend year value
def show_year(a): return str(a) if a >= 1 else '%d BC' % (1 - a)
def show(a, m, d): return '%s, %d %s %s' % (DOW[rd(a, m, d) % 7], d, MON[m - 1], show_year(a))

RD_MAX = rd(I32_MAX, 12, 31)
RD_MIN = rd(I32_MIN + 1, 1, 1)
RD_1000 = rd(1000, 1, 1)

def selfcheck():
    """the python calendar against python's datetime on 1..9999 (samples + all month starts of some years)"""
    for n in list(range(1, 800)) + list(range(730000, 731500)) + [3652059, 3652058, 146097, 146098, 36524, 36525, 1461, 1462]:
        dd = datetime.date.fromordinal(n)
        assert of_rd(n) == (dd.year, dd.month, dd.day) and rd(dd.year, dd.month, dd.day) == n
        assert DOW[n % 7] == dd.strftime('%A'), n
    assert show(1970, 1, 1) == 'Thursday, 1 January 1970'

UNITS = {'day': 0, 'week': 1, 'month': 2, 'year': 3}

def spec_calc(lit, steps):
    """lit = (Y, M, D) as written (value year >= 1000 and valid is the caller's business);
    steps = [('add', n) | ('sub', unit, n)].  Returns ('ok', (a, m, d)) | ('nonexistent', a, m, d, before, after) | ('err', kind)"""
    a, m, d = astro(lit[0]), lit[1], lit[2]
    for st in steps:
        n = st[-1]
        if n < 0: return ('err', 'negative')
        if n > USIZE_MAX: return ('err', 'range')
        if st[0] == 'add':
            t = rd(a, m, d) + n
            if t > RD_MAX: return ('err', 'year')
            a, m, d = of_rd(t)
        elif st[1] in ('day', 'week'):
            t = rd(a, m, d) - (n if st[1] == 'day' else 7 * n)
            if t < RD_MIN: return ('err', 'year')
            a, m, d = of_rd(t)
        else:
            k = n if st[1] == 'month' else 12 * n
            if k > USIZE_MAX or k > I64_MAX: return ('err', 'large')
            idx = 12 * (a - 1) + (m - 1) - k
            if idx < 12 * I32_MIN: return ('err', 'year')
            a2, m2 = idx // 12 + 1, idx % 12 + 1
            if d > mdays(a2, m2):
                b = (a2, m2, mdays(a2, m2))
                return ('nonexistent', a2, m2, d, b, of_rd(rd(*b) + 1))
            a, m = a2, m2
    return ('ok', (a, m, d))

def nonexistent_msg(a, m, d, b, af):
    return '%s %d, %d does not exist, did you mean %s or %s?' % (MON[m - 1], d, yval(a), show(*b), show(*af))

def project(proj, amd):
    if proj == 0: return show(*amd)
    if proj == 1: return DOW[rd(*amd) % 7]
    return MON[amd[1] - 1]

# ---------------------------------------------------------------------------
# literal acceptance (spec)

WS_SET = set(WS)
RE_YMD = re.compile(r'([0-9]+)-([0-9]+)-([0-9]+)\Z')

def py_parse(s):
    """Date::parse according to the property: trimmed text is Y-M-D in ASCII digits, year without
    leading zero, 1000 <= Y <= i32::MAX, real Gregorian day.  -> (Y, M, D) or None"""
    i, j = 0, len(s)
    while i < j and ord(s[i]) in WS_SET: i += 1
    while j > i and ord(s[j - 1]) in WS_SET: j -= 1
    mt = RE_YMD.match(s[i:j])
    if not mt: return None
    Y, M, D = mt.groups()
    if Y[0] == '0': return None
    y, m, d = int(Y), int(M), int(D)
    if not (1000 <= y <= I32_MAX): return None
    return (y, m, d) if gvalid(y, m, d) else None

RE_LIT = re.compile(r'([0-9]+)-([0-9]+)-([0-9]+)')
def py_lex(s):
    """the '@' scanner: digits - digits - digits (maximal), then py_parse on that text -> ((Y,M,D)|None, rest) or None if no literal shape"""
    mt = RE_LIT.match(s)
    if not mt: return None
    return py_parse(mt.group(0)), s[mt.end():]

# ---------------------------------------------------------------------------
# expression building

def unit_word(r, u, n):
    return u + ('s' if r.random() < (0.8 if n != 1 else 0.3) else '')

def expr_text(r, lit_text, steps, proj):
    e = '@' + lit_text
    for st in steps:
        n = st[-1]
        ns = str(n) if n >= 0 else '(%d)' % n
        if st[0] == 'add':
            e = '(%s + %s %s)' % (e, ns, unit_word(r, 'day', n))
        else:
            e = '(%s - %s %s)' % (e, ns, unit_word(r, st[1], n))
    if proj == 1: e = 'day_of_week of ' + e
    if proj == 2: e = 'month of ' + e
    return e

def model_line(ck, lit_text, steps, proj):
    ss = []
    for st in steps:
        ss.append([Sym('add'), st[1]] if st[0] == 'add' else [Sym('sub'), UNITS[st[1]], st[2]])
    return sx([Sym('calc'), 1 if ck else 0, proj, cps(lit_text)] + ss)

def lit_canon(y, m, d): return '%d-%02d-%02d' % (y, m, d)

def route_to(amd):
    """(literal (Y,M,D), initial steps) reaching the astronomical date amd from a literal of year >= 1000"""
    a, m, d = amd
    if a >= 1000: return (a, m, d), []
    return (1000, 1, 1), [('sub', 'day', RD_1000 - rd(a, m, d))]

# ---------------------------------------------------------------------------
# generators

YEARS_B = [1, 2, 3, 4, 5, 99, 100, 101, 399, 400, 401, 999, 1000, 1001, 1582, 1599, 1600, 1601, 1699, 1700, 1899, 1900, 1901, 1999,
           2000, 2001, 2023, 2024, 2025, 2099, 2100, 2101, 2399, 2400, 9999, 10000, 10001, 99999, 100000, 2147483599, 2147483600,
           2147483644, 2147483646, 2147483647]

def boundary_cases():
    """(family, literal text, literal (Y,M,D) or None if the text is not an acceptable literal, steps, proj)"""
    out = []
    def lit(t, fam='lit-boundary'):
        p = py_lex(t)
        out.append((fam, t, p[0] if p and p[1] == '' else None, [], 0))
    for t in ['1970-01-01', '1000-01-01', '999-12-31', '0999-12-31', '9999-12-31', '10000-01-01', '2147483647-12-31', '2147483647-1-1',
              '2147483648-01-01', '4294967296-01-01', '99999999999999999999-1-1', '2000-02-29', '1900-02-29', '2100-02-29', '2400-02-29',
              '2024-02-29', '2023-02-29', '2024-02-30', '2020-00-10', '2020-13-01', '2020-01-00', '2020-01-32', '2020-1-1', '2020-01-1',
              '02020-01-01', '2020-001-0001', '2020-0000000000000001-1', '2020-1-0000000000000000000000000031', '2020-99999999999-1',
              '2020-1-99999999999', '2020-256-1', '2020-268-1', '2020-1-257', '2020-12-31', '2020-12-32', '1000-1-1', '1000-12-31',
              '2020-04-31', '2020-06-31', '2020-09-31', '2020-11-31', '2020-04-30', '2021-02-28', '2021-02-29', '214748364-1-1',
              '2147483647-02-29', '2147483644-02-29', '1-1-1', '0-1-1', '100-1-1']:
        lit(t)
    # the three repaired defects and their neighbours (status fixed: a regression is a plain violation)
    out.append(('was-bc-weekday', '1000-01-01', (1000, 1, 1), [('sub', 'year', 1000)], 0))
    out.append(('was-bc-weekday', '1000-01-01', (1000, 1, 1), [('sub', 'day', 364878)], 0))
    out.append(('was-bc-weekday', '1000-01-01', (1000, 1, 1), [('sub', 'day', 365184)], 0))
    out.append(('was-bc-weekday', '1000-01-01', (1000, 1, 1), [('sub', 'day', 365243)], 1))
    out.append(('was-year-overflow', '2147483647-12-31', (I32_MAX, 12, 31), [('add', 1)], 0))
    out.append(('was-year-overflow', '2147483647-12-31', (I32_MAX, 12, 31), [('add', 1), ('sub', 'day', 1)], 0))
    out.append(('was-year-overflow', '2147483647-12-30', (I32_MAX, 12, 30), [('add', 1)], 0))
    out.append(('was-year-overflow', '2147483647-01-01', (I32_MAX, 1, 1), [('add', 364)], 0))
    out.append(('was-year-overflow', '2147483647-01-01', (I32_MAX, 1, 1), [('add', 365)], 0))
    out.append(('was-sub-years-mul', '2020-01-01', (2020, 1, 1), [('sub', 'year', 1537228672809129302)], 0))
    out.append(('was-sub-years-mul', '2020-01-01', (2020, 1, 1), [('sub', 'year', 1537228672809129301)], 0))
    out.append(('operand-limits', '2020-01-01', (2020, 1, 1), [('sub', 'month', 9223372036854775808)], 0))
    out.append(('operand-limits', '2020-01-01', (2020, 1, 1), [('sub', 'day', 18446744073709551616)], 0))
    out.append(('operand-limits', '2020-01-01', (2020, 1, 1), [('add', 18446744073709551616)], 0))
    out.append(('operand-limits', '2020-01-01', (2020, 1, 1), [('add', -1)], 0))
    out.append(('operand-limits', '2020-01-01', (2020, 1, 1), [('sub', 'week', -3)], 0))
    out.append(('operand-limits', '2020-01-01', (2020, 1, 1), [('add', 0)], 0))
    out.append(('operand-limits', '2020-02-29', (2020, 2, 29), [('sub', 'year', 0)], 0))
    # walks to year 1 and past 9999
    out.append(('walk', '1000-01-01', (1000, 1, 1), [('sub', 'day', 364877)], 0))
    out.append(('walk', '1000-01-01', (1000, 1, 1), [('sub', 'year', 999)], 0))
    out.append(('walk', '1000-03-01', (1000, 3, 1), [('sub', 'month', 11990)], 0))
    out.append(('walk', '1000-01-01', (1000, 1, 1), [('sub', 'week', 52125)], 0))
    out.append(('walk', '9999-12-31', (9999, 12, 31), [('add', 1)], 0))
    out.append(('walk', '9999-12-31', (9999, 12, 31), [('add', 366), ('sub', 'day', 366)], 0))
    out.append(('walk', '2020-01-01', (2020, 1, 1), [('add', 1000000)], 0))
    out.append(('walk', '2020-01-01', (2020, 1, 1), [('sub', 'day', 1000000)], 0))
    out.append(('walk', '2020-01-01', (2020, 1, 1), [('add', 1000000), ('sub', 'day', 1000000)], 0))
    # steps across year / century / leap-day / month boundaries
    for a in YEARS_B:
        for (m, d) in [(12, 31), (1, 1), (2, 28), (3, 1), (12, 30), (1, 31), (6, 30), (7, 1)] + ([(2, 29)] if leap(a) else []):
            l, pre = route_to((a, m, d))
            t = lit_canon(*l)
            if (m, d) in [(12, 31), (2, 28), (2, 29), (12, 30), (1, 31), (6, 30)]:
                out.append(('boundary-step', t, l, pre + [('add', 1)], 0))
                out.append(('boundary-step', t, l, pre + [('add', 2)], 1))
            if (m, d) in [(1, 1), (3, 1), (7, 1)]:
                out.append(('boundary-step', t, l, pre + [('sub', 'day', 1)], 0))
                out.append(('boundary-step', t, l, pre + [('sub', 'week', 1)], 0))
            if a >= 3 and a >= 1000:
                out.append(('boundary-month', t, l, pre + [('sub', 'month', 1)], 0))
                out.append(('boundary-month', t, l, pre + [('sub', 'year', 1)], 0))
    # month / year subtraction landing on short months
    for y in (2019, 2020, 2021, 2100, 2000, 1900):
        for m in range(1, 13):
            for d in (28, 29, 30, 31):
                if gvalid(y, m, d):
                    for k in (1, 2, 11, 12, 13, 24, 48):
                        out.append(('month-sub', lit_canon(y, m, d), (y, m, d), [('sub', 'month', k)], 0))
    for y in (2020, 2000, 2400, 2096, 2104):
        for k in (1, 2, 3, 4, 8, 96, 100, 104, 400, 1000):
            out.append(('year-sub', lit_canon(y, 2, 29), (y, 2, 29), [('sub', 'year', k)], 0))
    for p in (1, 2):
        out.append(('projection', '2020-03-04', (2020, 3, 4), [], p))
        out.append(('projection', '2020-05-08', (2020, 5, 8), [('sub', 'month', 3)], p))
    return out

def rand_offset(r, big):
    k = r.random()
    if k < 0.45: return r.randint(0, 40)
    if k < 0.7: return r.randint(0, 1500)
    if k < 0.9: return r.randint(0, 100000)
    return r.randint(0, big)

def rand_date(r):
    k = r.random()
    if k < 0.5: a = r.randint(1000, 9999)
    elif k < 0.65: a = r.choice(YEARS_B)
    elif k < 0.75: a = r.randint(1, 999)
    elif k < 0.9: a = int(10 ** r.uniform(4, 9.33))
    elif k < 0.95: a = r.randint(-3000, 0)
    else: a = r.randint(I32_MAX - 3000, I32_MAX)
    a = min(a, I32_MAX)
    m = r.randint(1, 12)
    d = r.choice([1, mdays(a, m), r.randint(1, mdays(a, m)), r.randint(1, mdays(a, m))])
    return a, m, d

def landing_dates():
    """boundary days (astronomical y, m, d) that an operation should be made to LAND on"""
    out = []
    for a in [2000, 1600, 2400, 400, 1200, 10000, 2147483600, 0, 4, 8, 96, 104, 1004, 1996, 2004, 2024, 2096, 2104, 9996,
              100, 200, 300, 1000, 1100, 1500, 1700, 1800, 1900, 2100, 2200, 2300, 1, 2, 3, 5, 1001, 1999, 2001, 2023, 2025, 9999, 2147483647]:
        out += [(a, 2, 28), (a, 3, 1), (a, 12, 31), (a, 1, 1)]
        if leap(a): out.append((a, 2, 29))
    for a in (2023, 2024, 1, 0, 2147483646):
        for m in range(1, 13):
            out += [(a, m, mdays(a, m)), (a, m, 1)]
    out += [(I32_MAX, 12, 30), (I32_MAX, 12, 29), (0, 12, 30), (-1, 12, 31), (-3, 2, 28), (-4, 2, 29), (-400, 2, 29), (-100, 2, 28), (-100, 3, 1)]
    seen = set(); res = []
    for x in out:
        if x not in seen and RD_MIN <= rd(*x) <= RD_MAX:
            seen.add(x); res.append(x)
    return res

def landing_cases(c):
    """target-directed cases: the landing date is chosen from the boundary set, the start date and the offset are derived
    from it with the rd / month-index spec.  Returns (cases, week_cases, day_twin_cases): the last two are index-aligned
    (d - k weeks and d - 7k days from the same start)."""
    r = c.rng
    cases, wk, dy = [], [], []
    # stepping is O(days): expensive cases (long routes to years < 1000, big offsets) share a budget of model/impl day-steps;
    # the landing dates are visited in random order so that the budget is spent on different ones in different runs
    budget = [1.2e8 if c.tier == 'quick' else 4e9]
    def emit(lst, fam, start, steps, proj=0, force=False):
        if not (RD_MIN <= rd(*start) <= RD_MAX) or start[0] > I32_MAX: return False
        l, pre = route_to(start)
        cost = sum(st[-1] * (7 if st[0] == 'sub' and st[1] == 'week' else 1) for st in pre + steps if st[0] == 'add' or st[1] in ('day', 'week'))
        if cost > 3 * 10 ** 6: return False
        if cost > 5000 and not force:
            if budget[0] < cost: return False
            budget[0] -= cost
        lst.append((fam, lit_canon(*l), l, pre + steps, proj)); return True
    targets = landing_dates()
    r.shuffle(targets)
    for T in targets:
        t = rd(*T)
        proj = r.choice([0, 0, 0, 1])
        # + k days / - k days landing on T
        for k in [1, 2, 7, 28, 365, 366, 1461, 36524, 36525, 146097, r.randint(1, 400), r.randint(1, 200000)]:
            if t - k >= RD_MIN: emit(cases, 'land-add-days', of_rd(t - k), [('add', k)], proj)
            if t + k <= RD_MAX: emit(cases, 'land-sub-days', of_rd(t + k), [('sub', 'day', k)], proj)
        # - k weeks landing on T, with the twin - 7k days
        for k in [1, 2, 9, 52, 53, 104, 5218, 20871, r.randint(1, 60), r.randint(1, 30000)]:
            if t + 7 * k <= RD_MAX:
                S = of_rd(t + 7 * k)
                if emit(wk, 'land-sub-weeks', S, [('sub', 'week', k)], 0):
                    emit(dy, 'land-sub-7k-days', S, [('sub', 'day', 7 * k)], 0, force=True)
        # - k months landing in T's month with T's day of month (start must have that day)
        a, m, d = T
        idx = 12 * (a - 1) + (m - 1)
        for k in [1, 2, 3, 11, 12, 13, 24, 48, 1200, 4800, 12 * r.randint(1, 50), r.randint(1, 5000)]:
            j = idx + k
            a2, m2 = j // 12 + 1, j % 12 + 1
            if a2 <= I32_MAX and d <= mdays(a2, m2):
                emit(cases, 'land-sub-months', (a2, m2, d), [('sub', 'month', k)], proj)
            # non-existent landings: a longer day of month aimed at T's (short) month
            if d == mdays(a, m) and d < 31 and a2 <= I32_MAX:
                for dd in range(d + 1, 32):
                    if dd <= mdays(a2, m2):
                        emit(cases, 'land-sub-months-nonexistent', (a2, m2, dd), [('sub', 'month', k)], 0)
        # - k years landing on T (29 February: only from leap years; from leap years onto common ones: non-existent)
        for k in [1, 2, 3, 4, 8, 96, 100, 104, 200, 300, 400, 800, 1000, 4 * r.randint(1, 300), r.randint(1, 3000)]:
            a2 = a + k
            if a2 > I32_MAX: continue
            if d <= mdays(a2, m):
                emit(cases, 'land-sub-years', (a2, m, d), [('sub', 'year', k)], proj)
            if (m, d) == (2, 28) and not leap(a) and leap(a2):
                emit(cases, 'land-sub-years-nonexistent', (a2, 2, 29), [('sub', 'year', k)], 0)
    return cases, wk, dy

def run_landing(c, ck=True, profile='debug', tag=''):
    cases, wk, dy = landing_cases(c)
    exprs, impl = run_calc_cases(c, cases + wk + dy, ck=ck, profile=profile, tag=tag)
    n0, n1 = len(cases), len(cases) + len(wk)
    ew, iw, ed, idy = exprs[n0:n1], impl[n0:n1], exprs[n1:], impl[n1:]
    # the cross-operation law d - k weeks = d - 7k days, on the implementation alone
    for a, b, oa, ob in zip(ew, ed, iw, idy):
        c.note_case(tag + 'law:' + a, True, 'law-weeks-eq-7k-days')
        if impl_eval(oa) != impl_eval(ob):
            c.violation('weeks-vs-days', {'kind': 'impl-vs-spec', 'layer': 'L2 evaluate', 'profile': profile, 'law': 'd - k weeks = d - 7k days',
                                          'expr': a, 'expr_days': b, 'impl': list(impl_eval(oa)), 'impl_days': list(impl_eval(ob))})
    return len(cases) + len(wk) + len(dy)

def random_cases(c, n):
    r = c.rng
    big = 10 ** 6
    out = []
    for _ in range(n):
        amd = rand_date(r)
        l, pre = route_to(amd)
        steps = list(pre)
        fam = r.random()
        if fam < 0.3:
            k = rand_offset(r, big)
            steps += [('add', k), ('sub', 'day', k)]; f = 'roundtrip'
        elif fam < 0.4:
            k = rand_offset(r, big)
            steps += [('sub', 'day', k), ('add', k)]; f = 'roundtrip'
        elif fam < 0.6:
            steps += [('add', rand_offset(r, big))] if r.random() < 0.5 else [('sub', 'day', rand_offset(r, big))]; f = 'days'
        elif fam < 0.7:
            steps += [('sub', 'week', rand_offset(r, big // 7))]; f = 'weeks'
        elif fam < 0.85:
            steps += [('sub', 'month', r.choice([r.randint(0, 30), r.randint(0, 30), r.randint(0, 15000)]))]; f = 'months'
        elif fam < 0.95:
            steps += [('sub', 'year', r.choice([r.randint(0, 10), r.randint(0, 500), r.randint(0, 12000)]))]; f = 'years'
        else:
            for _ in range(r.randint(2, 3)):
                u = r.choice(['add', 'day', 'week', 'month', 'year'])
                steps.append(('add', r.randint(0, 800)) if u == 'add' else ('sub', u, r.randint(0, 60)))
            f = 'mixed'
        proj = r.choice([0, 0, 0, 0, 1, 2])
        out.append((f, lit_canon(*l), l, steps, proj))
    return out

def rand_literal_texts(c, n):
    r = c.rng
    out = []
    for _ in range(n):
        y = r.choice([r.randint(1000, 9999), r.randint(1000, 9999), r.randint(1, 1200), r.choice(YEARS_B), int(10 ** r.uniform(3, 9.6))])
        m = r.choice([r.randint(1, 12), r.randint(1, 12), r.randint(0, 14)])
        d = r.choice([r.randint(1, 28), r.randint(28, 32), r.randint(0, 33)])
        ys = str(y) if r.random() < 0.93 else '0' + str(y)
        ms = str(m).rjust(r.choice([1, 2, 2, 3, 12]), '0')
        ds = str(d).rjust(r.choice([1, 2, 2, 3, 25]), '0')
        out.append('%s-%s-%s' % (ys, ms, ds))
    return out

ODD = [' ', ' ', '\t', '\n', '\r', '\x0b', '\x0c', '\x85', '\xa0', '\u1680', '\u2000', '\u2003', '\u200a', '\u200b', '\u2028', '\u2029',
       '\u202f', '\u205f', '\u3000', '\ufeff', '-', '-', '+', '\u2212', 'x', '.', '/', '0', '1', '9', '\u0663', '\uff10', '\u0967', '@', '']

def rand_parse_strings(c, n):
    r = c.rng
    out = ['', ' ', '-', '--', '1-1', '2020-1', '2020-1-', '-2020-1-1', '2020--1-1', '2020-1-1-', '2020-1-1-1', '+2020-1-1', '2020-+1-1',
           ' 2020-03-04  ', '\u30002020-03-04\u2003', '2020-03-04x', 'x2020-03-04', '2020 -03-04', '2020- 03-04', '2020-03-04\n',
           '\u200b2020-03-04', '2020-03-04\ufeff', '\u0662\u0660\u0662\u0660-01-01', '\uff12020-01-01', '2020\u221201\u221201', '2020-1-1.0',
           '2020/1/1', '20200101', '1e3-1-1', '0x7e4-1-1', '\x852020-1-1\xa0', '\u16802020-1-1\u205f', '\u180e2020-1-1']
    for t in rand_literal_texts(c, n // 2):
        k = r.random()
        if k < 0.5:
            t = ''.join(r.choice(ODD[:20]) for _ in range(r.randint(0, 3))) + t + ''.join(r.choice(ODD[:20]) for _ in range(r.randint(0, 3)))
        out.append(t)
    for t in rand_literal_texts(c, n - n // 2):
        t = list(t)
        for _ in range(r.randint(1, 2)):
            i = r.randint(0, len(t))
            ch = r.choice(ODD)
            if r.random() < 0.5 and i < len(t): t[i] = ch
            else: t.insert(i, ch)
        pad = r.random()
        t = ''.join(t)
        if pad < 0.3: t = r.choice(ODD[:20]) + t + r.choice(ODD[:20])
        out.append(t)
    return out

def raw_dates(c, n):
    """raw (value year, m, d) for the L1 hooks, including BC, the extremes and impossible days"""
    r = c.rng
    out = [(I32_MAX, 12, 31), (I32_MAX, 12, 30), (I32_MAX, 1, 1), (I32_MIN, 1, 1), (I32_MIN, 1, 2), (I32_MIN, 12, 31), (I32_MIN + 1, 1, 1),
           (-1, 12, 31), (-1, 1, 1), (1, 1, 1), (1, 12, 31), (-1, 2, 29), (-1, 2, 28), (-1, 3, 1), (-4, 2, 28), (-5, 2, 28), (-5, 2, 29),
           (-101, 2, 28), (-401, 2, 28), (-401, 2, 29), (-400, 3, 1), (2, 2, 30), (2020, 2, 30), (2021, 2, 29), (2020, 4, 31), (2020, 2, 31)]
    for _ in range(n):
        a, m, d = rand_date(r)
        if r.random() < 0.25: a = r.choice([r.randint(-5000, 0), r.randint(I32_MIN + 1, 0), -r.choice(YEARS_B) + 1])
        a = max(a, I32_MIN + 1)
        if r.random() < 0.1: d = r.randint(28, 31)
        else: d = min(d, mdays(a, m))
        out.append((yval(a), m, d))
    return out

# ---------------------------------------------------------------------------
# reading answers

RE_SHOWN = re.compile(r'^(Sunday|Monday|Tuesday|Wednesday|Thursday|Friday|Saturday), (\d+) (' + '|'.join(MON) + r') (\d+)( BC)?$')

def parse_shown(t):
    """printed date -> (weekday index, astronomical year, m, d) or None"""
    mt = RE_SHOWN.match(t)
    if not mt: return None
    y = int(mt.group(4))
    a = 1 - y if mt.group(5) else y
    return DOW.index(mt.group(1)), a, MON.index(mt.group(3)) + 1, int(mt.group(2))

def impl_eval(o):
    """answer of the harness op eval -> ('o'|'e', text) | ('crash', raw)"""
    p = try_parse(o)
    if isinstance(p, list) and len(p) == 2 and p[0] in (b'o', b'e') and isinstance(p[1], list):
        return p[0].decode(), ''.join(map(chr, p[1]))
    return 'crash', o

def model_calc(o):
    p = try_parse(o)
    if not isinstance(p, list) or not p: return ('bad', o)
    if p[0] == b'ok': return ('ok', p[1].decode('utf-8', 'replace'))
    if p[0] == b'nonexistent':
        return ('nonexistent', '%s %d, %d does not exist, did you mean %s or %s?' % (p[2].decode(), p[3], p[1], p[4].decode(), p[5].decode()))
    if p[0] == b'err': return ('err', p[1])
    if p[0] == b'panic': return ('panic', p[1])
    return ('bad', o)

# ---------------------------------------------------------------------------

def run_calc_cases(c, cases, ck=True, profile='debug', tag='', cross_rd=False):
    """the three-way comparison for (family, literal text, literal|None, steps, proj) cases"""
    r = c.rng
    exprs, mlines = [], []
    for fam, t, l, steps, proj in cases:
        exprs.append(expr_text(r, t, steps, proj))
        mlines.append(model_line(ck, t, steps, proj))
    impl = c.impl('date', [sx([Sym('eval'), cps(e)]) for e in exprs], profile=profile)
    model = c.model('date', mlines)
    rdq, rdq_idx = [], []
    for i, (fam, t, l, steps, proj) in enumerate(cases):
        e = exprs[i]
        kind, txt = impl_eval(impl[i])
        # ---- spec
        if l is None:
            want = ('err', 'literal')
        else:
            want = spec_calc(l, steps)
        crosses = False
        if want[0] == 'ok':
            want_txt = project(proj, want[1])
            crosses = l is not None and (want[1][0], want[1][1]) != (astro(l[0]), l[1])
            good = (kind == 'o' and txt == want_txt)
        elif want[0] == 'nonexistent':
            want_txt = nonexistent_msg(*want[1:])
            good = kind == 'e' and (txt == want_txt or ('does not exist' in txt and show(*want[4]) in txt and show(*want[5]) in txt))
            if good and txt != want_txt: c.repr_drift += 1
        else:
            want_txt = '<error: %s>' % want[1]
            good = kind == 'e'
        c.note_case(tag + e, crosses or want[0] != 'ok' or len(steps) >= 2, fam + ('/' + want[0] if want[0] != 'ok' else ''))
        if not good:
            c.violation('calc-' + fam, {'kind': 'impl-vs-spec', 'layer': 'L2 evaluate', 'profile': profile, 'expr': e, 'impl': [kind, txt], 'spec': want_txt,
                                        'model': model[i]})
            continue
        # ---- model (correspondence)
        mk = model_calc(model[i])
        if mk[0] == 'ok': same = kind == 'o' and txt == mk[1]
        elif mk[0] == 'nonexistent': same = kind == 'e' and txt == mk[1]
        elif mk[0] == 'err': same = kind == 'e'
        else: same = False
        if not same:
            if mk[0] == 'nonexistent' and kind == 'e' and 'does not exist' in txt:
                c.repr_drift += 1
            else:
                c.violation('calc-model-' + fam, {'kind': 'impl-vs-model', 'layer': 'L2 evaluate', 'profile': profile, 'expr': e, 'impl': [kind, txt], 'model': model[i],
                                                  'model_request': mlines[i]}, no_input=True)
        # ---- the proved Coq spec as a predicate on the implementation's own output
        if want[0] == 'ok' and proj == 0 and l is not None:
            ps = parse_shown(txt)
            if ps is None:
                c.violation('calc-unreadable', {'kind': 'impl-vs-spec', 'expr': e, 'impl': txt}); continue
            delta = 0; only_days = True
            for st in steps:
                if st[0] == 'add': delta += st[1]
                elif st[1] == 'day': delta -= st[2]
                elif st[1] == 'week': delta -= 7 * st[2]
                else: only_days = False
            rdq.append(sx([Sym('rd'), astro(l[0]), l[1], l[2]])); rdq.append(sx([Sym('rd'), ps[1], ps[2], ps[3]]))
            rdq_idx.append((i, ps, delta if only_days else None))
    if rdq:
        ans = c.model('date', rdq, cross=cross_rd)
        for j, (i, ps, delta) in enumerate(rdq_idx):
            a0 = try_parse(ans[2 * j]); a1 = try_parse(ans[2 * j + 1])
            ok = isinstance(a0, list) and isinstance(a1, list) and a1[1] == 1 and a1[2] == ps[0] and (delta is None or a1[0] - a0[0] == delta)
            if not ok:
                c.violation('calc-coq-spec', {'kind': 'impl-vs-spec', 'layer': 'Coq rd/g_valid/g_weekday on the impl output', 'expr': exprs[i],
                                              'impl': impl_eval(impl[i])[1], 'rd_in': ans[2 * j], 'rd_out': ans[2 * j + 1], 'expected_delta': delta})
    return exprs, impl

def expected_year(y, step):
    """expected answer list of the year sweep ops (python spec)"""
    out = []
    a = astro(y)
    lit_ok = 1000 <= y <= I32_MAX
    for m in range(1, 13):
        for d in range(1, 32):
            if not (lit_ok and gvalid(a, m, d)):
                out.append(0); continue
            if step is None:
                out.append(show(a, m, d))
            else:
                t = rd(a, m, d) + (1 if step else -1)
                out.append(show(*of_rd(t)) if RD_MIN <= t <= RD_MAX else 0)
    return out

def run_year_sweeps(c, years, ck=True, profile='debug'):
    il, ml, keys = [], [], []
    for y in years:
        for step in (None, 1, 0):
            if step is None:
                il.append(sx([Sym('year-lits'), y])); ml.append(sx([Sym('year-lits'), 1 if ck else 0, y]))
            else:
                il.append(sx([Sym('year-step'), y, step])); ml.append(sx([Sym('year-step'), 1 if ck else 0, y, step]))
            keys.append((y, step))
    impl = c.impl('date', il, profile=profile, timeout=60)
    model = c.model('date', ml, cross=len(ml) < 400)
    c.evaluations += 371 * len(il)      # each request is 372 evaluations
    for (y, step), io, mo in zip(keys, impl, model):
        want = sx(expected_year(y, step))
        c.note_case('sweep:%d:%s' % (y, step), True, 'year-sweep-' + {None: 'literals', 1: 'next', 0: 'prev'}[step])
        if io != want:
            # locate the first differing (m, d)
            ip = try_parse(io); wp = parse_sx(want); where = None
            if isinstance(ip, list) and len(ip) == 372:
                for k in range(372):
                    g = ip[k].decode('utf-8', 'replace') if isinstance(ip[k], bytes) else ip[k]
                    w = wp[k].decode() if isinstance(wp[k], bytes) else wp[k]
                    if g != w:
                        m, d = k // 31 + 1, k % 31 + 1
                        where = {'expr': '@%d-%d-%d%s' % (y, m, d, {None: '', 1: ' + 1 day', 0: ' - 1 day'}[step]), 'impl': g, 'spec': w}
                        break
            c.violation('year-sweep', {'kind': 'impl-vs-spec', 'layer': 'L2 evaluate', 'profile': profile, 'year': y, 'step': step,
                                       'first_difference': where, 'impl_head': io[:200]})
        elif mo != io:
            c.violation('year-sweep-model', {'kind': 'impl-vs-model', 'year': y, 'step': step, 'model_head': mo[:300], 'impl_head': io[:300]}, no_input=True)

def run_parse_cases(c, strings):
    """Date::parse: L1 hook on every string, L2 `"..." to date` where the text can be written in a fend string literal"""
    l1 = c.impl('date', [sx([Sym('parse'), cps(s)]) for s in strings])
    model = c.model('date', [sx([Sym('parse'), cps(s)]) for s in strings])
    l2_idx = [i for i, s in enumerate(strings) if all(ch not in '"\\' and ch not in '\n\r' for ch in s)]
    l2 = c.impl('date', [sx([Sym('eval'), cps('"%s" to date' % strings[i])]) for i in l2_idx])
    l2_of = dict(zip(l2_idx, l2))
    for i, s in enumerate(strings):
        want = py_parse(s)
        canon = want is not None and s == lit_canon(*want)
        c.note_case('parse:' + s, not canon, 'parse-accept' if want else 'parse-reject')
        want_l1 = sx([b'ok', list(want)]) if want else sx([b'err'])
        if l1[i] != want_l1:
            c.violation('parse-l1', {'kind': 'impl-vs-spec', 'layer': 'L1 Date::parse', 'text_codepoints': cps(s), 'text': s, 'impl': l1[i], 'spec': want_l1})
            continue
        mp = try_parse(model[i])
        msame = (isinstance(mp, list) and ((want and mp[0] == b'ok' and mp[1] == list(want)) or (not want and mp[0] == b'err')))
        if not msame:
            c.violation('parse-model', {'kind': 'impl-vs-model', 'layer': 'L1 Date::parse', 'text_codepoints': cps(s), 'impl': l1[i], 'model': model[i]}, no_input=True)
        if i in l2_of:
            kind, txt = impl_eval(l2_of[i])
            good = (kind == 'o' and txt == show(*want)) if want else kind == 'e'
            if not good:
                c.violation('parse-l2', {'kind': 'impl-vs-spec', 'layer': 'L2 "..." to date', 'text': s, 'text_codepoints': cps(s), 'impl': [kind, txt],
                                         'spec': show(*want) if want else '<error>'})

def run_raw_cases(c, dates, ck=True):
    """L1: Date::next / prev / Display / diff_months on raw dates vs model (and vs spec where the date is real)"""
    r = c.rng
    il, ml, meta = [], [], []
    for (y, m, d) in dates:
        for op in ('next', 'prev', 'show'):
            il.append(sx([Sym(op), y, m, d])); ml.append(sx([Sym(op), 1 if ck else 0, y, m, d])); meta.append((op, y, m, d, None))
        k = r.choice([r.randint(-30, 30), r.randint(-400, 400), r.randint(-30000, 30000), 0, 12, -12, 11, -11, 13, -13])
        il.append(sx([Sym('diffm'), y, m, d, k])); ml.append(sx([Sym('diffm'), 1 if ck else 0, y, m, d, k])); meta.append(('diffm', y, m, d, k))
    impl = c.impl('date', il)
    model = c.model('date', ml)
    for (op, y, m, d, k), io, mo in zip(meta, impl, model):
        a = astro(y)
        real = gvalid(a, m, d)
        c.note_case('raw:%s:%d:%d:%d:%s' % (op, y, m, d, k), True, 'L1-' + op + ('' if real else '-impossible-day') + ('-bc' if y < 0 else ''))
        ip = try_parse(io); mp = try_parse(mo)
        # spec verdict for real days
        if real and isinstance(ip, list):
            bad = None
            if op in ('next', 'prev'):
                t = rd(a, m, d) + (1 if op == 'next' else -1)
                if RD_MIN <= t <= RD_MAX:
                    w = of_rd(t)
                    if not (ip[0] == b'ok' and ip[1] == [yval(w[0]), w[1], w[2]]): bad = sx([b'ok', [yval(w[0]), w[1], w[2]]])
                elif ip[0] != b'err': bad = '("err" year out of range)'
            elif op == 'show' and y != I32_MIN:
                if not (ip[0] == b'ok' and ip[1].decode('utf-8', 'replace') == show(a, m, d)): bad = show(a, m, d)
            elif op == 'diffm' and k <= 0:
                w = spec_calc((y, m, d), [('sub', 'month', -k)])
                if w[0] == 'ok':
                    if not (ip[0] == b'ok' and ip[1] == [yval(w[1][0]), w[1][1], w[1][2]]): bad = repr(w)
                elif w[0] == 'nonexistent':
                    e = [b'nonexistent', yval(w[1]), w[3], [yval(w[4][0]), w[4][1], w[4][2]], [yval(w[5][0]), w[5][1], w[5][2]]]
                    if ip != e: bad = sx(e)
                elif ip[0] != b'err': bad = repr(w)
            if bad is not None:
                c.violation('raw-' + op, {'kind': 'impl-vs-spec', 'layer': 'L1 hook', 'request': sx([Sym(op), y, m, d] + ([k] if k is not None else [])),
                                          'impl': io, 'spec': bad})
                continue
        # correspondence with the model
        same = False
        if isinstance(ip, list) and isinstance(mp, list) and ip and mp:
            if ip[0] == b'ok' and mp[0] == b'ok': same = ip[1] == mp[1]
            elif ip[0] == b'err' and mp[0] == b'err': same = True
            elif ip[0] == b'nonexistent' and mp[0] == b'nonexistent': same = ip[1] == mp[1] and ip[2] == mp[3] and ip[3] == mp[4] and ip[4] == mp[5]
            elif ip[0] == b'panic' and mp[0] == b'panic': same = True      # Year Display of i32::MIN (outside C16: BC)
        if not same:
            c.violation('raw-model-' + op, {'kind': 'impl-vs-model', 'layer': 'L1 hook', 'request': sx([Sym(op), y, m, d] + ([k] if k is not None else [])),
                                            'impl': io, 'model': mo}, no_input=True)

def run_operand_errors(c):
    """operands outside the model's integer count: the property only says an error is reported"""
    exprs = ['@2020-01-01 - 1.5 days', '@2020-01-01 + 0.5 days', '@2020-01-01 + 1 week', '@2020-01-01 + 1 month', '@2020-01-01 + 1 year',
             '@2020-01-01 + 24 hours', '@2020-01-01 - 24 hours', '@2020-01-01 - 1 fortnight', '@2020-01-01 - 1 decade', '@2020-01-01 - 1',
             '@2020-01-01 + 1', '@2020-01-01 - @2020-01-01', '@2020-01-01 + @2020-01-01', '@2020-01-01 - (1/3) months', '@2020-01-01 - pi days',
             '@2020-01-01 - approx. 2 days', '@2020-01-01 - 2 days^2', '@2020-01-01 * 2', '@', '@2020', '@2020-', '@2020-01', '@2020-01-', '@-2020-01-01',
             '@ 2020-01-01', '@2020 -01-01', '@x', '@2020-01-01-', '@2020-01-01 + ', '@2020-01-01 days']
    impl = c.impl('date', [sx([Sym('eval'), cps(e)]) for e in exprs])
    for e, o in zip(exprs, impl):
        kind, txt = impl_eval(o)
        c.note_case('operr:' + e, True, 'operand-or-shape-error')
        if kind != 'e':
            c.violation('operand-error', {'kind': 'impl-vs-spec', 'layer': 'L2 evaluate', 'expr': e, 'impl': [kind, txt], 'spec': '<error>'})
    # these are fine: same count, other spellings of the unit / the number
    fine = [('@2020-01-31 + 1 days', 'Saturday, 1 February 2020'), ('@2020-03-01 - 1day', 'Saturday, 29 February 2020'),
            ('@2020-03-01 - (1+1) days', 'Friday, 28 February 2020'), ('@2020-03-01 - 2e0 days', 'Friday, 28 February 2020'),
            ('@2020-03-01 - 0x10 days', 'Friday, 14 February 2020'), ('@2020-03-31 - 1 months', None), ('@2020-03-01-1 day', 'Saturday, 29 February 2020'),
            ('@2020-03-01 - 1 week - 1 day', 'Saturday, 22 February 2020'), ('@2020-01-011 + 0 days', 'Saturday, 11 January 2020'), ('@2021-03-01 - 1 year + 1 day', 'Monday, 2 March 2020')]
    impl = c.impl('date', [sx([Sym('eval'), cps(e)]) for e, _ in fine])
    for (e, w), o in zip(fine, impl):
        kind, txt = impl_eval(o)
        c.note_case('spell:' + e, True, 'operand-spelling')
        if (w is None and not (kind == 'e' and 'does not exist' in txt)) or (w is not None and not (kind == 'o' and txt == w)):
            c.violation('operand-spelling', {'kind': 'impl-vs-spec', 'layer': 'L2 evaluate', 'expr': e, 'impl': [kind, txt], 'spec': w or '<does not exist>'})


def check(c):
    c.rule = ('calc cases: @literal (+ n days | - n days/weeks/months/years)* with optional day_of_week of / month of, dates from year 1 to i32::MAX '
              '(years < 1000 and BC reached by subtraction), offsets log-uniform up to 10^6; non-trivial = some step leaves the starting month, or the '
              'answer is an error / a non-existent day, or >= 2 steps. literal cases: non-trivial = not the canonical spelling of a real day. '
              'landing cases: the landing day is drawn from the boundary set (29 Feb of years divisible by 4/100/400 and their neighbours, month ends, '
              '31 Dec / 1 Jan, year 1, BC/AD, i32 ends) and start + offset derived from it, for + days, - days, - weeks, - months, - years; plus the law '
              'd - k weeks = d - 7k days. year sweeps: one case per (year, op) = 372 evaluations. distinct by expression text.')
    selfcheck()
    ok = c.proof(['C16'], extra_targets=['Extract/XDate.vo'])
    if c.tier == 'thorough' and ok:
        c.thorough_proof(['C16'])
    quick = c.tier == 'quick'
    r = c.rng
    # 1. boundary corpus (always first)
    b = boundary_cases()
    exprs, impl = run_calc_cases(c, b, cross_rd=True)
    c.sample({'expr': exprs[60], 'impl': impl_eval(impl[60])[1]})
    run_operand_errors(c)
    # 1b. target-directed: every operation made to land on every boundary day
    c.extra['landing_cases'] = run_landing(c)
    # 2. random calculations
    rc = random_cases(c, 2000 if quick else 40000)
    exprs, impl = run_calc_cases(c, rc)
    for k in (1, 2, 3):
        c.sample({'expr': exprs[k], 'impl': impl_eval(impl[k])[1]})
    # 3. literals: '@' scanner + Date::parse
    lits = rand_literal_texts(c, 1500 if quick else 20000)
    lc = []
    for t in lits:
        p = py_lex(t)
        lc.append(('literal', t, p[0] if p and p[1] == '' else None, [], r.choice([0, 0, 1, 2])))
    run_calc_cases(c, lc)
    run_parse_cases(c, rand_parse_strings(c, 2500 if quick else 30000))
    # 4. L1 raw dates (BC, extremes, impossible days)
    run_raw_cases(c, raw_dates(c, 1500 if quick else 20000))
    # 5. year sweeps: every (m, d) of a year as literal, + 1 day, - 1 day
    if quick:
        years = sorted(set([1000, 1001, 1099, 1100, 1199, 1200, 1600, 1900, 2000, 2100, 2400, 9999, 10000, 10001, 2147483647, 2147483646, 999, 1, 2147483648]
                           + [r.randint(1000, 9999) for _ in range(60)] + [r.randrange(1000, 10000, 100) for _ in range(15)]
                           + [int(10 ** r.uniform(4, 9.33)) for _ in range(10)]))
    else:
        years = list(range(999, 10002)) + sorted(set([2147483647, 2147483646, 2147483648] + [int(10 ** r.uniform(4, 9.33)) for _ in range(1500)]))
        c.exhaustive = True
        c.extra['exhaustive_scope'] = ('every day of the years 1000..9999: literal accepted/rejected and printed weekday/month, + 1 day, - 1 day, '
                                       'through fend_core::evaluate, against the python calendar and the model (3.3 M days x 3 operations)')
    run_year_sweeps(c, years)
    # 6. thorough: release profile (no overflow checks) on the boundary corpus and a random subset
    if not quick:
        run_calc_cases(c, b, ck=False, profile='release', tag='release:')
        run_landing(c, ck=False, profile='release', tag='release:')
        run_calc_cases(c, random_cases(c, 5000), ck=False, profile='release', tag='release:')
        run_year_sweeps(c, [1000, 1900, 2000, 2024, 9999, 2147483647], ck=False, profile='release')
    c.extra['fixed_findings_in_corpus'] = ['was-bc-weekday', 'was-year-overflow', 'was-sub-years-mul']


def replay(c, obj):
    print(json.dumps(obj, indent=1, default=str))
    if 'expr' in obj:
        print('impl :', impl_eval(c.impl('date', [sx([Sym('eval'), cps(obj['expr'])])], profile=obj.get('profile', 'debug'))[0]))
    if 'model_request' in obj:
        print('model:', c.model('date', [obj['model_request']], cross=False)[0])
    if 'request' in obj:
        print('impl :', c.impl('date', [obj['request']])[0])
    if 'text_codepoints' in obj:
        line = sx([Sym('parse'), obj['text_codepoints']])
        print('impl :', c.impl('date', [line])[0])
        print('model:', c.model('date', [line], cross=False)[0])
        print('spec :', py_parse(''.join(map(chr, obj['text_codepoints']))))
    if obj.get('first_difference'):
        e = obj['first_difference']['expr']
        print('impl :', impl_eval(c.impl('date', [sx([Sym('eval'), cps(e)])])[0]), ' spec:', obj['first_difference']['spec'])
    return 0
