"""L3 worker of gen/c20.py (also used by gen/c19.py): runs the fend binary once
per request line in a private directory.  Request: <cache-file-hex | E (empty file) | - (no file)> <expr-hex>
Answer: <exit|hang> <stdout-hex|-> <stderr-hex|-> <=|gone|hex of the cache file afterwards>"""
import os, shutil, subprocess, sys, tempfile

def main():
    fend, cfg, root, name = sys.argv[1:5]
    os.makedirs(root, exist_ok=True)
    d = tempfile.mkdtemp(dir=root)
    env = {'PATH': os.environ.get('PATH', '/usr/bin:/bin'), 'HOME': d, 'FEND_CONFIG_DIR': cfg, 'FEND_CACHE_DIR': d,
           'FEND_STATE_DIR': d, 'RUST_BACKTRACE': '0', 'NO_COLOR': '1'}
    path = os.path.join(d, name)
    try:
        for line in sys.stdin:
            parts = line.split()
            if len(parts) != 2:
                print('bad-request', flush=True)
                continue
            data = None if parts[0] == '-' else (b'' if parts[0] == 'E' else bytes.fromhex(parts[0]))
            expr = bytes.fromhex(parts[1]).decode('utf-8')
            if data is not None:
                with open(path, 'wb') as fh:
                    fh.write(data)
            elif os.path.exists(path):
                os.remove(path)
            try:
                p = subprocess.run([fend, expr], env=env, stdin=subprocess.DEVNULL, stdout=subprocess.PIPE,
                                   stderr=subprocess.PIPE, timeout=60, cwd=d)
                rc, so, se = str(p.returncode), p.stdout, p.stderr
            except subprocess.TimeoutExpired:
                rc, so, se = 'hang', b'', b''
            try:
                after = open(path, 'rb').read()
                aft = '=' if after == data else (after.hex() or '-')
                os.remove(path)
            except OSError:
                aft = 'gone'
            print(rc, so.hex() or '-', se.hex() or '-', aft, flush=True)
    finally:
        shutil.rmtree(d, ignore_errors=True)

main()
