"""Shared parts of the C12 / C14 checks (area `ser`): statement-history
generator over a value-kind grammar, model configurations, image mutators,
helpers to talk to the harness (harness/src/bin/h_ser.rs) and to the extracted
model (coq/Ser/Run.v)."""
import os, re, subprocess, sys
from vlib import sx, Sym, parse_sx, try_parse, ROOT

AREA = 'ser'

# ---------------------------------------------------------------------------
# configurations on the wire: (inverted from-mode cap validate (sizes))

def cfg_pinned(sizes):
    """the code as pinned: inverted scope flags, no capacity cap, no validation"""
    return [1, 0, -1, 0, sizes]

def cfg_fixed(sizes):
    """all four candidate repairs (notes/C12_*.patch, notes/C14_*.patch)"""
    return [0, 1, 1024, 1, sizes]

def cfg_today(sizes):
    """the model of the tree being checked: the pinned code, with the switch of
    each repair flipped once its finding is marked `fixed' in known_findings
    (the name table always comes from the tree: from-mode 0)"""
    import vlib
    status = {}
    for prop in ('C12', 'C14'):
        for k in vlib.load_known(prop):
            status[k.get('class')] = k.get('status', 'open')
    fixed = lambda cls: status.get(cls) == 'fixed'
    return [0 if fixed('scope_flag_inverted') else 1, 0,
            1024 if fixed('alloc_untrusted_len') else -1,
            1 if fixed('loaded_not_wf') else 0, sizes]

def mline(op, cfg, img, chunk=192):
    """request line for a model op on an image; long images are split into
    several string atoms (coq/Base/Prelude.v read_str is quadratic in the
    length of one atom; coq/Ser/Run.v joins the chunks)"""
    parts = [img[i:i + chunk] for i in range(0, len(img), chunk)] or [b'']
    return sx([Sym(op), cfg] + parts)

def regenerate_names(c):
    """re-extract the BuiltInFunction name tables from the tree being checked"""
    p = subprocess.run([sys.executable, os.path.join(ROOT, 'tools', 'gen_builtin_names.py')],
                       stdout=subprocess.PIPE, stderr=subprocess.PIPE)
    if p.returncode != 0:
        c.violation('builtin-name-table-extractor-refused',
                    {'kind': 'tie', 'layer': 'tools/gen_builtin_names.py',
                     'log': p.stderr.decode('utf-8', 'replace')[-1500:]}, no_input=True)
        return False
    return True

def get_sizes(c):
    o = try_parse(c.impl(AREA, ['(sizes)'])[0])
    if not (isinstance(o, list) and len(o) == 3 and o[0] == 8):
        raise RuntimeError('unexpected (sizes) answer: %r' % (o,))
    return o[2]

# ---------------------------------------------------------------------------
# value-kind grammar

INTS = ['0', '1', '5', '42', '-7', '1000000', '10^30', '2^64', '2^64 - 1', '2^200', '123456789012345678901234567890', '-(10^25)']
RATS = ['1/3', '22/7', '-5/8', '0.125', '1.5e-3', '1e-20', '10^20/3', '1/(2^70)', '2.5']
CPLX = ['i', '2+3i', '(1/2) i', '1 - i', 'i^2']
IRR = ['pi', 'pi/3', '2 pi', 'tau', '-pi/6', 'e', 'sqrt 2', 'ln 2', 'sin 1', 'approx. 3', 'phi']
UNITS = ['3 kg', '5 km/h', '9.81 m/s^2', '5%', '2 hours', '1 byte', '3 GiB', '90 degrees', '1 mile', '$5', '1 kWh',
         '5 N m', 'kg', 'm^2', '1 light year', '3 ft', '20 celsius', '100 fahrenheit', '1/3 cm', '2 kg^-1', '1 mol/L',
         '7 days', '5 km/h to mph', '1 mile to km', '3 hours to minutes', '1 GiB to bytes', '180 degrees to radians',
         "5 'apples'", '3 kg m/s^2']
FMT = [' to 2 dp', ' to 5 sf', ' to frac', ' to mixed_frac', ' to exact', ' to float', ' to auto', ' to 0 dp', ' to 30 dp', ' to 1 sf']
BASE = [' to hex', ' to binary', ' to octal', ' to base 7', ' to base 36', ' to base 2', ' to decimal']
BASELIT = ['0x1f', '0b101', '0o17', '16#ff', '36#zz', '0x1f + 1', '0b1.1']
STRS = ['"hi"', '"héllo ✓"', '""', '"a\\"b"', "'single'", '"line\\nbreak"', '"\U0001f600"', '"x" + "y"', '"tab\\there"']
DATES = ['@2020-02-29', '@1970-01-01', '@2021-03-05 + 3 days', '@2000-01-31 + 1 month', '@2021-12-31 - 1 year', '@9999-12-31',
         'month of (@2020-02-29)', 'day_of_week of (@2020-02-29)', 'month of @1999-11-05']
BOOLS = ['true', 'false', '1 == 1', '2 != 2', 'not true', '3 kg == 3000 g']
MISC = ['()', 'earth', 'mass of earth', 'gravity of earth', 'frac', 'exact', 'float', 'auto', 'mixed_frac', 'dp', 'sf', 'hex',
        'binary', 'decimal', 'octal', 'ternary', 'base 5', 'base 36', 'version']
DIST = ['d6', '2d6', 'd20 + 3', 'd4 * 2', 'd2 + d2', '(d6) / 2', 'mean (d6)']
LAMBDAS = ['\\x.x+1', 'x: x^2', 'x => 2 x', '\\x.\\y.x+y', '\\x.\\y.\\z.x y + z', 'x: x kg + 3 m', 'x: "s"', 'x: @2020-01-01',
           'x: sin x + floor x', 'x: x!', 'x: -x', 'x: x to hex', 'x: (y = x; y + 1)', 'x: x == 1', 'x: x nCr 2',
           'x: x mod 3', 'x: (x | 1) xor (1 << 2)', 'x: 1/x', 'x: x to 2 dp', 'x: (x, 1)' if False else 'x: x nPr 2',
           'x: +x', 'x: 3 x kg', 'x: x 5%', 'x: mass of earth * x', 'x: x != ()', 'x: (\\y.y x) 2', 'x: d6 + x',
           'sqrt', 'cbrt', 'square', 'exp', 'cis', 'x: round(x) + ceil(x) + mean(x) + arg(x)', 'x: x >> 1 & 3',
           'theta => cos theta', 'x: x to kg', 'x: 0x1f to base 7']
CLOSURES = ['(\\x.\\y.x+y) 3', '(\\x.\\y.\\z.x+y+z) 1 2', '(\\x.\\y.\\z.x+y+z) 1', '(\\x.\\y.x y) (3 kg)',
            '(\\x.\\y.x + y) "s"', '(\\a.\\b.a) (\\c.c) ', '(\\x.\\y.y x) (d6)', '(\\f.\\x.f (f x)) (\\y.y+1)',
            '(\\x.\\y.\\z.x) (\\q.q) 2', '(\\x.\\y.x+y) (@2020-02-29)', '(\\x.\\y.x) (1/3 to 3 dp)', '(\\x.\\y.x) (pi to hex)']

# dists whose STORED outcome order is not ascending (sampling walks the stored order)
DIST_UNSORTED = ['7 - d6', '-d6', 'd6 * -1', '10 - 2d6', 'd4 - d6', '(7 - d6) to 2 dp', '3 - d4 + d2', '(0 - d6) kg', '100 - d20']
DIST += DIST_UNSORTED

# values that cross the 1024-element pre-allocation cap / a 1024-byte block, and their neighbours
def _dbl(name, seed, k):
    return ['%s = "%s"' % (name, seed)] + ['%s = %s + %s' % (name, name, name)] * k
BIG_HISTORIES = [
    (_dbl('v0', 'abcdefghij', 7), ['v0'], ['string-long']),                      # 1280 bytes
    (_dbl('v0', 'abcdefghij', 8), ['v0'], ['string-long']),                      # 2560
    (_dbl('v0', 'abcdefgh', 7), ['v0'], ['string-long']),                        # exactly 1024
    (_dbl('v0', 'abcdefgh', 7) + ['v1 = v0 + "x"'], ['v0', 'v1'], ['string-long', 'string-long']),   # 1024 and 1025
    (_dbl('v0', 'abcdefgh', 8), ['v0'], ['string-long']),                        # 2048
    (_dbl('v0', 'h\u00e9llo \u2713 ', 8), ['v0'], ['string-long']),            # multi-byte characters across block edges
    (['v0 = "%s"' % ('0123456789' * 130), 'v1 = x: x + "%s"' % ('abcdefghijklm' * 100), 'v2 = (\\x.\\y.x) "%s"' % ('xyz' * 500)],
     ['v0', 'v1', 'v2'], ['string-long', 'lambda', 'closure-with-scope']),       # long literals inside closures and scopes
    (['v0 = 2^65535', 'v1 = 2^65536', 'v2 = 2^70000 + 12345', 'v3 = 1/(2^66000)'], ['v0', 'v1', 'v2', 'v3'], ['number-big'] * 4),   # 1024 / 1025 / 1094 limbs
    (['v0 = d1025'], ['v0'], ['dist-big']),
    (['v0 = 2000 - d1030'], ['v0'], ['dist-big']),
    (['v0 = d1024'], ['v0'], ['dist-big']),
    (['w%d = %d' % (i, i) for i in range(1100)] + ['v0 = w1099 + w7'], ['v0', 'w0', 'w1023', 'w1024', 'w1099'], ['many-variables']),
]

# higher-order closures: a lambda ARGUMENT that mentions a parameter of an enclosing function, so that the
# captured scope holds an expression whose own defining scope matters
HIGHER_ORDER = [
    ['v0 = g: x: g (g x)', 'v1 = a: v0 (y: y + a)', 'v2 = v1 5'],
    ['v0 = f: g: x: f (g x)', 'v1 = a: v0 (y: y * a) (z: z + a)', 'v2 = v1 3'],
    ['v0 = f: a: f (y: y + a)', 'v1 = g: x: g (g x)', 'v2 = v0 v1 5'],
    ['v0 = a: b: (c: a + b + c)', 'v1 = v0 1 2', 'v2 = v0 1'],
    ['v0 = a: (f: x: f (x + a)) (y: y * a)', 'v1 = v0 4'],
    ['v0 = a: b: f: f a b', 'v1 = v0 (x: x + 1) (y: y * 2)', 'v2 = v1 (f: g: z: f (g z))'],
    ['v0 = a: b: (g: x: g (g x)) (y: y + a + b)', 'v1 = v0 1 2', 'v2 = v0 10'],
    ['v0 = f: a: b: f a b', 'v1 = v0 (p: q: p - q) 10'],
    ['v0 = a: (b: (c: (y: y + a + b + c)))', 'v1 = v0 1 2 3', 'v2 = (g: x: g (g (g x))) v1'],
    ['v0 = a: (\\y.y a)', 'v1 = b: v0 (x: x + b)', 'v2 = v1 7', 'v3 = v2 (k: k * 2)'],
    ['v0 = s: (t: s + t)', 'v1 = v0 "pre"', 'v2 = a: v0 (a + "!")', 'v3 = v2 "hi"'],
    ['v0 = u: (f: x: f (f x)) (y: y + u)', 'v1 = v0 (3 kg)', 'v2 = v0 (d6)'],
]
GLOBALS = ['a = 100', 'b = 200', 'c = 300', 'x = 7', 'y = 9', 'z = 11', 'g = 3', 'f = 4', 'p = 5', 'q = 6', 'k = 8', 's = "S"', 't = "T"', 'u = 1 m']
HO_ARGS = ['(y: y + a)', '(y: y * a)', '(y: a - y)', '(y: y + a + 1)', '(y: (z: z + a) y)', '(y: y a)']
HO_COMB = ['(g: x: g (g x))', '(g: x: g x)', '(g: x: g (g (g x)))', '(g: h: x: g (h x)) (w: w + 1)', '(g: x: (g x) + (g (x + 1)))']

def gen_higher_order(r):
    """random instance of `mk = a: COMB ARG(a); h = mk n` with optional same-named globals afterwards"""
    comb, arg = r.choice(HO_COMB), r.choice(HO_ARGS)
    st = ['v0 = a: %s %s' % (comb, arg), 'v1 = v0 %d' % r.randint(1, 9)]
    if r.random() < 0.5:
        st.append('v2 = b: v0 (a: b)' if False else 'v2 = b: (%s %s) ' % (comb, arg.replace('a', 'b')))
        st.append('v3 = v2 %d' % r.randint(1, 9))
    names = ['v%d' % i for i in range(len(st))]
    return st, names

def with_globals(r, stmts):
    """the same history followed by global definitions of the parameter names its lambdas use"""
    return stmts + r.sample(GLOBALS, r.randint(2, 6))

def builtin_idents(as_names):
    # every literal as_str can write is also the identifier that resolves to that built-in
    return list(as_names)

def gen_expr(r, names_so_far, builtins):
    k = r.random()
    if k < 0.16:
        e = r.choice(INTS + RATS)
        if r.random() < 0.4: e = '(' + e + ')' + r.choice(FMT + BASE)
        return e, 'number'
    if k < 0.24:
        e = r.choice(CPLX + IRR)
        if r.random() < 0.3: e = '(' + e + ')' + r.choice(FMT)
        return e, 'number-complex-or-irrational'
    if k < 0.38:
        e = r.choice(UNITS)
        if r.random() < 0.4: e = '(' + e + ')' + r.choice(FMT + BASE)
        return e, 'number-with-unit'
    if k < 0.43:
        return r.choice(BASELIT) + (r.choice(BASE) if r.random() < 0.3 else ''), 'number-in-base'
    if k < 0.50:
        return r.choice(STRS), 'string'
    if k < 0.56:
        return r.choice(DATES), 'date'
    if k < 0.60:
        return r.choice(BOOLS), 'bool'
    if k < 0.66:
        return r.choice(MISC), 'misc-unit-object-format-base'
    if k < 0.70:
        return r.choice(DIST), 'dist'
    if k < 0.76:
        return r.choice(builtins), 'builtin'
    if k < 0.86:
        return r.choice(LAMBDAS), 'lambda'
    if k < 0.93:
        return r.choice(CLOSURES), 'closure-with-scope'
    if names_so_far:
        a = r.choice(names_so_far)
        b = r.choice(names_so_far)
        return r.choice(['%s + %s' % (a, b), '%s * 2' % a, '%s %s' % (a, b), '%s 3' % a, '(%s 1) 2' % a, '-%s' % a,
                         '%s to 3 dp' % a, '\\q.%s q' % a, '(\\x.\\y.x) %s' % a, '%s == %s' % (a, b)]), 'derived'
    return r.choice(INTS), 'number'

def gen_history(r, builtins, nmin=1, nmax=5):
    stmts, names, kinds = [], [], []
    for i in range(r.randint(nmin, nmax)):
        e, kind = gen_expr(r, names, builtins)
        kinds.append(kind)
        if r.random() < 0.85:
            n = 'v%d' % i
            stmts.append('%s = %s' % (n, e))
            names.append(n)
        else:
            stmts.append(e)
    if r.random() < 0.25:
        # globals named like the parameters of stored lambdas (must stay shadowed after a reload)
        stmts = with_globals(r, stmts)
    return stmts, names, kinds

def corpus_histories(builtins):
    """boundary corpus: every built-in function name, every fixed example of
    every kind singly, the closures of DESIGN 9 item 8"""
    out = []
    for b in builtins:
        out.append((['v0 = ' + b], ['v0'], ['builtin']))
    for group, kind in ((INTS, 'number'), (RATS, 'number'), (CPLX, 'number-complex-or-irrational'), (IRR, 'number-complex-or-irrational'),
                        (UNITS, 'number-with-unit'), (BASELIT, 'number-in-base'), (STRS, 'string'), (DATES, 'date'), (BOOLS, 'bool'),
                        (MISC, 'misc-unit-object-format-base'), (DIST, 'dist'), (LAMBDAS, 'lambda'), (CLOSURES, 'closure-with-scope')):
        for e in group:
            out.append((['v0 = ' + e], ['v0'], [kind]))
    for f in FMT + BASE:
        out.append((['v0 = (22/7)' + f], ['v0'], ['number']))
        out.append((['v0 = (3 kg)' + f], ['v0'], ['number-with-unit']))
    out.append((['v0 = \\x.\\y.x+y', 'v1 = v0 3'], ['v0', 'v1'], ['lambda', 'closure-with-scope']))
    out.append((['v0 = \\x.\\y.\\z.x+y+z', 'v1 = v0 1', 'v2 = v1 2', 'v3 = v2 3'], ['v0', 'v1', 'v2', 'v3'], ['lambda', 'closure-with-scope', 'closure-with-scope', 'number']))
    out.append((['v0 = 5', 'v1 = x: x + v0', 'v0 = 7', 'v2 = v1 1'], ['v0', 'v1', 'v2'], ['number', 'lambda', 'number', 'derived']))
    for h in HIGHER_ORDER:
        names = ['v%d' % i for i in range(len(h))]
        out.append((h, names, ['closure-higher-order'] * len(h)))
        out.append((h + GLOBALS, names, ['closure-higher-order'] * len(h)))
    for e in DIST_UNSORTED:
        out.append((['v0 = d6', 'v1 = d4', 'v2 = v0 - v1', 'v3 = ' + e], ['v0', 'v1', 'v2', 'v3'], ['dist-unsorted'] * 4))
    out.extend(BIG_HISTORIES)
    return out

RENAME = re.compile(r'\bv(\d+)\b')
def renamed(stmts):
    """the same history over names Lv0, Lv1, ... (live copies next to reloaded values)"""
    return [RENAME.sub(lambda m: 'Lv' + m.group(1), s) for s in stmts]

def canon_probe(p):
    """probe results are compared as (kind, text); @debug text is compared as a
    multiset of tokens because hash-map iteration order differs per map"""
    return p

UNIT_DEF = re.compile(r'\(= [^()]*\)')
def debug_canon(text):
    """@debug text is compared verbatim (stored order of dist outcomes, object
    members, unit components, scopes matters) except that the base-unit list
    inside a unit definition `(= scale unit^e unit^e ...)` is a hash map dump
    and is compared as a token multiset"""
    t = text.decode('utf-8', 'replace')
    return UNIT_DEF.sub(lambda m: '(= ' + ' '.join(sorted(m.group(0)[3:-1].split())) + ')', t)

# ---------------------------------------------------------------------------
# image helpers

def split_entries(model_ok):
    """model ("ok" (entries) restlen alloc) -> list of dicts"""
    out = []
    for e in model_ok[1]:
        out.append({'name': e[0], 'bytes': e[1], 'wfc': e[2], 'wfs': e[3], 'has_scope': e[4], 'names_ok': e[5], 'size': e[6], 'names_ok_or_known': e[7], 'kind': e[8], 'canon': e[9]})
    return out

def mutants(img, r, positions=None, limit=None):
    """every truncation point; single-byte substitutions and 8-byte length-field
    overwrites at every offset (or at a sample of `positions` offsets)"""
    n = len(img)
    offs = list(range(n)) if positions is None or positions >= n else sorted(r.sample(range(n), positions))
    out = []
    for i in (range(n) if positions is None else offs):
        out.append(('trunc', i, img[:i]))
    for i in offs:
        b = img[i]
        for v in sorted({0, 1, 2, 3, 6, 7, 12, 13, 14, 16, 17, 31, 32, 36, 37, 0x7f, 0x80, 200, 0xff, b ^ 1, (b + 1) & 255, (b - 1) & 255}):
            if v != b:
                out.append(('subst', i, img[:i] + bytes([v]) + img[i + 1:]))
    for i in offs:
        if i + 8 <= n:
            for v in (0, 1, 2, 1 << 32, 1 << 40, 1 << 60, 1 << 61, (1 << 63) - 1, 1 << 63, (1 << 64) - 1):
                nb = v.to_bytes(8, 'big')
                if nb != img[i:i + 8]:
                    out.append(('len8', i, img[:i] + nb + img[i + 8:]))
    if limit is not None and len(out) > limit:
        out = r.sample(out, limit)
    return out

# ---------------------------------------------------------------------------
# kind-directed evaluation battery for loaded values (C14): `$` is the variable

BAT_NUM = ['$', '@debug $', '$ + 35', '$ 2', '($ 3) + 35', '-$', '1/$', '$^2', '2^$', '$^$', '$^0.5', '$^-1', 'sqrt $', '$!',
           '$ == 0', '$ == $', '$ < 1', '$ mod 2', '7 mod $', '$ | 1', '$ & 3', '$ xor 1', '$ << 1', '1 << $', '$ >> 1',
           '5 kg to $', '$ to kg', '$ to m', '$ m', '$ kg + 1 g', '$ to 2 dp', '$ to 0 dp', '$ to 3 sf', '$ to frac',
           '$ to mixed_frac', '$ to exact', '$ to float', '$ to base 7', '$ to hex', '$ to binary', 'mean $', 'sample $',
           'abs $', 'floor $', 'ceil $', 'round $', '$ nCr 2', '5 nPr $', 'ln $', 'sin $', 'exp $', 'real $', 'imag $', 'arg $',
           'conjugate $', 'not $', '$ + $', '$ * $', '$ / $', '$ - $', 'fib $', '$ * 0', '$ to celsius', '$ to roman', '$ to words']
BAT_DATE = ['$', '@debug $', '$ + 1 day', '$ + 2 days', '$ - 1 day', '$ - 2 days', '($ + 1 day) + 1 day', '(($ + 1 day) + 1 day) + 1 day',
            '($ - 1 day) - 1 day', '$ + 1 week', '$ + 30 days', '$ + 365 days', '$ + 1 month', '$ - 1 month', '$ + 12 months',
            '($ + 1 month) + 1 day', '$ + 1 year', '$ - 1 year', '($ + 1 year) + 1 day', '$ - 400 years', '$ + 400 years',
            '$ + 100000 days', '$ == $', 'month of $', 'day_of_week of $']
BAT_STR = ['$', '@debug $', '$ + "x"', '"x" + $', '$ + $', '$ == "x"', '$ 2', '$ to 2 dp', '$ + 1']
BAT_FN = ['$', '@debug $', '$ 1', '$ 2', '$ 0', '($ 2) 3', '$ (3 kg)', '$ "s"', '$ (d6)', '$ (@2020-02-29)', '$ (1/3)', '$ (2+3i)', '$ pi',
          '(x: $ x) 1', '$ + 1', '$^2', '$^-1 2']
BAT_OTHER = ['$', '@debug $', '$ + 1', '$ 2', '5 $', '1 to $', '(22/7) to $', '0x1f to $', 'pi to $', '$ == $', 'mass of $', 'gravity of $']
def battery(kind):
    return {0: BAT_NUM, 13: BAT_DATE, 8: BAT_STR, 6: BAT_FN, 1: BAT_FN}.get(kind, BAT_OTHER)
