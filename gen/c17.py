"""C17 — dice expressions denote the exact probability distribution.
Proof: coq/Properties/C17.v (model coq/Dist/Dice.v).  Tie: the parts of the
Dist a fend expression evaluates to (L1 hook, exact), Dist::sample under a
harness-controlled random source (L1), and the printed `{ k: p% }`, `mean(..)`,
`roll(..)` (L2, public API) against the extracted model and against an
independent Python specification (inclusion-exclusion count of dice tuples,
dictionary convolution over Fractions)."""
import json, os, re, shutil, struct
from fractions import Fraction as F
from math import comb
import vlib
from vlib import sx, Sym, parse_sx, try_parse

TRUSTED_BASE = [
    'Coq 8.16.1 kernel (QArith, lia/lra/nia); no axioms',
    'extraction ExtrOcamlBasic -> OCaml 4.13.1, modelrun/driver.ml; cross-checked against vm_compute on a sample',
    'harness/src/bin/h_dist.rs and /repo/core/src/verif_hooks/dist.rs (evaluate_to_value, Number::serialize decoded into raw sign/limbs, Number::sample, BigRat::into_f64; a thread-local queue behind the plain fn() -> u32 random source)',
    'hand-written model coq/Dist/Dice.v tied to core/src/num/dist.rs, unit.rs (add/sub/mul/div/neg), lexer.rs (dice literal) only by this differential run',
    'BigRat/BigUint arithmetic and compare are taken as exact rational arithmetic (C01/C02 territory); outcome number formatting is C03/C04 territory (integers compared exactly, non-integers to 1e-9)',
    'f64 oracle: BigRat::into_f64 and `{:.2}` float formatting are not modelled; weights are recomputed from the observed f64 bits; a percentage within 5e-13 of a rounding tie may print as either neighbour',
    'Python fractions.Fraction (second, independent specification on the check side)',
]
ASSUMPTIONS = [
    'weight oracle (Section hypothesis of C17_sample_covers_nonnegligible): |floor(f64(p) * (2^32-1)) - p * (2^32-1)| <= 1; validated on every sampled case',
    'outcomes are real rationals (dice, integer constants, + - * / and negation); pi multiples and complex outcomes are outside the property',
]

M32 = 2 ** 32 - 1
ERRKIND = {b'division by zero': 1, b'invalid dice syntax, try e.g. `4d6`': 10}

# ---------------------------------------------------------------- expressions
# ('d', n, m, short) | ('c', n) | ('neg', a) | (op, a, b) with op in add sub mul div

BASES = [('0b', 2), ('0o', 8)] + [('%d#' % k, k) for k in range(2, 11)]

def to_base(n, b):
    if n == 0:
        return '0'
    ds = []
    while n:
        ds.append(str(n % b)); n //= b
    return ''.join(reversed(ds))

def text(e):
    t = e[0]
    if t == 'd':
        # a dice literal is lexed in the base of its prefix (bases <= 10 only): count and faces are digits of that base
        pre, b = e[4] if len(e) > 4 and e[4] else ('', 10)
        n, m = to_base(e[1], b), to_base(e[2], b)
        return pre + (('d' + m) if (e[3] and e[1] == 1) else n + 'd' + m)
    if t == 'c':
        return str(e[1])
    if t == 'neg':
        return '-(%s)' % text(e[1])
    return '(%s)%s(%s)' % (text(e[1]), {'add': '+', 'sub': '-', 'mul': '*', 'div': '/'}[t], text(e[2]))

def wire(e):
    t = e[0]
    if t == 'd':
        return [Sym('d'), e[1], e[2]]
    if t == 'c':
        return [Sym('c'), e[1]]
    if t == 'neg':
        return [Sym('neg'), wire(e[1])]
    return [Sym(t), wire(e[1]), wire(e[2])]

class TooBig(Exception):
    pass
class SpecErr(Exception):
    def __init__(self, kind): self.kind = kind

def count_tuples(n, m, k):
    """number of n-tuples over 1..m with sum k (inclusion-exclusion; independent of any convolution)"""
    if k < n or k > n * m:
        return 0
    return sum((-1) ** j * comb(n, j) * comb(k - m * j - 1, n - 1) for j in range(0, (k - n) // m + 1))

def spec(e, pairs_max):
    """exact distribution as {outcome: probability}; SpecErr(kind) for the two error kinds"""
    def lex(e):
        if e[0] == 'd':
            if e[1] == 0 or e[2] == 0 or e[1] >= 2 ** 32 or e[2] >= 2 ** 32:
                raise SpecErr(10)
        elif e[0] != 'c':
            for s in e[1:]:
                lex(s)
    lex(e)
    def go(e):
        t = e[0]
        if t == 'd':
            n, m = e[1], e[2]
            if n * m > 4000:
                raise TooBig()
            den = m ** n
            return {F(k): F(count_tuples(n, m, k), den) for k in range(n, n * m + 1)}
        if t == 'c':
            return {F(e[1]): F(1)}
        if t == 'neg':
            return {-k: p for k, p in go(e[1]).items()}
        a = go(e[1]); b = go(e[2])
        if len(a) * len(b) > pairs_max:
            raise TooBig()
        out = {}
        for ka, pa in a.items():
            for kb, pb in b.items():
                if t == 'add': k = ka + kb
                elif t == 'sub': k = ka - kb
                elif t == 'mul': k = ka * kb
                else:
                    if kb == 0:
                        raise SpecErr(1)
                    k = ka / kb
                out[k] = out.get(k, 0) + pa * pb
        return out
    return go(e)

# constants around and beyond f64 / u64 resolution
BIG = [2 ** 53, 2 ** 53 + 1, 2 ** 53 + 2, 2 ** 63, 2 ** 64 - 1, 2 ** 64, 2 ** 64 + 1, 10 ** 18, 10 ** 20, 10 ** 20 + 1, 3 * 10 ** 30 + 7]

DIE_FACES = [2, 2, 3, 4, 4, 6, 6, 6, 8, 10, 12, 20, 5, 7, 1, 32, 100]

def gen_expr(r, depth, thorough):
    k = r.random()
    if depth <= 0 or k < 0.22:
        if r.random() < 0.68:
            n = r.choice([1, 1, 1, 2, 2, 3] + ([4, 5] if thorough else []))
            m = r.choice(DIE_FACES)
            if n * m > (60 if not thorough else 120):
                m = r.choice([2, 3, 4, 6])
            return ('d', n, m, r.random() < 0.6, r.choice(BASES) if r.random() < 0.25 else None)
        if r.random() < 0.2:
            return ('c', r.choice(BIG))
        return ('c', r.choice([0, 1, 1, 2, 2, 3, 4, 5, 6, 7, 10, 12, 100, 3, 2]))
    if k < 0.30:
        return ('neg', gen_expr(r, depth - 1, thorough))
    op = r.choice(['add', 'add', 'add', 'sub', 'sub', 'mul', 'mul', 'div'])
    a = gen_expr(r, depth - 1, thorough)
    if op == 'div' and r.random() < 0.75:
        # mostly divide by something without a zero outcome
        b = r.choice([('c', r.choice([1, 2, 3, 4, 6, 10])), ('d', 1, r.choice([2, 3, 4, 6]), True),
                      ('add', ('d', 1, r.choice([2, 4, 6]), True), ('c', r.choice([1, 2])))])
    else:
        b = gen_expr(r, depth - 1, thorough)
    return (op, a, b)

FIXED = [
    ('add', ('d', 1, 6, True), ('d', 1, 6, True)), ('sub', ('d', 1, 6, True), ('d', 1, 6, True)),
    ('mul', ('d', 1, 6, True), ('d', 1, 6, True)), ('div', ('d', 1, 6, True), ('d', 1, 2, True)),
    ('div', ('d', 1, 10, True), ('d', 1, 2, True)), ('add', ('add', ('d', 1, 20, True), ('d', 1, 6, True)), ('c', 4)),
    ('add', ('d', 1, 6, True), ('c', 0)), ('add', ('c', 0), ('d', 1, 6, True)), ('sub', ('d', 1, 6, True), ('c', 0)),
    ('mul', ('d', 1, 6, True), ('c', 0)), ('mul', ('c', 0), ('d', 2, 6, True)), ('mul', ('d', 1, 6, True), ('c', 1)),
    ('div', ('d', 1, 6, True), ('c', 0)), ('div', ('d', 1, 6, True), ('sub', ('d', 1, 6, True), ('c', 3))),
    ('div', ('c', 0), ('d', 1, 6, True)), ('add', ('d', 1, 6, True), ('mul', ('d', 1, 4, True), ('c', 0))),
    ('sub', ('c', 7), ('d', 2, 6, True)), ('neg', ('d', 2, 4, True)), ('neg', ('neg', ('d', 1, 8, True))),
    ('sub', ('d', 2, 6, True), ('d', 2, 6, True)), ('mul', ('neg', ('d', 1, 4, True)), ('neg', ('d', 1, 4, True))),
    ('div', ('d', 1, 6, True), ('neg', ('d', 1, 3, True))), ('add', ('div', ('d', 1, 6, True), ('c', 2)), ('div', ('d', 1, 6, True), ('c', 2))),
    ('d', 1, 32, True), ('d', 1, 8, True), ('d', 1, 16, True), ('d', 1, 64, True), ('d', 1, 200, True), ('d', 1, 500, True),
    ('d', 1, 1, True), ('d', 3, 1, False), ('d', 10, 2, False), ('d', 8, 3, False), ('add', ('d', 1, 1, True), ('d', 1, 1, True)),
    ('d', 0, 6, False), ('d', 1, 0, False), ('d', 0, 0, False), ('d', 1, 4294967296, True), ('d', 4294967296, 2, False),
    ('add', ('d', 1, 6, True), ('d', 0, 6, False)), ('div', ('d', 1, 0, True), ('c', 0)),
    ('mul', ('d', 1, 32, True), ('d', 1, 32, True)), ('mul', ('d', 1, 100, True), ('c', 100)),
    # dice literals under a base prefix: count and faces are digits of that base
    ('d', 2, 8, False, ('0o', 8)), ('d', 1, 2, False, ('0b', 2)), ('d', 1, 2, True, ('0b', 2)), ('d', 2, 6, False, ('6#', 6)),
    ('d', 2, 3, False, ('0b', 2)), ('d', 1, 9, True, ('9#', 9)), ('d', 2, 6, False, ('10#', 10)), ('d', 15, 2, False, ('0o', 8)),
    ('d', 1, 3, True, ('3#', 3)), ('d', 3, 5, False, ('2#', 2)), ('d', 1, 64, True, ('0o', 8)), ('d', 9, 9, False, ('0o', 8)),
    ('d', 4, 16, False, ('4#', 4)), ('d', 1, 100, True, ('7#', 7)),
    ('add', ('d', 2, 8, False, ('0o', 8)), ('d', 1, 3, False, ('0b', 2))), ('sub', ('d', 1, 6, True), ('d', 2, 6, False, ('6#', 6))),
    ('d', 0, 8, False, ('0o', 8)), ('d', 1, 0, True, ('0b', 2)), ('d', 4294967296, 2, False, ('0o', 8)), ('d', 1, 4294967296, True, ('3#', 3)),
    # outcomes that differ only below f64 resolution, or beyond u64: order and exact values
    ('sub', ('c', 10 ** 20), ('d', 1, 6, True)), ('sub', ('c', 2 ** 53 + 2), ('d', 1, 3, True)),
    ('sub', ('mul', ('d', 1, 2, True), ('c', 10 ** 18)), ('d', 1, 2, True)), ('add', ('d', 1, 6, True), ('c', 2 ** 64)),
    ('mul', ('d', 1, 6, True), ('c', 2 ** 53 + 1)), ('sub', ('c', 2 ** 64), ('d', 1, 20, True)), ('sub', ('c', 2 ** 53), ('d', 2, 6, False)),
    ('div', ('add', ('c', 10 ** 20), ('d', 1, 6, True)), ('c', 3)), ('div', ('sub', ('mul', ('d', 1, 2, True), ('c', 10 ** 18)), ('d', 1, 2, True)), ('c', 7)),
    ('neg', ('add', ('c', 2 ** 53), ('d', 1, 4, True))), ('sub', ('d', 1, 4, True), ('c', 10 ** 20)),
    ('sub', ('mul', ('c', 2 ** 53 + 1), ('d', 1, 3, True)), ('d', 1, 3, True)), ('div', ('sub', ('c', 2 ** 64 + 1), ('d', 1, 4, True)), ('c', 2 ** 64)),
    ('add', ('sub', ('c', 2 ** 53), ('d', 1, 6, True)), ('div', ('d', 1, 2, True), ('c', 2))),
]

def gen_cases(c):
    r = c.rng
    thorough = c.tier == 'thorough'
    NMAX, MMAX = (6, 20) if thorough else (4, 12)
    cases = []
    for n in range(1, NMAX + 1):
        for m in range(1, MMAX + 1):
            cases.append((('d', n, m, False), 'die'))
            if n == 1:
                cases.append((('d', 1, m, True), 'die'))
            if thorough or r.random() < 0.5:
                cases.append((('d', n, m, n == 1 and r.random() < 0.5, r.choice(BASES)), 'die-base'))
    for e in FIXED:
        cases.append((e, 'fixed'))
    want = 2500 if thorough else 260
    pairs_max = 6000 if thorough else 1500
    seen = set(text(e) for e, _ in cases)
    tries = 0
    while want > 0 and tries < 100000:
        tries += 1
        e = gen_expr(r, r.choice([1, 2, 2, 3, 3] + ([4, 5] if thorough else [])), thorough)
        t = text(e)
        if t in seen or e[0] in ('d', 'c'):
            continue
        try:
            s = spec(e, pairs_max)
            if len(s) > (400 if thorough else 150):
                continue
        except TooBig:
            continue
        except SpecErr:
            if r.random() < 0.4:      # keep only some of the error cases
                continue
        seen.add(t)
        cases.append((e, 'combo'))
        want -= 1
    return cases, pairs_max

# malformed / unusual spellings: only "no crash" and, where the meaning is plain, the value
ODD = ['0o2d8', '0b2d10', '0b1d2', '0x1d6', '16#2d6', '11#d6', '0od8', '1#d1', '0b1.1d10', 'd', '2d', 'd6d6', '2d6d6', '1.5d6', 'd6.5', '--d6', 'd6^2', '(d6)^2', 'd6!', 'd-6', 'D6', '2D6', 'd 6', '0x2d6',
       'roll', 'mean', 'roll d6 d6', 'mean()', 'roll()', 'd6 d6', '2 d6', 'd6 to %', 'd6 kg', 'sqrt d4', 'd6 mod 2',
       '2d6 == 2d6', 'roll(roll(d6))', 'mean(mean(d6))', 'mean(roll(2d6))', 'roll(mean(2d6))', 'd6 + "a"', '1e2d6', 'd1e2']

# ---------------------------------------------------------------- helpers

def parts_of(o):
    """impl ("ok" ((kn kd pn pd bits)...)) -> list of (k, p, f64) or ('err', kind/msg) or None (crash / foreign)"""
    p = try_parse(o)
    if not isinstance(p, list) or not p:
        return None
    if p[0] == b'err':
        return ('err', ERRKIND.get(p[1], p[1].decode('utf-8', 'replace')))
    if p[0] != b'ok' or not isinstance(p[1], list):
        return None
    out = []
    for q in p[1]:
        if not (isinstance(q, list) and len(q) == 5 and all(isinstance(x, int) for x in q)) or q[1] == 0 or q[3] == 0:
            return ('foreign', repr(q))
        f = struct.unpack('>d', q[4].to_bytes(8, 'big'))[0]
        out.append((F(q[0], q[1]), F(q[2], q[3]), f))
    return out

def model_parts(o, width=4):
    p = try_parse(o)
    if not isinstance(p, list) or not p:
        return None
    if p[0] == b'err':
        return ('err', p[1])
    if p[0] == b'panic':
        return ('panic', p[1])
    if p[0] != b'ok':
        return None
    return [tuple([F(q[0], q[1]), F(q[2], q[3])] + q[4:]) for q in p[1]]

def weight(f):
    if f != f or f <= 0:
        return 0
    w = int(f * 4294967295.0)
    return min(w, M32)

NUM_RE = re.compile(r'^(-?)(0b|0o|(\d+)#)?([0-9]+)(?:\.([0-9]+))?$')

def parse_outcome(txt):
    """printed number -> (exact value of the printed digits, base, has fractional part); fend prints a number in the base
    of the literal it came from, with that literal's prefix"""
    m = NUM_RE.match(txt)
    if not m:
        return None
    b = 10 if not m.group(2) else 2 if m.group(2) == '0b' else 8 if m.group(2) == '0o' else int(m.group(3))
    if b < 2 or b > 10 or any(int(ch) >= b for ch in m.group(4) + (m.group(5) or '')):
        return None
    v = F(int(m.group(4), b))
    if m.group(5):
        v += F(int(m.group(5), b), b ** len(m.group(5)))
    return (-v if m.group(1) else v), b, bool(m.group(5))

def fmt_outcome_ok(txt, k):
    """printed outcome against the exact one: integers digit for digit (in the printed base), others to 10 places"""
    p = parse_outcome(txt)
    if p is None:
        return False
    v, b, frac = p
    if k.denominator == 1:
        return (not frac) and v == k
    return abs(v - k) <= F(1, b ** 9)

LIST_RE = re.compile(r'^\{ (.*) \}$')

def parse_listing(s):
    m = LIST_RE.match(s)
    if not m:
        return None
    out = []
    for item in m.group(1).split(', '):
        if ': ' not in item or not item.endswith('%'):
            return None
        k, p = item[:-1].rsplit(': ', 1)
        if not re.match(r'^\d+\.\d\d$', p):
            return None
        out.append((k, int(p.replace('.', ''))))
    return out

def pct_candidates(p):
    """hundredths of a percent the exact p may print as"""
    x = p * 10000
    h = (x + F(1, 2)).__floor__()
    fl = x.__floor__()
    if abs(x - fl - F(1, 2)) < F(5, 10 ** 11):
        return {fl, fl + 1}, True
    return {h}, False

# ---------------------------------------------------------------- dice with non-real outcomes

def gauss_label(a, b):
    if b == 0:
        return str(a)
    im = ('' if abs(b) == 1 else str(abs(b))) + 'i'
    if a == 0:
        return ('-' if b < 0 else '') + im
    return '%d %s %s' % (a, '+' if b > 0 else '-', im)

def gen_complex_dice(r):
    """a sum of 2..4 terms, each a die (shifted or not) on the real or on the imaginary axis; at least one of each;
    returns (text, exact distribution over Gaussian integers)"""
    while True:
        n = r.randint(2, 4)
        terms = []
        for _ in range(n):
            m = r.randint(2, 8); k = r.choice([0, 0, 1, 2, (m + 1) // 2]); ax = r.random() < 0.5; neg = r.random() < 0.3
            terms.append((m, k, ax, neg))
        if any(t[2] for t in terms) and not all(t[2] for t in terms):
            break
    dist = {(0, 0): F(1)}
    txt = ''
    for j, (m, k, ax, neg) in enumerate(terms):
        t = ('(d%d - %d)' % (m, k) if k else 'd%d' % m) + (' i' if ax else '')
        txt += (('-' if neg else '') if j == 0 else (' - ' if neg else ' + ')) + (t if not (j == 0 and neg) else '(' + t + ')')
        nd = {}
        for (a, b), p in dist.items():
            for face in range(1, m + 1):
                v = (face - k) * (-1 if neg else 1)
                key = (a, b + v) if ax else (a + v, b)
                nd[key] = nd.get(key, 0) + p / m
        dist = nd
    return txt, dist

def check_complex_dice(c):
    """arithmetic on dice also denotes the distribution of the result when the outcomes are not real: the listing
    holds every possible outcome exactly once (equal outcomes merged) with the exact probability rounded to two
    decimals, in a total order (real part, then imaginary part)"""
    r = c.rng
    fixed = ['d3 + (d2 - 1) i', 'd6 + d6 + (d2 - 1) i + d6', '(d3 - 2) i + d2', 'd2 i + d2 i', 'd4 i - d4 i + d3', 'd20 + (d2 - 1) i']
    cases = []
    for t in fixed:
        cases.append((t, None))
    for _ in range(60 if c.tier == 'quick' else 600):
        cases.append(gen_complex_dice(r))
    outs = c.impl('dist', [sx([Sym('eval'), t, [], 0]) for t, _ in cases])
    for (t, dist), o in zip(cases, outs):
        c.note_case('cdice:' + t, True, 'complex-dice')
        sh = try_parse(o)
        rep = {'expr': t, 'layer': 'L2', 'op': 'eval'}
        if not (isinstance(sh, list) and sh and sh[0] == b'ok'):
            c.violation('complex-dice-crash-or-error', dict(rep, kind='impl-crash' if not (isinstance(sh, list) and sh and sh[0] == b'err') else 'impl-vs-spec', impl=o[:800]))
            continue
        lst = parse_listing(sh[1].decode('utf-8', 'replace'))
        if lst is None:
            c.violation('complex-dice-listing-shape', dict(rep, kind='impl-vs-spec', impl=o[:800]))
            continue
        labels = [k for k, _ in lst]
        if len(set(labels)) != len(labels):
            dup = sorted({k for k in labels if labels.count(k) > 1})[:5]
            c.violation('complex-dice-outcome-listed-twice', dict(rep, kind='impl-vs-spec', impl=o[:1500], duplicated=dup))
            continue
        if abs(sum(h for _, h in lst) - 10000) > len(lst):
            c.violation('complex-dice-probabilities-do-not-sum-to-1', dict(rep, kind='impl-vs-spec', impl=o[:1500]))
            continue
        if dist is None:
            continue
        exp = [(gauss_label(a, b), pct_candidates(p)[0]) for (a, b), p in sorted(dist.items())]
        if [k for k, _ in exp] != labels:
            c.violation('complex-dice-outcomes-or-order', dict(rep, kind='impl-vs-spec', impl=o[:1500], expected=[k for k, _ in exp][:60]))
        elif any(h not in cand for (_, h), (_, cand) in zip(lst, exp)):
            c.violation('complex-dice-percentage', dict(rep, kind='impl-vs-spec', impl=o[:1500]))


# ---------------------------------------------------------------- thorough proof step

CONE = ['Base/Prelude.v', 'Dist/Dice.v', 'Dist/DiceProofs.v', 'Dist/DiceDie.v', 'Dist/DiceEval.v', 'Dist/DiceSample.v',
        'Dist/DiceTheorems.v', 'Properties/C17.v']

def fresh_proof(c):
    """thorough tier: rebuild exactly the cone of Properties/C17.v from the sources in a fresh directory (independent of
    what else is listed in coq/_CoqProject or tracked by git) and run coqchk on it"""
    fresh = os.path.join(vlib.CACHE, 'fresh_C17')
    shutil.rmtree(fresh, ignore_errors=True)
    for rel in CONE:
        dst = os.path.join(fresh, rel)
        os.makedirs(os.path.dirname(dst), exist_ok=True)
        shutil.copy(os.path.join(vlib.COQ, rel), dst)
    with open(os.path.join(fresh, '_CoqProject'), 'w') as fh:
        fh.write('-Q . FendV\n-arg -w -arg -notation-overridden,-deprecated-hint-without-locality,-deprecated-instance-without-locality\n' + '\n'.join(CONE) + '\n')
    rc, out = vlib.sh('coq_makefile -f _CoqProject -o Makefile && make -j%d Properties/C17.vo' % vlib.NPROC, cwd=fresh, timeout=7200)
    res = {'fresh_rebuild': rc == 0, 'cone': CONE}
    if rc != 0:
        c.proof_failed = {'stage': 'fresh-rebuild', 'where': fresh, 'log': out[-3000:]}
        c.extra['thorough_proof'] = res
        return res
    rc, out = vlib.sh(['coqchk', '-silent', '-o', '-Q', fresh, 'FendV', 'FendV.Properties.C17'], cwd=fresh, timeout=7200)
    res['coqchk'] = rc == 0
    res['coqchk_report'] = [l.strip() for l in out.splitlines() if l.strip()][-12:]
    if rc != 0:
        c.proof_failed = {'stage': 'coqchk', 'where': fresh, 'log': out[-3000:]}
    else:
        shutil.rmtree(fresh, ignore_errors=True)
    c.extra['thorough_proof'] = res
    return res

# ---------------------------------------------------------------- the check

def check(c):
    c.rule = ('expressions over dice NdM / dM, integer constants, + - * / and unary minus, fully parenthesised; quick: every N<=4, M<=12, '
              'thorough: every N<=6, M<=20, plus fixed boundary cases (0/1 operands, zero divisors, d1, power-of-two faces with tie percentages, '
              'invalid literals) and random trees of depth<=3 (5 thorough) bounded by the number of outcome pairs; non-trivial = result has >= 2 outcomes; '
              'distinct by expression text; random source probed at 0, 1, 2, 2^32-2, 2^32-1, a 16-point grid, 4 random values and every cumulative weight -1/0/+1')
    ok = c.proof(['C17'], extra_targets=['Extract/XDist.vo'])
    if c.tier == 'thorough' and ok:
        fresh_proof(c)
    r = c.rng
    cases, pairs_max = gen_cases(c)
    texts = [text(e) for e, _ in cases]
    wires = [wire(e) for e, _ in cases]
    tmo = 20 if c.tier == 'quick' else 120

    impl_parts = c.impl('dist', [sx([Sym('parts'), t]) for t in texts], timeout=tmo)
    impl_mean = c.impl('dist', [sx([Sym('parts'), 'mean(%s)' % t]) for t in texts], timeout=tmo)
    impl_show = c.impl('dist', [sx([Sym('eval'), t, [], 0]) for t in texts], timeout=tmo)
    impl_showmean = c.impl('dist', [sx([Sym('eval'), 'mean(%s)' % t, [], 0]) for t in texts], timeout=tmo)
    heavy = [i for i, (e, kind) in enumerate(cases) if kind in ('die', 'die-base') and e[1] * e[2] > 40]
    light = [i for i in range(len(cases)) if i not in set(heavy)]
    model_dist = [None] * len(cases)
    for idx, cross in ((light, True), (heavy, False)):
        outs = c.model('dist', [sx([Sym('dist'), wires[i]]) for i in idx], cross=cross)
        for i, o in zip(idx, outs):
            model_dist[i] = o
    model_mean = c.model('dist', [sx([Sym('mean'), w]) for w in wires], cross=False)
    model_list = c.model('dist', [sx([Sym('listing'), w]) for w in wires], cross=False)

    sample_jobs = []      # (case index, impl parts, weights, rs)
    ties_seen = 0
    order_drift = 0
    for i, ((e, kind), t) in enumerate(zip(cases, texts)):
        rep = {'expr': t, 'wire': sx(wires[i])}
        # ---- specification (python, independent)
        try:
            sp = ('ok', spec(e, 10 ** 9))
        except SpecErr as x:
            sp = ('err', x.kind)
        ip = parts_of(impl_parts[i])
        mp = model_parts(model_dist[i])
        nontrivial = sp[0] == 'ok' and len(sp[1]) >= 2
        c.note_case(t, nontrivial, kind + ('-err' if sp[0] == 'err' else ('' if nontrivial else '-point')))
        if ip is None or (isinstance(ip, tuple) and ip[0] == 'foreign'):
            c.violation('dist-crash', dict(rep, kind='impl-crash', impl=impl_parts[i]))
            continue
        # ---- errors
        if sp[0] == 'err':
            if not (isinstance(ip, tuple) and ip[0] == 'err' and ip[1] == sp[1]):
                c.violation('error-kind', dict(rep, kind='impl-vs-spec', impl=impl_parts[i], expected_error=sp[1]))
            elif not (isinstance(mp, tuple) and mp[0] == 'err' and mp[1] == sp[1]):
                c.violation('error-kind-model', dict(rep, kind='impl-vs-model', impl=impl_parts[i], model=model_dist[i]), no_input=True)
            # the public entry point must report the same error
            sh = try_parse(impl_show[i])
            if not (isinstance(sh, list) and sh and sh[0] == b'err' and ERRKIND.get(sh[1]) == sp[1]):
                c.violation('error-kind-l2', dict(rep, kind='impl-vs-spec', impl=impl_show[i], expected_error=sp[1]))
            continue
        if isinstance(ip, tuple):
            c.violation('unexpected-error', dict(rep, kind='impl-vs-spec', impl=impl_parts[i], expected='%d outcomes' % len(sp[1])))
            continue
        # ---- impl vs spec: distinct outcomes, positive probabilities summing to 1, exactly the specified distribution
        ks = [k for k, _, _ in ip]
        bad = None
        if len(set(ks)) != len(ks):
            bad = 'outcomes-not-distinct'
        elif any(p <= 0 for _, p, _ in ip):
            bad = 'probability-not-positive'
        elif sum(p for _, p, _ in ip) != 1:
            bad = 'probabilities-do-not-sum-to-one'
        elif set(ks) != set(sp[1].keys()):
            bad = 'support-differs'
        elif any(sp[1][k] != p for k, p, _ in ip):
            bad = 'probability-differs'
        if bad:
            c.violation(bad, dict(rep, kind='impl-vs-spec', impl=[[str(k), str(p)] for k, p, _ in ip][:60],
                                  spec=[[str(k), str(p)] for k, p in sorted(sp[1].items())][:60]))
            continue
        # ---- impl vs model (stored order too)
        same_order = True
        if not isinstance(mp, list):
            c.violation('model-differs', dict(rep, kind='impl-vs-model', model=model_dist[i]), no_input=True)
            continue
        if [(k, p) for k, p, _ in ip] != [(q[0], q[1]) for q in mp]:
            if dict((q[0], q[1]) for q in mp) == sp[1]:
                same_order = False
                order_drift += 1
                c.repr_drift += 1
            else:
                c.violation('model-differs', dict(rep, kind='impl-vs-model', model=model_dist[i][:2000]), no_input=True)
                continue
        # ---- closed forms for plain dice
        if e[0] == 'd':
            n, m = e[1], e[2]
            if set(ks) != set(F(k) for k in range(n, n * m + 1)):
                c.violation('die-support', dict(rep, kind='impl-vs-spec'))
        # ---- mean: L1 exact, L2 printed
        mean_spec = sum(k * p for k, p in sp[1].items())
        im = parts_of(impl_mean[i])
        if not (isinstance(im, list) and len(im) == 1 and im[0][0] == mean_spec and im[0][1] == 1):
            c.violation('mean', dict(rep, kind='impl-vs-spec', impl=impl_mean[i], expected=str(mean_spec)))
        else:
            mm = model_parts(model_mean[i])
            if not (isinstance(mm, list) and len(mm) == 1 and mm[0][0] == mean_spec):
                c.violation('mean-model', dict(rep, kind='impl-vs-model', model=model_mean[i], expected=str(mean_spec)), no_input=True)
        if e[0] == 'd' and mean_spec != F(e[1] * (e[2] + 1), 2):
            c.violation('mean-closed-form', dict(rep, kind='spec-self-check'))
        sm = try_parse(impl_showmean[i])
        if not (isinstance(sm, list) and sm[0] == b'ok'):
            c.violation('mean-l2', dict(rep, kind='impl-vs-spec', impl=impl_showmean[i], expected=str(mean_spec)))
        else:
            txt = sm[1].decode('utf-8', 'replace')
            num = txt[len('approx. '):] if txt.startswith('approx. ') else txt
            good = False
            try:
                if '/' in num or ' ' in num:
                    good = True          # mixed-fraction spellings belong to number formatting (C03); value checked at L1
                else:
                    v, b, _ = parse_outcome(num)
                    good = (v == mean_spec) if not txt.startswith('approx. ') else abs(v - mean_spec) <= F(1, b ** 9)
            except Exception:
                good = False
            if not good:
                c.violation('mean-l2', dict(rep, kind='impl-vs-spec', impl=impl_showmean[i], expected=str(mean_spec)))
        # ---- printed listing (L2): order, outcomes, two-decimal percentages
        sh = try_parse(impl_show[i])
        ml = model_parts(model_list[i])
        if not (isinstance(sh, list) and sh[0] == b'ok'):
            c.violation('listing-crash', dict(rep, kind='impl-crash', impl=impl_show[i]))
        elif len(sp[1]) == 1:
            (k0, _), = sp[1].items()
            if not fmt_outcome_ok(sh[1].decode('utf-8', 'replace').replace('approx. ', ''), k0):
                c.violation('listing-point', dict(rep, kind='impl-vs-spec', impl=impl_show[i], expected=str(k0)))
        else:
            lst = parse_listing(sh[1].decode('utf-8', 'replace'))
            exp = sorted(sp[1].items())
            if lst is None or len(lst) != len(exp):
                c.violation('listing-shape', dict(rep, kind='impl-vs-spec', impl=impl_show[i], expected_len=len(exp)))
            else:
                pv = [parse_outcome(ktxt) for ktxt, _ in lst]
                # printed labels must not descend; equal neighbours are legitimate when two distinct outcomes differ
                # by less than the printed precision (1 + 1/(2^64-1) and 1 + 2/(2^64-1) both print as 1): that each
                # label is the right outcome, in the order of the exact values, is checked position by position below
                if all(x is not None for x in pv) and any(a[0] > b[0] for a, b in zip(pv, pv[1:])):
                    c.violation('listing-not-ascending', dict(rep, kind='impl-vs-spec', impl=impl_show[i][:1500]))
                for (ktxt, h), (k, p) in zip(lst, exp):
                    cands, tie = pct_candidates(p)
                    ties_seen += tie
                    if not fmt_outcome_ok(ktxt, k):
                        c.violation('listing-outcome-or-order', dict(rep, kind='impl-vs-spec', impl=impl_show[i], at=ktxt, expected=str(k)))
                        break
                    if h not in cands:
                        c.violation('listing-percentage', dict(rep, kind='impl-vs-spec', impl=impl_show[i], outcome=str(k),
                                                               printed_hundredths=h, exact_probability=str(p), accepted=sorted(cands)))
                        break
                # model's listing: same order and exact rounding as the specification
                if not (isinstance(ml, list) and [(q[0], q[1]) for q in ml] == exp
                        and all(q[2] in pct_candidates(q[1])[0] for q in ml)):
                    c.violation('listing-model', dict(rep, kind='model-vs-spec', model=model_list[i][:2000]), no_input=True)
        # ---- f64 / weight oracle and sampling probes
        ws = [weight(f) for _, _, f in ip]
        for (k, p, f), w in zip(ip, ws):
            if abs(F(f) - p) > p * F(4, 2 ** 52) or abs(w - p * M32) > 1:
                c.violation('weight-oracle', dict(rep, kind='assumption', outcome=str(k), probability=str(p), f64=repr(f), weight=w))
                break
        rs = [0, 1, 2, M32 - 1, M32] + [j * M32 // 16 for j in range(1, 16)] + [r.randint(0, M32) for _ in range(4)]
        cum = 0
        th = []
        for w in ws:
            cum += w
            th += [cum - 1, cum, cum + 1]
        if c.tier == 'quick' and len(th) > 150:
            th = th[:30] + th[-30:] + r.sample(th[30:-30], 90)
        rs += [x for x in th if 0 <= x <= M32]
        sample_jobs.append((i, ip, ws, rs, same_order))
        if len(c.samples) < 3 and kind == 'combo' and nontrivial:
            c.sample({'expr': t, 'impl_parts': [[str(k), str(p)] for k, p, _ in ip][:12], 'printed': sh[1].decode() if isinstance(sh, list) else None})

    # ---------------- sampling: L1 Dist::sample, model, membership and coverage
    impl_s = c.impl('dist', [sx([Sym('sample-each'), texts[i], rs]) for i, _, _, rs, _ in sample_jobs], timeout=tmo)
    model_s = c.model('dist', [sx([Sym('sample'), wires[i], ws, rs]) for i, _, ws, rs, _ in sample_jobs], cross=False)
    roll_lines = []
    roll_meta = []
    covered_total = 0
    for (i, ip, ws, rs, same_order), o, mo in zip(sample_jobs, impl_s, model_s):
        rep = {'expr': texts[i], 'wire': sx(wires[i])}
        p = try_parse(o)
        if not (isinstance(p, list) and p[0] == b'ok' and len(p[1]) == len(rs)):
            c.violation('sample-crash', dict(rep, kind='impl-crash', impl=o[:500]))
            continue
        support = [k for k, _, _ in ip]
        got = []
        for q in p[1]:
            if isinstance(q, list) and q[0] == b'ok' and len(q[1]) == 1 and len(q[1][0]) == 5:
                got.append(F(q[1][0][0], q[1][0][1]))
            else:
                got.append(None)
        calls = p[2]
        if calls != (len(rs) if len(ip) > 1 else 0):
            c.violation('sample-random-calls', dict(rep, kind='impl-vs-spec', calls=calls, expected=len(rs) if len(ip) > 1 else 0))
        # membership (spec)
        badm = [(rv, g) for rv, g in zip(rs, got) if g is None or g not in support]
        if badm:
            c.violation('sample-not-in-support', dict(rep, kind='impl-vs-spec', random=badm[0][0], result=str(badm[0][1])))
            continue
        # coverage (spec): every outcome with weight >= 1 whose preceding cumulative weight is below 2^32-1
        # is produced by r = (preceding cumulative weight) + 1 (the first one also by r = 0)
        produced = dict((rv, g) for rv, g in zip(rs, got))
        cum = 0
        for idx, (k, w) in enumerate(zip(support, ws)):
            if len(ip) > 1 and w >= 1 and cum < M32 and (cum + 1) in produced:
                covered_total += 1
                if produced[cum + 1] != k:
                    c.violation('sample-does-not-cover', dict(rep, kind='impl-vs-spec', outcome=str(k), random=cum + 1, result=str(produced[cum + 1])))
                    break
            cum += w
        if len(ip) > 1 and produced.get(0) != support[0]:
            c.violation('sample-zero', dict(rep, kind='impl-vs-spec', result=str(produced.get(0))))
        # correspondence with the model (same stored order only)
        if same_order:
            m = try_parse(mo)
            mg = None
            if isinstance(m, list) and m[0] == b'ok':
                mg = [F(q[1][0][0], q[1][0][1]) if (isinstance(q, list) and q[0] == b'ok') else None for q in m[1]]
            if mg != got:
                j = next((j for j in range(len(rs)) if mg is None or j >= len(mg) or mg[j] != got[j]), 0)
                c.violation('sample-differs-from-model', dict(rep, kind='impl-vs-model', random=rs[j], impl=str(got[j]),
                                                              model=str(mg[j]) if mg and j < len(mg) else mo[:300], weights=ws[:40]), no_input=True)
        # L2: roll(...) through the public API for three of the probes
        for j in (0, 4, 20 + (i % 4)):
            if j < len(rs):
                roll_lines.append(sx([Sym('eval'), 'roll(%s)' % texts[i], [rs[j]], 0]))
                roll_meta.append((i, rs[j], got[j], len(ip)))
    rolls = c.impl('dist', roll_lines, timeout=tmo)
    for (i, rv, want, n), o in zip(roll_meta, rolls):
        p = try_parse(o)
        good = isinstance(p, list) and p[0] == b'ok' and fmt_outcome_ok(p[1].decode('utf-8', 'replace').replace('approx. ', ''), want) \
            and p[2] == (1 if n > 1 else 0)
        if not good:
            c.violation('roll-l2', {'expr': 'roll(%s)' % texts[i], 'random': rv, 'kind': 'impl-vs-spec', 'impl': o, 'expected': str(want)})
    # rng disabled
    o = c.impl('dist', [sx([Sym('eval'), 'roll(2d6)', [], 0]), sx([Sym('eval'), 'roll(3)', [], 0]), sx([Sym('eval'), 'roll((d6)*(0))', [], 0])])
    if [try_parse(x) for x in o] != [[b'err', b'random numbers are not available'], [b'ok', b'3', 0], [b'ok', b'0', 0]]:
        c.violation('roll-without-rng', {'kind': 'impl-vs-spec', 'impl': o})

    # ---------------- the enumerative count_tuples of the model against the closed form used above
    ct = [(n, m, k) for n in range(0, 5) for m in range(1, 9) if m ** n <= (4096 if c.tier == 'thorough' else 700) for k in range(n - 1, n * m + 2)]
    outs = c.model('dist', [sx([Sym('count-tuples'), n, m, k]) for n, m, k in ct], cross=True)
    for (n, m, k), o in zip(ct, outs):
        want = (1 if k == 0 else 0) if n == 0 else count_tuples(n, m, k)
        if try_parse(o) != want:
            c.violation('count-tuples-spec', {'kind': 'model-vs-spec', 'n': n, 'm': m, 'k': k, 'model': o, 'python': want}, no_input=True)

    # ---------------- odd spellings: nothing may crash
    odd = c.impl('dist', [sx([Sym('eval'), t, [7], 0]) for t in ODD])
    for t, o in zip(ODD, odd):
        p = try_parse(o)
        c.note_case('odd:' + t, False, 'odd-spelling')
        if not (isinstance(p, list) and p and p[0] in (b'ok', b'err')):
            c.violation('odd-spelling-crash', {'expr': t, 'kind': 'impl-crash', 'impl': o})

    check_complex_dice(c)

    c.extra['ties_or_near_ties_seen'] = ties_seen
    c.extra['stored_order_drift'] = order_drift
    c.extra['coverage_witnesses_checked'] = covered_total
    c.extra['sampling_probes'] = sum(len(j[3]) for j in sample_jobs)
    if c.tier == 'thorough':
        c.exhaustive = True
        c.extra['exhaustive_scope'] = 'every NdM with N<=6, M<=20 (exact parts, mean, printed listing, every cumulative sampling threshold -1/0/+1)'
    else:
        c.extra['exhaustive_scope'] = 'every NdM with N<=4, M<=12'


def replay(c, obj):
    print(json.dumps(obj, indent=1))
    if 'expr' in obj:
        t = obj['expr']
        print('impl parts :', c.impl('dist', [sx([Sym('parts'), t])])[0][:3000])
        print('impl print :', c.impl('dist', [sx([Sym('eval'), t, [obj.get('random', 0)], 0])])[0][:3000])
    if 'wire' in obj:
        print('model dist :', c.model('dist', ['(dist %s)' % obj['wire']], cross=False)[0][:3000])
        print('model list :', c.model('dist', ['(listing %s)' % obj['wire']], cross=False)[0][:3000])
    return 0
