"""C20 -- a damaged exchange-rate cache cannot crash fend or yield wrong rates.

Proof: coq/Properties/C20.v over the model coq/Cli/Rates.v.
Tie, three layers, all against the `fend` binary built from /repo:
  L1  `fend --verif-hook rates-stdin <eu|un>`  (parse_exchange_rates_eu/_un alone)
      vs the model's parser (EU: the repaired one, fixed = 1), on every prefix and on single-character
      substitutions of representative files, plus a hand-made boundary corpus;
  LF  `fend --verif-hook load-cached`  (timestamp;payload framing, expiry)
      vs the model's load_cached on a corpus of framings;
  L3  the real program doing a conversion (`fend "1 EUR to USD"`) with
      FEND_CACHE_DIR pointing at the damaged file: stdout / stderr / exit
      status vs what fend_core itself (harness h_cli) prints when its
      exchange-rate handler answers what the model says the cache yields.
  W   which file is read: FEND_CACHE_DIR names with spaces / non-ASCII / non-UTF-8 bytes holding an intact,
      truncated, damaged, stale, empty or absent cache while $HOME/.cache/fend and $XDG_CACHE_HOME/fend hold an
      intact decoy with other rates: the answer is the model's for the designated file, never a decoy rate.
The float oracle (str::parse::<f64> + is_normal) is the implementation's own
(`--verif-hook f64-stdin`), handed to the model as a finite table.
Spec (independent of the model, applied to the implementation's answers):
no panic; every returned rate is the value of a substring of the file and
its currency a substring of the file; a prefix's answer is an initial
segment of the intact file's answer; at L3 a prefix prints the intact
file's output or fails with `Error: ...` and exit status 1."""
import hashlib, json, os, queue, re, shutil, struct, subprocess, sys, time
from concurrent.futures import ThreadPoolExecutor
import vlib
from vlib import sx, Sym, parse_sx, try_parse

CLS = 'eu-split-at-3'      # repaired by /repo 348454e; listed as fixed, so a panic is a VIOLATION again
FIXED = 1                  # the model of the EU parser as it stands (split_at_checked)
TRUSTED_BASE = [
    'Coq 8.16.1 kernel + vm_compute (witness, examples)',
    'extraction ExtrOcamlBasic -> OCaml, modelrun/driver.ml; cross-checked against vm_compute on a sample',
    'hand-written model coq/Cli/Rates.v tied to cli/src/exchange_rates.rs only by this differential run',
    'cli/src/verif_hooks.rs: include!()s exchange_rates.rs a second time to reach its private functions (same source text); L3 exercises the linked original',
    'oracle: str::parse::<f64>() and f64::is_normal (queried from the implementation, given to the model as a table); Python float() as the independent reading of a token in the spec check',
    'oracle: file system, process exit status, system clock (timestamps are kept >= 1000 s away from every expiry boundary)',
    'no network in the sandbox: a cache miss ends in the download error; only "exit 1, Error: failed to retrieve ..., no panic" is compared there',
    'harness/src/bin/h_cli.rs (fend_core in process with a scripted exchange-rate handler)',
]
ASSUMPTIONS = [
    'the oracle rejects the empty token (hypothesis of C20_eu_prefix_monotone; checked against the implementation on every run)',
    '&str is valid UTF-8 (hypothesis wf_cont of C20_un_no_panic, discharged by C20_utf8_valid_wf + C20_framing_total for the cache path)',
]

MSG_FAIL = b'failed to load exchange rates'
CORPUS = os.path.join(vlib.ROOT, 'corpus', 'C20')
CURS = [b'EUR', b'USD', b'JPY', b'GBP']
EXPRS = {0: ['1 EUR to USD', '100 JPY to GBP'], 1: ['1 USD to EUR', '100 JPY to GBP']}
CACHE_NAME = {0: 'eurofxref-daily.xml.cache', 1: 'xsql2XML.php.cache'}
SRCNAME = {0: 'eu', 1: 'un'}


# ---------------------------------------------------------------------------
# small helpers

def apply_edit(base, e):
    if e[0] == 0:
        return base[:e[1]]
    if e[0] == 1:
        return base[:e[1]] + e[2] + base[e[1] + 1:]
    return base

def run_worker(cmd, lines, env=None, timeout=60):
    return vlib.run_batch(cmd, lines, timeout=timeout, env=env, min_chunk=40)

POOL = ([], [])
KNOWN_DOCS = []

def model_lines(c, lines):
    exe = vlib.build_model('cli')
    outs = vlib.run_batch([exe], lines, timeout=600, stack_unlimited=True, min_chunk=1)
    for o in outs:
        if o.startswith('("hang")') or o.startswith('("abort"') or o.startswith('(model-stack'):
            c.notes.append('model runner failure: ' + o)
    POOL[0].extend(lines); POOL[1].extend(outs)
    return outs

def chunks(l, n):
    return [l[i:i + n] for i in range(0, len(l), n)]

class Oracle:
    """str::parse::<f64> + is_normal of the implementation, memoised"""
    def __init__(self, fend):
        self.fend = fend
        self.tab = {}
    def need(self, toks):
        new = sorted({t for t in toks if t not in self.tab})
        if not new:
            return
        outs = run_worker([self.fend, '--verif-hook', 'f64-stdin'], [t.hex() for t in new])
        for t, o in zip(new, outs):
            p = o.split()
            if p and p[0] == 'ok':
                self.tab[t] = (0 if p[2] == 'n' else 1, b'', p[1])
            elif p and p[0] == 'err':
                self.tab[t] = (2, bytes.fromhex(p[1]) if len(p) > 1 else b'', None)
            else:
                self.tab[t] = (2, b'oracle unavailable: ' + o.encode(), None)
    def table(self, toks):
        out = []
        for t in sorted(set(toks)):
            k, m, _ = self.tab[t]
            out.append([t, k, m] if k == 2 else [t, k])
        return out
    def bits(self, t):
        return self.tab[t][2]

NUMRUN = re.compile(rb'[0-9.eE+\-]+')
_run_cache = {}
def run_values(run):
    s = _run_cache.get(run)
    if s is None:
        s = set()
        n = len(run)
        for i in range(n):
            for j in range(i + 1, min(n, i + 48) + 1):
                try:
                    v = float(run[i:j])
                except ValueError:
                    continue
                s.add(struct.pack('>d', v).hex())
        _run_cache[run] = s
    return s

def doc_values(doc):
    out = set()
    for r in set(NUMRUN.findall(doc)):
        out |= run_values(r)
    return out

ONE = struct.pack('>d', 1.0).hex()

def parse_impl_rates(line):
    p = line.split()
    if not p:
        return ('crash', line)
    if p[0] == 'ok':
        out = []
        for e in p[1:]:
            c_, b_ = e.split(':')
            out.append((bytes.fromhex(c_), b_))
        return ('ok', out)
    if p[0] in ('err', 'panic'):
        return (p[0], bytes.fromhex(p[1]) if len(p) > 1 else b'')
    return ('crash', line)


# ---------------------------------------------------------------------------
# generators

STRUCT = b"'<>/=\" \n\r\t;0123456789.eE+-_:Cubecrnyfat&"
MULTI = ['\u00e9', '\u00a0', '\u2028', '\u20ac', '\U0001d54a', '\u0085', '\u3000', '\u1680', '\u2003', '\u205f']

def rand_repl(r, old):
    while True:
        k = r.random()
        if k < 0.55:
            nb = bytes([r.choice(STRUCT)])
        elif k < 0.75:
            nb = r.choice(MULTI).encode('utf-8')
        elif k < 0.85:
            nb = bytes([r.randint(0x20, 0x7e)])
        elif k < 0.92:
            nb = b''                                  # deletion
        else:
            nb = bytes([old, r.choice(STRUCT)])       # insertion after
        if nb != bytes([old]):
            return nb

def eu_doc(lines, nl=b'\n', head=b'<?xml version="1.0"?>\n<Cube>\n', tail=b'</Cube>'):
    return head + nl.join(lines) + nl + tail

def eu_line(cur, rate, q=b"'", indent=b'\t\t'):
    return indent + b'<Cube currency=' + q + cur + q + b' rate=' + q + rate + q + b'/>'

NINE = [(b'USD', b'1.0744'), (b'JPY', b'164.74'), (b'BGN', b'1.9558'), (b'CZK', b'25.133'), (b'DKK', b'7.4586'),
        (b'GBP', b'0.85628'), (b'HUF', b'389.80'), (b'PLN', b'4.3225'), (b'RON', b'4.9758')]

def boundary_eu():
    good = [eu_line(c_, r_) for c_, r_ in NINE]
    docs = []
    docs.append(eu_doc(good))
    docs.append(eu_doc(good[:8]))                                  # one entry short of the minimum
    docs.append(eu_doc(good, nl=b'\r\n'))
    docs.append(eu_doc(good, nl=b'\r'))                            # no line feeds at all
    docs.append(eu_doc([l.replace(b'\t\t', '\u00a0\u2003'.encode()) for l in good]))  # Unicode white space indent
    docs.append(eu_doc([l + '\u3000\u0085'.encode() for l in good]))
    docs.append(eu_doc(good + [b"<Cube currency='U"]))             # the listed defect: cut inside the code
    docs.append(eu_doc(good + [b"<Cube currency='"]))
    docs.append(eu_doc(good + [b"<Cube currency='US"]))
    docs.append(eu_doc(good + [b"<Cube currency='USD"]))
    docs.append(eu_doc(good + [b"<Cube currency='USD'"]))
    docs.append(eu_doc(good + [b"<Cube currency='USD' rate='1.07"]))
    docs.append(eu_doc(good + [b"<Cube currency='USD' rate='1.07'"]))
    docs.append(eu_doc(good + ["<Cube currency='USé' rate='1.5'/>".encode()]))   # boundary inside a char
    docs.append(eu_doc(good + ["<Cube currency='Ué' rate='1.5'/>".encode()]))    # 3 bytes, 2 chars
    docs.append(eu_doc(good + ["<Cube currency='€' rate='1.5'/>".encode()]))     # one 3-byte char
    docs.append(eu_doc(good + ["<Cube currency='\U0001d54a' rate='1.5'/>".encode()])) # one 4-byte char
    docs.append(eu_doc(good + ["<Cube currency='USDé' rate='1.5'/>".encode()]))
    docs.append(eu_doc(good + [b"<Cube currency=\"USD\" rate=\"1.5\"/>"]))
    docs.append(eu_doc(good + [b"<Cube currency=USD rate=1.5/>"]))
    docs.append(eu_doc(good + [b"<Cube currency='USD' rate='' rate='1.5'/>"]))
    docs.append(eu_doc(good + [b"<Cube currency='USD' rate='' rate='' rate='2.5'/>"]))
    docs.append(eu_doc(good + [b"<Cube currency='USD'' rate='1.5'/>"]))
    docs.append(eu_doc(good + [b"<Cube currency='USD'1.5'/>"]))
    docs.append(eu_doc(good + [b"<Cube currency='USDX' rate='1.5'/>"]))
    docs.append(eu_doc(good + [b"x<Cube currency='AAA' rate='1.5'/>"]))
    docs.append(eu_doc(good + [b"<Cube currency='AAA' rate='1.5'/><Cube currency='BBB' rate='2.5'/>"]))
    docs.append(eu_doc(good + [b"<Cube currency='EUR' rate='2.0'/>"]))
    docs.append(eu_doc(good + [b"<Cube currency='USD' rate='9.9'/>"]))            # duplicate: first wins
    for tok in [b'inf', b'-inf', b'NaN', b'nan', b'infinity', b'0', b'0.0', b'-0', b'1e-320', b'1e400', b'4.9e-324',
                b'2.2250738585072014e-308', b'2.2250738585072011e-308', b'+1.5', b'-1.5', b' 1.5', b'1.5 ', b'1_0',
                b'1,5', b'1e5', b'1E5', b'.5', b'5.', b'.', b'e5', b'1e', b'0x10', b'1.7976931348623157e308',
                b'1.7976931348623159e308', b'', b'1.0744000000000000000000000000000000000000000001',
                '\u0661'.encode(), b'1.5f', b'+', b'-', b'1e+5', b'1e-5']:
        docs.append(eu_doc(good + [eu_line(b'TST', tok)]))
    docs.append(b'')
    docs.append(b'\n')
    docs.append(b"<Cube currency='")
    docs.append(b"<Cube currency='U")
    docs.append(b"  <Cube currency='AB  ")
    docs.append(b"<Cube currency=")
    docs.append(b"<Cube currency")
    return docs

def un_rec(cur, rate, extra=b''):
    return (b'\r\n\t<UN_OPERATIONAL_RATES>\r\n\t\t<rate_date>01 May 2024</rate_date>\r\n\t\t<f_curr_code>' + cur +
            b'</f_curr_code>\r\n\t\t<curr_desc>x</curr_desc>' + extra + b'\r\n\t\t<rate>' + rate + b'</rate>\r\n\t</UN_OPERATIONAL_RATES>')

UN_HEAD = b'<?xml version="1.0" encoding="UTF-8"?>\r\n<UN_OPERATIONAL_RATES_DATASET>'
UN_TAIL = b'\r\n</UN_OPERATIONAL_RATES_DATASET>'

def boundary_un():
    recs = [un_rec(b'EUR', b'0.933'), un_rec(b'GBP', b'0.799'), un_rec(b'JPY', b'156.7')]
    body = b''.join(recs)
    docs = [UN_HEAD + body + UN_TAIL]
    docs.append(UN_HEAD + body + UN_TAIL + b'\n')                   # one byte after the exact trailer
    docs.append(UN_HEAD + body + UN_TAIL[:-1])
    docs.append((UN_HEAD + body + UN_TAIL).replace(b'\r\n', b'\n'))  # LF line ends: trailer never matches
    docs.append(UN_HEAD + body[:-len(b'\r\n\t</UN_OPERATIONAL_RATES>')])   # ends right after </rate>
    docs.append(UN_HEAD)                                              # no record
    docs.append(UN_HEAD + b'\r\n\t<UN_OPERATIONAL_RATES>' + UN_TAIL)
    docs.append(UN_HEAD + b'\r\n\t<UN_OPERATIONAL_RATES>\r\n\t</UN_OPERATIONAL_RATES>' + UN_TAIL)  # exact trailer at once
    docs.append(body + UN_TAIL)                                       # no dataset element
    docs.append(b'<UN_OPERATIONAL_RATES>')
    docs.append(b'<UN_OPERATIONAL_RATES><f_curr_code>')
    docs.append(b'<UN_OPERATIONAL_RATES><f_curr_code>EUR</f_curr_code>')
    docs.append(b'<UN_OPERATIONAL_RATES><f_curr_code>EUR</f_curr_code><rate>')
    docs.append(b'<UN_OPERATIONAL_RATES><f_curr_code>EUR</f_curr_code><rate>0.9</rate>')
    docs.append(b'<UN_OPERATIONAL_RATES><f_curr_code>EUR</f_curr_code><rate>0.9</rate>x')
    docs.append('<UN_OPERATIONAL_RATES><f_curr_code>€URé</f_curr_code>é<rate>0.9</rate>é'.encode())
    docs.append('<UN_OPERATIONAL_RATES><f_curr_code>EUR</f_curr_code><rate>0.9</rate>é<f_curr_code>'.encode())
    docs.append(b'<UN_OPERATIONAL_RATES><rate>5</rate><f_curr_code>EUR</f_curr_code><rate>0.9</rate>')
    docs.append(b'<UN_OPERATIONAL_RATES><f_curr_code>EUR<f_curr_code>GBP</f_curr_code><rate>0.9</rate>')
    docs.append(b'<UN_OPERATIONAL_RATES><f_curr_code>EUR</f_curr_code><rate>0.9<rate>0.8</rate></rate>')
    docs.append(b'<UN_OPERATIONAL_RATES><f_curr_code></f_curr_code><rate>0.9</rate>')
    docs.append(b'<UN_OPERATIONAL_RATES><f_curr_code>USD</f_curr_code><rate>7</rate>')      # duplicate of the base
    docs.append(b'x<UN_OPERATIONAL_RATES>y<UN_OPERATIONAL_RATES><f_curr_code>EUR</f_curr_code><rate>0.9</rate>')
    for tok in [b'inf', b'nan', b'0', b'1e-320', b'1e400', b'', b' 1', b'1 ', b'+2', b'-2', b'1e3', b'.5', b'1_0', b'\r\n1.5']:
        docs.append(UN_HEAD + un_rec(b'EUR', b'0.933') + un_rec(b'TST', tok) + UN_TAIL)
    docs.append(b'')
    return docs


# ---------------------------------------------------------------------------
# L1: the parsers alone

def is_utf8(b):
    try:
        b.decode('utf-8')
        return True
    except UnicodeDecodeError:
        return False

def l1_blocks(c, fend, oracle, blocks, stats):
    """blocks: list of (src, base, edits, tag).  Runs the implementation hook and
    the model on every base with every edit (a few processes in all), judges every case"""
    prep = []
    for src, base, edits, tag in blocks:
        kept = [e for e in edits if is_utf8(apply_edit(base, e))]
        stats['l1-skipped-not-a-str'] += len(edits) - len(kept)
        G = 200 if len(base) > 1500 else 400
        prep.append((src, base, kept, tag, [apply_edit(base, e) for e in kept], chunks(kept, G) if kept else []))
    # implementation, one worker pool per source
    impl = {}
    for s_ in (0, 1):
        idx = [(bi, k) for bi, b in enumerate(prep) if b[0] == s_ for k in range(len(b[2]))]
        outs = run_worker([fend, '--verif-hook', 'rates-stdin', SRCNAME[s_]], [prep[bi][4][k].hex() for bi, k in idx])
        c.evaluations += len(idx)
        for (bi, k), o in zip(idx, outs):
            impl[(bi, k)] = o
    # model: tokens, oracle, rates
    tl = [(bi, sx([Sym('tokens-batch'), b[0], 0, 0, 0, b[1], [list(e) for e in g]])) for bi, b in enumerate(prep) for g in b[5]]
    tok_out = model_lines(c, [l for _, l in tl])
    toks = {}
    for (bi, _), o in zip(tl, tok_out):
        for per in parse_sx(o):
            toks.setdefault(bi, set()).update(per)
    oracle.need(set().union(*toks.values()) if toks else set())
    rl = [(bi, sx([Sym('rates-batch'), b[0], FIXED, b[1], oracle.table(toks.get(bi, ())), [list(e) for e in g]]))
          for bi, b in enumerate(prep) for g in b[5]]
    mod_out = model_lines(c, [l for _, l in rl])
    model = {}
    for (bi, _), o in zip(rl, mod_out):
        model.setdefault(bi, []).extend(parse_sx(o))
    for bi, (src, base, edits, tag, docs, _) in enumerate(prep):
        ms = model.get(bi, [])
        assert len(ms) == len(docs), (tag, len(ms), len(docs))
        intact = None
        for k, e in enumerate(edits):
            if e[0] == 2:
                intact = parse_impl_rates(impl[(bi, k)])
        for k, (e, d) in enumerate(zip(edits, docs)):
            judge_rates(c, oracle, src, base, e, d, impl[(bi, k)], ms[k], intact, tag, stats)

def judge_rates(c, oracle, src, base, e, doc, il, m, intact, tag, stats):
    kind = ('prefix' if e[0] == 0 else 'subst' if e[0] == 1 else 'whole')
    key = 'L1:%s:%s:%s' % (SRCNAME[src], tag, doc.hex() if len(doc) < 60 else hashlib.sha1(doc).hexdigest())
    c.note_case(key, doc != base or e[0] == 2, 'L1-%s-%s' % (SRCNAME[src], kind))
    imp = parse_impl_rates(il)
    rep = {'layer': 'L1 --verif-hook rates-stdin', 'source': SRCNAME[src], 'doc_hex': doc.hex(), 'edit': repr(e), 'base': tag,
           'impl': il[:400], 'model': sx(m)[:400]}
    # ---- spec ----
    if imp[0] in ('panic', 'crash'):
        known = (imp[0] == 'panic' and m[0] == b'panic' and m[1] in (1, 2) and src == 0 and
                 (b'byte index 3' in imp[1]))
        if known and c.known_finding(CLS):
            stats['known'] += 1
            KNOWN_DOCS.append(doc)
            return
        c.violation('rates-parser-panics', dict(rep, kind='impl-vs-spec', what='the parser panicked: ' + repr(imp[1])[:200]))
        return
    if imp[0] == 'ok':
        rates = imp[1]
        base_cur = b'EUR' if src == 0 else b'USD'
        if not rates or rates[0] != (base_cur, ONE):
            c.violation('rates-first-entry', dict(rep, kind='impl-vs-spec', what='first entry is not the built-in base currency'))
            return
        vals = doc_values(doc)
        for cur, bits in rates[1:]:
            if cur not in doc or bits not in vals:
                c.violation('rate-not-verbatim', dict(rep, kind='impl-vs-spec',
                            what='returned (%r, %s) is not present verbatim in the file' % (cur, bits)))
                return
        if e[0] == 0 and intact is not None and intact[0] == 'ok':
            if intact[1][:len(rates)] != rates:
                c.violation('prefix-yields-foreign-rate', dict(rep, kind='impl-vs-spec',
                            what='a prefix yields rates that are not an initial segment of the intact file\'s'))
                return
    # ---- tie ----
    if m[0] == b'panic':
        if imp == ('err', MSG_FAIL):
            stats['repaired'] += 1       # the listed defect no longer reproduces: the repaired behaviour
            return
        c.violation('model-panics-impl-does-not', dict(rep, kind='impl-vs-model'), no_input=True)
        return
    if m[0] == b'err':
        if imp != ('err', m[1]):
            c.violation('rates-error-differs', dict(rep, kind='impl-vs-model'), no_input=True)
        else:
            stats['err'] += 1
        return
    if m[0] == b'ok':
        if imp[0] != 'ok' or len(imp[1]) != len(m[1]):
            c.violation('rates-list-differs', dict(rep, kind='impl-vs-model'), no_input=True)
            return
        for (cur, bits), me in zip(imp[1], m[1]):
            want = ONE if len(me) == 1 else oracle.bits(me[1])
            if cur != me[0] or bits != want:
                c.violation('rates-entry-differs', dict(rep, kind='impl-vs-model', entry=repr((cur, bits, me))), no_input=True)
                return
        stats['ok'] += 1
        return
    c.violation('model-bad-answer', dict(rep, kind='infrastructure'), no_input=True)


# ---------------------------------------------------------------------------
# LF: framing

def framing_corpus(now, doc):
    ts = str(now - 5).encode()
    good = ts + b';' + doc
    F = [
        ('fresh', good, 259200),
        ('fresh-small-age', str(now - 50).encode() + b';' + doc, 1000),
        ('expired-small-age', str(now - 5000).encode() + b';' + doc, 1000),
        ('expired', str(now - 259200 - 100000).encode() + b';' + doc, 259200),
        ('epoch', b'0;' + doc, 259200),
        ('future', str(now + 100000).encode() + b';' + doc, 259200),
        ('plus-sign', b'+' + good, 259200),
        ('minus-sign', b'-' + good, 259200),
        ('plus-only', b'+;' + doc, 259200),
        ('double-plus', b'++' + good, 259200),
        ('leading-space', b' ' + good, 259200),
        ('trailing-space', ts + b' ;' + doc, 259200),
        ('letter', ts + b'x;' + doc, 259200),
        ('underscore', ts[:3] + b'_' + ts[3:] + b';' + doc, 259200),
        ('empty-ts', b';' + doc, 259200),
        ('no-semicolon', ts + doc.replace(b';', b''), 259200),
        ('only-ts', ts, 259200),
        ('only-ts-semi', ts + b';', 259200),
        ('empty-file', b'', 259200),
        ('u64-max', b'18446744073709551615;' + doc, 259200),
        ('u64-overflow', b'18446744073709551616;' + doc, 259200),
        ('huge', b'9' * 40 + b';' + doc, 259200),
        ('leading-zeros', b'0' * 30 + good, 259200),
        ('double-semi', ts + b';;' + doc, 259200),
        ('arabic-digits', '\u0661\u0662\u0663'.encode() + b';' + doc, 259200),
        ('not-utf8-tail', good + b'\xff', 259200),
        ('not-utf8-truncated-char', good + b'\xc3', 259200),
        ('not-utf8-overlong', good + b'\xc0\xaf', 259200),
        ('not-utf8-surrogate', good + b'\xed\xa0\x80', 259200),
        ('not-utf8-head', b'\x80' + good, 259200),
        ('utf8-ok-tail', good + 'é€\U0001d54a'.encode(), 259200),
        ('crlf-after-ts', ts + b'\r\n;' + doc, 259200),
        ('max-age-0-old', str(now - 5000).encode() + b';' + doc, 0),
        ('at-write-time:max-age-0', b';' + doc, 0),        # timestamp = the second the file is written: age == max_age
        ('at-write-time:max-age-1', b';' + doc, 1),
        ('max-age-huge', b'1;' + doc, 18446744073709551615),
    ]
    return F

def child_env(cfg, cache):
    return {'PATH': os.environ.get('PATH', '/usr/bin:/bin'), 'HOME': cache, 'FEND_CONFIG_DIR': cfg, 'FEND_CACHE_DIR': cache,
            'FEND_STATE_DIR': cache, 'RUST_BACKTRACE': '0', 'NO_COLOR': '1'}

def framing_layer(c, fend, scratch, stats, docs_by_src):
    cases = []
    now0 = int(time.time())
    for src in (0, 1):
        for name, data, age in framing_corpus(now0, docs_by_src[src]):
            cases.append((src, name, data, age))
        cases.append((src, 'absent', None, 259200))
    lines = []
    impl = []
    for i, (src, name, data, age) in enumerate(cases):
        if name.startswith('at-write-time:'):
            data = str(int(time.time())).encode() + data
            cases[i] = (src, name, data, age)
        d = os.path.join(scratch, 'lf')
        shutil.rmtree(d, ignore_errors=True)
        os.makedirs(d)
        if data is not None:
            with open(os.path.join(d, CACHE_NAME[src]), 'wb') as fh:
                fh.write(data)
        p = subprocess.run([fend, '--verif-hook', 'load-cached', SRCNAME[src], str(age)], env=child_env(d, d),
                           stdout=subprocess.PIPE, stderr=subprocess.PIPE, timeout=30)
        c.evaluations += 1
        out = p.stdout.decode().split('\n')
        impl.append((p.returncode, out))
    MISS_TEXT = {1: ['valid UTF-8'], 2: ['invalid cache file'],
                 3: ['invalid digit', 'empty string', 'too large'], 4: ['invalid cache timestamp'], 5: ['cache expired']}
    todo = []
    for (src, name, data, age), (rc, out) in zip(cases, impl):
        rep = {'layer': 'LF --verif-hook load-cached', 'source': SRCNAME[src], 'case': name, 'file_hex': None if data is None else data.hex()[:4000],
               'max_age': age, 'impl': out[:3]}
        c.note_case('LF:%d:%s' % (src, name), True, 'LF-framing')
        if rc != 0 or len(out) < 3 or not out[0].startswith('now ') or not out[2].startswith('now '):
            c.violation('framing-hook-failed', dict(rep, kind='infrastructure', rc=rc), no_input=True)
            continue
        n1, n2 = int(out[0].split()[1]), int(out[2].split()[1])
        ans = out[1].split()
        if ans[0] == 'panic':
            c.violation('framing-panics', dict(rep, kind='impl-vs-spec'))
            continue
        if data is None:
            if ans[0] != 'err':
                c.violation('framing-absent-file', dict(rep, kind='impl-vs-spec'))
            continue
        todo.append((rep, data, age, n1, n2, ans))
    ms_all = model_lines(c, [sx([Sym('load-cached'), data, n, age]) for (_, data, age, n1, n2, _) in todo for n in (n1, n2)])
    for k, (rep, data, age, n1, n2, ans) in enumerate(todo):
        ms = ms_all[2 * k:2 * k + 2]
        if ms[0] != ms[1]:
            stats['clock-skipped'] += 1
            continue
        m = parse_sx(ms[0])
        if m[0] == b'hit':
            ok = ans[0] == 'ok' and bytes.fromhex(ans[1] if len(ans) > 1 else '') == m[1]
            # spec: the payload is the file from the first ';' on
            if ans[0] == 'ok':
                pay = bytes.fromhex(ans[1] if len(ans) > 1 else '')
                if not (data.endswith(pay) and pay[:1] == b';' and b';' not in data[:len(data) - len(pay)]):
                    c.violation('framing-payload-not-suffix', dict(rep, kind='impl-vs-spec'))
                    continue
        elif m[0] == b'miss':
            msg = bytes.fromhex(ans[1]).decode('utf-8', 'replace') if len(ans) > 1 else ''
            ok = ans[0] == 'err' and any(t in msg for t in MISS_TEXT[m[1]])
        else:
            ok = False
        if not ok:
            c.violation('framing-differs', dict(rep, kind='impl-vs-model', model=ms[0][:300]), no_input=True)
        else:
            stats['framing-' + m[0].decode()] += 1


# ---------------------------------------------------------------------------
# L3: the real program

def l3_layer(c, fend, oracle, scratch, jobs, stats):
    """jobs: list of (src, base_file, edits, tag) where base_file is a whole cache file (timestamp;payload)"""
    now = int(time.time())
    age = 259200
    cfgs = {}
    for src in (0, 1):
        d = os.path.join(scratch, 'cfg_' + SRCNAME[src])
        os.makedirs(d, exist_ok=True)
        with open(os.path.join(d, 'config.toml'), 'w') as fh:
            fh.write('exchange-rate-source = "%s"\nenable-colors = false\n' % ('EU' if src == 0 else 'UN'))
        cfgs[src] = d
    # ---- model (all jobs in three process batches) ----
    TS = re.compile(rb'\+?[0-9]+\Z')
    def clock_sensitive(data):
        """a timestamp that changes sides (future/fresh/expired) while the check runs"""
        k = data.find(b';')
        if k < 0 or not TS.match(data[:k]):
            return False
        t = int(data[:k])
        return now < t <= now + 3000 or now - age - 3000 <= t <= now - age
    cases = []        # (src, tag, edit, file bytes, expr, model outcome, base)
    prep = []
    for src, base, edits, tag in jobs:
        kept = [e for e in edits if not clock_sensitive(apply_edit(base, e))]
        stats['l3-skipped-clock-sensitive'] += len(edits) - len(kept)
        prep.append((src, base, kept, tag, chunks(kept, 200)))
    tl = [(bi, sx([Sym('tokens-batch'), b[0], 1, now, age, b[1], [list(e) for e in g]])) for bi, b in enumerate(prep) for g in b[4]]
    toks = {}
    for (bi, _), o in zip(tl, model_lines(c, [l for _, l in tl])):
        for per in parse_sx(o):
            toks.setdefault(bi, set()).update(per)
    oracle.need(set().union(*toks.values()) if toks else set())
    cl = [(bi, sx([Sym('cache-batch'), b[0], FIXED, now, age, b[1], oracle.table(toks.get(bi, ())), CURS, [list(e) for e in g]]))
          for bi, b in enumerate(prep) for g in b[4]]
    mods = {}
    for (bi, _), o in zip(cl, model_lines(c, [l for _, l in cl])):
        mods.setdefault(bi, []).extend(parse_sx(o))
    for bi, (src, base, edits, tag, _) in enumerate(prep):
        assert len(mods.get(bi, [])) == len(edits), (tag, len(edits))
        for k, (e, m) in enumerate(zip(edits, mods.get(bi, []))):
            data = apply_edit(base, e)
            exprs = EXPRS[src] if (len(base) < 1500 or e[0] == 2) else [EXPRS[src][k % 2]]
            for ex in exprs:
                cases.append((src, tag, e, data, ex, m, base))
    # ---- implementation: one process per case, FEND_CACHE_DIR = a private dir (gen/c20_worker.py) ----
    results = [None] * len(cases)
    worker = os.path.join(vlib.ROOT, 'gen', 'c20_worker.py')
    for s_ in (0, 1):
        idx = [k for k, cs in enumerate(cases) if cs[0] == s_]
        lines = ['%s %s' % (cases[k][3].hex() or 'E', cases[k][4].encode().hex()) for k in idx]
        outs = vlib.run_batch([sys.executable, worker, fend, cfgs[s_], os.path.join(scratch, 'w'), CACHE_NAME[s_]],
                              lines, timeout=120, min_chunk=10)
        for k, o in zip(idx, outs):
            p = o.split()
            if len(p) != 4:
                results[k] = (('hang', b'', b''), None) if o.startswith('("hang")') else ((o, b'', b''), None)
                continue
            unhex = lambda h: b'' if h == '-' else bytes.fromhex(h)
            rc = int(p[0]) if p[0].lstrip('-').isdigit() else p[0]
            data = cases[k][3]
            after = data if p[3] == '=' else (None if p[3] == 'gone' else unhex(p[3]))
            results[k] = ((rc, unhex(p[1]), unhex(p[2])), after)
    c.evaluations += len(cases)
    elapsed = int(time.time()) - now
    if elapsed > 900:
        c.notes.append('L3 took %d s: timestamp margins (1000 s) nearly exhausted' % elapsed)
    # ---- expected output: fend_core in process with the model's rates ----
    def spec_of(m):
        if m[0] == b'rates':
            t = [Sym('table')]
            for cur, lk in zip(CURS, m[2]):
                if lk[0] == b'tok':
                    t.append([cur, 'tok', lk[1]])
                else:
                    t.append([cur, lk[0].decode()])
            return t
        if m[0] == b'err':
            return [Sym('err'), m[1]]
        if m[0] == b'panic':
            return [Sym('err'), MSG_FAIL]     # what the repaired scanner says (C20_eu_repaired_on_known)
        return None
    need = {}
    for case in cases:
        s = spec_of(case[5])
        if s is not None:
            ln = sx([Sym('run-exprs'), [0, 0, []], s, case[4]])
            need.setdefault(ln, None)
    lns = list(need)
    for ln, o in zip(lns, c.impl('cli', lns)):
        need[ln] = o
    intact_out = {}
    for case, (res, after) in zip(cases, results):
        if case[2][0] == 2:
            intact_out[(case[0], case[1], case[4])] = res
    for case, (res, after) in zip(cases, results):
        src, tag, e, data, ex, m, base = case
        kind = ('prefix' if e[0] == 0 else 'subst' if e[0] == 1 else 'whole')
        c.note_case('L3:%d:%s:%s:%s' % (src, tag, ex, hashlib.sha1(data).hexdigest()), True, 'L3-%s-%s' % (SRCNAME[src], kind))
        rc, so, se = res
        rep = {'layer': 'L3 fend binary, FEND_CACHE_DIR', 'source': SRCNAME[src], 'expr': ex, 'cache_file_hex': data.hex(), 'edit': repr(e),
               'base': tag, 'exit': rc, 'stdout': so.decode('utf-8', 'replace')[:300], 'stderr': se.decode('utf-8', 'replace')[:600],
               'model': sx(m)[:400], 'now': now}
        # ---- spec ----
        crashed = rc not in (0, 1) or b'panicked' in se
        if crashed:
            known = (m[0] == b'panic' and m[1] in (1, 2) and src == 0 and rc == 101 and b'byte index 3' in se)
            if known and c.known_finding(CLS):
                stats['known-l3'] += 1
                continue
            c.violation('conversion-crashes', dict(rep, kind='impl-vs-spec', what='the program crashed instead of reporting an error'))
            continue
        if rc == 0 and (se != b'' or so == b''):
            c.violation('conversion-success-shape', dict(rep, kind='impl-vs-spec'))
            continue
        if rc == 1 and (so != b'' or not se.startswith(b'Error: ')):
            c.violation('conversion-failure-shape', dict(rep, kind='impl-vs-spec'))
            continue
        if e[0] == 0:
            io = intact_out.get((src, tag, ex))
            if io is not None and io[0] == 0 and rc == 0 and so != io[1]:
                c.violation('prefix-prints-foreign-rate', dict(rep, kind='impl-vs-spec', intact_stdout=io[1].decode('utf-8', 'replace'),
                            what='a truncated cache makes fend print a result the intact cache does not give'))
                continue
        if after is not None and after != data and m[0] != b'miss':
            c.violation('cache-file-modified-on-hit', dict(rep, kind='impl-vs-spec'))
            continue
        # ---- tie ----
        if m[0] == b'miss':
            if rc == 1 and se.startswith(b'Error: failed to retrieve '):
                stats['l3-miss'] += 1
            elif rc == 0:
                # only possible if a download succeeded; there is no network in the sandbox
                c.violation('miss-but-success', dict(rep, kind='impl-vs-model', what='the model says the cache is not usable, fend printed a result'), no_input=True)
            else:
                c.violation('miss-shape', dict(rep, kind='impl-vs-model'), no_input=True)
            continue
        ln = sx([Sym('run-exprs'), [0, 0, []], spec_of(m), ex])
        h = try_parse(need[ln])
        if not (isinstance(h, list) and len(h) == 1 and isinstance(h[0], list)):
            c.violation('harness-failed', dict(rep, kind='infrastructure', harness=need[ln][:300]), no_input=True)
            continue
        h = h[0]
        if h[0] == b'ok':
            want = (0, (b'' if (h[2] or h[4]) else h[1] + (b'\n' if h[3] else b'')), b'')
        else:
            want = (1, b'', b'Error: ' + h[1] + b'\n')
        if (rc, so, se) != want:
            c.violation('conversion-differs-from-model', dict(rep, kind='impl-vs-model', expected=repr(want)[:600]), no_input=True)
            continue
        if m[0] == b'panic':
            stats['repaired-l3'] += 1
        else:
            stats['l3-' + m[0].decode()] += 1


# ---------------------------------------------------------------------------
# W: which file is read

DIRNAMES = [b'plain', b'with space', 'caché-€'.encode('utf-8'), b'not-utf8-\xff\xfe', b'semi;colon=and$dollar']

def decoy_of(data):
    """an intact cache with different rates: every rate token gets a leading 9"""
    return re.sub(rb"(rate='|<rate>)", rb"\g<1>9", data)

def which_file_layer(c, fend, oracle, scratch, files, stats):
    """FEND_CACHE_DIR with awkward names (spaces, non-ASCII, not UTF-8) holding an intact / truncated / damaged /
    absent cache, while $HOME/.cache/fend and $XDG_CACHE_HOME/fend hold an intact decoy with other rates.
    Expected: what the model says for the designated file -- never a decoy rate."""
    now = int(time.time())
    age = 259200
    ts = str(now - 5).encode() + b';'
    root = os.path.join(scratch, 'which').encode()
    worker = [sys.executable, os.path.join(vlib.ROOT, 'gen', 'c19_worker.py')]
    cases = []
    for src in (0, 1):
        small = files['eu_small' if src == 0 else 'un_small']
        intact = ts + small
        states = [('intact', intact), ('truncated', intact[:len(intact) * 2 // 3]), ('truncated-early', intact[:40]),
                  ('damaged', intact.replace(b"rate='1", b"rate='x", 1).replace(b'<rate>0', b'<rate>x', 1)),
                  ('stale', b'1;' + small), ('empty', b''), ('absent', None), ('no-dir', 'NODIR')]
        cfg = os.path.join(scratch, 'which_cfg_' + SRCNAME[src])
        os.makedirs(cfg, exist_ok=True)
        with open(os.path.join(cfg, 'config.toml'), 'w') as fh:
            fh.write('exchange-rate-source = "%s"\nenable-colors = false\n' % ('EU' if src == 0 else 'UN'))
        for di, dn in enumerate(DIRNAMES):
            for sn, data in states:
                for xdg in (True, False):
                    base = os.path.join(root, b'%d_%d_%s_%d' % (src, di, sn.encode(), xdg))
                    desig = os.path.join(base, dn)
                    home = os.path.join(base, b'home')
                    xdgd = os.path.join(base, b'xdg')
                    if data != 'NODIR':
                        os.makedirs(desig)
                        if data is not None:
                            with open(os.path.join(desig, CACHE_NAME[src].encode()), 'wb') as fh:
                                fh.write(data)
                    for dec in (os.path.join(home, b'.cache', b'fend'), os.path.join(xdgd, b'fend')):
                        os.makedirs(dec)
                        with open(os.path.join(dec, CACHE_NAME[src].encode()), 'wb') as fh:
                            fh.write(decoy_of(intact))
                    env = {'PATH': os.environ.get('PATH', '/usr/bin:/bin'), 'HOME': os.fsdecode(home), 'FEND_CONFIG_DIR': cfg,
                           'FEND_CACHE_DIR': os.fsdecode(desig), 'RUST_BACKTRACE': '0', 'NO_COLOR': '1'}
                    if xdg:
                        env['XDG_CACHE_HOME'] = os.fsdecode(xdgd)
                    for ex in EXPRS[src]:
                        cases.append((src, dn, sn, xdg, data if isinstance(data, bytes) else None, ex, env))
    # model: the designated file only
    docs = sorted({(cs[0], cs[4]) for cs in cases if cs[4] is not None})
    tl = [sx([Sym('tokens-batch'), src, 1, now, age, d, [[2]]]) for src, d in docs]
    toks = {}
    for k, o in zip(docs, model_lines(c, tl)):
        toks[k] = set(parse_sx(o)[0])
    oracle.need(set().union(*toks.values()) if toks else set())
    cl = [sx([Sym('cache-batch'), src, FIXED, now, age, d, oracle.table(toks[(src, d)]), CURS, [[2]]]) for src, d in docs]
    outcome = {k: parse_sx(o)[0] for k, o in zip(docs, model_lines(c, cl))}
    def spec_of(m):
        if m[0] == b'rates':
            return [Sym('table')] + [([cur, 'tok', lk[1]] if lk[0] == b'tok' else [cur, lk[0].decode()]) for cur, lk in zip(CURS, m[2])]
        if m[0] == b'err':
            return [Sym('err'), m[1]]
        return None
    hls = {}
    for cs in cases:
        m = outcome.get((cs[0], cs[4]), [b'miss', 0])
        sp = spec_of(m)
        if sp is not None:
            hls.setdefault(sx([Sym('run-exprs'), [0, 0, []], sp, cs[5]]), None)
    keys = list(hls)
    for k, o in zip(keys, c.impl('cli', keys)):
        hls[k] = o
    lines = [json.dumps({'argv': [fend.encode().hex(), cs[5].encode().hex()], 'stdin': None, 'env': cs[6], 'cwd': scratch, 'timeout': 60}) for cs in cases]
    outs = vlib.run_batch(worker, lines, timeout=150, min_chunk=10)
    c.evaluations += len(cases)
    for cs, o in zip(cases, outs):
        src, dn, sn, xdg, data, ex, env = cs
        c.note_case('W:%d:%r:%s:%s:%s' % (src, dn, sn, xdg, ex), True, 'W-%s-%s' % (SRCNAME[src], sn))
        try:
            a = json.loads(o)
            rc, so, se = a['rc'], bytes.fromhex(a['out']), bytes.fromhex(a['err'])
        except Exception:
            rc, so, se = 'worker:' + o[:80], b'', b''
        m = outcome.get((src, data), [b'miss', 0])
        rep = {'layer': 'W which cache file is read', 'source': SRCNAME[src], 'FEND_CACHE_DIR_name_hex': dn.hex(), 'designated_file': sn,
               'XDG_CACHE_HOME_set': xdg, 'expr': ex, 'exit': rc, 'stdout': so.decode('utf-8', 'replace')[:200], 'stderr': se.decode('utf-8', 'replace')[:500],
               'model': sx(m)[:300], 'decoy': 'intact cache with every rate prefixed by 9 in $HOME/.cache/fend and $XDG_CACHE_HOME/fend'}
        if rc not in (0, 1) or b'panicked' in se:
            c.violation('conversion-crashes', dict(rep, kind='impl-vs-spec'))
            continue
        # spec: only an intact designated file may produce a result
        if sn != 'intact' and (rc != 1 or so != b''):
            c.violation('rate-from-another-file', dict(rep, kind='impl-vs-spec',
                        what='the designated cache is damaged or absent, yet a conversion was printed: the rates come from a file the host did not point at'))
            continue
        sp = spec_of(m)
        if sp is None:
            if not (rc == 1 and so == b'' and se.startswith(b'Error: failed to retrieve ')):
                c.violation('which-file-differs-from-model', dict(rep, kind='impl-vs-model'), no_input=True)
            else:
                stats['W-miss'] += 1
            continue
        h = try_parse(hls[sx([Sym('run-exprs'), [0, 0, []], sp, ex])])
        if not (isinstance(h, list) and len(h) == 1):
            c.violation('harness-failed', dict(rep, kind='infrastructure'), no_input=True)
            continue
        h = h[0]
        want = (0, h[1] + b'\n', b'') if h[0] == b'ok' else (1, b'', b'Error: ' + h[1] + b'\n')
        if (rc, so, se) != want:
            name = 'rate-from-another-file' if rc == 0 else 'which-file-differs-from-model'
            c.violation(name, dict(rep, kind='impl-vs-spec' if rc == 0 else 'impl-vs-model', expected=repr(want)[:300]), no_input=(rc != 0))
        else:
            stats['W-' + m[0].decode()] += 1


# ---------------------------------------------------------------------------

def limit_violations(c, per_name=3):
    """keep the first few replay files per violation name, count the rest"""
    from collections import Counter
    orig = c.violation
    counts = Counter()
    def limited(name, replay, no_input=False):
        counts[name] += 1
        if counts[name] <= per_name:
            orig(name, replay, no_input)
    c.violation = limited
    c.extra['violation_counts'] = counts

def check(c):
    POOL[0].clear(); POOL[1].clear(); KNOWN_DOCS.clear()
    limit_violations(c)
    T = [time.time()]
    def lap(name):
        t = time.time(); c.extra.setdefault('phase_seconds', {})[name] = round(t - T[0], 1); T[0] = t
    r = c.rng
    quick = c.tier == 'quick'
    c.rule = ('L1 parser hook: every prefix of 4 representative files (EU 1586 B / 722 B, UN 3837 B / 1209 B) + per position %s single-character '
              'substitutions (structural ASCII, multi-byte / Unicode white space, deletion, insertion) + random multi-edit damage + hand-made boundary files; '
              'LF framing corpus (34 framings x 2 sources); L3 real binary: all prefixes and substitutions of the small files (both expressions), '
              'a sample of the large ones, boundary files, framings.  non-trivial = damaged file; distinct by file content (sha1)'
              % ('3' if quick else '10'))
    ok = c.proof(['C20'], extra_targets=['Extract/XCli.vo'])
    if c.tier == 'thorough' and ok:
        c.thorough_proof(['C20'])
    lap('proof')
    fend = vlib.build_cli()
    lap('build-cli')
    scratch = os.path.join(vlib.CACHE, 'c20', '%s_%d' % (c.tier, c.seed))
    shutil.rmtree(scratch, ignore_errors=True)
    os.makedirs(scratch)
    oracle = Oracle(fend)
    oracle.need([b''])
    if oracle.tab[b''][0] != 2:
        c.violation('oracle-accepts-empty-token', {'kind': 'assumption', 'what': 'str::parse::<f64>("") did not fail'}, no_input=True)
    from collections import Counter
    stats = Counter()
    files = {}
    for n in ('eu_sample', 'eu_small', 'un_sample', 'un_small'):
        files[n] = open(os.path.join(CORPUS, n + '.xml'), 'rb').read()
    nsub = 3 if quick else 10
    # ---------------- L1 ----------------
    blocks = []
    for name in ('eu_small', 'eu_sample', 'un_small', 'un_sample'):
        src = 0 if name.startswith('eu') else 1
        base = files[name]
        edits = [(2,)] + [(0, n) for n in range(len(base) + 1)]
        for pos in range(len(base)):
            for _ in range(nsub):
                edits.append((1, pos, rand_repl(r, base[pos])))
        blocks.append((src, base, edits, name))
    l1_blocks(c, fend, oracle, blocks, stats)
    lap('L1-files')
    bdocs = {0: boundary_eu(), 1: boundary_un()}
    # witnesses of repaired defects, kept in the corpus: a regression shows up as a panic = VIOLATION
    for fn in sorted(os.listdir(CORPUS)):
        if fn.startswith('fixed_') and fn.endswith('.json'):
            bdocs[0] += [bytes.fromhex(h) for h in json.load(open(os.path.join(CORPUS, fn))).get('payloads_hex', [])]
    blocks = []
    for src in (0, 1):
        for i, d in enumerate(bdocs[src]):
            # the file itself, and every prefix of the short ones
            edits = [(2,)] + ([(0, n) for n in range(len(d))] if (len(d) < 120 or not quick) else [])
            blocks.append((src, d, edits, 'boundary%d' % i))
    # random multi-edit damage (2..6 byte edits, range deletions, duplications) of each file
    for name in ('eu_small', 'eu_sample', 'un_small', 'un_sample'):
        src = 0 if name.startswith('eu') else 1
        for k in range(150 if quick else 1500):
            d = bytearray(files[name])
            for _ in range(r.randint(2, 6)):
                if not d:
                    break
                pos = r.randrange(len(d))
                t = r.random()
                if t < 0.5:
                    d[pos:pos + 1] = rand_repl(r, d[pos])
                elif t < 0.7:
                    del d[pos:pos + r.randint(1, 40)]
                elif t < 0.85:
                    seg = d[pos:pos + r.randint(1, 80)]
                    d[pos:pos] = seg
                else:
                    d[pos:] = b''
            blocks.append((src, bytes(d), [(2,)], '%s-multi%d' % (name, k)))
    l1_blocks(c, fend, oracle, blocks, stats)
    # the Coq classifier of the listed defect holds on the inputs recognised as such (C20_eu_no_panic_except_known)
    if KNOWN_DOCS:
        sample_docs = KNOWN_DOCS[:60]
        for d, o in zip(sample_docs, model_lines(c, [sx([Sym('known-eu'), d]) for d in sample_docs])):
            if o != '1':
                c.violation('classifier-misses-known-panic', {'kind': 'model-self-check', 'doc_hex': d.hex(), 'classifier': o}, no_input=True)
    lap('L1-boundary')
    # ---------------- LF ----------------
    framing_layer(c, fend, scratch, stats, {0: files['eu_small'], 1: files['un_small']})
    lap('LF')
    # ---------------- L3 ----------------
    now = int(time.time())
    ts = str(now - 5).encode() + b';'
    jobs = []
    for name in ('eu_small', 'un_small', 'eu_sample', 'un_sample'):
        src = 0 if name.startswith('eu') else 1
        base = ts + files[name]
        off = len(ts)
        small = name.endswith('small')
        edits = [(2,)]
        cuts = list(range(len(base) + 1))
        if quick and not small:
            cuts = sorted(set(r.sample(cuts, 800) + list(range(len(base) - 60, len(base) + 1))))
        edits += [(0, n) for n in cuts]
        poss = list(range(len(base)))
        if quick:
            poss = r.sample(poss, 700 if small else 500)
        for pos in poss:
            for _ in range(1 if quick else 3):
                edits.append((1, pos, rand_repl(r, base[pos])))
        # raw bytes too: the file may stop being UTF-8
        for pos in r.sample(range(len(base)), 40 if quick else 300):
            edits.append((1, pos, bytes([r.choice([0x80, 0xbf, 0xc3, 0xe2, 0xf0, 0xff, 0x00])])))
        jobs.append((src, base, edits, name))
    for src in (0, 1):
        for i, d in enumerate(bdocs[src]):
            jobs.append((src, ts + d, [(2,)], 'boundary%d' % i))
        for name, data, age in framing_corpus(now, files['eu_small'] if src == 0 else files['un_small']):
            if age == 259200:
                jobs.append((src, data, [(2,)], 'framing-' + name))
    l3_layer(c, fend, oracle, scratch, jobs, stats)
    lap('L3')
    which_file_layer(c, fend, oracle, scratch, files, stats)
    lap('W')
    c.vm_cross_sample('cli', POOL[0], POOL[1], k=25)
    lap('vm-cross')
    c.extra['outcomes'] = dict(stats)
    c.extra['oracle_tokens'] = len(oracle.tab)
    c.sample({'layer': 'L1', 'doc': "<Cube currency='U", 'impl': 'panic: end byte index 3 is out of bounds', 'model': '("panic" 1)'})
    c.sample({'layer': 'L3', 'expr': '1 EUR to USD', 'cache': '<now-5>;' + 'eu_small.xml', 'stdout': '1.0744 USD'})
    if stats['known'] == 0 and stats['repaired'] > 0:
        c.notes.append('the listed defect %s no longer reproduces: %d inputs in its class now give the ordinary error' % (CLS, stats['repaired']))
    shutil.rmtree(scratch, ignore_errors=True)


def replay(c, obj):
    print(json.dumps(obj, indent=1)[:3000])
    fend = vlib.build_cli()
    if 'doc_hex' in obj:
        src = obj.get('source', 'eu')
        p = subprocess.run([fend, '--verif-hook', 'rates-stdin', src], input=(obj['doc_hex'] + '\n').encode(), stdout=subprocess.PIPE, timeout=60)
        print('impl :', p.stdout.decode().strip())
    elif 'cache_file_hex' in obj:
        src = 0 if obj.get('source') == 'eu' else 1
        d = os.path.join(vlib.CACHE, 'c20', 'replay')
        shutil.rmtree(d, ignore_errors=True)
        os.makedirs(d)
        with open(os.path.join(d, 'config.toml'), 'w') as fh:
            fh.write('exchange-rate-source = "%s"\nenable-colors = false\n' % ('EU' if src == 0 else 'UN'))
        with open(os.path.join(d, CACHE_NAME[src]), 'wb') as fh:
            fh.write(bytes.fromhex(obj['cache_file_hex']))
        print('note: the timestamp in the file was fresh at', obj.get('now'), '- edit it if the cache has expired since')
        p = subprocess.run([fend, obj['expr']], env=child_env(d, d), stdin=subprocess.DEVNULL, stdout=subprocess.PIPE, stderr=subprocess.PIPE, timeout=60)
        print('exit', p.returncode, 'stdout', p.stdout, 'stderr', p.stderr[:500])
    return 0
