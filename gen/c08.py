"""C08 -- operators bind as the manual's precedence table says.

Proof: coq/Properties/C08.v (model coq/Lang/Parser.v, table coq/Lang/Printer.v).
Tie (L1): the real lexer's token stream (hook verif_hooks::lang::lex_parse) is
fed to the model parser, which must return the real parser's AST / ParseError
variant; on table expressions both must equal the AST the table assigns
(Coq [ex], and an independent precedence-climbing reference written here).
Tie (L2): fend_core::evaluate on the minimal and the fully parenthesised
rendering must give the same result, and the reference evaluator's value when
it is an exact integer."""
import json, sys
from fractions import Fraction
sys.setrecursionlimit(20000)
from vlib import sx, Sym, parse_sx, try_parse, cps
import lexcheck

TRUSTED_BASE = [
    'Coq 8.16.1 kernel (all C08 theorems are by induction; vm_compute only in the Example C08_all_levels and in the cross-sample of the extracted model)',
    'extraction ExtrOcamlBasic -> OCaml 4.13.1, modelrun/driver.ml; cross-checked against vm_compute on a sample',
    'harness/src/bin/h_lang.rs and /repo/core/src/verif_hooks/lang.rs (dump of lexer tokens, of the AST and of the ParseError variant; the completion of missing open parentheses is copied from eval.rs::evaluate_to_value and cross-checked at L2)',
    'hand-written model coq/Lang/Parser.v tied to core/src/parser.rs only by this differential run',
    'the lexer is modelled in coq/Lex (C08Lex: the printed text of the operator class lexes to exactly its tokens, C08_lex_precedence_text lifts C08_precedence from token streams to text) with parse_number as an oracle (number atoms abstract); its spacing side conditions are evaluated by the extracted code on every generated text',
    'this file: printers, precedence-climbing reference parser and reference evaluator',
]
ASSUMPTIONS = [
    'C08_value_* are parametric in an evaluator that treats Parens(x) as x; that fend\'s evaluator does is checked only at L2 (values of the renderings)',
]

# ---------------------------------------------------------------------------
# table (spec side, independent of coq/Lang/Printer.v)

BINOPS = [  # code, level, spellings, bop code in the AST dump
    (0, 4, ['nPr', 'permute'], 13),
    (1, 5, ['nCr', 'choose'], 12),
    (2, 6, ['|', 'or', 'OR'], 8),
    (3, 7, ['xor', 'XOR'], 9),
    (4, 8, ['&', 'and', 'AND'], 7),
    (5, 9, ['<<'], 10),
    (6, 9, ['>>'], 11),
    (7, 10, ['+'], 0),
    (8, 10, ['-', '−'], 2),
    (9, 12, ['*', '×', '✕'], 3),
    (10, 12, ['/', 'per', '÷', '∕'], 4),
    (11, 12, ['mod'], 5),
]
BLEVEL = {b[0]: b[1] for b in BINOPS}
BSPELL = {b[0]: b[2] for b in BINOPS}
BBOP = {b[0]: b[3] for b in BINOPS}
SYMCODE = {0: 24, 1: 23, 2: 9, 3: 10, 4: 8, 5: 17, 6: 18, 7: 2, 8: 3, 9: 4, 10: 5, 11: 6}
WORDY = {'nPr', 'permute', 'nCr', 'choose', 'or', 'OR', 'xor', 'XOR', 'and', 'AND', 'per', 'mod'}


def lvl(e):
    k = e[0]
    if k in 'NIP':
        return 15
    if k == 'J':
        return 12
    if k == 'F':
        return 14
    if k in 'WG':
        return 13
    if k == 'B':
        return BLEVEL[e[1]]
    return {'E': 2, 'A': 1, 'S': 0}[k]


def toks(e, k, r=None):
    """abstract tokens of e in a context requiring level >= k:
    ('n',text) ('i',name) ('y',code,[spellings])"""
    b = body(e, r)
    if lvl(e) < k:
        return [('y', 0, ['('])] + b + [('y', 1, [')'])]
    return b


def body(e, r=None):
    k = e[0]
    if k == 'N':
        return [('n', e[1])]
    if k == 'I':
        return [('i', e[1])]
    if k == 'P':
        return [('y', 0, ['('])] + body(e[1], r) + [('y', 1, [')'])]
    if k == 'J':
        return [('n', e[1]), ('i', e[2])]
    if k == 'F':
        return toks(e[1], 14, r) + [('y', 12, ['!'])]
    if k == 'W':
        return toks(e[1], 14, r) + [('y', 7, ['^', '**'])] + toks(e[2], 13, r)
    if k == 'G':
        return [('y', 3, ['-', '−'])] + toks(e[1], 13, r)
    if k == 'B':
        l = BLEVEL[e[1]]
        return toks(e[2], l, r) + [('y', SYMCODE[e[1]], BSPELL[e[1]])] + toks(e[3], l + 1, r)
    if k == 'E':
        return toks(e[2], 3, r) + [('y', 21, ['==']) if e[1] else ('y', 22, ['!=', '<>', '≠'])] + toks(e[3], 3, r)
    if k == 'A':
        return [('i', e[1]), ('y', 20, ['='])] + toks(e[2], 1, r)
    if k == 'S':
        return toks(e[1], 0, r) + [('y', 19, [';'])] + toks(e[2], 1, r)
    raise ValueError(k)


def is_leaf(e):
    return e[0] in 'NIP'


def full(e):
    def p(a):
        return full(a) if is_leaf(a) else ('P', full(a))
    k = e[0]
    if k in 'NIJ':
        return e
    if k == 'P':
        return ('P', full(e[1]))
    if k in 'FG':
        return (k, p(e[1]))
    if k in 'WS':
        return (k, p(e[1]), p(e[2]))
    if k in 'BE':
        return (k, e[1], p(e[2]), p(e[3]))
    if k == 'A':
        return ('A', e[1], p(e[2]))
    raise ValueError(k)


def render(tokens, r, plain=False):
    """tokens -> text.  Always a space between two non-symbol tokens and
    between two symbol tokens; otherwise the space is dropped at random."""
    out = []
    prev_sym = None
    for t in tokens:
        if t[0] == 'y':
            sp = t[2][0] if plain else r.choice(t[2])
            word = sp in WORDY
            cur_sym = not word
        else:
            sp = t[1]
            cur_sym = False
            word = False
        if out:
            if prev_sym is None or (prev_sym == cur_sym) or plain:
                out.append(' ')
            elif r.random() < 0.6:
                out.append(' ')
        out.append(sp)
        prev_sym = cur_sym
    return ''.join(out)


def ast_of(e, pay):
    """the table's grouping as the dump the hooks/model print (no Parens)"""
    k = e[0]
    if k == 'N':
        return [b'num', pay[e[1]]]
    if k == 'I':
        return [b'id', e[1].encode()]
    if k == 'P':
        return ast_of(e[1], pay)
    if k == 'J':
        return [b'appm', [b'num', pay[e[1]]], [b'id', e[2].encode()]]
    if k == 'F':
        return [b'fact', ast_of(e[1], pay)]
    if k == 'W':
        return [b'bop', 6, ast_of(e[1], pay), ast_of(e[2], pay)]
    if k == 'G':
        return [b'neg', ast_of(e[1], pay)]
    if k == 'B':
        return [b'bop', BBOP[e[1]], ast_of(e[2], pay), ast_of(e[3], pay)]
    if k == 'E':
        return [b'eq', 1 if e[1] else 0, ast_of(e[2], pay), ast_of(e[3], pay)]
    if k == 'A':
        return [b'asg', e[1].encode(), ast_of(e[2], pay)]
    if k == 'S':
        return [b'stmts', ast_of(e[1], pay), ast_of(e[2], pay)]
    raise ValueError(k)


def strip_par(a):
    if isinstance(a, list):
        if len(a) == 2 and a[0] == b'par':
            return strip_par(a[1])
        return [strip_par(x) for x in a]
    return a


# --- independent precedence-climbing reference over the abstract tokens ----
# binding levels of the infix symbols (by lexer symbol code)
INFIX = {24: (4, 13), 23: (5, 12), 9: (6, 8), 10: (7, 9), 8: (8, 7), 17: (9, 10), 18: (9, 11),
         2: (10, 0), 3: (10, 2), 4: (12, 3), 5: (12, 4), 6: (12, 5)}


class Climb:
    def __init__(self, tokens, pay):
        self.t = tokens
        self.i = 0
        self.pay = pay

    def peek(self):
        return self.t[self.i] if self.i < len(self.t) else None

    def sym(self, code):
        p = self.peek()
        if p is not None and p[0] == 'y' and p[1] == code:
            self.i += 1
            return True
        return False

    def statements(self):
        a = self.assignment()
        while self.sym(19):
            a = [b'stmts', a, self.assignment()]
        return a

    def assignment(self):
        p = self.peek()
        nxt = self.t[self.i + 1] if self.i + 1 < len(self.t) else None
        if p is not None and p[0] == 'i' and nxt is not None and nxt[0] == 'y' and nxt[1] == 20:
            self.i += 2
            return [b'asg', p[1].encode(), self.assignment()]
        return self.equality()

    def equality(self):
        a = self.binary(4)
        if self.sym(21):
            return [b'eq', 1, a, self.binary(4)]
        if self.sym(22):
            return [b'eq', 0, a, self.binary(4)]
        return a

    def binary(self, minlevel):
        """left-associative climbing over levels 4..12"""
        a = self.unary()
        while True:
            p = self.peek()
            if p is None:
                return a
            if p[0] == 'i' and a[0] == b'num' and 12 >= minlevel:
                # number-unit juxtaposition (level 12, left operand a bare number)
                self.i += 1
                a = [b'appm', a, [b'id', p[1].encode()]]
                continue
            if p[0] != 'y' or p[1] not in INFIX:
                return a
            l, bop = INFIX[p[1]]
            if l < minlevel:
                return a
            self.i += 1
            if l == 12:
                rhs = self.unary()
            else:
                rhs = self.binary(l + 1)
            a = [b'bop', bop, a, rhs]

    def unary(self):
        if self.sym(3):
            return [b'neg', self.unary()]
        a = self.postfix()
        if self.sym(7):
            return [b'bop', 6, a, self.unary()]
        return a

    def postfix(self):
        a = self.atom()
        while self.sym(12):
            a = [b'fact', a]
        return a

    def atom(self):
        p = self.peek()
        self.i += 1
        if p[0] == 'n':
            return [b'num', self.pay[p[1]]]
        if p[0] == 'i':
            return [b'id', p[1].encode()]
        if p[0] == 'y' and p[1] == 0:
            a = self.statements()
            if not self.sym(1):
                raise ValueError('expected )')
            return a
        raise ValueError('atom')


def climb(tokens, pay):
    c = Climb(tokens, pay)
    a = c.statements()
    if c.i != len(tokens):
        raise ValueError('trailing')
    return a


# --- reference evaluator (exact; None = outside its domain) ----------------

def fact(n):
    r = 1
    for i in range(2, n + 1):
        r *= i
    return r


def isint(v):
    return isinstance(v, Fraction) and v.denominator == 1


def has_div(e):
    if e[0] == 'B' and e[1] == 10:
        return True
    return any(has_div(s) for s in e[1:] if isinstance(s, tuple))


def ref_eval(e, env):
    k = e[0]
    if k == 'N':
        return Fraction(int(e[1]))
    if k == 'I':
        return env.get(e[1])
    if k == 'P':
        return ref_eval(e[1], env)
    if k == 'J':
        return None
    if k == 'S':
        if ref_eval(e[1], env) is None:
            return None
        return ref_eval(e[2], env)
    if k == 'A':
        v = ref_eval(e[2], env)
        if v is None:
            return None
        env[e[1]] = v
        return v
    if k == 'E':
        return None
    if k == 'G':
        v = ref_eval(e[1], env)
        return None if v is None else -v
    if k == 'F':
        v = ref_eval(e[1], env)
        if v is None or not isint(v) or v < 0 or v > 12:
            return None
        return Fraction(fact(int(v)))
    if k == 'W':
        a, b = ref_eval(e[1], env), ref_eval(e[2], env)
        if a is None or b is None or not isint(b) or abs(b) > 12 or abs(a) > 1000:
            return None
        if a == 0 and b <= 0:
            return None
        if a < 0 and has_div(e[2]):
            # fend evaluates negative ^ (quotient that happens to be an integer)
            # through the complex logarithm: (-2)^(6/2) = approx. -7.9999999999 + 0i.
            # A numeric matter (not precedence: min and full renderings agree),
            # so outside this reference's domain.
            return None
        return a ** int(b)
    if k == 'B':
        a, b = ref_eval(e[2], env), ref_eval(e[3], env)
        if a is None or b is None:
            return None
        o = e[1]
        if o == 7:
            return a + b
        if o == 8:
            return a - b
        if o == 9:
            return a * b
        if o == 10:
            return None if b == 0 else a / b
        if not (isint(a) and isint(b)) or a < 0 or b < 0:
            return None
        a, b = int(a), int(b)
        if o == 11:
            return None if b == 0 else Fraction(a % b)
        if o == 2:
            return Fraction(a | b)
        if o == 3:
            return Fraction(a ^ b)
        if o == 4:
            return Fraction(a & b)
        if o == 5:
            return None if b > 40 else Fraction(a << b)
        if o == 6:
            return None if b > 40 else Fraction(a >> b)
        if o in (0, 1):
            if b > a or a > 20:
                return None
            p = fact(a) // fact(a - b)
            return Fraction(p if o == 0 else p // fact(b))
    return None


def magnitude_ok(e, env):
    """guard against inputs that make fend compute for a long time: every
    sub-value the reference can compute must stay small, and where it cannot
    compute one no exponent / factorial / shift may be applied above it"""
    k = e[0]
    if k in 'NIJ':
        return True
    subs = [x for x in e[1:] if isinstance(x, tuple)]
    if not all(magnitude_ok(s, env) for s in subs):
        return False
    v = ref_eval(e, dict(env))
    if v is not None:
        return abs(v) < 10 ** 12
    if k in 'FW':
        return False
    if k == 'B' and e[1] in (0, 1, 5, 6):
        return False
    return True


# ---------------------------------------------------------------------------
# generators

NUMS = ['0', '1', '2', '3', '4', '5', '7', '10', '12']
NUMS_EXTRA = ['100', '64', '1000']
NUMS_L1 = NUMS + ['1.5', '0x1f', '1e3', '6#100', '0.(3)', '1,000', '2.5e-3', 'd6', '0b101']
IDS = ['x', 'y', 'a', 'b', 'foo', 'kg', 'm', 's', 'pi', 'e', 'i', 'sin', 'light', 'k9', 'x_1', 'sqrt']
IDS_RARE = ['%', '$', '°', 'lightyear', 'ans', '_']
UNITS = ['kg', 'm', 's', 'cm', 'inches', 'GiB', 'x', '%', 'light']


def gen_tree(r, depth, l1=True, top=True, vars_=None):
    """random table expression; depth = remaining height"""
    if depth <= 0 or r.random() < 0.12:
        k = r.random()
        if k < 0.55 or not l1 and k < 0.8:
            return ('N', r.choice(NUMS_L1 if l1 else NUMS))
        if l1 and k < 0.9:
            return ('I', r.choice(IDS) if r.random() < 0.93 else r.choice(IDS_RARE))
        if not l1 and vars_:
            return ('I', r.choice(vars_))
        return ('J', r.choice(NUMS), r.choice(UNITS if l1 else ['kg', 'm', 's']))
    k = r.random()
    d = depth - 1
    g = lambda: gen_tree(r, d - (1 if r.random() < 0.3 else 0), l1, False, vars_)
    if top and k < 0.12:
        return ('S', gen_tree(r, d, l1, True, vars_), g())
    if k < 0.07:
        return ('S', g(), g())
    if k < 0.13:
        return ('A', r.choice(IDS[:5]), g())
    if k < 0.18:
        return ('E', r.random() < 0.6, g(), g())
    if k < 0.26:
        return ('P', g())
    if k < 0.34:
        return ('F', g())
    if k < 0.44:
        return ('W', g(), g())
    if k < 0.54:
        return ('G', g())
    return ('B', r.randrange(12), g(), g())


def gen_value_tree(r, depth):
    """for L2: numbers, a variable bound by a leading assignment, unit
    juxtaposition; operators weighted towards arithmetic"""
    x = r.choice(['x', 'y', 'a'])
    def g(d, units):
        if d <= 0 or r.random() < 0.15:
            k = r.random()
            if k < 0.7:
                return ('N', r.choice(NUMS[:7]))
            if k < 0.85:
                return ('I', x)
            if units:
                return ('J', r.choice(NUMS[1:6]), r.choice(['kg', 'm', 's']))
            return ('N', r.choice(NUMS[:7]))
        k = r.random()
        if k < 0.07:
            return ('P', g(d - 1, units))
        if k < 0.14:
            return ('F', g(d - 1, False))
        if k < 0.26:
            return ('W', g(d - 1, units), g(d - 2, False))
        if k < 0.38:
            return ('G', g(d - 1, units))
        if k < 0.42:
            return ('E', r.random() < 0.5, g(d - 1, units), g(d - 1, units))
        o = r.choice([7, 7, 8, 8, 9, 9, 9, 10, 10, 11, 2, 3, 4, 5, 6, 0, 1])
        u = units and o in (7, 8, 9, 10)
        return ('B', o, g(d - 1, u), g(d - 1, u and o != 10 or (u and r.random() < 0.3)))
    body_ = g(depth, r.random() < 0.3)
    if r.random() < 0.5:
        return ('S', ('A', x, ('N', r.choice(NUMS[1:6]))), body_), x
    return body_, None


def uses_unbound(e, x):
    if e[0] == 'I':
        return True
    return any(uses_unbound(s, x) for s in e[1:] if isinstance(s, tuple))


SOUP = ['1', '2', '3', '2.5', 'x', 'y', 'kg', 'm', 'sin', 'light', '%', '$', 'pi', 'feet', 'inches',
        '(', ')', '+', '-', '*', '/', 'mod', '^', '**', '&', '|', 'xor', 'to', 'as', 'in', '!', ':', '=>', '\\', '.',
        'of', '<<', '>>', ';', '=', '==', '!=', 'nCr', 'nPr', 'per', 'and', 'or', '"s"', "'t'", '@2020-01-02',
        '#"raw"#', 'λ', '1/2', '2 3/4', '5 feet 10 inches', '()']

CORPUS = [
    '', ';', ';;', '1;', ';1', '1;;2;', '()', '(', ')', '(1', '1)', '1))', '((1)', '(1+2)*3', '1 2', '1 2/3', '-1 2/3', '3 * 1 2/3',
    '3 * -1 2/3', '1 2/x', '1 x/3', '- x 2/3', '5 feet 10 inches', '2 m 3 cm 4 mm', '2 m 3', '2 m 3 cm 4', '1 m 2 cm "s"', '$5', '$ 5', 'x 5',
    'sin 2', '2 sin x', '2^3 x', 'x 2^3', '2 3^4', '2 x^3', '-2 3', '- x 2', '-x y', '-(2) 3', '(-x) 3', 'light year', 'light year of x',
    'light of x', 'light light x', 'light', 'a of b of c', 'a of (b)', 'a of', 'of', '\\x.x', '\\x.\\y.x y', '\\x', '\\x x', '\\1.x', '\\x.',
    'x: x+1', 'x => y => x', '1: 2', 'x:', '(x y): 1', 'a = 1', 'a = b = 2', '1 = 2', 'a = ', '(a) = 1', 'a == b', 'a == b == c', 'a != b',
    'a = b == c', 'a == b = c', '"str"', '"a" + "b"', '@2020-01-02', '@2020-01-02 + 1 day', '1 to m', '1 to m to cm', '1 + 2 to 3 + 4',
    '5 % 3', '5 % + 1', '5 % (3)', '50% of 3', '5 %', '% 5', '5 % % 3', '5 % -3', '2!', '2!!', '2! !', '-2!', '2^3!', '2!^3', '2^-3^4',
    '2^+3', '2^/3', '+2', '/2', '+-/2', '- - 2', '2 ^ ^ 3', '2 * * 3', '2 ** 3', '2 */ 3', '2 /* 3', '1 - -1', '1 + +1', '1 / /2', '1 -2', '1 - 2',
    'x -2', 'x - 2', '2 x - 3 y', '2 x + 3 y', '2 x 3 y', '2 x 3 y 4', '2 x 3 y 4 z', '2 x y', '2 x y 3 z', '1 << 2 >> 3', '1 & 2 | 3 xor 4',
    '1 | 2 & 3', '5 nCr 2 nPr 3', '5 nPr 2 nCr 3', '1 + 2 nCr 3', '(1)(2)', '(1) (2)', '2(3)', '(2)3', 'x(3)', '(x)(y)', '2 (3', '2 (3 (4',
    '1 (1 (1 (1 (1', 'sin(2)', 'sin (2) (3)', 'sin x y', 'a b c d', '1 a b', '1 2 a', '3 kg * 2', '3 * 2 kg', '3 / 2 kg', '3 kg^2', '3 kg!',
    '3 ! kg', '(3 kg)^2', '3 kg 2', '3 "s"', '"s" 3', '3 @2020-01-02', '@2020-01-02 3', '. 5', '1 . 5', '2 : 3', 'x : y : z', 'x = y : z',
    'x : y = z', 'x : y == z', '1 ; x = 2 ; x', '(1; 2)', '(a = 1; a) + 1', '-', '+', '/', '*', '^', '!', '=', '==', 'mod', 'to', '1 to', 'to 1',
    '1 mod 2 mod 3', '7 mod 4 * 2', '2 * 7 mod 4', '-7 mod 4', '2 ^ 3 mod 4', '1 per 2 per 3', '3 2 / 4', '3 2 / 4 5', '1 2 / 3 / 4', '1 2/3 4/5',
]


# ---------------------------------------------------------------------------

def enc_texp(e, pay):
    k = e[0]
    if k == 'N':
        return [b'N', pay[e[1]]]
    if k == 'I':
        return [b'I', e[1].encode()]
    if k == 'J':
        return [b'J', pay[e[1]], e[2].encode()]
    if k in 'PFG':
        return [k.encode(), enc_texp(e[1], pay)]
    if k in 'WS':
        return [k.encode(), enc_texp(e[1], pay), enc_texp(e[2], pay)]
    if k == 'B':
        return [b'B', e[1], enc_texp(e[2], pay), enc_texp(e[3], pay)]
    if k == 'E':
        return [b'E', 1 if e[1] else 0, enc_texp(e[2], pay), enc_texp(e[3], pay)]
    if k == 'A':
        return [b'A', e[1].encode(), enc_texp(e[2], pay)]
    raise ValueError(k)


def tree_depth(e):
    subs = [tree_depth(s) for s in e[1:] if isinstance(s, tuple)]
    return 1 + (max(subs) if subs else 0)


def ops_in(e, acc):
    if e[0] == 'B':
        acc.add('B%d' % e[1])
    elif e[0] not in 'NI':
        acc.add(e[0])
    for s in e[1:]:
        if isinstance(s, tuple):
            ops_in(s, acc)
    return acc


def lexparse_line(text, comma=False):
    return sx([Sym('lexparse'), cps(text), 1 if comma else 0])


def learn_payloads(c):
    """payload bytes the real lexer attaches to each number literal text"""
    outs = c.impl('lang', [lexparse_line(t) for t in NUMS_L1 + NUMS_EXTRA])
    pay = {}
    for t, o in zip(NUMS_L1 + NUMS_EXTRA, outs):
        p = try_parse(o)
        if not (isinstance(p, list) and p and p[0] == b'ok' and len(p[1]) == 1 and p[1][0][0] == b'n'):
            raise RuntimeError('number literal %r does not lex to one Num token: %s' % (t, o))
        pay[t] = p[1][0][1]
    return pay



# ---------------------------------------------------------------------------
# long and wide shapes.  A random tree of depth d almost never has more than a
# handful of operands at one level, so anything in the implementation that
# depends on the LENGTH of an operator run (chunking, balancing, counters,
# depth guards) or on the NUMBER of parenthesised groups in the text would be
# invisible to gen_tree.  These generators are parametric in the table only.

LEFT_LEVELS = [  # operator codes of each left-associative level
    [0], [1], [2], [3], [4], [5, 6], [7, 8], [9, 10, 11],
]
CHAIN_LENGTHS_QUICK = [2, 3, 5, 8, 12, 15, 16, 17, 24, 31, 32, 33, 40, 63, 64, 65]
CHAIN_LENGTHS_THOROUGH = CHAIN_LENGTHS_QUICK + [48, 96, 127, 128, 129, 160, 200]


def left_chain(ops, terms):
    """((t0 op t1) op t2) ... with ops[i] between term i and i+1"""
    e = terms[0]
    for o, t in zip(ops, terms[1:]):
        e = ('B', o, e, t)
    return e


def right_chain(mk, terms):
    e = terms[-1]
    for t in reversed(terms[:-1]):
        e = mk(t, e)
    return e


def small_term(r, level, l1):
    """an operand that needs no parentheses at the given level: an atom, or a
    small expression of a tighter level"""
    k = r.random()
    num = lambda: ('N', r.choice(NUMS_L1 if l1 else ['0', '1', '1', '2', '3']))
    if k < 0.6:
        return num()
    if l1 and k < 0.7:
        return ('I', r.choice(IDS[:8]))
    tighter = [o for o in range(12) if BLEVEL[o] > level and (l1 or o in (7, 8, 9))]
    if tighter and k < 0.9:
        return ('B', r.choice(tighter), num(), num())
    if k < 0.95:
        return ('G', num())
    return ('P', ('B', r.choice([7, 8, 9]), num(), num()))


def shape_trees(r, lengths, l1, per_length=1):
    """long runs at every left-associative level with mixed operators of the
    level, long right-nested runs of ^ and =, long ; sequences, stacks of
    unary minus and of !, and wide rows of parenthesised sibling groups"""
    out = []
    for n in lengths:
        for _ in range(per_length):
            for ops in LEFT_LEVELS:
                lv = BLEVEL[ops[0]]
                terms = [small_term(r, lv, l1) for _ in range(n)]
                if not l1 and lv in (4, 5):
                    # keep n nPr k / n nCr k inside the reference's domain
                    terms = [('N', r.choice(['3', '4', '5']))] + [('N', '1')] * (n - 1)
                if not l1 and lv == 9:
                    terms = [('N', r.choice(['1', '2', '3']))] + [('N', r.choice(['0', '1', '1', '2'])) for _ in range(n - 1)]
                out.append(('chain-l%d' % lv, left_chain([r.choice(ops) for _ in range(n - 1)], terms)))
            # plain atoms, one operator: the textbook case  a - b - c - ...
            o = r.choice([7, 8, 8, 9, 10, 11, 5, 6, 4, 3, 2])
            first = ('N', r.choice(['100', '64', '7', '1000']))
            out.append(('chain-plain', left_chain([o] * (n - 1), [first] + [('N', r.choice(['1', '1', '2', '3'])) for _ in range(n - 1)])))
            # wide: n sibling groups in explicit parentheses at one level
            lvops = r.choice(LEFT_LEVELS[4:])
            grp = lambda: ('P', ('B', r.choice([7, 8, 9]), ('N', r.choice(['1', '2', '3'])), ('N', r.choice(['1', '2']))))
            out.append(('wide-groups', left_chain([r.choice(lvops) for _ in range(n - 1)], [grp() for _ in range(n)])))
            # the same groups without the explicit parentheses where the table already groups them
            out.append(('wide-products', left_chain([r.choice([7, 8]) for _ in range(n - 1)],
                                                    [('B', 9, ('N', r.choice(['1', '2', '3'])), ('N', r.choice(['1', '2']))) for _ in range(n)])))
            m = min(n, 40)
            # right-nested ^ (exponents kept tiny so that values stay small)
            base = ('N', r.choice(['2', '3']))
            exps = [('N', r.choice(['1', '1', '1', '0', '2'])) if r.random() < 0.85 else ('G', ('N', '1')) for _ in range(m - 1)]
            out.append(('chain-pow', right_chain(lambda a, b: ('W', a, b), [base] + exps)))
            # x = y = ... = v ; and a ; b ; c ...
            names = [r.choice(['x', 'y', 'a', 'b']) for _ in range(m - 1)]
            out.append(('chain-assign', right_chain(lambda a, b: ('A', a[1], b), [('I', nm) for nm in names] + [('N', r.choice(NUMS[:6]))])))
            seq = ('A', 'x', ('N', '1'))
            for i in range(m - 1):
                seq = ('S', seq, ('A', 'x', ('B', r.choice([7, 8, 9]), ('I', 'x'), ('N', r.choice(['1', '2'])))) if r.random() < 0.8 else ('I', 'x'))
            out.append(('chain-seq', seq))
            # - - - ... v  and  v ! ! ! ...
            e = ('N', r.choice(['0', '1', '2', '5']))
            for _ in range(m):
                e = ('G', e)
            out.append(('stack-neg', e))
            e = ('N', r.choice(['0', '1', '2']))
            for _ in range(min(m, 20)):
                e = ('F', e)
            out.append(('stack-fact', e))
    return out


def sprinkle(e, r, p):
    """e with explicit parentheses added around a random subset of its
    sub-expressions (every one of them is already grouped by the table)"""
    k = e[0]
    if k in 'NIJ':
        return e
    w = lambda a: ('P', sprinkle(a, r, p)) if (a[0] not in 'NIP' and r.random() < p) else sprinkle(a, r, p)
    if k == 'P':
        return ('P', sprinkle(e[1], r, p))
    if k in 'FG':
        return (k, w(e[1]))
    if k in 'WS':
        return (k, w(e[1]), w(e[2]))
    if k in 'BE':
        return (k, e[1], w(e[2]), w(e[3]))
    if k == 'A':
        return ('A', e[1], w(e[2]))
    raise ValueError(k)


def table_cases(c, pay):
    r = c.rng
    quick = c.tier == 'quick'
    n = 1200 if quick else 25000
    maxd = 6 if quick else 9
    trees = []
    # boundary corpus first: every ordered pair of binary operators, both groupings,
    # and each unary/postfix operator against each binary operator
    A, Bn, Cn = ('N', '1'), ('N', '2'), ('N', '3')
    for o1 in range(12):
        for o2 in range(12):
            trees.append(('B', o1, ('B', o2, A, Bn), Cn))
            trees.append(('B', o1, A, ('B', o2, Bn, Cn)))
        for u in (lambda t: ('G', t), lambda t: ('F', t), lambda t: ('W', t, Cn), lambda t: ('W', Cn, t)):
            trees.append(u(('B', o1, A, Bn)))
            trees.append(('B', o1, u(A), Bn))
            trees.append(('B', o1, A, u(Bn)))
        trees.append(('B', o1, ('J', '2', 'kg'), Cn))
        trees.append(('B', o1, Cn, ('J', '2', 'kg')))
        trees.append(('E', True, ('B', o1, A, Bn), Cn))
        trees.append(('B', o1, ('E', False, A, Bn), Cn))
        trees.append(('A', 'x', ('B', o1, A, Bn)))
        trees.append(('B', o1, ('A', 'x', A), Bn))
        trees.append(('S', ('B', o1, A, Bn), Cn))
        trees.append(('B', o1, ('S', A, Bn), Cn))
    trees += [('W', ('W', A, Bn), Cn), ('W', A, ('W', Bn, Cn)), ('W', A, ('G', ('W', Bn, Cn))), ('G', ('G', A)),
              ('F', ('F', A)), ('F', ('G', A)), ('G', ('F', A)), ('W', ('G', A), Bn), ('W', ('F', A), ('F', Bn)),
              ('F', ('J', '2', 'kg')), ('W', ('J', '2', 'kg'), Bn), ('G', ('J', '2', 'kg')), ('W', Bn, ('J', '2', 'kg')),
              ('E', True, ('E', False, A, Bn), Cn), ('E', True, A, ('E', False, Bn, Cn)),
              ('A', 'x', ('A', 'y', A)), ('S', ('S', A, Bn), Cn), ('S', A, ('S', Bn, Cn)), ('S', ('A', 'x', A), ('A', 'y', Bn)),
              ('A', 'x', ('S', A, Bn)), ('A', 'x', ('E', True, A, Bn)), ('E', True, ('A', 'x', A), Bn),
              ('J', '2', 'light'), ('J', '2', '%'), ('B', 9, ('J', '2', '%'), Cn), ('B', 7, ('J', '2', '%'), Cn),
              ('I', 'light'), ('B', 9, ('I', 'light'), Cn), ('I', '%'), ('B', 7, ('I', '%'), Cn), ('P', ('P', A)), ('P', ('J', '2', 'kg'))]
    lengths = CHAIN_LENGTHS_QUICK if quick else CHAIN_LENGTHS_THOROUGH
    for _, e in shape_trees(r, lengths, True, 1 if quick else 3):
        trees.append(e)
        if r.random() < 0.3:
            trees.append(sprinkle(e, r, 0.3))
    for _ in range(n):
        d = r.choice([2, 3, 3, 4, 4, 5, maxd, maxd])
        trees.append(gen_tree(r, d))
    # the long shapes are expensive: spread them over the worker chunks
    r.shuffle(trees)
    return trees


class ModelRunner:
    """extracted model with ONE vm_compute cross-sample per check, drawn from
    the short requests only (Coq needs seconds to read and print a request of a
    few thousand bytes, and the long shapes would dominate the run time)"""
    def __init__(self, c):
        self.c = c
        self.pool = []

    def __call__(self, lines, cross=True):
        outs = self.c.model('lang', lines, cross=False)
        if cross:
            self.pool += [(l, o) for l, o in zip(lines, outs) if len(l) < 700 and len(o) < 2500]
        return outs

    def finish(self, k=25):
        if self.pool:
            self.c.rng.shuffle(self.pool)
            pick = self.pool[:400]
            self.c.vm_cross_sample('lang', [l for l, _ in pick], [o for _, o in pick], k=k)


def limit_violations(c, per_name=3):
    """write at most [per_name] replay files per violation name (a precedence
    slip shows up in hundreds of cases); the total is kept in the evidence"""
    orig = c.violation
    seen = {}
    def v(name, replay, no_input=False):
        seen[name] = seen.get(name, 0) + 1
        c.extra['violations_by_name'] = dict(seen)
        if seen[name] <= per_name:
            orig(name, replay, no_input)
    c.violation = v


def check(c):
    limit_violations(c)
    c.rule = ('(a) table expressions: all ordered operator pairs in both groupings first, then random ASTs over the 12 binary operators, '
              'unary minus, ^, !, juxtaposition, ==/!=, =, ; and explicit parentheses, to depth 6 (thorough 9), each printed with minimal and with '
              'full parentheses and random operator spellings/spacing; non-trivial = at least two operators; distinct by printed text. '
              '(b) heuristics corpus + token soup over the full token alphabet (impl vs model only); non-trivial = lexes and has >= 3 tokens. '
              '(c) value trees over small integers, one bound variable, units: evaluate(min) vs evaluate(full) vs exact reference when integer.')
    ok = c.proof(['C08', 'C08Lex'], extra_targets=['Extract/XLang.vo', 'Extract/XLex.vo'])
    if c.tier == 'thorough' and ok:
        c.thorough_proof(['C08', 'C08Lex'])
    # printed operator texts lex to exactly their tokens (C08Lex side conditions evaluated per text)
    lexcheck.run(c, ('print',))
    r = c.rng
    model = ModelRunner(c)
    pay = learn_payloads(c)

    # ---------------- (a) table expressions ----------------
    trees = table_cases(c, pay)
    texts = []
    for e in trees:
        tm = toks(e, 0)
        tf = toks(full(e), 0)
        texts.append((render(tm, r), render(tf, r), tm, tf))
    lines = []
    for (a, b, _, _) in texts:
        lines.append(lexparse_line(a))
        lines.append(lexparse_line(b))
    impl = c.impl('lang', lines)
    tab = model([sx([Sym('table'), enc_texp(e, pay)]) for e in trees])
    # model parser on the real token streams
    plines, pidx = [], []
    parsed = []
    for i, o in enumerate(impl):
        p = try_parse(o)
        parsed.append(p)
        if isinstance(p, list) and len(p) == 3 and p[0] == b'ok':
            plines.append(sx([Sym('parse'), p[1]]))
            pidx.append(i)
    mouts = model(plines)
    model_of = dict(zip(pidx, mouts))
    spec_bad = 0
    for j, e in enumerate(trees):
        tmin, tfull, tm, tf = texts[j]
        nontriv = len([t for t in tm if t[0] == 'y' and t[1] > 1]) >= 2
        c.note_case('a:' + tmin, nontriv, 'table-depth-%d' % min(tree_depth(e), 9))
        t = try_parse(tab[j])
        if not (isinstance(t, list) and len(t) == 5):
            c.violation('model-table-op-failed', {'kind': 'tie', 'tree': repr(e), 'model': tab[j]}, no_input=True)
            continue
        grouping = ast_of(e, pay)
        if t[4] != grouping:
            c.violation('table-grouping-coq-vs-python', {'kind': 'spec-self-check', 'tree': repr(e), 'coq': repr(t[4]), 'python': repr(grouping)}, no_input=True)
            continue
        try:
            cl = climb(tm, pay)
            clf = climb(tf, pay)
        except Exception as ex:
            c.violation('reference-climber-rejects-printing', {'kind': 'spec-self-check', 'tree': repr(e), 'text': tmin, 'error': repr(ex)}, no_input=True)
            continue
        if cl != grouping or clf != grouping:
            c.violation('reference-climber-vs-table', {'kind': 'spec-self-check', 'tree': repr(e), 'text': tmin, 'climb': repr(cl), 'table': repr(grouping)}, no_input=True)
            continue
        for which, text, tk, mt, mx in ((0, tmin, tm, t[0], t[1]), (1, tfull, tf, t[2], t[3])):
            i = 2 * j + which
            p = parsed[i]
            rep = {'tree': repr(e), 'text': text, 'rendering': 'min' if which == 0 else 'full', 'impl': impl[i][:3000]}
            if not (isinstance(p, list) and len(p) == 3 and p[0] == b'ok'):
                c.violation('table-text-does-not-lex-or-crashes', dict(rep, kind='impl-vs-spec'))
                spec_bad += 1
                continue
            if p[1] != mt:
                # the text printed here does not lex to the tokens of Coq's printer
                c.violation('printed-text-tokens-differ-from-coq-pr', dict(rep, kind='impl-vs-spec (lexer spelling)', coq_tokens=repr(mt)[:2000]))
                spec_bad += 1
                continue
            if p[2] != mx or strip_par(p[2]) != grouping:
                cls = 'none'
                if not c.known_finding(cls):
                    c.violation('precedence', dict(rep, kind='impl-vs-spec', expected_ast=sx(mx)[:3000], grouping=sx(grouping)[:3000]))
                spec_bad += 1
                continue
            if model_of.get(i) != sx(p[2]):
                c.violation('model-parser-differs-from-impl', dict(rep, kind='impl-vs-model', layer='L1 parse', model=str(model_of.get(i))[:3000]), no_input=True)
    if trees:
        c.sample({'op': 'table', 'min': texts[-1][0], 'full': texts[-1][1], 'impl_ast': impl[2 * (len(trees) - 1)][:400]})

    # ---------------- (b) heuristics corpus + token soup ----------------
    soups = list(CORPUS)
    n = 2500 if c.tier == 'quick' else 40000
    for _ in range(n):
        ln = r.choice([1, 2, 3, 4, 5, 6, 8, 10, 12])
        soups.append(' '.join(r.choice(SOUP) for _ in range(ln)))
    # mutated table printings: drop / duplicate / swap one token
    for e in trees[:: max(1, len(trees) // (600 if c.tier == 'quick' else 6000))]:
        tk = toks(e, 0)
        if len(tk) > 40:
            continue
        k = r.randrange(len(tk))
        m = r.random()
        if m < 0.4:
            tk = tk[:k] + tk[k + 1:]
        elif m < 0.7:
            tk = tk[:k] + [tk[k]] + tk[k:]
        elif k + 1 < len(tk):
            tk = tk[:k] + [tk[k + 1], tk[k]] + tk[k + 2:]
        soups.append(render(tk, r, plain=True))
    commas = [r.random() < 0.1 for _ in soups]
    impl = c.impl('lang', [lexparse_line(s, cm) for s, cm in zip(soups, commas)])
    plines, pidx = [], []
    for i, o in enumerate(impl):
        p = try_parse(o)
        if isinstance(p, list) and len(p) == 3 and p[0] == b'ok':
            plines.append(sx([Sym('parse'), p[1]]))
            pidx.append(i)
        elif isinstance(p, list) and p and p[0] == b'lexerr':
            c.note_case('b:' + soups[i], False, 'soup-lex-error')
        else:
            c.violation('lexparse-crash', {'kind': 'impl-crash', 'text': soups[i], 'impl': o[:2000]})
    mouts = model(plines)
    for i, mo in zip(pidx, mouts):
        p = parse_sx(impl[i])
        iserr = isinstance(p[2], list) and p[2] and p[2][0] == b'perr'
        c.note_case('b:' + soups[i], len(p[1]) >= 3, 'soup-parse-error' if iserr else 'soup-parse-ok')
        if mo != sx(p[2]):
            c.violation('model-parser-differs-from-impl', {'kind': 'impl-vs-model', 'layer': 'L1 parse', 'text': soups[i], 'tokens': sx(p[1])[:3000],
                                                            'impl': sx(p[2])[:3000], 'model': mo[:3000]}, no_input=True)
    if pidx:
        c.sample({'op': 'soup', 'text': soups[pidx[-1]], 'impl': impl[pidx[-1]][:400]})
    # recursion depth (fuel consumed) on a sample, against the proved bound
    dl = [plines[k] for k in range(0, len(plines), max(1, len(plines) // 200))][:200]
    dl = [l.replace('(parse ', '(depth ', 1) for l in dl]
    douts = model(dl, cross=False)
    model.finish()
    mx = 0
    for l, o in zip(dl, douts):
        p = try_parse(o)
        ntok = len(parse_sx(l)[1])
        if not isinstance(p, int) or p < 1 or p > 20 * ntok + 20:
            c.violation('depth-bound', {'kind': 'model-self-check', 'line': l[:2000], 'out': o}, no_input=True)
        else:
            mx = max(mx, p)
    c.extra['max_fuel_consumed_in_sample'] = mx

    # ---------------- (c) L2 values ----------------
    n = 700 if c.tier == 'quick' else 8000
    vt = []
    tries = 0
    while len(vt) < n and tries < 20 * n:
        tries += 1
        e, x = gen_value_tree(r, r.choice([2, 3, 3, 4, 4, 5]))
        if x is None and uses_unbound(e, x):
            continue
        if not magnitude_ok(e, {}):
            continue
        vt.append(('random', e))
    # long runs and wide rows over small integers (see shape_trees)
    lengths = CHAIN_LENGTHS_QUICK if c.tier == 'quick' else CHAIN_LENGTHS_THOROUGH
    for ln in lengths:
        got = {}
        for _ in range(8):
            for kind, e in shape_trees(r, [ln], False):
                if kind not in got and magnitude_ok(e, {}):
                    got[kind] = e
        vt += sorted(got.items())
        c.note_case('shape-kinds-%d' % ln, False, None)
    lines = []
    vtexts = []
    NR = 4
    for kind, e in vt:
        rs = [render(toks(e, 0), r), render(toks(full(e), 0), r),
              render(toks(sprinkle(e, r, r.choice([0.2, 0.5, 1.0])), 0), r), render(toks(unpar(e), 0), r)]
        vtexts.append(rs)
        lines += [sx([Sym('eval'), cps(t)]) for t in rs]
    outs = c.impl('lang', lines)
    agree_val = 0
    names = ['min', 'full', 'some-parens', 'no-explicit-parens']
    for j, (kind, e) in enumerate(vt):
        rs = vtexts[j]
        os_ = [try_parse(o) for o in outs[NR * j: NR * j + NR]]
        oa = os_[0]
        kinds = ops_in(e, set())
        okish = isinstance(oa, list) and oa and oa[0] == b'o'
        c.note_case('c:' + rs[0], len(kinds) >= 2 or tree_depth(e) >= 3,
                    ('value-%s-' % (kind if kind == 'random' else 'shape')) + ('ok' if okish else 'err'))
        if kind != 'random':
            c.dist['shape:' + kind] = c.dist.get('shape:' + kind, 0) + 1
        rep = {'tree': repr(e)[:4000], 'shape': kind}
        for nm, t, o in zip(names, rs, outs[NR * j: NR * j + NR]):
            rep[nm] = t[:3000]
            rep['impl_' + nm] = o[:500]
        if not all(isinstance(o, list) and o and o[0] in (b'o', b'e') for o in os_):
            c.violation('evaluate-crash-or-hang', dict(rep, kind='impl-crash'))
            continue
        bad = [nm for nm, o in zip(names, os_) if not ((o[0] == oa[0]) and (o[0] == b'e' or o[1] == oa[1]))]
        if bad:
            c.violation('value-min-vs-' + bad[0], dict(rep, kind='impl-vs-spec', layer='L2', differing=bad))
            continue
        v = ref_eval(e, {})
        if v is not None and isint(v):
            # inside the reference's domain an error is as wrong as another number
            got = oa[1].decode('utf-8', 'replace').replace(',', '') if oa[0] == b'o' else 'error: ' + oa[1].decode('utf-8', 'replace')
            if got != str(int(v)):
                c.violation('value-vs-reference', dict(rep, kind='impl-vs-spec', layer='L2', reference=str(int(v))))
            else:
                agree_val += 1
    c.extra['values_equal_to_reference'] = agree_val
    if vt:
        c.sample({'op': 'eval', 'min': vtexts[-1][0][:300], 'full': vtexts[-1][1][:300], 'impl': outs[-NR][:200]})


def unpar(e):
    k = e[0]
    if k in 'NIJ':
        return e
    if k == 'P':
        return unpar(e[1])
    return tuple(unpar(x) if isinstance(x, tuple) else x for x in e)


def replay(c, obj):
    print(json.dumps(obj, indent=1)[:6000])
    for key in ('text', 'min', 'full'):
        if key in obj:
            o = c.impl('lang', [lexparse_line(obj[key])])[0]
            print('impl  %s: %s' % (key, o[:3000]))
            p = try_parse(o)
            if isinstance(p, list) and len(p) == 3:
                print('model %s: %s' % (key, c.model('lang', [sx([Sym('parse'), p[1]])], cross=False)[0][:3000]))
            print('eval  %s: %s' % (key, c.impl('lang', [sx([Sym('eval'), cps(obj[key])])])[0][:500]))
    return 0
