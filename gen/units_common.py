"""Shared by gen/c11.py, gen/c04.py, gen/c05.py (units area): table generation,
decoding of implementation (hook) and model (extracted Coq) records into one
python form, comparison up to the representation of rationals, quantities,
diagnosis of a failed finite obligation by a coqc script."""
import os, re, sys, math
from fractions import Fraction
sys.path.insert(0, os.path.join(os.path.dirname(os.path.abspath(__file__)), '..', 'tools'))
import vlib
from vlib import sx, Sym, parse_sx, try_parse, cps
import gen_tables
from gen_tables import dec_resolved, dec_value, TranslatorError

PI = Fraction(314159265358979323846264338327950288, 10**35)

CTX_DEFAULT = [0, 1, []]          # impl side: (coulomb_farad rates customs)


def table(c):
    """regenerates coq/Units/Generated/UnitTable.v from the tree being checked"""
    try:
        path, changed, t = gen_tables.generate()
    except TranslatorError as e:
        gen_tables.ensure_exists(str(e))
        c.violation('table-translator-failed', {'kind': 'tie', 'layer': 'tools/gen_tables.py', 'error': str(e)}, no_input=True)
        return None
    c.extra['unit_table'] = {'definitions': len(t['defs']), 'names': len(t['all_names']), 'prefix_side_names': len(t['prefixes']),
                             'prefixed_names_resolving': len(t['ok_pairs']), 'regenerated_changed': changed}
    return t


# ---------------------------------------------------------------------------
# model side decoding (wire format of coq/Units/Run.v)

def s_of(cpl):
    return ''.join(chr(x) for x in cpl)

def m_q(x):
    return Fraction(x[0], x[1])

def m_real(x):
    return ('pi' if x[0] == 2 else 's', Fraction(x[1], x[2]))

def m_named(u):
    return {'prefix': s_of(u[0]), 'sing': s_of(u[1]), 'plur': s_of(u[2]), 'alias': bool(u[3]),
            'base': sorted((s_of(k), m_q(v)) for k, v in u[4]), 'scale': m_real(u[5])}

def m_value(v):
    return {'val': m_real(v[0]), 'units': [(m_named(u), m_q(e)) for u, e in v[1]], 'exact': bool(v[2]), 'simp': bool(v[3])}

def m_lres(out):
    """model answer -> ('ok', value) | ('notfound',) | ('err', code) | ('panic', k) | ('bad', text)"""
    p = try_parse(out)
    if not isinstance(p, list) or not p:
        return ('bad', out[:200])
    if p[0] == b'ok':
        return ('ok', m_value(p[1]))
    if p[0] == b'notfound':
        return ('notfound',)
    if p[0] == b'err':
        return ('err', p[1])
    if p[0] == b'panic':
        return ('panic', p[1])
    return ('bad', out[:200])

def i_lres(out):
    """implementation answer of resolve / eval-expr -> same shape (+ reduced record)"""
    p = try_parse(out)
    if not isinstance(p, list) or not p:
        return ('bad', out[:200])
    if p[0] == b'panic':
        return ('panic', p[1].decode('utf-8', 'replace') if isinstance(p[1], bytes) else p[1])
    if p[0] in (b'abort', b'hang'):
        return ('crash', out[:100])
    try:
        return dec_resolved(p)
    except TranslatorError as e:
        return ('unsupported', str(e))


# ---------------------------------------------------------------------------
# encoding towards the model

def e_str(s):
    return [ord(ch) for ch in s]

def e_q(q):
    return [q.numerator, q.denominator]

def e_real(r):
    return [2 if r[0] == 'pi' else 1, r[1].numerator, r[1].denominator]

def e_named(u):
    return [e_str(u['prefix']), e_str(u['sing']), e_str(u['plur']), int(u['alias']),
            [[e_str(k), e_q(v)] for k, v in u['base']], e_real(u['scale'])]

def e_value(v):
    return [e_real(v['val']), [[e_named(u), e_q(e)] for u, e in v['units']], int(v['exact']), int(v['simp'])]

def e_lres(r):
    if r[0] == 'ok':
        return [Sym('ok'), e_value(r[1])]
    if r[0] == 'notfound':
        return [Sym('notfound')]
    return [Sym('err'), 12]

def m_ctx(cf_mode=True, customs=(), rates=True):
    """model ctx: (cf_mode ((s p d) ...) rates); customs given as (s, p, d-with-attribute-prefix)"""
    return [int(cf_mode), [[e_str(s), e_str(p), e_str(d)] for s, p, d in customs], 1 if rates else 0]

ATTR_PREFIX = {'none': '', 'l': 'l@', 's': 's@', 'lp': 'lp@', 'alias': '='}

def customs_for_model(customs):
    """impl customs (s, p, body, attr) -> the stored triples (define_custom_unit_v1)"""
    return [(s, p, ATTR_PREFIX[a] + d) for s, p, d, a in customs]


# ---------------------------------------------------------------------------
# comparison

def approx(r):
    return r[1] * PI if r[0] == 'pi' else r[1]

# (before fend commit 4dad8b2) to_hashmap_and_scale dropped the inexact flag of pi*pi products, so a value could be
# flagged exact although it holds fend's own rational approximation of pi (about 20 digits);
# the model uses another approximation.  Such pairs are counted here, not failed.
DRIFT = {'pi_approximation_flagged_exact': 0}

def real_same(a, b, exact):
    if a[0] == b[0] and a[1] == b[1]:
        return True
    if a[1] == 0 and b[1] == 0:
        return True
    if exact:
        x, y = approx(a), approx(b)
        if a[0] == b[0] and abs(x - y) <= Fraction(1, 10**15) * max(abs(x), abs(y)) and max(a[1].denominator, b[1].denominator) > 10**30:
            DRIFT['pi_approximation_flagged_exact'] += 1
            return True
        return False
    x, y = approx(a), approx(b)
    return abs(x - y) <= Fraction(1, 10**12) * max(abs(x), abs(y))

def named_same(a, b, exact):
    return (a['prefix'] == b['prefix'] and a['sing'] == b['sing'] and a['plur'] == b['plur'] and a['alias'] == b['alias']
            and sorted(a['base']) == sorted(b['base']) and real_same(a['scale'], b['scale'], exact))

def value_same(a, b):
    if a['exact'] != b['exact'] or a['simp'] != b['simp'] or len(a['units']) != len(b['units']):
        return False
    ex = a['exact']
    if not real_same(a['val'], b['val'], ex):
        return False
    return all(named_same(u, w, ex) and e == f for (u, e), (w, f) in zip(a['units'], b['units']))

def lres_same(m, i):
    """model lres vs implementation lres (kinds: ok / notfound / err)"""
    if m[0] == 'ok' and i[0] == 'ok':
        return value_same(m[1], i[1])
    if m[0] == 'notfound' and i[0] == 'notfound':
        return True
    if m[0] == 'err' and i[0] == 'err':
        return True
    return False

def status_code(r):
    return {'ok': 0, 'notfound': 1, 'err': 2}.get(r[0], 3)


# ---------------------------------------------------------------------------
# quantities from the implementation's reduced record

def quantity(red):
    """reduced (named, exact) -> (dims dict, scale real, exact)"""
    nu, ex = red
    return (dict(nu['base']), nu['scale'], ex)

def dims_str(d):
    return ' '.join('%s^%s' % (k, v) for k, v in sorted(d.items())) or 'unitless'


# ---------------------------------------------------------------------------
# diagnosing a failed finite obligation: evaluate the per-entry checks in Coq
# and report the entries on which they are false

DIAG = r'''
From FendV Require Import Base.Prelude Units.Defs Units.Algebra Units.Lookup Units.Index Units.Legality Units.Table.
From FendV Require Import Units.Generated.UnitTable.
Definition mark (n : N) := n.
Eval vm_compute in (mark 1, filter (fun n => negb (chk_resolves n)) (table_names ++ gen_currencies)).
Eval vm_compute in (mark 2, filter (fun n => negb (chk_model_agrees n)) all_names).
Eval vm_compute in (mark 3, map (fun d => fst (fst d)) (filter (fun d => negb (chk_sing_plur d)) (t_defs the_tables))).
Eval vm_compute in (mark 4, filter (fun n => negb (chk_first_definition n)) all_names).
Eval vm_compute in (mark 5, filter (fun n => negb (chk_lookup_first n)) all_names).
Eval vm_compute in (mark 6, map (fun d => fst (fst d)) (filter (fun d => negb (chk_short_long d)) (t_defs the_tables))).
Eval vm_compute in (mark 7, filter (fun n => negb (chk_family n)) table_names).
Eval vm_compute in (mark 8, map fst (filter (fun r => negb (chk_row q_fast r)) gen_prefix_status)).
Eval vm_compute in (mark 9, map (fun d => fst (fst d)) (filter (fun d => negb (chk_prefixable_reachable d || mem_str (fst (fst d)) known_unreachable)) (t_defs the_tables))).
'''
DIAG_NAMES = {1: 'C11_all_names_resolve', 2: 'C11_model_matches_implementation', 3: 'C11_singular_plural_same',
              4: 'C11_name_denotes_selected_definition', 5: 'C11_lookup_selects_first_definition',
              6: 'C11_short_long_agree', 7: 'C11_sq_cb_family', 8: 'C11_prefix_legality',
              9: 'C11_prefixable_defs_reachable'}

def diagnose(script=DIAG, names=DIAG_NAMES, tag='c11'):
    """-> {theorem: [entry names]} for the per-entry checks that are false"""
    rc, out = vlib.coq_make(['Units/Table.vo'])
    if rc != 0:
        return {'(Units/Table.v does not build)': [out[-800:]]}
    d = os.path.join(vlib.CACHE, 'diag')
    os.makedirs(d, exist_ok=True)
    vf = os.path.join(d, 'diag_%s.v' % tag)
    with open(vf, 'w') as fh:
        fh.write(script)
    rc, out = vlib.sh(['coqc', '-Q', vlib.COQ, 'FendV', '-w', '-all', vf], cwd=d, timeout=1800)
    if rc != 0:
        return {'(diagnosis script failed)': [out[-800:]]}
    res = {}
    for blk in out.split('= (')[1:]:
        m = re.match(r'\s*(\d+)%?N?\s*,', blk)
        if not m:
            continue
        k = int(m.group(1))
        body = blk[m.end():]
        body = body.split('\n     :')[0]
        ents = []
        for lm in re.finditer(r'\[([0-9;\s%N]*)\]', body.replace('[[', '[').replace(']]', ']')):
            nums = [int(x.replace('%N', '')) for x in lm.group(1).replace('\n', ' ').split(';') if x.strip()]
            if nums:
                ents.append(''.join(chr(n) for n in nums))
        if ents:
            res[names.get(k, str(k))] = ents
    return res


# ---------------------------------------------------------------------------
# regression witnesses of repaired findings (corpus/<Cxx>/regression_witnesses.json)

def regression_witnesses(c):
    """evaluates every stored witness of a repaired finding; a wrong answer is a VIOLATION"""
    import json
    path = os.path.join(vlib.ROOT, 'corpus', c.prop, 'regression_witnesses.json')
    if not os.path.exists(path):
        return
    cases = json.load(open(path)).get('cases', [])
    outs = c.impl('units', [sx([Sym('eval'), k.get('ctx', CTX_DEFAULT), k['input']]) for k in cases])
    for k, o in zip(cases, outs):
        c.note_case('witness:' + k['input'], True, 'regression-witness')
        p = try_parse(o)
        got = (p[0][0].decode(), p[0][1].decode('utf-8', 'replace')) if isinstance(p, list) and p and isinstance(p[0], list) and len(p[0]) == 2 else ('crash', o[:200])
        if k['want'].startswith('ERR'):
            good = got[0] == 'e' and k['want'][4:] in got[1]
        else:
            good = got == ('o', k['want'])
        if not good:
            c.violation('regression-of-repaired-finding', {'kind': 'impl-vs-spec', 'input': k['input'], 'want': k['want'], 'impl': got,
                                                           'repaired_by': k.get('fixed_by')})


def impl_patient(c, lines):
    """c.impl, but an answer ("hang") is re-asked alone with a long timeout: some unit
    expressions need seconds of big-rational arithmetic and a loaded machine must not turn
    that into a finding; only a case that still does not answer within 120 s stays a hang"""
    outs = c.impl('units', lines)
    slow = [i for i, o in enumerate(outs) if o.startswith('("hang")')]
    if slow:
        again = c.impl('units', [lines[i] for i in slow], timeout=120, workers=4)
        for i, o in zip(slow, again):
            outs[i] = o
        c.dist['slow-case-reasked'] = c.dist.get('slow-case-reasked', 0) + len(slow)
    return outs


# ---------------------------------------------------------------------------
# history independence: what a statement evaluates to must not depend on what the same
# Context evaluated (or on which custom units it was given) BEFORE in another order

def run_history(c, base_ctx, steps):
    """steps: ('e', text) | ('d', sing, plur, definition, attr) -> [(kind, text)] for the 'e' steps"""
    line = sx([Sym('history'), base_ctx] + [[s[0]] + list(s[1:]) for s in steps])
    return line

def decode_hist(o):
    p = try_parse(o)
    if isinstance(p, list) and all(isinstance(x, list) and len(x) == 2 for x in p):
        return [(x[0].decode(), x[1].decode('utf-8', 'replace')) for x in p]
    return None

def history_check(c, histories, label):
    """histories: list of step lists.  Every 'e' step is also evaluated on a FRESH context that was
    given exactly the custom units defined so far (in definition order); the answers must agree."""
    lines = [run_history(c, CTX_DEFAULT, h) for h in histories]
    outs = impl_patient(c, lines)
    fresh_lines, index = [], []
    for hi, h in enumerate(histories):
        customs = []
        k = 0
        for st in h:
            if st[0] == 'd':
                customs.append([st[1], st[2], st[3], st[4]])
            else:
                fresh_lines.append(sx([Sym('eval'), [0, 1, list(customs)], st[1]]))
                index.append((hi, k, st[1], list(customs)))
                k += 1
    fresh = impl_patient(c, fresh_lines)
    got = [decode_hist(o) for o in outs]
    nbad = 0
    for (hi, k, text, customs), fo in zip(index, fresh):
        c.note_case('%s:%d:%d:%s' % (label, hi, k, text), True, label)
        f = decode_hist(fo)
        g = got[hi]
        a = g[k] if g is not None and k < len(g) else ('crash', outs[hi][:200])
        b = f[0] if f else ('crash', fo[:200])
        if a != b and nbad < 15:
            nbad += 1
            c.violation(label + '-depends-on-history', {'kind': 'impl-vs-spec', 'history': [list(s) for s in histories[hi]], 'step': k, 'input': text,
                                                          'customs_defined_so_far': customs, 'on_used_context': a, 'on_fresh_context': b})


# ---------------------------------------------------------------------------
# the configuration dimension of a Context: decimal separator style x C/F mode.
# A statement must mean the same in every configuration: only the separators of the
# printed numbers change (and, in coulomb/farad mode, what a bare C or F denotes).

CTX_COMMA = [0, 1, [], 1]
CONFIGS = [('comma', [0, 1, [], 1], True, False), ('coulomb-farad', [1, 1, []], False, True), ('comma+coulomb-farad', [1, 1, [], 1], True, True)]
_SWAP = {44: 46, 46: 44}

def swap_sep(text):
    return text.replace('approx.', 'approx\x00').translate(_SWAP).replace('approx\x00', 'approx.')

def to_comma(text):
    """decimal literals of an input written in the dot style -> comma style"""
    return re.sub(r'(?<=[0-9])\.(?=[0-9])', ',', text)

def config_sweep(c, texts, label, configs=CONFIGS):
    """texts are inputs in the dot style (decimal literals allowed, no thousands separators).
    Each is evaluated on a fresh context in the default configuration and in every other one
    (with its literals re-written in the style under test); the answers must agree up to the
    separators."""
    texts = list(dict.fromkeys(texts))
    def run(ctx, ins):
        outs = impl_patient(c, [sx([Sym('eval'), ctx, t]) for t in ins])
        res = []
        for o in outs:
            p = try_parse(o)
            res.append((p[0][0].decode(), p[0][1].decode('utf-8', 'replace')) if isinstance(p, list) and p and isinstance(p[0], list) and len(p[0]) == 2 else ('crash', o[:200]))
        return res
    base = dict(zip(texts, run(CTX_DEFAULT, texts)))
    nbad = 0
    for name, ctx, comma, coulomb in configs:
        sel = [t for t in texts if not (coulomb and re.search(r'(?<![A-Za-z0-9_])[CF](?![A-Za-z0-9_])', t))]
        outs = run(ctx, [to_comma(t) if comma else t for t in sel])
        for t, o in zip(sel, outs):
            c.note_case('%s:%s:%s' % (label, name, t), True, 'config-' + name)
            got = (o[0], swap_sep(o[1])) if comma else o
            if got != base[t] and nbad < 15:
                nbad += 1
                c.violation(label + '-depends-on-configuration', {'kind': 'impl-vs-spec', 'configuration': name, 'input': to_comma(t) if comma else t,
                                                                   'impl': o, 'default_configuration_input': t, 'default_configuration_result': base[t],
                                                                   'ctx': ctx})
