"""C18 — strings, JSON escaping and inline substitution preserve text.
Proof: coq/Properties/C18.v.  Tie: json::escape_string and
substitute_inline_fend_expressions vs the model (coq/Text/Json.v), and the
model's RFC 8259 decoder applied to the implementation's own output."""
import json
from vlib import sx, Sym, parse_sx, try_parse, cps

TRUSTED_BASE = [
    'Coq 8.16.1 kernel + vm_compute (unit_sweep: all 65536 UTF-16 code units)',
    'extraction ExtrOcamlBasic -> OCaml 4.13.1, modelrun/driver.ml (byte <-> N conversion only); cross-checked against vm_compute on a sample',
    'harness/src/ops_text.rs (calls fend_core::json::escape_string, substitute_inline_fend_expressions, evaluate_with_interrupt)',
    'hand-written model coq/Text/Json.v tied to core/src/json.rs and core/src/inline_substitutions.rs only by this differential run',
    'evaluator is an oracle for inline substitution (C18_inline_output_is_eval is parametric in it)',
]
ASSUMPTIONS = ['Rust char = Unicode scalar value (hypothesis is_scalar of C18_json_roundtrip)']

BOUNDARY = [0, 1, 8, 9, 10, 12, 13, 0x1f, 0x20, 0x21, 0x22, 0x23, 0x2f, 0x5b, 0x5c, 0x5d, 0x60, 0x7e, 0x7f, 0x80, 0x9f, 0xa0,
            0xff, 0x100, 0x7ff, 0x800, 0xfff, 0x1000, 0xd7ff, 0xe000, 0xfffe, 0xffff, 0x10000, 0x10001, 0x103ff, 0x10400,
            0x1d54a, 0xfffff, 0x100000, 0x10fc00, 0x10ffff, 0x2028, 0x2029, 0xfeff]

def rand_scalar(r):
    k = r.random()
    if k < 0.35:
        return r.randint(0x20, 0x7e)
    if k < 0.5:
        return r.choice(BOUNDARY)
    if k < 0.6:
        return r.randint(0, 0x1f)
    if k < 0.8:
        c = r.randint(0x80, 0xffff)
        return c if not (0xd800 <= c <= 0xdfff) else 0xe000
    return r.randint(0x10000, 0x10ffff)

def gen_json_cases(c):
    r = c.rng
    cases = [[b] for b in BOUNDARY] + [[]]
    n = 1500 if c.tier == 'quick' else 20000
    for _ in range(n):
        ln = r.choice([1, 2, 3, 5, 8, 20, 60])
        cases.append([rand_scalar(r) for _ in range(r.randint(1, ln))])
    if c.tier == 'thorough':
        # every Unicode scalar value singly (exhaustive)
        cases += [[x] for x in range(0, 0xd800)] + [[x] for x in range(0xe000, 0x110000)]
    return cases

INLINE_ALPHA = ['[', '[', ']', ']', '`', 'a', ' ', '\n', '1', '+', '2', 'x', '"', '\\', 'é', '𝕊', '#', '=', ';']
EXPRS = [' ', ';', '()', 'u = ()', 'u', '# only a comment', '1;', '"" ', '#"raw"#', '#"a"# + #"b"#', '1+1', '2*3', 'a = 5; 3a', '6a', '1/0', 'x', '"q\\"s"', '', ' 40 + 2 ', '1 [', '[1', '`', '1`+`1', '2 ]', '@debug 1',
         '"\\u{1d54a}\\n"', '1 kg to g', 'oops(']

def gen_inline_docs(c):
    r = c.rng
    docs = ['', 'a', '[[', ']]', '[[]]', '[[1+1]]', '[[2+2]][[6*6]]', '`[[1+1]]` = [[1+1]]', '```\n[[2+2]]\n```', '[[[1]]]',
            '[[1]]]', '[[`]]`]]', '`[[`1]]', '[[a = 5; 3a]]\n[[6a]]', '[ [1]]', '[[1] ]', '[[[[1]]]]', '[[1]][[', '[[1`]]`2]]',
            'x`y[[1]]', 'x`y`[[1]]`[[2]]']
    n = 600 if c.tier == 'quick' else 8000
    for _ in range(n):
        parts = []
        for _ in range(r.randint(1, 6)):
            k = r.random()
            if k < 0.4:
                parts.append('[[' + r.choice(EXPRS) + ']]')
            elif k < 0.5:
                parts.append('`' + r.choice(EXPRS) + '`')
            else:
                parts.append(''.join(r.choice(INLINE_ALPHA) for _ in range(r.randint(0, 8))))
        docs.append(''.join(parts))
    return docs

WS_AFTER_Z = [0xa0, 0x2003, 0x0b, 0x85, 0x3000, 0x1680, 0x2028, 0x202f, 0xfeff, 0x200b]
NAMED = [92, 34, 39, 97, 98, 101, 102, 110, 114, 116, 118]

def gen_strlit_items(r, term):
    items = []
    after_z = False
    for _ in range(r.randint(0, 7)):
        k = r.random()
        if k < 0.35:
            ch = r.choice([rand_scalar(r), r.choice(WS_AFTER_Z), 32, 9, 10, 34, 39])
            if ch in (92, term) or (after_z and ch in (32, 9, 10, 12, 13)):
                ch = 120
            items.append(['p', ch]); after_z = False
        elif k < 0.5:
            items.append(['n', r.choice(NAMED)]); after_z = False
        elif k < 0.62:
            items.append(['x', r.randint(0, 7), r.randint(0, 15), r.randint(0, 1)]); after_z = False
        elif k < 0.78:
            v = r.choice([0, 0x41, 0x7f, 0x80, 0xd7ff, 0xe000, 0xffff, 0x10000, 0x10ffff, rand_scalar(r)])
            hx = '%x' % v
            if r.random() < 0.3:
                hx = hx.upper()
            if r.random() < 0.3:
                hx = '0' * r.randint(1, 4) + hx
            items.append(['u', [ord(ch) for ch in hx]]); after_z = False
        elif k < 0.88:
            items.append(['c', r.randint(63, 95)]); after_z = False
        else:
            items.append(['z', [r.choice([32, 9, 10, 12, 13]) for _ in range(r.randint(0, 3))]]); after_z = True
    return items

MALFORMED = ['"abc', "'abc", '"a\\', '"\\q"', '"\\x8"', '"\\x80"', '"\\xg0"', '"\\u{}"', '"\\u{110000}"', '"\\u{d800}"', '"\\u{12345678}"', '"\\u{100000000}"',
             '"\\u{fffffffffffffffff}"', '"\\u41"', '"\\u{41"', '"\\^a"', '"\\^~"', '"\\^"', '"\\z', '"\\z   "', '"\\^\u0141"', '"\\x7f"', '"\\x00"', '""', "''", '"\\\'"']

def check_strlit(c):
    r = c.rng
    n = 700 if c.tier == 'quick' else 12000
    specs = []
    for _ in range(n):
        term = r.choice([34, 39])
        specs.append((term, gen_strlit_items(r, term)))
    spec_lines = [sx([Sym('strlit-spec'), term] + [[Sym(it[0])] + it[1:] for it in items]) for term, items in specs]
    so = c.model('fmt', spec_lines)
    lits = []
    for (term, items), o in zip(specs, so):
        p = try_parse(o)
        if not (isinstance(p, list) and len(p) == 3):
            c.violation('strlit-spec-broken', {'kind': 'model', 'request': str(items), 'model': o}, no_input=True); continue
        wf, src, den = p
        if wf != 1:
            continue
        lits.append(([term] + src + [term], den))
    il = [sx([Sym('strlit'), lit]) for lit, _ in lits]
    io = c.impl('fmt', il)
    ml = c.model('fmt', il)
    for (lit, den), o, m in zip(lits, io, ml):
        text = ''.join(map(chr, lit))
        c.note_case('s:' + text, any(x == 92 for x in lit), 'strlit-with-escape' if 92 in lit else 'strlit-plain')
        if o != sx([b'ok', den]):
            c.violation('strlit-denotation', {'kind': 'impl-vs-spec', 'op': 'strlit', 'literal': text, 'literal_codepoints': lit, 'impl': o, 'denoted_codepoints': den})
        elif not m.startswith('("ok" ' + sx(den)):
            c.violation('strlit-model-differs', {'kind': 'impl-vs-model', 'literal': text, 'impl': o, 'model': m}, no_input=True)
    # malformed stream: error kind of the real lexer vs the model parser
    mal = MALFORMED + [m[:-1] for m in MALFORMED if len(m) > 2]
    for _ in range(200 if c.tier == 'quick' else 3000):
        term, items = r.choice([34, 39]), gen_strlit_items(r, 34)
        body = ''.join(r.choice(['\\', 'x', 'u', '{', '}', '^', 'z', ' ', '"', "'", '7', 'f', 'G', 'é', '\n', chr(0xa0)]) for _ in range(r.randint(0, 9)))
        mal.append(chr(term) + body + r.choice(['', chr(term)]))
    ll = [sx([Sym('strlit-lex'), cps(t)]) for t in mal]
    lo = c.impl('fmt', ll)
    mo = c.model('fmt', [sx([Sym('strlit'), cps(t)]) for t in mal])
    for t, o, m in zip(mal, lo, mo):
        c.note_case('sm:' + t, True, 'strlit-malformed')
        po, pm = try_parse(o), try_parse(m)
        if not isinstance(po, list) or po[0] not in (b'ok', b'err'):
            c.violation('strlit-crash', {'kind': 'impl-crash', 'literal': t, 'literal_codepoints': cps(t), 'impl': o}); continue
        if isinstance(pm, list) and pm[0] == b'ok' and len(pm) == 3 and pm[2]:
            c.dist['strlit-malformed-trailing-skipped'] = c.dist.get('strlit-malformed-trailing-skipped', 0) + 1
            continue   # text after the closing quote: the real lexer goes on to further tokens
        same = (po[0] == b'ok' and isinstance(pm, list) and pm[0] == b'ok' and po[1] == pm[1]) or (po[0] == b'err' and isinstance(pm, list) and pm[0] == b'err' and po[1] == pm[1])
        if not same:
            c.violation('strlit-lex-differs-from-model', {'kind': 'impl-vs-model', 'literal': t, 'literal_codepoints': cps(t), 'impl': o, 'model': m}, no_input=True)
    # ---- raw strings #"..."#: the literal ends at the FIRST "# (spec), also when more raw
    # strings, comments or statements follow in the same input ----
    raw_cases = []
    alphabet = ['a', 'b', ' ', '"', '#', "'", '\\', 'é', '\n', '1', '+', '[', ']', '`', chr(0x1d54a)]
    for _ in range(150 if c.tier == 'quick' else 2500):
        def body():
            t = ''.join(r.choice(alphabet) for _ in range(r.randint(0, 8)))
            return t.replace('"#', '" #')
        t1, t2 = body(), body()
        shape = r.choice(['single', 'two-stmt', 'concat', 'comment', 'assign'])
        if shape == 'single':
            raw_cases.append(('#"%s"#' % t1, t1))
        elif shape == 'two-stmt':
            raw_cases.append(('#"%s"#; #"%s"#' % (t1, t2), t2))
        elif shape == 'concat':
            raw_cases.append(('#"%s"# + #"%s"#' % (t1, t2), t1 + t2))
        elif shape == 'comment':
            raw_cases.append(('#"%s"# # trailing "# comment' % t1, t1))
        else:
            raw_cases.append(('x = #"%s"#; y = #"%s"#; x' % (t1, t2), t1))
    ro = c.impl('fmt', [sx([Sym('strlit'), cps(t)]) for t, _ in raw_cases])
    for (t, want), o in zip(raw_cases, ro):
        c.note_case('sr:' + t, True, 'strlit-raw')
        if o != sx([b'ok', cps(want)]):
            c.violation('raw-string-denotation', {'kind': 'impl-vs-spec', 'op': 'strlit', 'literal': t, 'literal_codepoints': cps(t), 'impl': o, 'denoted_codepoints': cps(want)})
    if lits:
        c.sample({'op': 'strlit', 'literal': ''.join(map(chr, lits[0][0])), 'denoted': lits[0][1]})

def check(c):
    c.rule = ('json: strings of Unicode scalars (boundary set singly, random mixtures of ASCII/control/BMP/astral; thorough: every scalar singly); '
              'inline: documents over brackets/backticks/expressions; non-trivial = contains a char needing an escape (json) or a [[ ]] or backtick (inline); distinct by text')
    ok = c.proof(['C18'], extra_targets=['Extract/XText.vo', 'Extract/XFmt.vo'])
    if c.tier == 'thorough' and ok:
        c.thorough_proof(['C18'])
    # ---------------- JSON escaper ----------------
    cases = gen_json_cases(c)
    lines = [sx([Sym('json-escape'), s]) for s in cases]
    impl = c.impl('text', lines)
    model = c.model('text', lines)
    # spec: the model's RFC 8259 decoder applied to the implementation's output
    dec_lines = []
    dec_idx = []
    for i, o in enumerate(impl):
        p = try_parse(o)
        if isinstance(p, list) and len(p) == 2 and p[0] == b'ok' and isinstance(p[1], bytes):
            dec_lines.append(sx([Sym('json-decode'), p[1]]))
            dec_idx.append(i)
    dec = c.model('text', dec_lines)
    dec_of = dict(zip(dec_idx, dec))
    for i, s in enumerate(cases):
        key = 'j:' + ','.join(map(str, s))
        nontrivial = any(not (0x20 <= x <= 0x7e) or x in (0x22, 0x5c) for x in s)
        c.note_case(key, nontrivial, 'json-escape-needed' if nontrivial else 'json-plain')
        want = sx([b'some', s])
        got = dec_of.get(i)
        if got != want:
            # property failure: implementation's output does not decode to the input
            c.violation('json-roundtrip', {'kind': 'impl-vs-spec', 'op': 'json-escape', 'input_codepoints': s,
                                           'impl': impl[i], 'decoded': got, 'expected_decoded': want})
            continue
        # second opinion (search aid only): python's json
        try:
            p = parse_sx(impl[i])
            if json.loads('"' + p[1].decode('ascii') + '"') != ''.join(map(chr, s)):
                c.violation('json-roundtrip-python', {'kind': 'impl-vs-python-json', 'input_codepoints': s, 'impl': impl[i]})
        except Exception as e:
            c.violation('json-invalid', {'kind': 'impl-vs-python-json', 'input_codepoints': s, 'impl': impl[i], 'error': repr(e)})
        if impl[i] != model[i]:
            # the output is still valid JSON for the same text: a different but
            # valid escaping is representation drift, not a violation
            c.repr_drift += 1
    if cases:
        c.sample({'op': 'json-escape', 'input': cases[len(BOUNDARY) + 3], 'impl': impl[len(BOUNDARY) + 3]})
    # ---------------- inline substitution ----------------
    docs = gen_inline_docs(c)
    dl = [sx([Sym('inline'), cps(d)]) for d in docs]
    impl = c.impl('text', dl)
    raw = c.model('text', [sx([Sym('inline-raw'), cps(d)]) for d in docs])
    # expressions cut by the model, evaluated by the implementation in order on a fresh context
    ev_lines = []
    raws = []
    for d, rw in zip(docs, raw):
        rp = parse_sx(rw)
        raws.append(rp)
        srcs = [p[1] for p in rp if p[0] == b'e']
        ev_lines.append(sx([Sym('eval-seq')] + srcs))
    evs = c.impl('text', ev_lines)
    json_lines = []
    for i, d in enumerate(docs):
        key = 'i:' + d
        nontrivial = ('[[' in d) or ('`' in d)
        c.note_case(key, nontrivial, 'inline-with-expr' if '[[' in d else 'inline-plain')
        ip = try_parse(impl[i])
        if not (isinstance(ip, list) and len(ip) == 3 and ip[0] == b'ok'):
            c.violation('inline-crash', {'kind': 'impl-crash', 'op': 'inline', 'doc': d, 'impl': impl[i]})
            json_lines.append(None)
            continue
        parts, js = ip[1], ip[2]
        ev = try_parse(evs[i]) or []
        # expected parts according to the model's cut + the implementation's own evaluator
        exp = []
        k = 0
        for p in raws[i]:
            if p[0] == b't':
                exp.append([b'u', p[1]])
            else:
                exp.append(ev[k] if k < len(ev) else [b'?', []]); k += 1
        if parts != exp:
            c.violation('inline-parts', {'kind': 'impl-vs-model', 'op': 'inline', 'doc': d, 'impl_parts': repr(parts), 'expected_parts': repr(exp)})
            json_lines.append(None)
            continue
        # text preservation, checked directly on the implementation's parts (spec as predicate)
        rebuilt = ''
        k = 0
        for p in raws[i]:
            if p[0] == b't':
                rebuilt += ''.join(map(chr, p[1]))
            else:
                rebuilt += '[[' + ''.join(map(chr, p[1])) + ']]'
        if rebuilt != d:
            c.violation('inline-text-lost', {'kind': 'model-self-check', 'doc': d, 'rebuilt': rebuilt})
        # JSON form: python json as the independent parser
        try:
            arr = json.loads(js.decode('utf-8'))
            names = {b'u': 'unprocessed', b'o': 'fend_output', b'e': 'fend_error'}
            want = [{'type': names[p[0]], 'contents': ''.join(map(chr, p[1]))} for p in parts]
            if arr != want:
                c.violation('inline-json-parts', {'kind': 'impl-vs-spec', 'doc': d, 'json': js.decode('utf-8', 'replace'), 'want': want})
        except Exception as e:
            c.violation('inline-json-invalid', {'kind': 'impl-vs-spec', 'doc': d, 'json': repr(js), 'error': repr(e)})
        json_lines.append(sx([Sym('inline-json')] + [[p[0], p[1]] for p in parts]))
    idx = [i for i, l in enumerate(json_lines) if l is not None]
    mj = c.model('text', [json_lines[i] for i in idx])
    for i, o in zip(idx, mj):
        ip = parse_sx(impl[i])
        if o != sx([b'ok', ip[2]]):
            c.violation('inline-json-differs-from-model', {'kind': 'impl-vs-model', 'doc': docs[i], 'impl_json': repr(ip[2]), 'model': o}, no_input=True)
    if docs:
        c.sample({'op': 'inline', 'doc': docs[25], 'impl': impl[25]})
    check_strlit(c)
    if c.tier == 'thorough':
        c.exhaustive = True
        c.extra['exhaustive_scope'] = 'every Unicode scalar value singly through json::escape_string'


def replay(c, obj):
    print(json.dumps(obj, indent=1))
    if 'input_codepoints' in obj:
        line = sx([Sym('json-escape'), obj['input_codepoints']])
        print('impl :', c.impl('text', [line])[0])
        print('model:', c.model('text', [line], cross=False)[0])
    elif 'doc' in obj:
        line = sx([Sym('inline'), cps(obj['doc'])])
        print('impl :', c.impl('text', [line])[0])
        print('model:', c.model('text', [sx([Sym('inline-raw'), cps(obj['doc'])])], cross=False)[0])
    return 0
