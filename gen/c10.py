"""C10 -- integer-domain functions agree with exact big-integer mathematics.
Proof: coq/Properties/C10.v.  Tie, three layers:
  L1b  BigUint methods on raw limb vectors (hook uint_unary/uint_binary) vs the
       limb model (coq/Intfns/Limbs.v), representation compared exactly;
  L1q  Number methods on raw rationals / complex numbers (hook unary/binary/
       unary_c/binary_c) vs the rational-level model (Arith.v, Float.v);
  L2   fend_core::evaluate on source text vs exact Python int / Fraction
       arithmetic, vs the Coq specifications run through modelrun
       (parse-words, roman-value, spec-round, spec-fact/fib/binom) and vs the
       model fed with the raw representation of the evaluated arguments.
Decision table as in DESIGN section 5."""
import json, math
from fractions import Fraction
from vlib import sx, Sym, parse_sx, try_parse

TRUSTED_BASE = [
    'Coq 8.16.1 kernel + vm_compute (finite sweeps: the 999 three-digit groups and 21 scale words of to_words; the 25x25 compatibility table of the roman denominations; the computed floor/ceil/round witnesses)',
    'extraction ExtrOcamlBasic -> OCaml 4.13.1, modelrun/driver.ml; cross-checked against vm_compute on a sample every run',
    'harness/src/bin/h_intfns.rs and core/src/verif_hooks/intfns.rs (build raw numbers through Number::deserialize / BigUint variants, call the existing pub(crate) methods, read results back through serialize)',
    'hand-written models coq/Intfns/{Limbs,Arith,Text,Float}.v tied to core/src/num/{biguint,bigrat,real,complex}.rs and core/src/ast.rs only by this differential run',
    'big-integer add/sub/mul/divmod/gcd/cmp and decimal formatting are taken at value level in the model (property C01 / C02)',
    'Python 3 int / fractions.Fraction as the check-side oracle; gen/c10.py',
]
ASSUMPTIONS = ['64-bit target (usize = u64)', 'Rust char = Unicode scalar value']

W = 1 << 64
ERRCODE = {'MustBeAnInteger': 7, 'FractionToInteger': 7, 'OutOfRange': 5, 'InvalidCodepoint': 5, 'RomanNumeralZero': 5,
           'NegativeNumbersNotAllowed': 8, 'ModuloByZero': 1, 'DivideByZero': 1, 'ModuloForPositiveInts': 12,
           'FactorialComplex': 6, 'ComplexToInteger': 6, 'ExpectedARealNumber': 6, 'ExpectedARationalNumber': 6,
           'CannotConvertToInteger': 6, 'StringCannotBeEmpty': 12, 'StringCannotBeLonger': 12}
BITOPS = {'and': 0, 'or': 1, 'xor': 2, 'shl': 3, 'shr': 4}
BINOPS = dict(BITOPS, mod=5, ncr=6, npr=7)
MODES = {'floor': 0, 'ceil': 1, 'round': 2}

# ----------------------------------------------------------------------------
# representations

def limbs(n):
    out = []
    while True:
        out.append(n % W)
        n //= W
        if n == 0:
            return out

def canon(n):
    return [0, n] if n < W else [1] + limbs(n)

def reps(n, r, extra=True):
    """a few representations of the value n: Small, Large canonical, Large with leading zero limbs"""
    out = []
    if n < W:
        out.append([0, n])
    out.append([1] + limbs(n))
    if extra:
        out.append([1] + limbs(n) + [0] * r.choice([1, 1, 2, 3]))
    return out

def rep_val(rep):
    flag, ls = rep[0], rep[1:]
    if flag == 0:
        return ls[0]
    return sum(l << (64 * i) for i, l in enumerate(ls))

def rat(neg, num, den):
    return [1 if neg else 0, num, den]

def interesting(r, maxbits=512, count=40):
    vals = [0, 1, 2, 3, 5, 63, 64, 65, 255, (1 << 32) - 1, 1 << 32, (1 << 53) - 1, 1 << 53, (1 << 53) + 1,
            (1 << 62) - 1, 1 << 62, (1 << 63) - 1, 1 << 63, (1 << 63) + 1, W - 2, W - 1, W, W + 1, W + 5]
    k = 2
    while 64 * k <= maxbits:
        b = 1 << (64 * k)
        vals += [b - 2, b - 1, b, b + 1, b + r.randint(2, 1 << 20), b - r.randint(2, 1 << 20), b >> 1, (b >> 1) - 1]
        k += 1
    for _ in range(count):
        bits = r.choice([8, 30, 62, 63, 64, 65, 100, 127, 128, 129, 192, 200, 256, 300, 384, 500, maxbits])
        bits = min(bits, maxbits)
        v = r.getrandbits(bits)
        m = r.random()
        if m < 0.2:
            v |= (1 << bits) - 1 ^ ((1 << r.randint(0, bits)) - 1)      # run of ones at the top
        elif m < 0.4:
            v &= ~(((1 << 64) - 1) << (64 * r.randint(0, max(0, bits // 64))))   # a zero limb inside
        vals.append(v)
    return vals

# ----------------------------------------------------------------------------
# check-side oracles

SMALL = 'zero one two three four five six seven eight nine ten eleven twelve thirteen fourteen fifteen sixteen seventeen eighteen nineteen'.split()
TENS = ' _ twenty thirty forty fifty sixty seventy eighty ninety'.split(' ')
SCALES = ['', 'thousand', 'million', 'billion', 'trillion', 'quadrillion', 'quintillion', 'sextillion', 'septillion', 'octillion',
          'nonillion', 'decillion', 'undecillion', 'duodecillion', 'tredecillion', 'quattuordecillion', 'quindecillion',
          'sexdecillion', 'septendecillion', 'octodecillion', 'novemdecillion', 'vigintillion']

def py_below_1000(p):
    parts = []
    h, rem = divmod(p, 100)
    if h:
        parts.append(SMALL[h] + ' hundred')
    if rem:
        if rem < 20:
            w = SMALL[rem]
        else:
            w = TENS[rem // 10] + ('-' + SMALL[rem % 10] if rem % 10 else '')
        parts.append(w)
    return ' and '.join(parts)

def py_words(n):
    """independent re-statement of the wording (digits string from str(n), groups from the left)"""
    if n == 0:
        return 'zero'
    s = str(n)
    s = '0' * (-len(s) % 3) + s
    groups = [int(s[i:i + 3]) for i in range(0, len(s), 3)]
    out = []
    for i, g in enumerate(groups):
        k = len(groups) - 1 - i
        if g:
            out.append(py_below_1000(g) + (' ' + SCALES[k] if k else ''))
    return ' '.join(out)

def py_roman_small(n):
    """textbook digit-table construction, 1 <= n < 4000"""
    th = ['', 'M', 'MM', 'MMM']
    hu = ['', 'C', 'CC', 'CCC', 'CD', 'D', 'DC', 'DCC', 'DCCC', 'CM']
    te = ['', 'X', 'XX', 'XXX', 'XL', 'L', 'LX', 'LXX', 'LXXX', 'XC']
    on = ['', 'I', 'II', 'III', 'IV', 'V', 'VI', 'VII', 'VIII', 'IX']
    return th[n // 1000] + hu[n // 100 % 10] + te[n // 10 % 10] + on[n % 10]

def py_roman(n):
    """overlined numeral of the thousands part that is >= 4000 ... as fend: the
    overlined letters are the numeral of n // 1000 when n >= 4000, except that a
    remainder of 1000..3999 keeps plain M's"""
    big = 0
    if n >= 4000:
        big = n // 1000
        rest = n % 1000
        # thousands digit 1..3 of (n // 1000) stay as plain M: I-bar is never used
        low = big % 10
        if low in (1, 2, 3):
            big -= low
            rest += 1000 * low
        elif low in (6, 7, 8):
            big -= low - 5
            rest += 1000 * (low - 5)
        n = rest
    out = ''
    if big:
        q, big_rest = divmod(big, 1000)
        out += 'M̅' * q
        out += ''.join(ch + '̅' for ch in py_roman_small(big_rest)) if big_rest else ''
    return out + (py_roman_small(n) if n else '')

RVAL = {'I': 1, 'V': 5, 'X': 10, 'L': 50, 'C': 100, 'D': 500, 'M': 1000}

def py_roman_value(s):
    vals = []
    i = 0
    while i < len(s):
        if s[i] not in RVAL:
            return None
        v = RVAL[s[i]]
        if i + 1 < len(s) and s[i + 1] == '̅':
            v *= 1000
            i += 1
        vals.append(v)
        i += 1
    tot = 0
    for j, v in enumerate(vals):
        tot += -v if j + 1 < len(vals) and v < vals[j + 1] else v
    return tot

def fib(n):
    a, b = 0, 1
    for _ in range(n):
        a, b = b, a + b
    return a

def is_scalar(c):
    return 0 <= c < 0xd800 or 0xdfff < c < 0x110000

def spec_round(mode, x):
    if mode == 'floor':
        return math.floor(x)
    if mode == 'ceil':
        return math.ceil(x)
    a = abs(x)
    v = (2 * a.numerator + a.denominator) // (2 * a.denominator)
    return -v if x < 0 else v

def is_nat(x):
    return x.denominator == 1 and x >= 0

def spec_binary(op, a, b):
    """-> ('int', v) | ('err',) | ('any', [acceptable...]) for Fractions a, b"""
    if op in ('and', 'or', 'xor'):
        if is_nat(a) and is_nat(b):
            x, y = int(a), int(b)
            return ('int', x & y if op == 'and' else x | y if op == 'or' else x ^ y)
        return ('err',)
    if op == 'shl':
        if is_nat(a) and is_nat(b):
            return ('int', int(a) << int(b)) if b < W else ('err',)
        return ('err',)
    if op == 'shr':
        if is_nat(a) and is_nat(b):
            return ('int', int(a) >> int(b)) if b < W else ('any', [0, 'err'])
        return ('err',)
    if op == 'mod':
        if is_nat(a) and is_nat(b) and b > 0:
            return ('int', int(a) % int(b))
        if b == 0:
            return ('err',)
        if a.denominator == 1 and b.denominator == 1:
            return ('any', ['err', int(a) % int(b)])      # the code restricts the domain to naturals
        return ('err',)
    if op in ('ncr', 'npr'):
        if is_nat(a) and is_nat(b):
            n, r = int(a), int(b)
            if r <= n:
                return ('int', math.comb(n, r) if op == 'ncr' else math.perm(n, r))
            return ('any', ['err', 0])
        return ('err',)
    raise ValueError(op)

# ----------------------------------------------------------------------------
# decoding worker answers

def impl_out(o):
    """-> ('uint', rep) | ('rat', neg, numrep, denrep) | ('usize', n) | ('text', s) | ('err', code, kind) | ('crash', raw)"""
    p = try_parse(o)
    if not isinstance(p, list) or not p:
        return ('crash', o)
    t = p[0]
    if t == b'uint':
        return ('uint', p[1])
    if t == b'rat':
        return ('rat', p[1], p[2], p[3])
    if t == b'usize':
        return ('usize', p[1])
    if t == b'text':
        return ('text', p[1].decode('utf-8', 'replace'))
    if t == b'err':
        k = p[1].decode()
        return ('err', ERRCODE.get(k, 12), k)
    if t == b'ok':
        return ('ok', p[1].decode('utf-8', 'replace'))
    return ('crash', o)

def model_out(o):
    """-> ('ok', payload) | ('err', code) | ('panic', site) | raw int"""
    p = try_parse(o)
    if isinstance(p, int):
        return ('val', p)
    if isinstance(p, list) and p:
        if p[0] == b'ok':
            return ('ok', p[1])
        if p[0] == b'err':
            return ('err', p[1])
        if p[0] == b'panic':
            return ('panic', p[1])
        if p[0] in (b'some', b'none'):
            return ('opt', p[1] if p[0] == b'some' else None)
    return ('crash', o)

def parse_int_text(s):
    """result text of evaluate -> int or None"""
    t = s.strip().replace(',', '')
    try:
        return int(t, 0) if t[:3].lstrip('-')[:2] in ('0x', '0b', '0o') else int(t)
    except ValueError:
        return None

# ----------------------------------------------------------------------------

def check(c):
    r = c.rng
    quick = c.tier == 'quick'
    c.rule = ('L1b: limb vectors dense around 2^(64k) in Small / Large / Large-with-leading-zero-limbs form through BigUint and/or/xor/shl/shr/try_as_usize/factorial/fibonacci/to_words; '
              'L1q: raw rationals (integer, n*k/k, negative, fractional, negative zero, imaginary, pi-multiples) through Number factorial/bitwise/mod/nCr/nPr/floor/ceil/round/try_as_usize/fibonacci/words; '
              'L2: source text through evaluate (arguments also carrying dimensionless scaled units (dozen, %, hundred, k, byte/bit, m/cm, kg/(2 kg)), dimensioned units, and passed through variables; integers to 2^512 written as literals, hex, sums, (v+2^64k)-2^64k, (k*v)/k; rationals near integers and beyond 2^64; all 0<=r<=n<=N; words incl. 10^3k+-1; roman; char/codepoint); '
              'non-trivial = multi-limb or non-canonical operand, shift across a limb boundary, n>20 for factorial-like, non-integer rounding argument, n>=1000 for words, n>=4 for roman, non-ASCII scalar; distinct by request line')
    ok = c.proof(['C10'], extra_targets=['Extract/XIntfns.vo'])
    if c.tier == 'thorough' and ok:
        c.thorough_proof(['C10'])
    try:
        l1_limbs(c, r, quick)
        l1_uint_unary(c, r, quick)
        l1_rational(c, r, quick)
        l1_complex(c, r, quick)
        l2_numeric(c, r, quick)
        l2_text(c, r, quick)
        l2_units(c, r, quick)
        witnesses(c)
    except TooManyHangs as e:
        c.notes.append('check stopped early: %s' % e)
    if not quick:
        c.extra['exhaustive_scope'] = 'every Unicode scalar value through "to char" and "to codepoint"; roman 1..4000; all 0<=r<=n<=400 for nCr/nPr'


def viol(c, name, d, no_input=False):
    c.violation(name, d, no_input=no_input)


class TooManyHangs(Exception):
    pass


def run_impl(c, lines, timeout=None, profile='debug'):
    """c.impl in slices; a tree on which many requests hang or abort (a broken shift or division makes
    almost everything loop) is reported with the first such request instead of being waited for"""
    out = []
    bad = 0
    for k in range(0, len(lines), 1500):
        part = c.impl('intfns', lines[k:k + 1500], timeout=timeout, profile=profile)
        for ln, o in zip(lines[k:k + 1500], part):
            if o.startswith('("hang")') or o.startswith('("abort"'):
                bad += 1
                if bad <= 3:
                    viol(c, 'request-hangs-or-aborts', {'kind': 'impl-crash', 'layer': 'impl', 'impl_line': ln[:2000], 'impl': o})
        out += part
        if bad > 24:
            raise TooManyHangs('%d requests hung or aborted' % bad)
    return out

# ---------------------------------------------------------------- L1 limbs

def l1_limbs(c, r, quick):
    vals = interesting(r, 512, 40 if quick else 400)
    cases = []
    # bitwise: pairs in mixed representations
    n = 900 if quick else 12000
    for _ in range(n):
        a, b = r.choice(vals), r.choice(vals)
        if r.random() < 0.3:
            b = a ^ (1 << r.randint(0, 300))
        for op in ('and', 'or', 'xor'):
            cases.append((op, r.choice(reps(a, r)), r.choice(reps(b, r))))
    # shifts
    counts = [0, 1, 2, 31, 62, 63, 64, 65, 66, 127, 128, 129, 191, 192, 193, 255, 256, 257, 320, 640]
    for _ in range(250 if quick else 5000):
        a = r.choice(vals)
        k = r.choice(counts) if r.random() < 0.6 else r.randint(0, 700)
        krep = r.choice([[0, k], [1, k], [1, k, 0], [1, k, 0, 0]])
        cases.append(('shl', r.choice(reps(a, r)), krep))
        cases.append(('shr', r.choice(reps(a, r)), krep))
    for a in vals[:30]:
        for krep in ([1, 0, 1], [1, 5, 1], [0, W - 1], [1, W - 1], [0, 1 << 40]):
            cases.append(('shr', r.choice(reps(a, r)), krep))
        cases.append(('shl', r.choice(reps(a, r)), [1, 0, 1]))        # count 2^64: error
        cases.append(('shl', r.choice(reps(a, r)), [1, 3, 0, 0, 1]))
    # empty Large (only constructible by deserialisation): both sides must panic / agree
    for op in ('and', 'or', 'xor', 'shl'):
        cases.append((op, [1], [0, 3]))
        cases.append((op, [0, 3], [1]))
    il = [sx([Sym('b2'), op, a, b]) for op, a, b in cases]
    ml = [sx([Sym('b-bit'), BITOPS[op], a, b]) for op, a, b in cases]
    impl = run_impl(c, il)
    model = c.model('intfns', ml)
    for (op, a, b), io, mo, line in zip(cases, impl, model, il):
        av, bv = rep_val(a) if len(a) > 1 else 0, rep_val(b) if len(b) > 1 else 0
        nontrivial = len(a) > 2 or len(b) > 2 or (op in ('shl', 'shr') and bv >= 1)
        c.note_case(line, nontrivial, 'L1b-' + op)
        i, m = impl_out(io), model_out(mo)
        empty = len(a) == 1 or len(b) == 1
        if empty:
            # outside the representation invariant: only the tie is checked (panic <-> Panic, value <-> value)
            ip = try_parse(io)
            if (isinstance(ip, list) and ip and ip[0] == b'panic') != (m[0] == 'panic'):
                viol(c, 'limb-op-empty-large', {'kind': 'impl-vs-model', 'layer': 'L1b', 'impl_line': line, 'impl': io, 'model': mo}, no_input=True)
            continue
        sp = spec_binary(op, Fraction(av), Fraction(bv))
        # impl vs spec
        if sp[0] == 'int':
            good = i[0] == 'uint' and rep_val(i[1]) == sp[1]
        elif sp[0] == 'err':
            good = i[0] == 'err'
        else:
            good = (i[0] == 'err' and 'err' in sp[1]) or (i[0] == 'uint' and rep_val(i[1]) in sp[1])
        if not good:
            viol(c, 'limb-op-wrong', {'kind': 'impl-vs-spec', 'layer': 'L1b', 'op': op, 'a': a, 'b': b, 'impl_line': line, 'impl': io,
                                      'expected': repr(sp)})
            continue
        # impl vs model
        if i[0] == 'uint' and m[0] == 'ok':
            if i[1] != m[1]:
                if rep_val(i[1]) == rep_val(m[1]):
                    c.repr_drift += 1
                else:
                    viol(c, 'limb-op-model-drift', {'kind': 'impl-vs-model', 'layer': 'L1b', 'impl_line': line, 'impl': io, 'model': mo}, no_input=True)
        elif i[0] == 'err' and m[0] == 'err':
            if i[1] != m[1]:
                viol(c, 'limb-op-error-kind', {'kind': 'impl-vs-model', 'layer': 'L1b', 'impl_line': line, 'impl': io, 'model': mo}, no_input=True)
        else:
            viol(c, 'limb-op-model-drift', {'kind': 'impl-vs-model', 'layer': 'L1b', 'impl_line': line, 'impl': io, 'model': mo}, no_input=True)
    c.sample({'layer': 'L1b', 'request': il[7], 'impl': impl[7], 'model': model[7]})


def l1_uint_unary(c, r, quick):
    cases = []
    vals = interesting(r, 256, 20 if quick else 200)
    for v in vals:
        for rep in reps(v, r) + [[1] + limbs(v) + [0, 0, 0]]:
            cases.append(('try_as_usize', rep))
    fact_ns = list(range(0, 40)) + [r.randint(40, 300 if quick else 1500) for _ in range(25 if quick else 300)]
    for n in fact_ns:
        cases.append(('factorial', r.choice(reps(n, r))))
    fib_ns = list(range(0, 100)) + [r.randint(100, 3000 if quick else 20000) for _ in range(25 if quick else 200)] + [185, 186, 187, 92, 93, 94]
    for n in fib_ns:
        cases.append(('fibonacci', [0, n]))
    wvals = [0, 1, 9, 10, 11, 12, 13, 19, 20, 21, 99, 100, 101, 110, 111, 119, 120, 999, 1000, 1001, 1010, 1100, 10 ** 66 - 1, 10 ** 66, 10 ** 66 + 1, 10 ** 70]
    for k in range(1, 23):
        wvals += [10 ** (3 * k) - 1, 10 ** (3 * k), 10 ** (3 * k) + 1, 7 * 10 ** (3 * k), 10 ** (3 * k) + 10 ** 3]
    for _ in range(200 if quick else 4000):
        digits = r.randint(1, 66)
        v = r.randint(0, 10 ** digits - 1)
        if r.random() < 0.3:
            s = list(str(v))
            for j in range(len(s)):
                if r.random() < 0.5:
                    s[j] = '0'
            v = int(''.join(s))
        wvals.append(v)
    for v in wvals:
        cases.append(('words', r.choice(reps(v, r))))
    il = [sx([Sym('b1'), op, a]) for op, a in cases]
    mop = {'try_as_usize': 'b-usize', 'factorial': 'b-fact', 'words': 'b-words'}
    ml = [sx([Sym('b-fib'), a[1]]) if op == 'fibonacci' else sx([Sym(mop[op]), a]) for op, a in cases]
    impl = run_impl(c, il)
    model = c.model('intfns', ml)
    # Coq's reader of number words applied to the implementation's own text
    pw_idx, pw_lines = [], []
    for k, ((op, a), io) in enumerate(zip(cases, impl)):
        i = impl_out(io)
        if op == 'words' and i[0] == 'text':
            pw_idx.append(k)
            pw_lines.append(sx([Sym('parse-words'), i[1]]))
    pw = dict(zip(pw_idx, c.model('intfns', pw_lines)))
    for k, ((op, a), io, mo, line) in enumerate(zip(cases, impl, model, il)):
        v = rep_val(a)
        i, m = impl_out(io), model_out(mo)
        nontrivial = len(a) > 2 or (op in ('factorial',) and v > 20) or (op == 'fibonacci' and v > 93) or (op == 'words' and v >= 1000)
        c.note_case(line, nontrivial, 'L1b-' + op)
        if op == 'try_as_usize':
            good = (i[0] == 'usize' and i[1] == v) if v < W else i[0] == 'err'
            same = (i[0] == 'usize' and m == ('ok', i[1])) or (i[0] == 'err' and m == ('err', i[1]))
        elif op == 'factorial':
            good = i[0] == 'uint' and rep_val(i[1]) == math.factorial(v)
            same = i[0] == 'uint' and m == ('val', rep_val(i[1]))
        elif op == 'fibonacci':
            good = i[0] == 'uint' and rep_val(i[1]) == fib(v)
            same = i[0] == 'uint' and m == ('val', rep_val(i[1]))
        else:
            if v < 10 ** 66:
                good = i[0] == 'text' and i[1] == py_words(v) and model_out(pw.get(k, '')) == ('opt', v)
                same = i[0] == 'text' and m == ('ok', i[1].encode())
            else:
                good = i[0] == 'err'
                same = i[0] == 'err' and m == ('err', i[1])
        if not good:
            viol(c, 'uint-' + op + '-wrong', {'kind': 'impl-vs-spec', 'layer': 'L1b', 'op': op, 'arg': a, 'value': str(v), 'impl_line': line, 'impl': io[:400],
                                             'coq_parse_words': pw.get(k)})
        elif not same:
            viol(c, 'uint-' + op + '-model-drift', {'kind': 'impl-vs-model', 'layer': 'L1b', 'impl_line': line, 'impl': io[:400], 'model': mo[:400]}, no_input=True)
    c.sample({'layer': 'L1b', 'request': il[-3][:200], 'impl': impl[-3][:200]})

# ---------------------------------------------------------------- L1 rationals

def gen_rats(r, quick):
    """raw rationals with the exact value they denote"""
    out = []
    ints = [0, 1, 2, 3, 5, 7, 10, 12, 20, 25, 63, 64, 65, 100, 255, 1000, (1 << 53) - 1, 1 << 53, (1 << 53) + 1,
            W - 1, W, W + 1, W + 5, (1 << 128) - 1, 1 << 128, 10 ** 20, 10 ** 30 + 1]
    ints += [r.getrandbits(r.choice([6, 10, 40, 64, 70, 128, 200])) for _ in range(20 if quick else 200)]
    for v in ints:
        for rep in reps(v, r):
            out.append((rat(False, rep, [0, 1]), Fraction(v)))
        k = r.choice([2, 3, 4, 6, 10, 1 << 64, 3 << 70])
        out.append((rat(False, r.choice(reps(v * k, r)), r.choice(reps(k, r))), Fraction(v)))       # n*k/k
        out.append((rat(True, canon(v), [0, 1]), Fraction(-v)))
        out.append((rat(False, canon(v), [1, 1, 0]), Fraction(v)))                                  # denominator Large [1; 0]
    out.append((rat(True, [0, 0], [0, 1]), Fraction(0)))           # negative zero
    out.append((rat(True, [1, 0, 0], [0, 3]), Fraction(0)))
    out.append((rat(False, [1, 10, 0], [0, 2]), Fraction(5)))      # simplify by 2 keeps the leading zero limb
    out.append((rat(False, [1, 0, 1], [0, 2]), Fraction(1 << 63)))
    for _ in range(40 if quick else 500):
        d = r.choice([2, 3, 4, 7, 10, 1000, 10 ** 30, (1 << 64) - 1, 1 << 64, r.getrandbits(80) | 1])
        n = r.getrandbits(r.choice([3, 10, 60, 64, 100, 200]))
        out.append((rat(r.random() < 0.3, r.choice(reps(n, r)), r.choice(reps(d, r))), None))
    res = []
    for q, v in out:
        if v is None:
            v = Fraction(rep_val(q[1]), rep_val(q[2]))
            if q[0]:
                v = -v
        res.append((q, v))
    return res

def near_integers(r, quick):
    """values for floor/ceil/round: near integers, halves, beyond 2^53 / 2^64, huge"""
    out = []
    eps = [Fraction(1, 10 ** 30), Fraction(1, 10 ** 16), Fraction(1, 1 << 53), Fraction(1, 1 << 60), Fraction(1, 3), Fraction(1, 1000)]
    bases = [0, 1, 2, 3, 10, 1000, (1 << 52), (1 << 53) - 1, 1 << 53, (1 << 53) + 1, (1 << 63), W - 1, W, W + 1, 10 ** 20, 1 << 100, 10 ** 40]
    bases += [r.getrandbits(r.choice([4, 20, 50, 53, 54, 64, 65, 90])) for _ in range(10 if quick else 150)]
    for b in bases:
        out += [Fraction(b), Fraction(2 * b + 1, 2), Fraction(-(2 * b + 1), 2), Fraction(-b)]
        for e in eps[: 3 if quick else 6]:
            out += [b + e, b - e, -(b + e), Fraction(2 * b + 1, 2) - e, Fraction(2 * b + 1, 2) + e, -(Fraction(2 * b + 1, 2) - e)]
    out += [Fraction(7, 2), Fraction(-7, 2), Fraction(39, 10), Fraction(-31, 10), Fraction(33, 10), Fraction(-33, 10), Fraction(37, 10),
            Fraction(10 ** 400), Fraction(10 ** 400, 10 ** 400 + 1), Fraction(10 ** 320 + 1, 10 ** 320), Fraction(1, 10 ** 400),
            Fraction(-1, 10 ** 400), Fraction(10 ** 310, 3)]
    for _ in range(60 if quick else 1500):
        d = r.choice([2, 3, 7, 10, 100, 10 ** 9, (1 << 53) - 1, r.getrandbits(60) | 1, r.getrandbits(200) | 1])
        n = r.getrandbits(r.choice([5, 20, 52, 53, 54, 63, 64, 65, 120, 300]))
        out.append(Fraction(-n if r.random() < 0.3 else n, d))
    return out

def frac_rat(x, r, simplified=True):
    n, d = abs(x.numerator), x.denominator
    if not simplified:
        k = r.choice([2, 3, 10, 1 << 64])
        n, d = n * k, d * k
    return rat(x < 0, r.choice(reps(n, r, extra=False)), r.choice(reps(d, r, extra=False)))

def l1_rational(c, r, quick):
    rats = gen_rats(r, quick)
    # representation that reaches the BigRat level (after the unit-scaling pass)
    reach = c.impl('intfns', [sx([Sym('reach'), q]) for q, _ in rats])
    inputs = []
    for (q, v), ro in zip(rats, reach):
        p = impl_out(ro)
        if p[0] != 'rat':
            viol(c, 'reach-failed', {'kind': 'infrastructure', 'layer': 'L1q', 'arg': q, 'impl': ro}, no_input=True)
            continue
        inputs.append((q, [p[1], p[2], p[3]], v))
    cases = []          # (kind, op, (q, reached, v), (q2, reached2, v2) or None)
    small = [t for t in inputs if abs(t[2]) <= 300]
    feasible_count = [t for t in inputs if t[2].denominator != 1 or t[2] < 0 or t[2] <= 700 or t[2] >= W]
    for t in inputs:
        if t[2].denominator != 1 or t[2] < 0 or t[2] <= 200:
            cases.append(('u1', 'factorial', t, None))
        if t[2].denominator != 1 or t[2] < 0 or t[2] <= 3000 or t[2] >= W:
            cases.append(('u1', 'fibonacci', t, None))
        cases.append(('u1', 'try_as_usize', t, None))
        cases.append(('u1', 'words', t, None))
    for _ in range(400 if quick else 6000):
        a, b = r.choice(inputs), r.choice(inputs)
        op = r.choice(['and', 'or', 'xor', 'mod'])
        cases.append(('u2', op, a, b))
        cases.append(('u2', r.choice(['shl', 'shr']), a, r.choice(feasible_count)))
        if small:
            cases.append(('u2', r.choice(['ncr', 'npr']), r.choice(small), r.choice(small)))
    il, ml = [], []
    for kind, op, a, b in cases:
        if kind == 'u1':
            il.append(sx([Sym('u1'), op, a[0]]))
            mop = {'factorial': 'q-fact', 'fibonacci': 'q-fib', 'try_as_usize': 'q-usize', 'words': 'q-words'}[op]
            ml.append(sx([Sym(mop), a[1]]))
        else:
            il.append(sx([Sym('u2'), op, a[0], b[0]]))
            ml.append(sx([Sym('q-bin'), BINOPS[op], a[1], b[1]]))
    impl = run_impl(c, il)
    model = c.model('intfns', ml)
    for k, ((kind, op, a, b), io, mo, line, mline) in enumerate(zip(cases, impl, model, il, ml)):
        i, m = impl_out(io), model_out(mo)
        x = a[2]
        nontrivial = len(a[0][1]) > 2 or len(a[0][2]) > 2 or x.denominator != 1 or x < 0 or (b is not None and (len(b[0][1]) > 2 or b[2].denominator != 1))
        c.note_case(line, nontrivial, 'L1q-' + op)
        # --- spec
        if kind == 'u1':
            if op == 'factorial':
                sp = ('int', math.factorial(int(x))) if is_nat(x) else ('err',)
            elif op == 'fibonacci':
                sp = (('int', fib(int(x))) if x < W else ('err',)) if is_nat(x) else ('err',)
            elif op == 'try_as_usize':
                sp = (('usize', int(x)) if x < W else ('err',)) if is_nat(x) else ('err',)
            else:
                sp = (('text', py_words(int(x))) if x < 10 ** 66 else ('err',)) if is_nat(x) else ('err',)
        else:
            sp = spec_binary(op, x, b[2])
        iv = None
        if i[0] == 'rat':
            num, den = rep_val(i[2]), rep_val(i[3])
            iv = Fraction(-num if i[1] else num, den) if den else None
        if sp[0] == 'int':
            good = iv == sp[1]
        elif sp[0] == 'usize':
            good = i == ('usize', sp[1])
        elif sp[0] == 'text':
            good = i == ('text', sp[1])
        elif sp[0] == 'err':
            good = i[0] == 'err'
        else:
            good = (i[0] == 'err' and 'err' in sp[1]) or (iv is not None and iv in sp[1])
        if not good:
            viol(c, 'rational-' + op + '-wrong', {'kind': 'impl-vs-spec', 'layer': 'L1q', 'op': op, 'impl_line': line, 'model_line': mline,
                                                 'impl': io[:400], 'expected': repr(sp)[:400]})
            continue
        # --- model
        if i[0] == 'err':
            same = m == ('err', i[1])
        elif i[0] == 'rat':
            if m[0] == 'ok' and isinstance(m[1], list):
                mn, mnum, mden = m[1]
                same = (mnum, mden) == (num, den) and (mn == i[1] or num == 0)
                if not same and mden and Fraction(-mnum if mn else mnum, mden) == iv:
                    c.repr_drift += 1
                    same = True
            elif m[0] == 'ok':      # q-fib returns the value
                same = iv == m[1]
            else:
                same = False
        elif i[0] == 'usize':
            same = m == ('ok', i[1])
        elif i[0] == 'text':
            same = m == ('ok', i[1].encode())
        else:
            same = False
        if not same:
            viol(c, 'rational-' + op + '-model-drift', {'kind': 'impl-vs-model', 'layer': 'L1q', 'impl_line': line, 'model_line': mline,
                                                       'impl': io[:400], 'model': mo[:400]}, no_input=True)
    c.sample({'layer': 'L1q', 'request': il[11][:200], 'impl': impl[11][:200], 'model': model[11][:200]})
    l1_rounding(c, r, quick)


def l1_rounding(c, r, quick):
    """floor / ceil / round on raw rationals: impl vs the exact value (Python and Coq round_spec) and vs the
    model of BigRat::round_to_integer"""
    xs = near_integers(r, quick)
    cases = []
    for x in xs:
        for mode in MODES:
            if quick and r.random() < 0.35:
                continue
            cases.append((mode, frac_rat(x, r, simplified=r.random() < 0.8), x))
    reach = c.impl('intfns', [sx([Sym('reach'), q]) for _, q, _ in cases])
    il, ml, sl = [], [], []
    keep = []
    for (mode, q, x), ro in zip(cases, reach):
        p = impl_out(ro)
        if p[0] != 'rat':
            viol(c, 'reach-failed', {'kind': 'infrastructure', 'layer': 'L1q', 'arg': q, 'impl': ro}, no_input=True)
            continue
        rq = [p[1], p[2], p[3]]
        keep.append((mode, q, x))
        il.append(sx([Sym('u1'), mode, q]))
        ml.append(sx([Sym('q-round'), MODES[mode], rq]))
        sl.append(sx([Sym('spec-round'), MODES[mode], rq]))
    impl = run_impl(c, il)
    model = c.model('intfns', ml)
    spec = c.model('intfns', sl)
    for (mode, q, x), io, mo, so, line, mline, sline in zip(keep, impl, model, spec, il, ml, sl):
        want = spec_round(mode, x)
        c.note_case(line, x.denominator != 1 or abs(x) >= (1 << 53), 'L1q-' + mode)
        i, m = impl_out(io), model_out(mo)
        # the two statements of the specification must agree with each other
        if model_out(so) != ('val', want):
            viol(c, 'round-spec-disagreement', {'kind': 'coq-spec-vs-python', 'layer': 'spec', 'line': sline, 'coq': so, 'python': str(want)}, no_input=True)
        iv = None
        if i[0] == 'rat':
            num, den = rep_val(i[2]), rep_val(i[3])
            iv = Fraction(-num if i[1] else num, den) if den else None
        if iv != want:
            viol(c, 'round-wrong', {'kind': 'impl-vs-spec', 'layer': 'L1q', 'op': mode, 'value': str(x), 'impl_line': line, 'model_line': mline,
                                    'impl': io[:300], 'model': mo[:300], 'expected': str(want)})
            continue
        if m[0] == 'ok':
            mn, mnum, mden = m[1]
            same = (mnum, mden) == (num, den) and (mn == i[1] or num == 0)
            if not same and mden and iv == Fraction(-mnum if mn else mnum, mden):
                c.repr_drift += 1           # same value, other numerator / denominator / sign of zero
                same = True
        else:
            same = False
        if not same:
            viol(c, 'round-model-drift', {'kind': 'impl-vs-model', 'layer': 'L1q', 'impl_line': line, 'model_line': mline, 'impl': io[:300], 'model': mo[:300]}, no_input=True)


def l1_complex(c, r, quick):
    """domain checks above the rational level: imaginary parts, multiples of pi"""
    def re(q, pi=False):
        return [1 if pi else 0, q]
    z = rat(False, [0, 0], [0, 1])
    qs = [rat(False, [0, 5], [0, 1]), rat(False, [0, 0], [0, 1]), rat(True, [0, 2], [0, 1]), rat(False, [0, 7], [0, 2]),
          rat(False, [1, 5, 0], [0, 1]), rat(False, [1, 9, 0, 0], [0, 1]), rat(True, [0, 0], [0, 1])]
    cplx = []
    for q in qs:
        for im in (z, rat(False, [0, 1], [0, 1]), rat(True, [0, 3], [0, 2]), rat(True, [1, 0, 0], [0, 1])):
            for rpi in (False, True):
                for ipi in (False, True):
                    # a zero multiple of pi is rewritten to a plain zero by the unit-scaling pass before
                    # the functions see it: not a distinct input
                    if (rpi and rep_val(q[1]) == 0) or (ipi and rep_val(im[1]) == 0):
                        continue
                    cplx.append([re(q, rpi), re(im, ipi)])
    cases = []
    for a in cplx:
        for op, mop in (('factorial', 'c-fact'), ('try_as_usize', 'c-usize'), ('floor', 'c-round'), ('round', 'c-round')):
            cases.append((sx([Sym('c1'), op, a]),
                          sx([Sym(mop), a]) if mop != 'c-round' else sx([Sym('c-round'), MODES[op], a]), op, a, None))
    for _ in range(150 if quick else 2000):
        a, b = r.choice(cplx), r.choice(cplx)
        op = r.choice(['and', 'or', 'xor', 'shl', 'shr', 'mod', 'ncr', 'npr'])
        cases.append((sx([Sym('c2'), op, a, b]), sx([Sym('c-bin'), BINOPS[op], a, b]), op, a, b))
    impl = run_impl(c, [x[0] for x in cases])
    model = c.model('intfns', [x[1] for x in cases])
    def nonreal(z):
        return rep_val(z[1][1][1]) != 0
    def is_pi(z):
        return z[0][0] == 1
    for (il, ml, op, a, b), io, mo in zip(cases, impl, model):
        i, m = impl_out(io), model_out(mo)
        bad = nonreal(a) or (b is not None and nonreal(b))
        c.note_case(il, True, 'L1c-' + op)
        # spec: a non-real operand is always an error
        if bad and i[0] != 'err':
            viol(c, 'nonreal-accepted', {'kind': 'impl-vs-spec', 'layer': 'L1c', 'impl_line': il, 'impl': io[:300]})
            continue
        unmodelled = m[0] == 'ok' and m[1] == [b'unmodelled']
        if unmodelled:
            continue
        if i[0] == 'err':
            same = m == ('err', i[1])
        elif i[0] == 'rat':
            num, den = rep_val(i[2]), rep_val(i[3])
            same = m[0] == 'ok' and isinstance(m[1], list) and len(m[1]) == 3 and \
                (Fraction(m[1][1], m[1][2]) == Fraction(num, den) if den and m[1][2] else False)
        elif i[0] == 'usize':
            same = m == ('ok', i[1])
        else:
            same = False
        if not same:
            viol(c, 'complex-level-model-drift', {'kind': 'impl-vs-model', 'layer': 'L1c', 'impl_line': il, 'model_line': ml, 'impl': io[:300], 'model': mo[:300]}, no_input=True)

# ---------------------------------------------------------------- L2

def forms(v, r):
    """source texts denoting the natural number v, 'however computed'"""
    out = [str(v)]
    k = r.choice([1, 2, 3])
    out.append('(%d + 2^%d) - 2^%d' % (v, 64 * k, 64 * k))            # leaves leading zero limbs
    out.append('(%d + %d)' % (v - v // 3, v // 3))
    m = r.choice([2, 3, 10])
    out.append('(%d / %d)' % (v * m, m))
    if v > 0:
        out.append('(%d - 1 + 1)' % v)
    return out

def l2_numeric(c, r, quick):
    cases = []          # (opname, expr, [arg exprs], [Fractions])
    def add(op, fmt, args, vals):
        cases.append((op, fmt % tuple(args), list(args), [Fraction(v) for v in vals]))
    # factorial, fibonacci
    for n in list(range(0, 31)) + [r.randint(31, 170) for _ in range(15 if quick else 100)] + ([] if quick else [400, 800, 1200]):
        add('factorial', '(%s)!', [r.choice(forms(n, r))], [n])
    for n in list(range(0, 40)) + [92, 93, 94, 185, 186, 187] + [r.randint(40, 2000 if quick else 20000) for _ in range(20 if quick else 200)]:
        add('fibonacci', 'fib (%s)', [r.choice(forms(n, r))], [n])
    # nCr / nPr: all 0 <= r <= n <= N
    N = 60 if quick else 400
    for n in range(0, N + 1):
        for k in range(0, n + 1):
            if quick or n <= 60 or r.random() < 1.0:
                add('ncr', '%s nCr %s', [str(n), str(k)], [n, k])
                add('npr', '%s nPr %s', [str(n), str(k)], [n, k])
    for _ in range(40 if quick else 400):
        n, k = r.randint(0, 80), r.randint(0, 90)
        op = r.choice(['ncr', 'npr'])
        word = r.choice(['choose', 'nCr']) if op == 'ncr' else r.choice(['permute', 'nPr'])
        add(op, '(%s) ' + word + ' (%s)', [r.choice(forms(n, r)), r.choice(forms(k, r))], [n, k])
    # bitwise, mod, shifts on integers to 2^512
    vals = interesting(r, 512, 30 if quick else 300)
    sym = {'and': '&', 'or': '|', 'xor': 'xor', 'mod': 'mod', 'shl': '<<', 'shr': '>>'}
    for _ in range(350 if quick else 6000):
        a, b = r.choice(vals), r.choice(vals)
        op = r.choice(['and', 'or', 'xor', 'mod'])
        if op == 'mod' and r.random() < 0.5:
            b = r.choice([1, 2, 3, 4, 7, 10, 64, W - 1, W, W + 1, (1 << 128) - 1])
        add(op, '(%s) ' + sym[op] + ' (%s)', [r.choice(forms(a, r)), r.choice(forms(b, r))], [a, b])
        k = r.choice([0, 1, 63, 64, 65, 127, 128, 129, 200]) if r.random() < 0.5 else r.randint(0, 600)
        op = r.choice(['shl', 'shr'])
        add(op, '(%s) ' + sym[op] + ' (%s)', [r.choice(forms(a, r)), r.choice(forms(k, r))], [a, k])
    # domain errors through the public interface
    bad = ['-3', '2.5', '(1/3)', '(-1/2)', '2i', '(1+i)', 'pi', '(2 pi)', '(-0.5)']
    for b in bad:
        for fmt, op in (('(%s)!', 'factorial'), ('fib (%s)', 'fibonacci'), ('(%s) & 3', 'and'), ('3 | (%s)', 'or'), ('(%s) xor 1', 'xor'),
                        ('1 << (%s)', 'shl'), ('(%s) >> 1', 'shr'), ('(%s) mod 3', 'mod'), ('7 mod (%s)', 'mod'), ('(%s) nCr 1', 'ncr'),
                        ('5 nCr (%s)', 'ncr'), ('(%s) nPr 1', 'npr'), ('5 nPr (%s)', 'npr')):
            if op == 'mod' and b == '-3':
                continue        # -3 mod 3 = 0 would also be a correct answer
            cases.append(('domain', fmt % b, [b], None))
    for e in ['7 mod 0', '0 mod 0', '(2^64) mod 0', '1 << (2^64)', '1 << (2^64 + 3)']:
        cases.append(('domain', e, [], None))
    # floor / ceil / round
    for x in near_integers(r, quick):
        if x.denominator.bit_length() > 1500 or abs(x.numerator).bit_length() > 1500:
            continue
        for mode in MODES:
            if quick and r.random() < 0.5:
                continue
            txt = '(%d/%d)' % (x.numerator, x.denominator) if x.denominator != 1 else '(%d)' % x.numerator
            cases.append((mode, '%s %s' % (mode, txt), [txt], [x]))
    for e, want in [('floor(10^20+0.5)', 10 ** 20), ('floor(3 - 10^-30)', 2), ('ceil(3 + 10^-30)', 4), ('round(0.5 - 10^-30)', 0), ('round(2.5)', 3),
                    ('round(-2.5)', -3), ('floor(-3.1)', -4), ('ceil(-3.3)', -3), ('floor(3.9)', 3), ('round(3.5)', 4), ('floor(pi)', 3), ('ceil(pi)', 4),
                    ('round(10 pi)', 31), ('floor(2i)', None), ('round(1+i)', None)]:
        arg = e[e.index('('):]
        cases.append(('round-expr', e, [arg], want))
    lines = [sx([Sym('eval'), e]) for _, e, _, _ in cases]
    impl = run_impl(c, lines)
    # raw representations of the evaluated arguments, for the model and the classifier
    argset = sorted({a for op, _, args, vals in cases if (vals is not None and op != 'round-expr') or op == 'domain' for a in args} |
                    {args[0] for op, _, args, vals in cases if op == 'round-expr'})
    raws = dict(zip(argset, run_impl(c, [sx([Sym('eval-raw'), a]) for a in argset])))
    def raw_of(a):
        p = impl_out(raws.get(a, ''))
        return [p[1], p[2], p[3]] if p[0] == 'rat' else None
    ml, mi = [], []
    kl, ki = [], []
    for k, (op, e, args, vals) in enumerate(cases):
        rr = [raw_of(a) for a in args]
        if vals is None and op != 'round-expr' or any(x is None for x in rr):
            continue
        if op in ('ncr', 'npr') and vals[0] > 80:
            continue
        if op in BINOPS:
            ml.append(sx([Sym('q-bin'), BINOPS[op], rr[0], rr[1]])); mi.append(k)
        elif op == 'factorial':
            ml.append(sx([Sym('q-fact'), rr[0]])); mi.append(k)
        elif op == 'fibonacci':
            ml.append(sx([Sym('q-fib'), rr[0]])); mi.append(k)
        elif op in MODES or op == 'round-expr':
            mode = op if op in MODES else e[:e.index('(')].strip()
            ml.append(sx([Sym('q-round'), MODES[mode], rr[0]])); mi.append(k)
    model = dict(zip(mi, c.model('intfns', ml)))
    mline = dict(zip(mi, ml))
    for k, ((op, e, args, vals), io, line) in enumerate(zip(cases, impl, lines)):
        i = impl_out(io)
        big = vals is not None and op != 'round-expr' and any(abs(v) >= W or v.denominator != 1 for v in vals)
        c.note_case(line, op == 'domain' or big or '2^' in e or op in ('ncr', 'npr') and vals[0] > 20, 'L2-' + op)
        got = parse_int_text(i[1]) if i[0] == 'ok' else None
        if got is None and i[0] == 'ok' and 'pi' in e and isinstance(i[1], str) and i[1].startswith('approx. '):
            # since fix 05b3863 floor/ceil/round of a multiple of pi are (rightly) flagged
            # approximate: the marker is C03's subject, C10 judges the integer
            got = parse_int_text(i[1][len('approx. '):])
        if i[0] == 'crash':
            viol(c, 'evaluate-crashed', {'kind': 'impl-crash', 'layer': 'L2', 'expr': e, 'impl': io[:300]})
            continue
        if op == 'domain':
            if i[0] != 'err':
                viol(c, 'domain-error-missing', {'kind': 'impl-vs-spec', 'layer': 'L2', 'expr': e, 'impl': io[:300], 'expected': 'an error'})
            continue
        if op in MODES or op == 'round-expr':
            want = spec_round(op, vals[0]) if op in MODES else vals
            if want is None:
                if i[0] != 'err':
                    viol(c, 'domain-error-missing', {'kind': 'impl-vs-spec', 'layer': 'L2', 'expr': e, 'impl': io[:300], 'expected': 'an error'})
                continue
            m = model_out(model.get(k, ''))
            same = None
            if m[0] == 'ok' and got is not None and m[1][2]:
                same = Fraction(-m[1][1] if m[1][0] else m[1][1], m[1][2]) == got
            if got != want:
                viol(c, 'round-wrong', {'kind': 'impl-vs-spec', 'layer': 'L2', 'expr': e, 'impl': io[:300], 'expected': str(want), 'model_line': mline.get(k)})
            elif same is False:
                viol(c, 'round-model-drift', {'kind': 'impl-vs-model', 'layer': 'L2', 'expr': e, 'impl': io[:300], 'model_line': mline.get(k), 'model': model.get(k)}, no_input=True)
            continue
        # integer-valued operations
        if op == 'factorial':
            sp = ('int', math.factorial(int(vals[0])))
        elif op == 'fibonacci':
            sp = ('int', fib(int(vals[0])))
        else:
            sp = spec_binary(op, vals[0], vals[1])
        if sp[0] == 'int':
            good = got == sp[1]
        elif sp[0] == 'err':
            good = i[0] == 'err'
        else:
            good = (i[0] == 'err' and 'err' in sp[1]) or (got is not None and got in sp[1])
        if not good:
            viol(c, op + '-wrong', {'kind': 'impl-vs-spec', 'layer': 'L2', 'expr': e, 'impl': io[:400], 'expected': repr(sp)[:400], 'model_line': mline.get(k)})
            continue
        m = model_out(model.get(k, ''))
        if k in model:
            if i[0] == 'err':
                same = m[0] == 'err'
            elif m[0] == 'ok' and isinstance(m[1], list):
                same = m[1][2] != 0 and Fraction(-m[1][1] if m[1][0] else m[1][1], m[1][2]) == got
            elif m[0] == 'ok':
                same = m[1] == got
            else:
                same = False
            if not same:
                viol(c, op + '-model-drift', {'kind': 'impl-vs-model', 'layer': 'L2', 'expr': e, 'impl': io[:300], 'model_line': mline.get(k), 'model': model.get(k, '')[:300]}, no_input=True)
    # Coq's own specifications on small arguments, against the implementation
    sl = [sx([Sym('spec-fact'), n]) for n in range(0, 26)] + [sx([Sym('spec-fib'), n]) for n in range(0, 24)] + \
         [sx([Sym('spec-binom'), n, k]) for n in range(0, 13) for k in range(0, n + 1)]
    el = ['%d!' % n for n in range(0, 26)] + ['fib %d' % n for n in range(0, 24)] + ['%d nCr %d' % (n, k) for n in range(0, 13) for k in range(0, n + 1)]
    so = c.model('intfns', sl)
    eo = c.impl('intfns', [sx([Sym('eval'), e]) for e in el])
    for s, e, o in zip(so, el, eo):
        i = impl_out(o)
        if not (i[0] == 'ok' and model_out(s) == ('val', parse_int_text(i[1]))):
            viol(c, 'coq-spec-mismatch', {'kind': 'impl-vs-spec', 'layer': 'L2', 'expr': e, 'impl': o[:200], 'coq_spec': s[:200]})
    c.sample({'layer': 'L2', 'expr': cases[40][1][:160], 'impl': impl[40][:160]})


# ---------------------------------------------------------------- L2: arguments carrying units

SCALED = [('(%s dozen)', Fraction(12)), ('(%s%%)', Fraction(1, 100)), ('(%s hundred)', Fraction(100)), ('(%s thousand)', Fraction(1000)),
          ('(%s k)', Fraction(1000)), ('(%s byte / bit)', Fraction(8)), ('(%s m / cm)', Fraction(100)), ('(%s kg / (2 kg))', Fraction(1, 2)),
          ('(%s dozen / dozen)', Fraction(1)), ('(%s percent)', Fraction(1, 100))]
DIMENSIONED = ['(%s kg)', '(%s m)', '(%s s^-1)', '(%s kg / m)', '(%s bytes)']

def coef_text(cf, allow_frac=True):
    if cf.denominator == 1:
        return str(cf.numerator) if cf >= 0 else '(%d)' % cf.numerator
    if 1000 % cf.denominator == 0:
        t = '%.3f' % float(cf)
        t = t.rstrip('0')
        return t if cf >= 0 else '(%s)' % t
    return '(%d/%d)' % (cf.numerator, cf.denominator) if allow_frac else None

def unit_args(r, want_small=True):
    """(text, value or None for a dimensioned quantity, coefficient, scale or None)"""
    coefs = [Fraction(x) for x in (0, 1, 2, 3, 4, 5, 6, 7, 10, 12, 25, 50, 100, 300)] + \
            [Fraction(1, 2), Fraction(3, 2), Fraction(5, 4), Fraction(5, 2), Fraction(7, 3), Fraction(5, 6), Fraction(1, 3), Fraction(-3), Fraction(-5, 2)]
    cf = r.choice(coefs)
    if r.random() < 0.75:
        fmt, sc = r.choice(SCALED)
        t = coef_text(cf, allow_frac='%%' not in fmt and 'percent' not in fmt)
        if t is None:
            t, cf = '3', Fraction(3)
        return (fmt % t, cf * sc, cf, sc)
    fmt = r.choice(DIMENSIONED)
    return (fmt % coef_text(cf), None, cf, None)

def l2_units(c, r, quick):
    """every integer-domain function on arguments that carry a dimensionless scaled unit (the function must
    see the scaled value), a dimensioned unit (domain error; floor/ceil/round keep the unit), also through a
    variable"""
    cases = []     # (op, expr, kind, payload)
    def wrap(expr_fmt, args):
        """optionally route the unit-carrying arguments through variables"""
        if r.random() < 0.35:
            names = ['x', 'y'][:len(args)]
            return '; '.join('%s = %s' % (n, a) for n, a in zip(names, args)) + '; ' + expr_fmt % tuple(names)
        return expr_fmt % tuple(args)
    plain = lambda v: ('(%d)' % v, Fraction(v), Fraction(v), Fraction(1))
    n = 700 if quick else 12000
    for _ in range(n):
        kind = r.choice(['factorial', 'fibonacci', 'words', 'roman', 'char', 'round', 'bin', 'bin', 'bin'])
        a = unit_args(r)
        if kind == 'bin':
            op = r.choice(['and', 'or', 'xor', 'shl', 'shr', 'mod', 'ncr', 'npr'])
            b = unit_args(r) if r.random() < 0.5 else plain(r.choice([0, 1, 2, 3, 5, 12]))
            if r.random() < 0.3:
                a, b = b, a
            va, vb = a[1], b[1]
            if va is not None and vb is not None:
                if op == 'shl' and is_nat(vb) and vb > 2000:
                    continue
                if op in ('ncr', 'npr') and is_nat(va) and va > 400:
                    continue
                if op in ('ncr', 'npr') and is_nat(vb) and vb > 2000:
                    continue
                if op in ('ncr', 'npr') and va.denominator == 1 and vb.denominator == 1 and va - vb > 2000:
                    continue
            sym = {'and': '&', 'or': '|', 'xor': 'xor', 'mod': 'mod', 'shl': '<<', 'shr': '>>', 'ncr': 'nCr', 'npr': 'nPr'}[op]
            cases.append((op, wrap('%s ' + sym + ' %s', [a[0], b[0]]), 'bin', (a, b)))
            continue
        v = a[1]
        if v is not None and is_nat(v):
            if kind == 'factorial' and v > 400:
                continue
            if kind == 'fibonacci' and v > 20000:
                continue
        if kind == 'round':
            mode = r.choice(list(MODES))
            cases.append((mode, wrap(mode + ' %s', [a[0]]), 'round', a))
        else:
            fmt = {'factorial': '%s!', 'fibonacci': 'fib %s', 'words': '%s to words', 'roman': '%s to roman', 'char': '%s to char'}[kind]
            cases.append((kind, wrap(fmt, [a[0]]), 'un', a))
    lines = [sx([Sym('eval'), e]) for _, e, _, _ in cases]
    impl = run_impl(c, lines)
    # rounding: the model of Value::floor (coefficient rounded, unit kept) and the Coq classifier
    ridx = [k for k, cs in enumerate(cases) if cs[2] == 'round' and cs[3][1] is not None]
    def frat(x):
        return rat(x < 0, canon(abs(x.numerator)), canon(x.denominator))
    um = dict(zip(ridx, c.model('intfns', [sx([Sym('u-round'), MODES[cases[k][0]], frat(cases[k][3][2]), frat(cases[k][3][3])]) for k in ridx])))
    uk = dict(zip(ridx, c.model('intfns', [sx([Sym('known-round-unit'), frat(cases[k][3][3])]) for k in ridx])))
    shown = 0
    for k, ((op, e, kind, pay), io, line) in enumerate(zip(cases, impl, lines)):
        i = impl_out(io)
        c.note_case(line, True, 'L2u-' + op)
        if i[0] == 'crash':
            viol(c, 'evaluate-crashed', {'kind': 'impl-crash', 'layer': 'L2', 'expr': e, 'impl': io[:300]})
            continue
        if kind == 'bin':
            a, b = pay
            if a[1] is None or b[1] is None:
                sp = ('err',)
            else:
                sp = spec_binary(op, a[1], b[1])
            got = parse_int_text(i[1]) if i[0] == 'ok' else None
            if sp[0] == 'int':
                good = got == sp[1]
            elif sp[0] == 'err':
                good = i[0] == 'err'
            else:
                good = (i[0] == 'err' and 'err' in sp[1]) or (got is not None and got in sp[1])
        elif kind == 'un':
            v = pay[1]
            if v is None or not is_nat(v):
                good = i[0] == 'err'
                sp = ('err',)
            elif op == 'factorial':
                sp = ('int', math.factorial(int(v))); good = i[0] == 'ok' and parse_int_text(i[1]) == sp[1]
            elif op == 'fibonacci':
                sp = ('int', fib(int(v))); good = i[0] == 'ok' and parse_int_text(i[1]) == sp[1]
            elif op == 'words':
                sp = ('text', py_words(int(v))); good = i == ('ok', sp[1])
            elif op == 'roman':
                sp = ('text', py_roman(int(v))) if 1 <= v <= 10 ** 9 else ('err',)
                good = i == ('ok', sp[1]) if sp[0] == 'text' else i[0] == 'err'
            else:
                sp = ('text', chr(int(v))) if is_scalar(int(v)) else ('err',)
                good = i == ('ok', sp[1]) if sp[0] == 'text' else i[0] == 'err'
        else:
            a = pay
            if a[1] is None:
                # a dimensioned quantity: the unit is kept, the coefficient rounded
                sp = ('coefficient', spec_round(op, a[2]))
                good = i[0] == 'ok' and parse_int_text(i[1].split(' ')[0]) == sp[1] and ' ' in i[1]
            else:
                want = spec_round(op, a[1])
                sp = ('int', want)
                got = None
                if i[0] == 'ok':
                    t = i[1].strip()
                    pct = t.endswith('%') or t.endswith(' percent')
                    pv = parse_int_text(t[:-1] if t.endswith('%') else t[:-len(' percent')]) if pct else parse_int_text(t)
                    if pv is not None:
                        got = Fraction(pv, 100) if pct else Fraction(pv)
                good = got == want
                if not good and got is not None:
                    m = model_out(um.get(k, ''))
                    in_class = model_out(uk.get(k, '')) == ('val', 1)
                    same = m[0] == 'ok' and m[1][2] and Fraction(-m[1][1] if m[1][0] else m[1][1], m[1][2]) == got
                    if in_class and same and c.known_finding('round_unit_scale'):
                        if shown < 2:
                            c.sample({'layer': 'L2', 'known': 'round_unit_scale', 'expr': e, 'impl': i[1], 'exact': str(want)})
                            shown += 1
                        continue
        if not good:
            viol(c, 'unit-argument-' + op + '-wrong', {'kind': 'impl-vs-spec', 'layer': 'L2', 'expr': e, 'impl': io[:300], 'expected': repr(sp)[:300]})
    c.sample({'layer': 'L2', 'expr': cases[5][1], 'impl': impl[5][:120]})


def lit_char(cp):
    """a fend string literal holding exactly the scalar cp"""
    ch = chr(cp)
    if cp < 0x20 or cp == 0x7f or ch in '"\\':
        return '"\\u{%x}"' % cp
    return '"' + ch + '"'

def l2_text(c, r, quick):
    # ---------------- words
    wvals = [0, 1, 9, 10, 11, 12, 13, 14, 15, 16, 17, 18, 19, 20, 21, 30, 40, 50, 60, 70, 80, 90, 99, 100, 101, 110, 111, 115, 119, 120, 121,
             199, 200, 900, 990, 999, 1000, 1001, 1011, 1100, 1999, 10 ** 66 - 1]
    for k in range(1, 23):
        wvals += [10 ** (3 * k) - 1, 10 ** (3 * k), 10 ** (3 * k) + 1, 15 * 10 ** (3 * k - 1)]
    for _ in range(150 if quick else 3000):
        wvals.append(r.randint(0, 10 ** r.randint(1, 66) - 1))
    wexprs = [(r.choice(forms(v, r)) if v < 10 ** 60 and r.random() < 0.3 else str(v), v) for v in wvals]
    bad = ['10^66', '10^66 + 1', '10^70', '-3', '1.5', '(1/3)', '2i', 'pi']
    lines = [sx([Sym('eval'), '(%s) to words' % e]) for e, _ in wexprs] + [sx([Sym('eval'), '(%s) to words' % e]) for e in bad]
    impl = run_impl(c, lines)
    texts = []
    for (e, v), io, line in zip(wexprs, impl, lines):
        i = impl_out(io)
        c.note_case(line, v >= 1000, 'L2-words')
        if v >= 10 ** 66:
            if i[0] != 'err':
                viol(c, 'domain-error-missing', {'kind': 'impl-vs-spec', 'layer': 'L2', 'expr': '(%s) to words' % e, 'impl': io[:300], 'expected': 'an error'})
        elif not (i[0] == 'ok' and i[1] == py_words(v)):
            viol(c, 'words-wrong', {'kind': 'impl-vs-spec', 'layer': 'L2', 'expr': '(%s) to words' % e, 'impl': io[:400], 'expected': py_words(v)})
        elif i[0] == 'ok':
            texts.append((v, i[1]))
    for e, io in zip(bad, impl[len(wexprs):]):
        c.note_case('words-bad-' + e, True, 'L2-words-domain')
        if impl_out(io)[0] != 'err':
            viol(c, 'domain-error-missing', {'kind': 'impl-vs-spec', 'layer': 'L2', 'expr': '(%s) to words' % e, 'impl': io[:300], 'expected': 'an error'})
    pw = c.model('intfns', [sx([Sym('parse-words'), t]) for _, t in texts])
    mw = c.model('intfns', [sx([Sym('words'), v]) for v, _ in texts])
    for (v, t), p, m in zip(texts, pw, mw):
        if model_out(p) != ('opt', v):
            viol(c, 'words-not-readable-back', {'kind': 'impl-vs-spec', 'layer': 'L2', 'value': str(v), 'impl_text': t, 'coq_parse_words': p})
        if model_out(m) != ('ok', t.encode()):
            viol(c, 'words-model-drift', {'kind': 'impl-vs-model', 'layer': 'L2', 'value': str(v), 'impl_text': t, 'model': m[:300]}, no_input=True)
    # ---------------- roman
    rvals = list(range(1, 4001))
    rvals += [4001, 4999, 5000, 5001, 5999, 6000, 8999, 9000, 9999, 10000, 10001, 20002, 39999, 40000, 49999, 50000, 89999, 90000, 99999, 100000,
              399999, 400000, 499999, 500000, 899999, 900000, 999999, 1000000, 1000001, 3999999, 4000000, 4000001, 10 ** 9 - 1, 10 ** 9, 123456789, 987654321]
    rvals += [r.randint(4000, 10 ** 9) for _ in range(300 if quick else 50000)]
    if not quick:
        rvals += list(range(4001, 20000))
    rbad = ['0', '10^9 + 1', '10^12', '2^64', '2^64 + 1', '-1', '1.5', '(7/2)', '2i', 'pi']
    lines = [sx([Sym('eval'), '%d to roman' % v]) for v in rvals] + [sx([Sym('eval'), '(%s) to roman' % e]) for e in rbad]
    impl = run_impl(c, lines)
    ok_texts = []
    for v, io, line in zip(rvals, impl, lines):
        i = impl_out(io)
        c.note_case(line, v >= 4, 'L2-roman')
        good = i[0] == 'ok' and py_roman_value(i[1]) == v and i[1] == py_roman(v)
        if not good:
            viol(c, 'roman-wrong', {'kind': 'impl-vs-spec', 'layer': 'L2', 'expr': '%d to roman' % v, 'impl': io[:300],
                                    'expected': py_roman(v)[:300], 'value_read_back': py_roman_value(i[1]) if i[0] == 'ok' else None})
        else:
            ok_texts.append((v, i[1]))
    for e, io in zip(rbad, impl[len(rvals):]):
        c.note_case('roman-bad-' + e, True, 'L2-roman-domain')
        if impl_out(io)[0] != 'err':
            viol(c, 'domain-error-missing', {'kind': 'impl-vs-spec', 'layer': 'L2', 'expr': '(%s) to roman' % e, 'impl': io[:300], 'expected': 'an error'})
    sample = ok_texts if len(ok_texts) < 6000 else ok_texts[:4100] + r.sample(ok_texts[4100:], 1500)
    rv = c.model('intfns', [sx([Sym('roman-value'), [ord(ch) for ch in t]]) for _, t in sample])
    rm = c.model('intfns', [sx([Sym('roman'), v]) for v, _ in sample])
    for (v, t), p, m in zip(sample, rv, rm):
        if model_out(p) != ('opt', v):
            viol(c, 'roman-value-mismatch', {'kind': 'impl-vs-spec', 'layer': 'L2', 'value': v, 'impl_text': t, 'coq_roman_value': p})
        if model_out(m) != ('ok', [ord(ch) for ch in t]):
            viol(c, 'roman-model-drift', {'kind': 'impl-vs-model', 'layer': 'L2', 'value': v, 'impl_text': t, 'model': m[:300]}, no_input=True)
    # ---------------- char / codepoint
    boundary = [0, 1, 9, 10, 13, 0x1f, 0x20, 0x21, 0x22, 0x27, 0x41, 0x5c, 0x7e, 0x7f, 0x80, 0xa0, 0xff, 0x100, 0x7ff, 0x800, 0xfff, 0x1000, 0x2028, 0x2029,
                0xd7fe, 0xd7ff, 0xd800, 0xd801, 0xdbff, 0xdc00, 0xdfff, 0xe000, 0xe001, 0xfeff, 0xfffd, 0xfffe, 0xffff, 0x10000, 0x10001, 0x1d54a, 0x1f600,
                0xfffff, 0x100000, 0x10fffe, 0x10ffff, 0x110000, 0x110001, 0x1fffff, 0x7fffffff, 0x80000000, 0xffffffff, 0x100000000, W - 1, W, W + 65]
    cps = list(boundary)
    if quick:
        cps += [r.randint(0, 0x10ffff) for _ in range(400)] + [r.randint(0, 0x2ff) for _ in range(100)]
    else:
        cps = sorted(set(cps) | set(range(0, 0x110000)))
    clines = [sx([Sym('eval'), '%s to char' % (hex(v) if r.random() < 0.5 else str(v))]) for v in cps]
    scal = [v for v in cps if is_scalar(v)]
    plines = [sx([Sym('eval'), '%s to codepoint' % lit_char(v)]) for v in scal]
    extra = [('"" to codepoint', None), ('"ab" to codepoint', None), ('"\\u{e9}\\u{301}" to codepoint', None), ('5 to codepoint', None),
             ('"a" to char', None), ('1.5 to char', None), ('-1 to char', None), ('(130/2) to char', 'A'), ('((2^64+66)-2^64) to character', 'B'),
             ('2i to char', None), ('pi to char', None)]
    elines = [sx([Sym('eval'), e]) for e, _ in extra]
    prof = 'debug' if quick else 'release'
    impl_c = run_impl(c, clines, profile=prof)
    impl_p = run_impl(c, plines, profile=prof)
    impl_e = run_impl(c, elines, profile=prof)
    for v, io, line in zip(cps, impl_c, clines):
        i = impl_out(io)
        c.note_case('ch%x' % v, v > 0x7f, 'L2-char')
        good = (i[0] == 'ok' and i[1] == chr(v)) if is_scalar(v) else i[0] == 'err'
        if not good:
            viol(c, 'char-wrong', {'kind': 'impl-vs-spec', 'layer': 'L2', 'expr': parse_sx(line)[1].decode(), 'impl': io[:200],
                                   'expected': 'U+%x' % v if is_scalar(v) else 'an error'})
    for v, io, line in zip(scal, impl_p, plines):
        i = impl_out(io)
        c.note_case('cp%x' % v, v > 0x7f, 'L2-codepoint')
        if not (i[0] == 'ok' and i[1] == '0x%x' % v):
            viol(c, 'codepoint-wrong', {'kind': 'impl-vs-spec', 'layer': 'L2', 'expr': '%s to codepoint' % lit_char(v), 'impl': io[:200], 'expected': '0x%x' % v})
    for (e, want), io in zip(extra, impl_e):
        i = impl_out(io)
        c.note_case('text-extra-' + e, True, 'L2-text-domain')
        good = i[0] == 'err' if want is None else i == ('ok', want)
        if not good:
            viol(c, 'char-codepoint-domain', {'kind': 'impl-vs-spec', 'layer': 'L2', 'expr': e, 'impl': io[:200], 'expected': want or 'an error'})
    # the model's char / codepoint on the same scalars (sampled in thorough tier)
    ms = cps if quick else boundary + r.sample(cps, 20000)
    mo = c.model('intfns', [sx([Sym('char'), v]) for v in ms])
    for v, o in zip(ms, mo):
        want = ('ok', [v]) if is_scalar(v) else ('err', 5)
        if model_out(o) != want:
            viol(c, 'char-model-wrong', {'kind': 'model-vs-spec', 'layer': 'model', 'value': v, 'model': o}, no_input=True)
    c.sample({'layer': 'L2', 'expr': '20002 to roman', 'impl': next((t for v, t in ok_texts if v == 20002), '?')})


def witnesses(c):
    """the witnesses of the repaired defects stay in the corpus: a regression is a VIOLATION"""
    import glob, os, vlib
    for f in sorted(glob.glob(os.path.join(vlib.ROOT, 'corpus', 'C10', 'witness_*.json'))):
        w = json.load(open(f))
        outs = run_impl(c, [sx([Sym('eval'), e]) for e in w['exprs']])
        for e, want, o in zip(w['exprs'], w['expected'], outs):
            i = impl_out(o)
            c.note_case('witness-' + e, True, 'L2-witness')
            good = i[0] == 'err' if want == 'ERROR' else i == ('ok', want)
            if not good:
                viol(c, 'regression-of-fixed-finding', {'kind': 'impl-vs-spec', 'layer': 'L2', 'witness_file': os.path.basename(f), 'finding': w.get('name'),
                                                        'expr': e, 'impl': o[:300], 'expected': want[:300]})


def replay(c, obj):
    print(json.dumps(obj, indent=1)[:4000])
    if obj.get('impl_line'):
        print('impl :', c.impl('intfns', [obj['impl_line']], timeout=120)[0][:2000])
    if obj.get('expr'):
        print('impl :', c.impl('intfns', [sx([Sym('eval'), obj['expr']])], timeout=120)[0][:2000])
    if obj.get('exprs'):
        for e, o in zip(obj['exprs'], c.impl('intfns', [sx([Sym('eval'), e]) for e in obj['exprs']], timeout=120)):
            print('impl :', e, '->', o[:300])
    if obj.get('model_line'):
        print('model:', c.model('intfns', [obj['model_line']], cross=False)[0][:2000])
    return 0
