"""Input corpora shared by several checks: the inputs of the pinned test-suite
(extracted from /repo/core/tests/integration_tests.rs on every run) and the
examples of the manual (/repo/documentation/chapters/*.md)."""
import os, re

import vlib
REPO = vlib.REPO

def rust_unescape(s):
    out = []
    i = 0
    while i < len(s):
        c = s[i]
        if c != '\\':
            out.append(c); i += 1; continue
        n = s[i + 1] if i + 1 < len(s) else ''
        if n == 'n': out.append('\n'); i += 2
        elif n == 't': out.append('\t'); i += 2
        elif n == 'r': out.append('\r'); i += 2
        elif n == '0': out.append('\0'); i += 2
        elif n == '\\': out.append('\\'); i += 2
        elif n == '"': out.append('"'); i += 2
        elif n == "'": out.append("'"); i += 2
        elif n == 'x':
            out.append(chr(int(s[i + 2:i + 4], 16))); i += 4
        elif n == 'u':
            j = s.index('}', i)
            out.append(chr(int(s[i + 3:j], 16))); i = j + 1
        elif n == '\n':
            i += 2
            while i < len(s) and s[i] in ' \t\n':
                i += 1
        else:
            out.append(n); i += 2
    return ''.join(out)

def suite_inputs():
    """first string argument of every test helper call in the integration tests"""
    p = os.path.join(REPO, 'core', 'tests', 'integration_tests.rs')
    src = open(p, encoding='utf-8').read()
    res = []
    seen = set()
    for m in re.finditer(r'\b(test_eval|test_eval_simple|expect_error|evaluate|test_eval_comma|assert_err_msg|expect_error_simple)\(\s*"((?:[^"\\]|\\.)*)"', src, re.S):
        try:
            t = rust_unescape(m.group(2))
        except Exception:
            continue
        if t not in seen and len(t) < 600:
            seen.add(t); res.append(t)
    # raw strings r"..." / r#"..."#
    for m in re.finditer(r'\b(test_eval|test_eval_simple|expect_error)\(\s*r(#*)"(.*?)"\2', src, re.S):
        t = m.group(3)
        if t not in seen and len(t) < 600:
            seen.add(t); res.append(t)
    return res

def manual_examples():
    d = os.path.join(REPO, 'documentation', 'chapters')
    res = []
    seen = set()
    if not os.path.isdir(d):
        return res
    for fn in sorted(os.listdir(d)):
        if not fn.endswith('.md'):
            continue
        for line in open(os.path.join(d, fn), encoding='utf-8'):
            m = re.match(r'^> (.*)$', line.rstrip('\n'))
            if m and m.group(1) not in seen and len(m.group(1)) < 400:
                seen.add(m.group(1)); res.append(m.group(1))
    return res

TOKENS = ['0', '1', '2', '3', '10', '255', '1.5', '.5', '1e3', '1e-3', '0x1f', '0b101', '0o17', '16#ff', '36#zz', '1.(3)', '0.1(6)', '1_000', '1,000',
          '18446744073709551616', '340282366920938463463374607431768211456', '1/3', 'pi', 'e', 'i', 'tau', 'x', 'y', 'f', 'a_b',
          '+', '-', '*', '/', '^', '**', '!', '%', '(', ')', '[', ']', '{', '}', '=', '==', '!=', '<<', '>>', '&', '|', 'xor', 'and', 'or',
          'mod', 'per', 'nCr', 'nPr', 'choose', 'permute', 'to', 'as', 'in', 'of', ';', ':', '=>', '\\', '.', ',', '@', '#', "'", '"', '`',
          'kg', 'm', 's', 'km', 'mm', 'inch', 'ft', 'mile', 'lb', 'oz', 'K', 'C', 'F', '°C', '°F', 'kelvin', 'celsius', 'hour', 'day', 'days',
          'week', 'month', 'year', 'USD', 'EUR', 'GBP', '$', '€', 'bit', 'byte', 'KiB', 'GB', 'rad', 'deg', '°', 'percent', 'dozen', 'sqm', 'sqft', 'm2', 'cm3',
          'sin', 'cos', 'tan', 'asin', 'ln', 'log2', 'log10', 'exp', 'sqrt', 'cbrt', 'abs', 'floor', 'ceil', 'round', 'fib', 'not', 'conjugate', 'real', 'imag',
          'arg', 'mean', 'average', 'roll', 'sample', 'd6', '2d6', 'd20', 'true', 'false', 'differentiate', 'dp', 'sf', 'fraction', 'float', 'exact', 'auto',
          'mixed_fraction', 'base', 'binary', 'hex', 'octal', 'decimal', 'words', 'roman', 'char', 'codepoint', 'string', 'bool', 'date', 'today', 'now',
          '@2000-01-01', '@1999-12-31', '@2024-02-29', '@1000-01-01', '@9999-12-31', 'day_of_week', '@noapprox', '@plain_number', '@debug', '@no_trailing_newline',
          'ans', '_', '²', '³', '⁻¹', '½', '¼', '⅓', '‰', 'π', 'τ', '√', '×', '÷', '−', '≠', 'µm', 'Ω', '‱', '\t', '\n', '  ', '"abc"', "'a'", '"\\n"', '"\\u{41}"',
          '#"raw"#', '# comment', '#!shebang', '1 1/2', '5\'', '5"', '0°', 'λ', 'x:', '\\x.', 'x=>x', '[[', ']]', 'unitless', 'cis', 'log', 'is_unitless']
