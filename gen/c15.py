"""C15 -- elementary functions are accurate, flagged, and exact at special points.

Proof: coq/Properties/C15.v (special points over the classical reals, flags,
the rational used for pi, the f64 bridge, the conditional accuracy theorem and
the refutations).

Tie:
  L1  fend_core::verif_hooks::elem (BigRat::into_f64 / from_f64, Real::sin cos
      asin ... exp, BigRat::pow, Real::pow, the rational Real::approximate uses
      for pi) against the extracted model coq/Elem/{Bridge,Model}.v.  libm is
      an oracle: the model lists the f64 inputs it would hand to libm
      (`queries`), the harness answers them with the platform libm, and the
      model is then run with that table.
  L2  fend_core::evaluate: `@debug f(x)` (exact rational + flag) against the
      model, and `f(x) to 15 dp` against the *true real function*: every
      sampled value is certified individually by Coq's `interval` tactic in
      generated files .cache/points/C15/points_*.v (lemmas of the shape
      Rabs (f x - r) <= eps, Qed-closed).  These are certified test oracles
      for the sampled points -- not the universal accuracy theorem, which is
      conditional (C15_accuracy_partial).
"""
import json, math, cmath, os, re, shutil, time
from fractions import Fraction
from concurrent.futures import ThreadPoolExecutor
from vlib import sx, Sym, parse_sx, try_parse, sh, COQ, CACHE, NPROC, REPO, ROOT

TRUSTED_BASE = [
    'Coq 8.16.1 kernel + vm_compute; Coq Reals, Coquelicot, Interval 4 (tactic `interval`, used for pi/e accuracy, the refutation witnesses and every generated reference point), Flocq (dependency of Interval)',
    'classical-reals axioms of the standard library (sig_not_dec, sig_forall_dec, functional_extensionality_dep; classic if pulled in), allow-listed for C15 only',
    'extraction ExtrOcamlBasic -> OCaml 4.13.1 of the rational/soft-float part only (coq/Elem/{Bridge,Model,Run}.v), modelrun/driver.ml; cross-checked against vm_compute on a sample',
    'harness/src/bin/h_elem.rs and ' + REPO + '/core/src/verif_hooks/elem.rs (raw sign/num/den in and out through the existing (de)serialisers); decimal <-> limb conversion in the harness',
    'libm of the platform (f64::sin ... as Rust links it): an oracle, assumed <= 1 ulp only in the conditional theorem C15_accuracy_partial; its answers are data for the model, never computed by it',
    'IEEE-754 binary64 semantics of Rust `as f64`, + * /, and the saturating `as u128` cast (modelled by the soft-float in coq/Elem/Bridge.v, tied bit-for-bit at L1)',
    'gen/c15.py: sample generation, parsing of fend output, translation of each sample to a Coq real expression (the generated lemma statements are part of the evidence: .cache/points/C15/)',
    'hand-written model tied to core/src/num/{real,bigrat,biguint}.rs only by this differential run; complex.rs formulas are not modelled (their results are checked against the certified points only)',
]
ASSUMPTIONS = [
    'C15_accuracy_partial / _cos / _atan: libm within 2^-52 of the real function at the consulted point (finite, below 2^64), and into_f64 within 2^-50 relative of its argument; the second hypothesis is a theorem (C15_into_f64_small_accurate) when the simplified numerator and denominator fit one 64-bit limb, and is established bit-exactly against the implementation at L1 on the sampled inputs otherwise',
    'the printed decimal (to 15 dp) is the value (formatting is C02/C03 territory); cross-checked against the @debug rational on every real-valued sample',
    'Rust f64::sin etc. are the platform libm called by the harness as well (same process image), so the oracle table handed to the model is what fend itself received',
]

FNAMES = ['sin', 'cos', 'asin', 'acos', 'atan', 'sinh', 'cosh', 'tanh', 'asinh', 'acosh', 'atanh', 'log2', 'ln', 'log10', 'exp']
LIBM_OF = {'cos': 'sin', 'ln': 'log2', 'log10': 'log2', 'tan': 'sin'}
ERRMAP = {  # FendError variant -> model err code
    'DivideByZero': 1, 'ZeroToThePowerOfZero': 2, 'ExponentTooLarge': 3, 'OutOfRange': 5,
    'RootsOfNegativeNumbers': 8, 'ValueTooLarge': 12,
}
TWO64 = 1 << 64

# ----------------------------------------------------------------------------
# small helpers

def trip(fr):
    fr = Fraction(fr)
    return [1 if fr < 0 else 0, abs(fr.numerator), fr.denominator]

def bits_of_float(x):
    import struct
    return struct.unpack('<Q', struct.pack('<d', x))[0]

def float_of_bits(b):
    import struct
    return struct.unpack('<d', struct.pack('<Q', b))[0]

def exact_of_bits(b):
    """exact rational value of a finite f64 bit pattern (None for inf/nan)"""
    s = b >> 63
    e = (b >> 52) & 0x7FF
    fr = b & ((1 << 52) - 1)
    if e == 0x7FF:
        return None
    if e == 0:
        v = Fraction(fr, 1 << 1074)
    else:
        v = Fraction((1 << 52) + fr) * (Fraction(2) ** (e - 1075))
    return -v if s else v

def parse_ok(o):
    p = try_parse(o)
    if isinstance(p, list) and p and p[0] == b'ok':
        return p[1:]
    return None

def parse_rat_result(o):
    """("ok" exact neg num den) -> ('ok', exact, Fraction); ("err" x) -> ('err', code)"""
    p = try_parse(o)
    if not isinstance(p, list) or not p:
        return ('bad', o)
    if p[0] == b'ok' and len(p) == 5:
        v = Fraction(p[3], p[4]) if p[4] else None
        return ('ok', p[1], -v if p[2] else v)
    if p[0] == b'err':
        k = p[1]
        if isinstance(k, bytes):
            k = ERRMAP.get(k.decode(), 'impl:' + k.decode())
        return ('err', k)
    return ('other', o)

def parse_real_result(o):
    p = try_parse(o)
    if not isinstance(p, list) or not p:
        return ('bad', o)
    if p[0] == b'ok' and len(p) == 6:
        v = Fraction(p[4], p[5]) if p[5] else None
        return ('ok', p[1], p[2], -v if p[3] else v)
    if p[0] == b'err':
        k = p[1]
        if isinstance(k, bytes):
            k = ERRMAP.get(k.decode(), 'impl:' + k.decode())
        return ('err', k)
    return ('other', o)

def big(s):
    s = s.strip()
    if s.startswith('['):
        v = 0
        for t in s[1:-1].split(','):
            v = v * TWO64 + int(t)
        return v
    return int(s)

DEBUG_RE = re.compile(r'^(approx\. )?(-?)(\[[0-9, ]+\]|\d+)(?:/(\[[0-9, ]+\]|\d+))? \(unitless\)')

def parse_debug(s):
    """`@debug expr` output of a real unitless value -> (approx, Fraction) or None"""
    m = DEBUG_RE.match(s)
    if not m:
        return None
    v = Fraction(big(m.group(3)), big(m.group(4)) if m.group(4) else 1)
    return (bool(m.group(1)), -v if m.group(2) else v)

NUM = r'\d+(?:\.\d+)?'
RE_AB = re.compile(r'^(-?%s)(?: ([+-]) (%s)?i)?$' % (NUM, NUM))
RE_B = re.compile(r'^(-?)(%s)?i$' % NUM)

def parse_value(s):
    """`expr to 15 dp` output -> (approx, re, im) as Fractions, or None"""
    approx = s.startswith('approx. ')
    body = s[8:] if approx else s
    m = RE_AB.match(body)
    if m:
        re_ = Fraction(m.group(1))
        im = Fraction(0)
        if m.group(2):
            im = Fraction(m.group(3)) if m.group(3) else Fraction(1)
            if m.group(2) == '-':
                im = -im
        return (approx, re_, im)
    m = RE_B.match(body)
    if m:
        im = Fraction(m.group(2)) if m.group(2) else Fraction(1)
        return (approx, Fraction(0), -im if m.group(1) else im)
    return None

def cq(fr):
    """Fraction -> Coq real literal"""
    fr = Fraction(fr)
    n, d = fr.numerator, fr.denominator
    if d == 1:
        return '(%d)' % n
    return '(%d / %d)' % (n, d)

def fx(neg, p, q):
    """fend source text of the rational with raw representation p/q"""
    t = str(p) if q == 1 else '(%d/%d)' % (p, q)
    return ('-' + t) if neg else t

# ----------------------------------------------------------------------------
# L1: the f64 bridge

def rand_big(r, bits):
    return r.getrandbits(bits) | (1 << (bits - 1)) if bits > 0 else 0

def gen_into_cases(c):
    r = c.rng
    cases = [(0, 0, 1), (0, 1, 3), (1, 7, 2), (0, 1, 1), (0, TWO64 - 1, 1), (0, TWO64, 1), (0, TWO64 + 1, 3),
             (0, (1 << 53) + 1, 1), (0, (1 << 54) + 2, 1), (0, (1 << 54) + 6, 1),      # ties
             (0, 10 ** 400 + 1, 10 ** 400), (0, 10 ** 400, 1), (0, 1, 10 ** 400), (1, 10 ** 308, 1),
             (0, (1 << 1024) - 1, 1), (0, 1 << 1024, 1), (0, (1 << 1024) - (1 << 970), 1), (0, (1 << 1024) - (1 << 969), 1),
             (0, 1, 1 << 1074), (0, 1, 1 << 1075), (0, 3, 1 << 1075), (0, 1, (1 << 1023) + 1), (0, 5, 1 << 1030),
             (0, 10 ** 18 + 1, 10 ** 18), (0, 99999999999999999, 10 ** 17), (0, 2 ** 64 + 2 ** 11, 1), (0, 2 ** 64 + 2 ** 11 + 1, 1),
             (0, 2 ** 128 + 2 ** 75, 1), (0, 2 ** 128 + 2 ** 75 + 1, 1), (0, 2 ** 128 - 1, 2 ** 64 - 1)]
    n = 1200 if c.tier == 'quick' else 20000
    for _ in range(n):
        k = r.random()
        if k < 0.35:
            nb, db = r.randint(1, 64), r.randint(1, 64)
        elif k < 0.7:
            nb, db = r.randint(1, 400), r.randint(1, 400)
        elif k < 0.9:
            nb, db = r.randint(900, 1100), r.randint(1, 1100)
        else:
            nb, db = r.randint(1, 2200), r.randint(1, 2200)
        nu = rand_big(r, nb)
        de = rand_big(r, db)
        if r.random() < 0.15:        # near-tie numerators
            nu = (nu >> 1 << 1) | 1
            nu <<= r.randint(0, 70)
        cases.append((r.randint(0, 1), nu, de))
    return cases

def check_into_f64(c):
    cases = gen_into_cases(c)
    lines = [sx([Sym('into-f64'), s, n, d]) for (s, n, d) in cases]
    impl = c.impl('elem', lines)
    model = c.model('elem', lines)
    nan_lines = [sx([Sym('known-overflow'), s, n, d]) for (s, n, d) in cases]
    isnan = c.model('elem', nan_lines, cross=False)
    for i, (s, n, d) in enumerate(cases):
        key = 'into:%d:%d/%d' % (s, n, d)
        pi = parse_ok(impl[i])
        q = Fraction(-n if s else n, d)
        big_ = n.bit_length() > 64 or d.bit_length() > 64
        c.note_case(key, n != 0, 'into_f64-multi-limb' if big_ else 'into_f64-small')
        # spec: the f64 is within 2^-50 relative of the rational (absolute in the subnormal range),
        # an infinity of the right sign only for |q| >= 2^1023
        ok_spec = False
        if pi is not None:
            v = exact_of_bits(pi[0])
            if q == 0:
                ok_spec = (v == 0)
            elif v is None:
                ok_spec = abs(q) >= Fraction(2) ** 1023 and pi[0] != 0x7FF8000000000000 and ((pi[0] >> 63) == s)
            elif abs(q) < Fraction(1, 1 << 1021):
                ok_spec = abs(v - q) <= Fraction(1, 1 << 1070)
            else:
                ok_spec = abs(v - q) <= abs(q) / (1 << 50)
        in_class = (isnan[i] == '1')
        if in_class:
            # operands beyond 2^1024: as_f64 overflows and into_f64 is inf, 0 or NaN whatever the quotient.
            # Since fix commit d752faf this can no longer become a wrong number downstream (from_f64
            # rejects inf/NaN), so what remains of the class is a rejected argument, not a spec violation
            # of the property; here only the mirror is compared.
            c.dist['into_f64-operand-beyond-f64-range'] = c.dist.get('into_f64-operand-beyond-f64-range', 0) + 1
        elif not ok_spec:
            c.violation('into_f64-inaccurate', {'kind': 'impl-vs-spec', 'layer': 'L1', 'op': 'into-f64', 'neg': s, 'num': str(n), 'den': str(d), 'impl': impl[i]})
            continue
        if impl[i] != model[i]:
            c.violation('into_f64-differs-from-model', {'kind': 'impl-vs-model', 'layer': 'L1', 'op': 'into-f64', 'neg': s, 'num': str(n), 'den': str(d), 'impl': impl[i], 'model': model[i]}, no_input=True)
    c.sample({'op': 'into-f64', 'case': [str(x) for x in cases[1]], 'impl': impl[1], 'model': model[1]})

def gen_bits(c):
    r = c.rng
    sp = [0, 1 << 63, 1, (1 << 52) - 1, 1 << 52, 0x3FF0000000000000, 0xBFF0000000000000, 0x3FE0000000000000,
          0x7FF0000000000000, 0xFFF0000000000000, 0x7FF8000000000000, 0xFFF8000000000000, 0x7FF0000000000001,
          0x7FEFFFFFFFFFFFFF, 0xFFEFFFFFFFFFFFFF]
    for e in (-1074, -1022, -65, -64, -63, -53, -12, -11, -1, 0, 1, 10, 52, 53, 62, 63, 64, 65, 127, 128, 1023):
        for fr in (0, 1, (1 << 52) - 1, 1 << 51):
            if e < -1022:
                sp.append(max(1, fr >> 1))
            else:
                sp.append(((e + 1023) << 52) | fr)
    n = 1500 if c.tier == 'quick' else 30000
    for _ in range(n):
        k = r.random()
        if k < 0.5:
            e = r.randint(-80, 70)
        elif k < 0.8:
            e = r.randint(-1022, 1023)
        else:
            e = r.choice([62, 63, 64, -64, -65, -63, 0, -1, 1])
        b = ((e + 1023) << 52) | r.getrandbits(52) | (r.randint(0, 1) << 63)
        sp.append(b)
    return sp

def check_from_f64(c):
    bl = gen_bits(c)
    lines = [sx([Sym('from-f64'), b]) for b in bl]
    impl = c.impl('elem', lines)
    model = c.model('elem', lines)
    sat = c.model('elem', [sx([Sym('known-saturates'), b]) for b in bl], cross=False)
    for i, b in enumerate(bl):
        c.note_case('from:%d' % b, True, 'from_f64')
        p = parse_ok(impl[i])
        v = exact_of_bits(b)
        # spec: a finite value of any magnitude is converted to within 2^-63 (the statement needs 1e-9);
        # a value that cannot be converted (infinite, NaN) must be an error, not a number
        ok_spec = False
        if v is None:
            ok_spec = (p is None and (try_parse(impl[i]) or [None])[0] == b'err')
        elif p is not None and p[2] != 0:
            got = Fraction(-p[1] if p[0] else p[1], p[2])
            ok_spec = abs(got - v) <= Fraction(1, 1 << 63)
        if not ok_spec:
            c.violation('from_f64-wrong', {'kind': 'impl-vs-spec', 'layer': 'L1', 'op': 'from-f64', 'bits': b, 'impl': impl[i],
                                           'regression_of': 'bridge_saturation (fixed d752faf)' if sat[i] == '1' else None})
            continue
        pi_, pm_ = try_parse(impl[i]), try_parse(model[i])
        if isinstance(pi_, list) and pi_ and pi_[0] == b'err' and isinstance(pi_[1], bytes):
            pi_ = [b'err', ERRMAP.get(pi_[1].decode(), pi_[1])]
        if pi_ != pm_:
            c.violation('from_f64-differs-from-model', {'kind': 'impl-vs-model', 'layer': 'L1', 'op': 'from-f64', 'bits': b, 'impl': impl[i], 'model': model[i]}, no_input=True)
    c.sample({'op': 'from-f64', 'bits': bl[5], 'impl': impl[5], 'model': model[5]})

def check_pi(c):
    impl = c.impl('elem', ['(pi-approx)'])[0]
    model = c.model('elem', ['(pi-model)', '(e-model)'], cross=False)
    pi_ = parse_ok(impl)
    pm = parse_ok(model[0])
    c.note_case('pi-rational', True, 'pi')
    good = False
    if pi_ is not None and pm is not None:
        a = Fraction(-pi_[1] if pi_[0] else pi_[1], pi_[2])
        m = pm[0]
        b = Fraction(-m[1] if m[0] else m[1], m[2])
        # spec: within 1e-23 of pi (50 certified digits of pi below)
        PI50 = Fraction(314159265358979323846264338327950288419716939937510, 10 ** 50)
        if abs(a - PI50) > Fraction(1, 10 ** 23):
            c.violation('pi-rational-inaccurate', {'kind': 'impl-vs-spec', 'layer': 'L1', 'op': 'pi-approx', 'impl': impl})
            return None
        good = (a == b)
    if not good:
        c.violation('pi-rational-differs-from-model', {'kind': 'impl-vs-model', 'layer': 'L1', 'op': 'pi-approx', 'impl': impl, 'model': model[0]}, no_input=True)
        return None
    c.sample({'op': 'pi-approx', 'impl': impl})
    return a

# ----------------------------------------------------------------------------
# model evaluation with the libm oracle (two-phase protocol)

def model_with_oracle(c, reqs):
    """reqs: list of (f, pi, neg, num, den) with f in FNAMES + ['tan'].
    Returns list of parsed real results from the model, the libm answers
    coming from the implementation harness."""
    ql = []
    for (f, pi, s, n, d) in reqs:
        if f == 'tan':
            ql.append(sx([Sym('tan-queries'), pi, s, n, d]))
        else:
            ql.append(sx([Sym('queries'), Sym(f), pi, s, n, d]))
    qs = c.model('elem', ql, cross=False)
    libm_lines = []
    idx = []
    for i, (req, o) in enumerate(zip(reqs, qs)):
        p = parse_ok(o)
        bl = p[0] if p else []
        lf = LIBM_OF.get(req[0], req[0])
        for b in bl:
            libm_lines.append(sx([Sym('libm'), Sym(lf), b]))
            idx.append((i, b))
    la = c.impl('elem', libm_lines) if libm_lines else []
    tables = [[] for _ in reqs]
    for (i, b), o in zip(idx, la):
        p = parse_ok(o)
        tables[i].append([b, p[0] if p else 0])
    ml = []
    for (f, pi, s, n, d), t in zip(reqs, tables):
        if f == 'tan':
            ml.append(sx([Sym('real-tan'), pi, s, n, d, t]))
        else:
            ml.append(sx([Sym('real-fn'), Sym(f), pi, s, n, d, t]))
    mo = c.model('elem', ml)
    return [parse_real_result(o) for o in mo], tables

def gen_real_args(c, f):
    """(pi, neg, num, den) arguments for the L1 run of function f"""
    r = c.rng
    out = []
    if f in ('sin', 'cos'):
        # multiples of pi/12 (raw, also unsimplified), near the usize cut-off, non-multiples
        for k in list(range(-30, 31)) + [r.randint(-10 ** 6, 10 ** 6) for _ in range(60)]:
            out.append((1, 1 if k < 0 else 0, abs(k), 12))
        for k in (3074457345618258602, 3074457345618258603, 1 << 70, (1 << 64) - 1, 1 << 64):
            out.append((1, 0, k, 1)); out.append((1, 1, k, 6)); out.append((1, 0, k, 2))
        for _ in range(40):
            out.append((1, r.randint(0, 1), r.randint(0, 10 ** 4), r.randint(1, 50)))
        out += [(1, 0, 2, 12), (1, 0, 6, 36), (1, 0, 0, 5), (1, 1, 0, 5), (0, 0, 0, 7), (0, 1, 0, 1)]
    doms = {'asin': (-1, 1), 'acos': (-1, 1), 'atanh': (-1, 1)}
    n = 60 if c.tier == 'quick' else 600
    for _ in range(n):
        m = r.randint(0, 10 ** r.randint(1, 18))
        j = r.randint(0, 24) if f in ('asin', 'acos', 'atanh') else r.randint(-12, 24)
        num, den = (m, 10 ** j) if j >= 0 else (m * 10 ** (-j), 1)
        s = r.randint(0, 1)
        if f in doms and r.random() < 0.85 and num > den:
            num, den = den, max(num, 1)
        if f == 'acosh' and r.random() < 0.85 and num < den:
            num, den = den, max(num, 1)
        if f in ('sinh', 'cosh', 'exp') and r.random() < 0.8:
            num, den = r.randint(0, 4400), 100
        if f in ('log2', 'ln', 'log10') and r.random() < 0.9:
            s = 0
            num = max(num, 1)
        out.append((0, s, num, max(den, 1)))
    # edges
    out += [(0, 0, 0, 1), (0, 0, 1, 1), (0, 1, 1, 1), (0, 0, 2, 1), (0, 1, 2, 1), (0, 0, 10 ** 17 - 1, 10 ** 17), (0, 0, 10 ** 17 + 1, 10 ** 17),
            (0, 0, 46, 1), (0, 0, 800, 1), (0, 0, 10 ** 400 + 1, 10 ** 400), (0, 0, 1, 10 ** 30), (0, 0, 10 ** 30, 1),
            (1, 0, 1, 1), (1, 0, 1, 7), (1, 1, 22, 7)]
    return out

def check_real_fns(c):
    reqs = []
    for f in FNAMES:
        for a in gen_real_args(c, f):
            reqs.append((f,) + a)
    mres, tables = model_with_oracle(c, reqs)
    il = [sx([Sym('real-fn'), Sym(f), pi, s, n, d]) for (f, pi, s, n, d) in reqs]
    impl = c.impl('elem', il)
    for req, io, m in zip(reqs, impl, mres):
        f = req[0]
        key = 'real-fn:%s:%d:%d:%d/%d' % req
        i = parse_real_result(io)
        c.note_case(key, True, 'L1-real-' + f + ('-pi' if req[1] else ''))
        if i != m:
            c.violation('real-fn-differs-from-model', {'kind': 'impl-vs-model', 'layer': 'L1', 'op': 'real-fn', 'fn': f, 'pi': req[1], 'neg': req[2], 'num': str(req[3]), 'den': str(req[4]),
                                                       'impl': io, 'model': repr(m)}, no_input=True)
    c.sample({'op': 'real-fn', 'req': [str(x) for x in reqs[3]], 'impl': impl[3], 'model': repr(mres[3])})

def gen_pow_cases(c):
    r = c.rng
    cs = [((0, 2, 1), (0, 1, 2)), ((0, 0, 1), (0, 0, 1)), ((0, 0, 1), (1, 1, 1)), ((1, 8, 1), (0, 1, 3)), ((1, 8, 1), (0, 2, 1)), ((1, 2, 1), (0, 3, 1)),
          ((0, 4, 9), (0, 1, 2)), ((0, 4, 9), (1, 3, 2)), ((0, 27, 8), (0, 2, 3)), ((0, 2, 1), (0, TWO64, 1)), ((0, 5, 1), (0, 0, 1)),
          ((0, 640320, 1), (0, 3, 2)), ((0, 640320, 1), (0, 9, 2)), ((0, 1, 1), (0, 10 ** 30, 7)), ((0, 7, 3), (0, 1, 1)), ((0, 10, 1), (1, 1, 2)),
          ((0, 2, 1), (0, 1, TWO64)), ((0, 3, 1), (0, 1, TWO64 + 1)), ((0, 6, 4), (0, 2, 4))]
    n = 150 if c.tier == 'quick' else 1500
    for _ in range(n):
        a = (r.randint(0, 1) if r.random() < 0.2 else 0, r.randint(0, 10 ** r.randint(1, 7)), r.randint(1, 10 ** r.randint(0, 4)))
        b = (r.randint(0, 1) if r.random() < 0.3 else 0, r.randint(0, 9), r.randint(1, 7))
        cs.append((a, b))
    return cs

def check_pows(c):
    cs = gen_pow_cases(c)
    lines = [sx([Sym('rat-pow')] + list(a) + list(b)) for a, b in cs]
    impl = c.impl('elem', lines, timeout=60)
    model = c.model('elem', lines)
    for (a, b), io, mo in zip(cs, impl, model):
        c.note_case('rat-pow:%r^%r' % (a, b), b[2] != 1, 'L1-rat-pow-root' if b[2] != 1 else 'L1-rat-pow-int')
        i, m = parse_rat_result(io), parse_rat_result(mo)
        # spec (impl's own output as predicate): result^den(b) close to a^num(b)
        if i[0] == 'ok' and i[2] is not None and b[2] <= 7 and a[2] != 0:
            base = Fraction(-a[1] if a[0] else a[1], a[2])
            if base > 0:
                want = base ** b[1]
                got = (i[2] if not b[0] else 1 / i[2]) ** b[2] if i[2] != 0 else Fraction(0)
                if want != 0 and abs(got - want) > want / 10 ** 12:
                    c.violation('pow-inaccurate', {'kind': 'impl-vs-spec', 'layer': 'L1', 'op': 'rat-pow', 'a': [str(x) for x in a], 'b': [str(x) for x in b], 'impl': io})
                    continue
                if i[1] == 1 and got != want:
                    c.violation('pow-exact-flag-wrong', {'kind': 'impl-vs-spec', 'layer': 'L1', 'op': 'rat-pow', 'a': [str(x) for x in a], 'b': [str(x) for x in b], 'impl': io})
                    continue
        if i != m:
            c.violation('rat-pow-differs-from-model', {'kind': 'impl-vs-model', 'layer': 'L1', 'op': 'rat-pow', 'a': [str(x) for x in a], 'b': [str(x) for x in b], 'impl': io, 'model': mo}, no_input=True)
    # Real::pow short-cuts and pattern handling
    rs = [((1, 0, 1, 1), (0, 0, 0, 1)), ((1, 0, 1, 1), (0, 0, 1, 1)), ((0, 0, 1, 1), (1, 0, 1, 1)), ((1, 0, 1, 1), (0, 0, 2, 1)), ((1, 0, 1, 1), (0, 0, 1, 2)),
          ((0, 0, 3, 1), (0, 0, 0, 1)), ((0, 0, 0, 1), (0, 0, 0, 1)), ((1, 0, 0, 1), (0, 0, 0, 1)), ((0, 0, 2, 1), (1, 0, 1, 1)), ((1, 0, 2, 3), (0, 1, 1, 1)),
          ((0, 0, 9, 4), (0, 0, 2, 2)), ((0, 1, 1, 1), (0, 0, 1, 1)), ((0, 0, 1, 1), (0, 0, 5, 7))]
    lines = [sx([Sym('real-pow')] + list(a) + list(b)) for a, b in rs]
    impl = c.impl('elem', lines, timeout=60)
    model = c.model('elem', lines)
    for (a, b), io, mo in zip(rs, impl, model):
        c.note_case('real-pow:%r^%r' % (a, b), True, 'L1-real-pow')
        i, m = parse_real_result(io), parse_real_result(mo)
        if i != m:
            c.violation('real-pow-differs-from-model', {'kind': 'impl-vs-model', 'layer': 'L1', 'op': 'real-pow', 'a': [str(x) for x in a], 'b': [str(x) for x in b], 'impl': io, 'model': mo}, no_input=True)
        # spec: x^0 (x != 0) and x^1 are exact and unmarked
        if b == (0, 0, 0, 1) and a[2] != 0 and i[0] == 'ok' and not (i[1] == 1 and i[3] == 1):
            c.violation('pow-zero-not-exact', {'kind': 'impl-vs-spec', 'layer': 'L1', 'op': 'real-pow', 'a': [str(x) for x in a], 'impl': io})
        if b == (0, 0, 1, 1) and i[0] == 'ok' and not (i[1] == 1 and i[2] == a[0] and i[3] == Fraction(-a[2] if a[1] else a[2], a[3])):
            c.violation('pow-one-not-identity', {'kind': 'impl-vs-spec', 'layer': 'L1', 'op': 'real-pow', 'a': [str(x) for x in a], 'impl': io})

# ----------------------------------------------------------------------------
# L2 points

class Pt:
    __slots__ = ('certify', 'expr', 'coq_re', 'coq_im', 'ref', 'kind', 'xabs', 'fn', 'either_im_sign', 'either_re_sign', 'expect', 'model',
                 'probe', 'want_exact', 'pre', 'out15', 'outdbg', 'val', 'cls', 'tan_arg', 'comp')
    def __init__(self, expr, coq_re, ref, kind, fn=None, xabs=0, coq_im=None, expect='value', model=None, probe=None, want_exact=None, pre=None):
        self.expr = expr; self.coq_re = coq_re; self.coq_im = coq_im; self.ref = ref; self.kind = kind
        self.xabs = Fraction(xabs); self.fn = fn; self.either_im_sign = False; self.either_re_sign = False
        self.expect = expect; self.model = model; self.probe = probe; self.want_exact = want_exact; self.pre = pre
        self.certify = True
        self.out15 = None; self.outdbg = None; self.val = None; self.cls = None; self.tan_arg = None; self.comp = None

COQ_FN = {'sin': 'sin', 'cos': 'cos', 'tan': 'tan', 'asin': 'asin', 'acos': 'acos', 'atan': 'atan', 'sinh': 'sinh', 'cosh': 'cosh',
          'tanh': 'tanh', 'asinh': 'arcsinh', 'acosh': 'acosh', 'atanh': 'atanh', 'ln': 'ln', 'log2': 'log2', 'log10': 'log10', 'exp': 'exp'}

def pyf(f, x):
    try:
        if f == 'sin': return math.sin(x)
        if f == 'cos': return math.cos(x)
        if f == 'tan': return math.tan(x)
        if f == 'asin': return math.asin(x)
        if f == 'acos': return math.acos(x)
        if f == 'atan': return math.atan(x)
        if f == 'sinh': return math.sinh(x)
        if f == 'cosh': return math.cosh(x)
        if f == 'tanh': return math.tanh(x)
        if f == 'asinh': return math.asinh(x)
        if f == 'acosh': return math.acosh(x)
        if f == 'atanh': return math.atanh(x)
        if f == 'ln': return math.log(x)
        if f == 'log2': return math.log2(x)
        if f == 'log10': return math.log10(x)
        if f == 'exp': return math.exp(x)
    except (OverflowError, ValueError):
        return float('inf')
    raise KeyError(f)

def tofloat(fr):
    try:
        return float(fr)
    except OverflowError:
        return float('inf') if fr > 0 else float('-inf')

PI100 = Fraction(31415926535897932384626433832795028841971693993751058209749445923078164062862089986280348253421170679, 10 ** 100)

def ref_trig(f, x):
    """float reference for sin/cos/tan of a (possibly huge) rational: reduce mod 2 pi with 100 digits of pi first"""
    y = x - (x / (2 * PI100)).__floor__() * 2 * PI100
    return pyf(f, float(y))

def rat_args(c, f, n):
    """raw rationals (neg, p, q) spread over many orders of magnitude, inside the domain of f"""
    r = c.rng
    out = []
    while len(out) < n:
        m = r.randint(1, 999999)
        s = r.randint(0, 1)
        if f in ('asin', 'acos', 'atanh'):
            j = r.randint(0, 20)
            p, q = m, 10 ** (6 + j) if r.random() < 0.3 else 10 ** 6
            if f == 'atanh' and p >= q:
                continue
        elif f == 'acosh':
            j = r.randint(-6, 34)
            p, q = (10 ** 6 + m * 10 ** max(j, 0), 10 ** 6) if j >= 0 else (10 ** 6 * 10 ** (-j) + m, 10 ** 6 * 10 ** (-j))
            s = 0
        elif f in ('sinh', 'cosh'):
            p, q = r.randint(0, 44000), 1000
            if r.random() < 0.25:
                p, q = m, 10 ** r.randint(6, 26)
        elif f in ('sin', 'cos', 'tan'):
            j = r.choice([-20, -12, -6, -3, -2, -1, 0, 0, 0, 1, 1, 2, 2, 3, 3])
            p, q = (m * 10 ** j, 10 ** 3) if j >= 0 else (m, 10 ** (3 - j))
            if Fraction(p, q) > 1000:
                p = p % (1000 * q) + 1
        elif f in ('ln', 'log2', 'log10'):
            s = 0
            j = r.randint(-40, 40)
            p, q = (m * 10 ** j, 10 ** 3) if j >= 0 else (m, 10 ** (3 - j))
            if r.random() < 0.15:
                p, q = q + m, q                      # near 1
        else:                                       # atan tanh asinh: any magnitude
            j = r.randint(-20, 20)
            p, q = (m * 10 ** j, 10 ** 3) if j >= 0 else (m, 10 ** (3 - j))
        out.append((s, p, q))
    return out

def mk_real_pt(f, s, p, q, kind=None, unit=None):
    x = Fraction(-p if s else p, q)
    arg = fx(s, p, q)
    if unit is None:
        expr = '%s(%s)' % (f, arg)
        X = cq(x)
        xr = x
        model = (f, 0, s, p, q)
    else:
        uname, per_pi = unit                         # x units = x * per_pi * pi radians
        expr = '%s(%s %s)' % (f, arg, uname)
        xr = x * per_pi * PI100
        X = '(%s * PI)' % cq(x * per_pi)
        t = trip(x * per_pi)
        model = (f, 1, t[0], t[1], t[2])
    cexpr = '%s %s' % (COQ_FN[f], X)
    ref = ref_trig(f, xr) if f in ('sin', 'cos', 'tan') else pyf(f, tofloat(xr))
    pt = Pt(expr, cexpr, ref, kind or ('fn-' + f), fn=f, xabs=abs(xr), model=model)
    if unit is None and x != 0 and not (f == 'ln' and x == 1):
        pt.want_exact = False          # a rational argument off the documented exact points: must be marked approx.
    if f == 'tan':
        pt.tan_arg = xr
    return pt

UNITS = [('degrees', Fraction(1, 180)), ('deg', Fraction(1, 180)), ('arcmin', Fraction(1, 180 * 60)), ('arcsec', Fraction(1, 180 * 3600)),
         ('gradians', Fraction(1, 200)), ('turns', Fraction(2)), ('rightangles', Fraction(1, 2)), ('circle', Fraction(2)),
         ('quadrants', Fraction(1, 2)), ('quintants', Fraction(2, 5)), ('sextants', Fraction(1, 3)), ('zodiac_signs', Fraction(1, 6)),
         ('revs', Fraction(2)), ('gons', Fraction(1, 200))]

def gen_points(c):
    r = c.rng
    pts = []
    quick = c.tier == 'quick'
    # --- all multiples of pi/12 up to 100 pi (thorough: 1000 pi), both signs
    K = 1200 if quick else 4800
    for k in range(-K, K + 1):
        for f in ('sin', 'cos'):
            t = trip(Fraction(k, 12))
            expr = '%s(%d*pi/12)' % (f, k)
            X = '(%s * PI)' % cq(Fraction(k, 12))
            ref = ref_trig(f, Fraction(k, 12) * PI100)
            pt = Pt(expr, '%s %s' % (f, X), ref, 'special-' + f, fn=f, xabs=abs(Fraction(k, 12)) * PI100, model=(f, 1, 1 if k < 0 else 0, abs(k), 12))
            # the property's exact points: value rational <=> exact
            kk = k if f == 'sin' else k + 6
            pt.want_exact = (kk % 2 == 0) and ((kk // 2) % 12 not in (2, 4, 8, 10))
            pt.certify = (not quick) or abs(k) <= 24 or r.random() < 0.05
            pts.append(pt)
    for k in list(range(-24, 25)) + [r.randint(-2000, 2000) for _ in range(10 if quick else 100)]:
        t = Fraction(k, 12)
        pts.append(mk_real_pt('tan', 1 if k < 0 else 0, abs(k), 12, kind='special-tan', unit=('* pi', Fraction(1))))
        pts[-1].expr = 'tan(%d*pi/12)' % k
        if k % 12 == 6:                      # odd multiple of pi/2: outside the domain
            pts[-1].expect = 'error'; pts[-1].kind = 'domain-edge'; pts[-1].tan_arg = None; pts[-1].model = None
    # --- angle units
    for (u, per) in UNITS:
        for _ in range(4 if quick else 40):
            f = r.choice(['sin', 'cos', 'tan'])
            if r.random() < 0.5:
                k = r.randint(-720, 720)
                deg = Fraction(k * 15)
                x = deg / 180 / per                 # in unit u
                s, p, q = trip(x)
            else:
                s, p, q = r.randint(0, 1), r.randint(1, 99999), 10 ** r.randint(0, 3)
            pt = mk_real_pt(f, s, p, q, kind='unit-' + u, unit=(u, per))
            if f != 'tan':
                xpi = Fraction(-p if s else p, q) * per * 12
                if xpi.denominator == 1:
                    kk = int(xpi) if f == 'sin' else int(xpi) + 6
                    pt.want_exact = (kk % 2 == 0) and ((kk // 2) % 12 not in (2, 4, 8, 10))
            pts.append(pt)
    # --- random rational arguments, every function
    per_fn = 9 if quick else 190
    for f in ['sin', 'cos', 'tan', 'asin', 'acos', 'atan', 'sinh', 'cosh', 'tanh', 'asinh', 'acosh', 'atanh', 'ln', 'log2', 'log10']:
        for (s, p, q) in rat_args(c, f, per_fn):
            pts.append(mk_real_pt(f, s, p, q))
    # sin/cos/tan/atan beyond 10^3 (tolerance degrades with |x| for the periodic ones)
    for _ in range(8 if quick else 100):
        f = r.choice(['sin', 'cos', 'atan', 'tanh', 'asinh', 'sin', 'cos'])
        j = r.randint(4, 40)
        pts.append(mk_real_pt(f, r.randint(0, 1), r.randint(1, 9999) * 10 ** j, 1000, kind='large-' + f))
    # --- exp (= e^x with the literal e), powers with rational exponents, constants
    for _ in range(8 if quick else 80):
        k = r.randint(-40, 45)
        pts.append(Pt('exp(%d)' % k, 'exp (%d)' % k, pyf('exp', k), 'exp-int', fn='exp', xabs=abs(k)))
    for _ in range(6 if quick else 60):
        p_, q_ = r.randint(-12, 12), r.choice([2, 3, 4, 5, 8])
        x = Fraction(p_, q_)
        pts.append(Pt('exp(%s)' % fx(p_ < 0, abs(p_), q_), 'exp %s' % cq(x), pyf('exp', float(x)), 'exp-frac', fn='exp', xabs=abs(x)))
    for _ in range(10 if quick else 120):
        a, b = r.randint(1, 9999), r.choice([1, 1, 10, 100, 7, 3])
        p_, q_ = r.randint(1, 7), r.choice([2, 3, 4, 5, 6, 7])
        sgn = r.random() < 0.3
        x, y = Fraction(a, b), Fraction(-p_ if sgn else p_, q_)
        pts.append(Pt('(%d/%d)^(%s)' % (a, b, fx(sgn, p_, q_)), 'Rpower %s %s' % (cq(x), cq(y)), float(x) ** float(y), 'pow-rational', fn='pow', xabs=abs(x),
                      want_exact=None))
    pts.append(Pt('pi', 'PI', math.pi, 'const-pi', fn='const'))
    pts.append(Pt('e', 'exp 1', math.e, 'const-e', fn='const'))
    pts.append(Pt('sqrt 2', 'sqrt 2', math.sqrt(2), 'pow-rational', fn='pow'))
    pts.append(Pt('ln e', 'ln (exp 1)', 1.0, 'const-e', fn='const'))
    pts.append(Pt('pi^2', 'PI * PI', math.pi ** 2, 'const-pi', fn='const'))
    # --- exact points of ln / pow / exp
    for (e_, v, ex) in [('ln 1', 0, True), ('ln(3/3)', 0, True), ('3^0', 1, True), ('(2/7)^0', 1, True), ('(5/3)^1', Fraction(5, 3), True), ('sin 0', 0, True), ('cos 0', 1, True),
                        ('1^(1/2)', 1, True), ('4^(1/2)', 2, True), ('(8/27)^(2/3)', Fraction(4, 9), True), ('tan 0', 0, True)]:
        pt = Pt(e_, cq(Fraction(v)), float(v), 'exact-point', fn='exactpt', want_exact=ex)
        pts.append(pt)
    # --- complex extensions (where supported): certified component-wise
    def cx(expr, re_, im_, ref, kind, either_im=False, either_re=False):
        pt = Pt(expr, re_, ref, kind, fn='complex', coq_im=im_)
        pt.either_im_sign = either_im; pt.either_re_sign = either_re
        pts.append(pt)
    for _ in range(4 if quick else 30):
        a, b = Fraction(r.randint(-3000, 3000), 1000), Fraction(r.randint(-3000, 3000), 1000)
        if b == 0:
            b = Fraction(1, 2)
        A, Bq = cq(a), cq(b)
        z = complex(float(a), float(b))
        zs = '(%s + %s i)' % (fx(a < 0, abs(a.numerator), a.denominator), fx(b < 0, abs(b.numerator), b.denominator))
        cx('sin%s' % zs, 'sin %s * cosh %s' % (A, Bq), 'cos %s * sinh %s' % (A, Bq), cmath.sin(z), 'complex-sin')
        cx('cos%s' % zs, 'cos %s * cosh %s' % (A, Bq), '- (sin %s * sinh %s)' % (A, Bq), cmath.cos(z), 'complex-cos')
        cx('sinh%s' % zs, 'sinh %s * cos %s' % (A, Bq), 'cosh %s * sin %s' % (A, Bq), cmath.sinh(z), 'complex-sinh')
        cx('cosh%s' % zs, 'cosh %s * cos %s' % (A, Bq), 'sinh %s * sin %s' % (A, Bq), cmath.cosh(z), 'complex-cosh')
    for _ in range(5 if quick else 40):
        x = Fraction(r.randint(1001, 99999), 1000)
        X = cq(x)
        xs = fx(0, x.numerator, x.denominator)
        ac = math.acosh(float(x))
        cx('asin(%s)' % xs, '(PI / 2)', 'acosh %s' % X, complex(math.pi / 2, ac), 'complex-asin', either_im=True)
        cx('asin(-%s)' % xs, '(- (PI / 2))', 'acosh %s' % X, complex(-math.pi / 2, ac), 'complex-asin', either_im=True)
        cx('acos(%s)' % xs, '0', 'acosh %s' % X, complex(0, ac), 'complex-acos', either_im=True)
        cx('acos(-%s)' % xs, 'PI', 'acosh %s' % X, complex(math.pi, ac), 'complex-acos', either_im=True)
        cx('acosh(-%s)' % xs, 'acosh %s' % X, 'PI', complex(ac, math.pi), 'complex-acosh', either_re=True, either_im=True)
        cx('atanh(%s)' % xs, 'atanh (1 / %s)' % X, '(PI / 2)', complex(math.atanh(1 / float(x)), math.pi / 2), 'complex-atanh', either_im=True)
        cx('ln(-%s)' % xs, 'ln %s' % X, 'PI', complex(math.log(float(x)), math.pi), 'complex-ln')
        cx('log2(-%s)' % xs, 'log2 %s' % X, '(PI / ln 2)', complex(math.log2(float(x)), math.pi / math.log(2)), 'complex-log')
        y = Fraction(r.randint(1, 999), 1000)
        cx('acosh(%s)' % fx(0, y.numerator, y.denominator), '0', 'acos %s' % cq(y), complex(0, math.acos(float(y))), 'complex-acosh', either_im=True)
    # --- powers with a COMPLEX EXPONENT: z^w = exp(w ln z) (principal branch), for
    #     bases {positive rationals, e, multiples of pi, next to 0, negative reals, complex, imaginary}
    #     x exponents {b i, a + b i (a, b rational, integer or not), multiples of pi i, a + multiple of pi i};
    #     with ln z = RHO + i THETA and w = A + i B:
    #         Re = exp(A RHO - B THETA) cos(B RHO + A THETA),  Im = exp(A RHO - B THETA) sin(B RHO + A THETA).
    #     Never exact unless the base is 1 (cos(b ln x) is transcendental for rational x != 1): must be marked approx.
    def fr_txt(fr):
        fr = Fraction(fr)
        return fx(fr < 0, abs(fr.numerator), fr.denominator)

    def cpow_bases():
        a_, b_ = r.randint(1, 400), r.choice([1, 2, 3, 7, 10, 25])
        x = Fraction(a_, b_)
        if x == 1:
            x = Fraction(3, 2)
        yield ('posrat', fr_txt(x), 'ln %s' % cq(x), '0', complex(float(x)))
        yield ('e', 'e', '1', '0', complex(math.e))
        k = Fraction(r.randint(1, 12), r.choice([1, 2, 3, 4]))
        yield ('pimult', '(%s pi)' % fr_txt(k), 'ln (%s * PI)' % cq(k), '0', complex(float(k) * math.pi))
        j = r.choice([5, 10, 20])
        yield ('near0', '(1/10^%d)' % j, 'ln (1 / 10 ^ %d)' % j, '0', complex(10.0 ** -j))
        xn = Fraction(r.randint(1, 300), r.choice([1, 2, 5, 10]))
        yield ('negreal', '(-%s)' % fr_txt(xn), 'ln %s' % cq(xn), 'PI', complex(-float(xn)))
        cr, ci = Fraction(r.randint(1, 40), 10), Fraction(r.randint(-40, 40), 10)
        if ci == 0:
            ci = Fraction(1, 2)
        yield ('complex', '(%s %s %s i)' % (fr_txt(cr), '+' if ci > 0 else '-', fr_txt(abs(ci))),
               '(ln (%s * %s + %s * %s) / 2)' % (cq(cr), cq(cr), cq(ci), cq(ci)), 'atan (%s / %s)' % (cq(ci), cq(cr)),
               complex(float(cr), float(ci)))
        di = Fraction(r.randint(1, 50), 10)
        sg = r.random() < 0.5
        yield ('imag', '(%s%s i)' % ('-' if sg else '', fr_txt(di)), 'ln %s' % cq(di), '(- (PI / 2))' if sg else '(PI / 2)',
               complex(0.0, -float(di) if sg else float(di)))

    def cpow_exponents():
        b = Fraction(r.randint(-30, 30), r.choice([2, 3, 4, 5, 7, 10]))
        if b == 0:
            b = Fraction(1, 2)
        a = Fraction(r.randint(-25, 25), r.choice([2, 3, 4, 10]))
        kp = Fraction(r.randint(-6, 6), r.choice([1, 2, 3, 6]))
        if kp == 0:
            kp = Fraction(1, 3)
        ib = r.choice([-3, -2, -1, 1, 2, 3])
        yield ('bi', '(%s i)' % fr_txt(b), '0', cq(b), complex(0, float(b)))
        yield ('a+bi', '(%s %s %s i)' % (fr_txt(a), '+' if b > 0 else '-', fr_txt(abs(b))), cq(a), cq(b), complex(float(a), float(b)))
        yield ('int-i', '(%d i)' % ib, '0', cq(ib), complex(0, ib))
        yield ('pi-i', '(%s pi i)' % fr_txt(kp), '0', '(%s * PI)' % cq(kp), complex(0, float(kp) * math.pi))
        yield ('a+pi-i', '(%s + %s pi i)' % (fr_txt(abs(a)), fr_txt(abs(kp))), cq(abs(a)), '(%s * PI)' % cq(abs(kp)),
               complex(float(abs(a)), float(abs(kp)) * math.pi))

    def cpow(btxt, RHO, THETA, zb, wtxt, A, Bq, w, kind):
        try:
            ref = zb ** w
        except (OverflowError, ZeroDivisionError):
            return
        if not (1e-12 < abs(ref) < 1e12):
            return
        mod = 'exp (%s * %s - %s * %s)' % (A, RHO, Bq, THETA)
        ang = '(%s * %s + %s * %s)' % (Bq, RHO, A, THETA)
        cx('%s^%s' % (btxt, wtxt), '%s * cos %s' % (mod, ang), '%s * sin %s' % (mod, ang), ref, kind)

    for (e_, zb, RHO, TH, wt, A, Bq, w) in [
            ('2^(0.5i)', 2, 'ln 2', '0', None, '0', '(1 / 2)', 0.5j), ('2^(0.5+i)', 2, 'ln 2', '0', None, '(1 / 2)', '1', 0.5 + 1j),
            ('9^(0.5+0.5i)', 9, 'ln 9', '0', None, '(1 / 2)', '(1 / 2)', 0.5 + 0.5j), ('4^(1.5+0.5i)', 4, 'ln 4', '0', None, '(3 / 2)', '(1 / 2)', 1.5 + 0.5j),
            ('e^(i pi/2)', math.e, '1', '0', None, '0', '(PI / 2)', 1j * math.pi / 2), ('e^(pi i)', math.e, '1', '0', None, '0', 'PI', 1j * math.pi),
            ('e^(i pi/3)', math.e, '1', '0', None, '0', '(PI / 3)', 1j * math.pi / 3), ('(1/2)^(i/3)', 0.5, 'ln (1 / 2)', '0', None, '0', '(1 / 3)', 1j / 3),
            ('e^(2 pi i)', math.e, '1', '0', None, '0', '(2 * PI)', 2j * math.pi), ('i^i', 1j, '0', '(PI / 2)', None, '0', '1', 1j),
            ('(-1)^i', -1, '0', 'PI', None, '0', '1', 1j), ('2^(3i)', 2, 'ln 2', '0', None, '0', '3', 3j)]:
        ref = complex(zb) ** w
        mod = 'exp (%s * %s - %s * %s)' % (A, RHO, Bq, TH)
        ang = '(%s * %s + %s * %s)' % (Bq, RHO, A, TH)
        cx(e_, '%s * cos %s' % (mod, ang), '%s * sin %s' % (mod, ang), ref, 'cpow-corpus')
    for _ in range(1 if quick else 8):
        for (bk, btxt, RHO, TH, zb) in cpow_bases():
            for (wk, wtxt, A, Bq, w) in cpow_exponents():
                cpow(btxt, RHO, TH, zb, wtxt, A, Bq, w, 'cpow-%s^%s' % (bk, wk))
    for e_ in ['1^((2/5) i)', '1^(1/2 + (1/3) pi i)']:
        pts.append(Pt(e_, '1', 1.0, 'exact-point', fn='exactpt', want_exact=True))
    pts.append(Pt('0^((2/5) i)', None, None, 'domain-edge', fn='edge', expect='error'))
    # --- closed ends of the domains: in the domain, must be values (true values: PointDefs.edge_values)
    for (e_, coq, ref, f_) in [('asin(1)', '(PI / 2)', math.pi / 2, 'asin'), ('asin(-1)', '(- (PI / 2))', -math.pi / 2, 'asin'),
                               ('acos(1)', '0', 0.0, 'acos'), ('acos(-1)', 'PI', math.pi, 'acos'), ('acosh(1)', '0', 0.0, 'acosh'),
                               ('atan(0)', '0', 0.0, 'atan'), ('sinh(0)', '0', 0.0, 'sinh'), ('cosh(0)', '1', 1.0, 'cosh'),
                               ('atanh(0)', '0', 0.0, 'atanh'), ('log2(1)', '0', 0.0, 'log2'), ('log10(1)', '0', 0.0, 'log10'),
                               ('log10(10)', '1', 1.0, 'log10'), ('log2(1024)', '10', 10.0, 'log2'), ('exp(0)', '1', 1.0, 'exp')]:
        pts.append(Pt(e_, coq, ref, 'domain-end', fn=f_, xabs=1))
    # --- domain edges: must be errors
    for e_ in ['ln 0', 'log2 0', 'log10 0', 'log 0', '0^0', '0^(-1)', 'tan(pi/2)', 'tan(90 degrees)', 'tan(-3pi/2)', 'atanh 1', 'atanh(-1)', '0^(-1/2)']:
        pts.append(Pt(e_, None, None, 'domain-edge', fn='edge', expect='error'))
    # --- deliberate probes of the known defect classes (and their neighbours that must be fine)
    def probe(expr, coq, ref, cls, fn, xabs=0, pre=None, model=None):
        pts.append(Pt(expr, coq, ref, 'probe-' + str(cls), fn=fn, xabs=xabs, probe=cls, pre=pre, model=model))
    # repaired classes: the witnesses live in the corpus and must now satisfy the statement
    reg = json.load(open(os.path.join(ROOT, 'corpus', 'C15', 'regression_witnesses.json')))['witnesses']
    for w in reg:
        m_ = w.get('model')
        model = (m_[0], m_[1], m_[2], int(m_[3]), int(m_[4])) if m_ else None
        ref = float(w['ref'])
        probe(w['expr'], w['coq'], ref, w['class'], w['fn'], Fraction(w['xabs']), model=model)
        pts[-1].want_exact = w.get('want_exact')
        pts[-1].kind = 'regression-' + w['class']
    # open classes
    probe('atanh(0.99999999999999999)', 'atanh (99999999999999999 / 100000000000000000)', 19.9, 'ill_conditioned_argument', 'atanh', 1, model=('atanh', 0, 0, 99999999999999999, 10 ** 17))
    probe('acos(0.99999999999999999)', 'acos (99999999999999999 / 100000000000000000)', 4.47e-9, 'ill_conditioned_argument', 'acos', 1, model=('acos', 0, 0, 99999999999999999, 10 ** 17))
    probe('acosh(1.00000000000000001)', 'acosh (100000000000000001 / 100000000000000000)', 4.47e-9, 'ill_conditioned_argument', 'acosh', 1, model=('acosh', 0, 0, 10 ** 17 + 1, 10 ** 17))
    probe('atanh(0.9999999999)', 'atanh (9999999999 / 10000000000)', 11.86, 'ill_conditioned_argument', 'atanh', 1, model=('atanh', 0, 0, 9999999999, 10 ** 10))
    probe('tan(1.5707963267948966)', 'tan (15707963267948966 / 10000000000000000)', 1.6e16, 'ill_conditioned_argument', 'tan', 2)
    pts[-1].tan_arg = Fraction(15707963267948966, 10 ** 16)
    probe('2^pi', 'Rpower 2 PI', 2 ** math.pi, 'pow_irrational_exponent_unsupported', 'pow')
    probe('e^pi', 'exp PI', math.e ** math.pi, 'pow_irrational_exponent_unsupported', 'pow')
    pts.sort(key=lambda p_: 0 if p_.kind.startswith('regression-') else 1)      # corpus first
    return pts

# ----------------------------------------------------------------------------
# tolerance of the property statement, as a Coq claim about the TRUE value F

def claims_for(F, r, ref, pt, negate):
    """list of Coq propositions whose conjunction certifies (negate=False)
    |F - r| <= 1e-9 * max(1,|F|) [+ conditioning allowance beyond 10^3 for
    the periodic functions], or (negate=True) its negation"""
    extra = None
    if pt.fn in ('sin', 'cos') and pt.xabs > 1000:
        extra = pt.xabs / 10 ** 12
    if pt.fn == 'tan' and pt.xabs > 1000:
        extra = None   # handled by skipping: see unconstrained()
    R = cq(r)
    if not negate:
        if abs(ref) <= 1:
            tol = Fraction(1, 10 ** 9) + (extra or 0)
            return ['Rabs (%s - %s) <= %s' % (F, R, cq(tol))]
        if extra:
            return ['Rabs (%s - %s) <= 1 / 10 ^ 9 * Rabs (%s) + %s' % (F, R, F, cq(extra))]
        return ['Rabs (%s - %s) <= 1 / 10 ^ 9 * Rabs (%s)' % (F, R, F)]
    tol = Fraction(1, 10 ** 9) + (extra or 0)
    return ['%s < Rabs (%s - %s)' % (cq(tol), F, R),
            '1 / 10 ^ 9 * Rabs (%s) + %s < Rabs (%s - %s)' % (F, cq(extra or 0), F, R)]

def unconstrained(pt):
    """beyond 10^3 the statement lets the error grow with the condition number: for sin/cos/tan of
    |x| >= 10^12 every value in range is allowed"""
    return pt.fn in ('sin', 'cos', 'tan') and pt.xabs >= 10 ** 12 or (pt.fn == 'tan' and pt.xabs > 1000)

def run_coq_points(c, lemmas):
    """lemmas: list of (name, statement).  Returns set of names that FAILED to be certified."""
    d = os.path.join(CACHE, 'points', c.prop, 'seed%d_%s' % (c.seed, c.tier))
    shutil.rmtree(d, ignore_errors=True)
    os.makedirs(d)
    per = 60
    chunks = [lemmas[i:i + per] for i in range(0, len(lemmas), per)]
    head = ('(* generated by gen/c15.py: certified reference points for C15 (test oracles for the sampled inputs,\n'
            '   not the universal theorem).  One lemma per line. *)\n'
            'From Coq Require Import Reals.\nFrom Interval Require Import Tactic.\nFrom FendV Require Import Elem.PointDefs.\nOpen Scope R_scope.\n')
    nhead = head.count('\n')

    import subprocess

    def coqc_file(vf, live, timeout):
        """-> ('ok', None) | ('line', k) | ('abnormal', text)"""
        with open(vf, 'w') as fh:
            fh.write(head)
            for (nm, st, tac) in live:
                fh.write('Lemma %s : %s. Proof. %s. Qed.\n' % (nm, st, tac))
        # address-space limit and wall-clock limit: a wrong implementation value can send interval
        # evaluation into huge computations (seen with a seeded mutant: 58 GB)
        cmd = 'ulimit -v 6291456; exec coqc -Q %s FendV -w -all %s' % (COQ, vf)
        try:
            pr = subprocess.run(['/bin/sh', '-c', cmd], cwd=d, timeout=timeout, stdout=subprocess.PIPE, stderr=subprocess.STDOUT)
        except subprocess.TimeoutExpired:
            return ('abnormal', 'timeout after %ds' % timeout)
        out = pr.stdout.decode('utf-8', 'replace')
        if pr.returncode == 0:
            return ('ok', None)
        m = re.search(r'line (\d+), characters', out)
        if m:
            k = int(m.group(1)) - nhead - 1
            if 0 <= k < len(live):
                return ('line', k)
        return ('abnormal', out[-300:])

    def certify(tag, live, timeout, depth=0):
        """returns the names of the lemmas that could not be certified"""
        failed = []
        live = list(live)
        vf = os.path.join(d, 'points_%s.v' % tag)
        for _attempt in range(15):
            if not live:
                return failed
            st, info = coqc_file(vf, live, timeout)
            if st == 'ok':
                return failed
            if st == 'line':
                failed.append(live[info][0])
                del live[info]
                continue
            # killed / timed out / unparsable: isolate by halving
            if len(live) == 1:
                return failed + [live[0][0]]
            h = len(live) // 2
            return (failed + certify(tag + 'a', live[:h], max(60, timeout // 2), depth + 1)
                    + certify(tag + 'b', live[h:], max(60, timeout // 2), depth + 1))
        return failed + [l_[0] for l_ in live]

    def run_chunk(arg):
        ci, ch = arg
        return certify(str(ci), ch, 400)

    with ThreadPoolExecutor(max_workers=NPROC) as ex:
        res = list(ex.map(run_chunk, list(enumerate(chunks))))
    bad = set()
    for r_ in res:
        bad.update(r_)
    return bad, d

def check_l2(c, pi_model):
    pts = gen_points(c)
    lines15 = [sx([Sym('eval'), p.expr + ' to 15 dp']) for p in pts]
    linesdb = [sx([Sym('eval'), '@debug ' + p.expr]) for p in pts]
    o15 = c.impl('elem', lines15, timeout=30)
    odb = c.impl('elem', linesdb, timeout=30)
    # model predictions for the real-valued function applications
    midx = [i for i, p in enumerate(pts) if p.model is not None]
    mres, _ = model_with_oracle(c, [pts[i].model for i in midx])
    mof = dict(zip(midx, mres))
    # known-class classifiers (model side), evaluated on the inputs
    cl_lines, cl_idx = [], []
    for i, p in enumerate(pts):
        if p.model is not None:
            f, pi, s, n, d = p.model
            if pi == 0:
                cl_lines.append(sx([Sym('known-overflow'), s, n, d])); cl_idx.append((i, 'into_f64_overflow'))
                if f in ('asin', 'acos', 'acosh', 'atanh'):
                    cl_lines.append(sx([Sym('known-illcond'), Sym(f), s, n, d])); cl_idx.append((i, 'ill_conditioned_argument'))
            else:
                cl_lines.append(sx([Sym('known-bigpi'), s, n, d])); cl_idx.append((i, 'big_pi_multiple'))
        if p.tan_arg is not None:
            t = trip(p.tan_arg if isinstance(p.tan_arg, Fraction) else Fraction(p.tan_arg))
            # tan_arg may be a 100-digit multiple of pi: keep the classifier input small
            fr = Fraction(p.tan_arg).limit_denominator(10 ** 30)
            t = trip(fr)
            cl_lines.append(sx([Sym('known-tanpole'), t[0], t[1], t[2]])); cl_idx.append((i, 'ill_conditioned_argument'))
    clo = c.model('elem', cl_lines, cross=False) if cl_lines else []
    classes = {}
    for (i, cls), o in zip(cl_idx, clo):
        if o == '1':
            classes.setdefault(i, set()).add(cls)
    # saturation classifier needs the libm answer: ask the model for the query, the harness for the answer
    sat_idx = [i for i in midx if pts[i].model[0] in ('sinh', 'cosh', 'atanh', 'tanh', 'asinh', 'atan', 'asin', 'acos', 'acosh') and pts[i].model[1] == 0]
    if sat_idx:
        q = c.model('elem', [sx([Sym('queries'), Sym(pts[i].model[0])] + list(pts[i].model[1:])) for i in sat_idx], cross=False)
        ll, li = [], []
        for i, o in zip(sat_idx, q):
            p = parse_ok(o)
            if p and p[0]:
                ll.append(sx([Sym('libm'), Sym(pts[i].model[0]), p[0][0]])); li.append(i)
        la = c.impl('elem', ll) if ll else []
        sl = [sx([Sym('known-saturates'), (parse_ok(o) or [0])[0]]) for o in la]
        so = c.model('elem', sl, cross=False) if sl else []
        for i, o in zip(li, so):
            if o == '1':
                classes.setdefault(i, set()).add('bridge_saturation')

    open_classes = set(k.get('class') for k in c.known if k.get('status', 'open') == 'open')
    lemmas = []
    nbad = [0]
    prescreen_only = {}
    plan = {}            # lemma name -> (point index, 'ok'|'bad')
    verdict = {}         # point index -> provisional verdict
    for i, p in enumerate(pts):
        p.out15, p.outdbg = o15[i], odb[i]
        r15 = try_parse(o15[i])
        key = 'L2:' + p.expr
        nontrivial = p.kind not in ('exact-point',)
        c.note_case(key, nontrivial, p.kind)
        kn = set(classes.get(i, ()))
        if p.probe:
            kn.add(p.probe)
        p.cls = kn

        def known(cls_set):
            hit = False
            for k_ in sorted(cls_set):
                if c.known_finding(k_):
                    hit = True
            return hit

        if not isinstance(r15, list) or not r15 or r15[0] not in (b'ok', b'err'):
            c.violation('evaluate-crashed', {'kind': 'impl-crash', 'layer': 'L2', 'expr': p.expr, 'impl': o15[i]})
            continue
        if p.expect == 'error':
            if r15[0] != b'err':
                c.violation('domain-edge-not-an-error', {'kind': 'impl-vs-spec', 'layer': 'L2', 'expr': p.expr, 'impl': o15[i]})
            continue
        if r15[0] == b'err':
            if p.fn in ('sinh', 'cosh', 'exp') and p.ref in (float('inf'), float('-inf')):
                continue          # the true value exceeds every f64: "an error when the result cannot be represented"
            if p.kind.startswith('cpow') and c.known_finding('pow_irrational_exponent_unsupported'):
                continue          # an in-domain complex power rejected: the open finding, not a new one
            if 'into_f64_overflow' in kn or p.probe == 'into_f64_overflow':
                # what remains of the fixed class: an argument whose numerator or denominator exceeds the
                # f64 range is rejected with "value is too large" (never answered with a wrong number)
                c.dist['argument-beyond-f64-range-rejected'] = c.dist.get('argument-beyond-f64-range-rejected', 0) + 1
                continue
            if kn and known(kn):
                continue
            c.violation('in-domain-argument-rejected', {'kind': 'impl-vs-spec', 'layer': 'L2', 'expr': p.expr, 'impl': o15[i]})
            continue
        v = parse_value(r15[1].decode('utf-8', 'replace'))
        if v is None:
            c.violation('unparsable-output', {'kind': 'impl-vs-spec', 'layer': 'L2', 'expr': p.expr, 'impl': o15[i]})
            continue
        approx, re_, im_ = v
        p.val = v
        # the exactness flag proper is the one `@debug` prints (a decimal cut off at 15 dp is
        # also prefixed approx.); fall back to the printed one for complex values
        dbg = try_parse(odb[i])
        dv = parse_debug(dbg[1].decode('utf-8', 'replace')) if isinstance(dbg, list) and len(dbg) > 1 and dbg[0] == b'ok' and isinstance(dbg[1], bytes) else None
        if dv is not None:
            approx = dv[0]
        # ---- flags: impl vs spec
        if p.want_exact is True and approx:
            if not (kn and known(kn)):
                c.violation('exact-point-marked-approximate', {'kind': 'impl-vs-spec', 'layer': 'L2', 'expr': p.expr, 'impl': o15[i]})
            continue
        if p.want_exact is False and not approx:
            if kn and known(kn):
                continue
            c.violation('irrational-value-not-marked-approximate', {'kind': 'impl-vs-spec', 'layer': 'L2', 'expr': p.expr, 'impl': o15[i]})
            continue
        if p.fn in ('asin', 'acos', 'atan', 'sinh', 'cosh', 'tanh', 'asinh', 'acosh', 'atanh', 'log2', 'log10', 'complex', 'const') and not approx:
            c.violation('bridge-result-not-marked-approximate', {'kind': 'impl-vs-spec', 'layer': 'L2', 'expr': p.expr, 'impl': o15[i]})
            continue
        # ---- impl vs model (exact rational through @debug, flag)
        if i in mof and not (kn & open_classes):     # inside an OPEN listed class the bug-compatible mirror is not consulted
            m = mof[i]
            if m[0] == 'ok' and dv is not None:
                if (dv[0] != (m[1] == 0)) or dv[1] != m[3]:
                    c.violation('evaluate-differs-from-model', {'kind': 'impl-vs-model', 'layer': 'L2', 'expr': p.expr, 'impl_debug': odb[i], 'model': repr(m)}, no_input=True)
                elif abs(dv[1] - re_) > Fraction(1, 10 ** 15) and im_ == 0:
                    c.notes.append('printed digits of %s differ from its @debug value (formatting, not C15)' % p.expr)
            elif m[0] == 'err':
                pass       # complex extension or error path: compared against the certified value below
        # ---- value: impl vs the true function, certified by Coq
        if not p.certify:
            # quick tier: this multiple of pi/12 is compared with the model (above) but not sent to Coq;
            # float pre-screen only
            tol = 1e-9 * max(1.0, abs(p.ref))
            if abs(float(re_) - p.ref) > tol and not (kn and known(kn)):
                c.violation('inaccurate-special-point', {'kind': 'impl-vs-spec', 'layer': 'L2', 'expr': p.expr, 'impl': o15[i], 'float_reference': repr(p.ref)})
            c.dist['special-not-sent-to-coq'] = c.dist.get('special-not-sent-to-coq', 0) + 1
            continue
        if unconstrained(p):
            lim = Fraction(1) + Fraction(1, 10 ** 9)
            if p.fn in ('sin', 'cos') and abs(re_) > lim:
                c.violation('sine-out-of-range', {'kind': 'impl-vs-spec', 'layer': 'L2', 'expr': p.expr, 'impl': o15[i]})
            c.dist['unconstrained-by-statement'] = c.dist.get('unconstrained-by-statement', 0) + 1
            continue
        comps = [(p.coq_re, re_, p.ref.real if isinstance(p.ref, complex) else p.ref, p.either_re_sign)]
        if p.coq_im is not None:
            comps.append((p.coq_im, im_, p.ref.imag, p.either_im_sign))
        elif im_ != 0:
            c.violation('unexpected-imaginary-part', {'kind': 'impl-vs-spec', 'layer': 'L2', 'expr': p.expr, 'impl': o15[i]})
            continue
        okpre = True
        for ci, (F, r_, ref, either) in enumerate(comps):
            if either and (r_ < 0) != (ref < 0):
                F = '(- (%s))' % F
                ref = -ref
            if ref == float('inf') or ref == float('-inf'):
                pre_ok = False
            else:
                tol = 1e-9 * max(1.0, abs(ref))
                if p.fn in ('sin', 'cos') and p.xabs > 1000:
                    tol += float(p.xabs) * 1e-12
                pre_ok = abs(float(r_) - ref) <= tol
            okpre = okpre and pre_ok
            nm = 'pt_%d_%d' % (i, ci)
            if not pre_ok:
                nbad[0] += 1
                if nbad[0] > 40:
                    # many wrong values (a broken build): the first 40 are certified wrong by Coq, the
                    # rest are reported on the float pre-screen alone to keep the run short
                    prescreen_only.setdefault(i, []).append((nm, 'bad', False))
                    continue
            cl = claims_for(F, r_, ref if ref not in (float('inf'), float('-inf')) else 2.0, p, negate=not pre_ok)
            tac = 'pt'
            if len(cl) > 1:
                tac = 'split; pt'
            if p.fn == 'tanh' and p.xabs >= 20:
                # exp of a huge argument must never reach interval evaluation
                tac = 'pt_tanh_big' if pre_ok else 'pt_tanh_big_not'
            lemmas.append((nm, ' /\\ '.join('(%s)' % x for x in cl), tac))
            plan[nm] = (i, 'ok' if pre_ok else 'bad')
        verdict[i] = okpre

    t0 = time.time()
    failed, pdir = run_coq_points(c, lemmas)
    c.extra['certified_points'] = {'lemmas': len(lemmas), 'not_certified': len([f for f in failed if not f.startswith('!')]), 'coq_wall_s': round(time.time() - t0, 1),
                                   'dir': os.path.relpath(pdir, os.path.dirname(CACHE)),
                                   'label': 'certified test oracles for the sampled points (each lemma Qed-closed by interval); not the universal theorem'}
    for f_ in failed:
        if f_.startswith('!'):
            c.notes.append('coqc on generated points: ' + f_[1:])
    # decide
    bad_points = {}
    for nm, (i, what) in plan.items():
        cert = nm not in failed
        if what == 'ok' and cert:
            continue
        bad_points.setdefault(i, []).append((nm, what, cert))
    for i, lst in prescreen_only.items():
        bad_points.setdefault(i, []).extend(lst)
    for i, lst in sorted(bad_points.items()):
        p = pts[i]
        kn = p.cls or set()
        certified_bad = any(what == 'bad' and cert for (_, what, cert) in lst)
        hit = False
        for k_ in sorted(kn):
            if c.known_finding(k_):
                hit = True
        if hit:
            continue
        c.violation('inaccurate' if certified_bad else ('inaccurate-by-prescreen' if i in prescreen_only else 'accuracy-not-certifiable'),
                    {'kind': 'impl-vs-spec', 'layer': 'L2', 'expr': p.expr, 'impl': p.out15, 'true_value_coq': [p.coq_re, p.coq_im],
                     'float_reference': repr(p.ref), 'lemmas': [(nm, what, 'certified' if cert else 'NOT certified') for nm, what, cert in lst],
                     'points_dir': pdir})
    # a listed class whose probe now behaves: note only (never an alarm)
    for i, p in enumerate(pts):
        if p.probe and p.probe in open_classes and p.probe not in c.known_hits and i not in bad_points and p.val is not None and not (p.want_exact and p.val[0]):
            c.notes.append('probe of class %s now satisfies the statement: %s -> %s' % (p.probe, p.expr, p.out15))
    k = [i for i, p in enumerate(pts) if p.kind.startswith('fn-')][:3]
    for i in k:
        c.sample({'expr': pts[i].expr + ' to 15 dp', 'impl': o15[i], 'true_value_coq': pts[i].coq_re})

# ----------------------------------------------------------------------------

ANGLE_NAMES = [  # every name of the ANGLES group of units/builtin.rs -> unit of the model (coq/Elem/AngleTable.v has the same list)
    ('radian', 'radian'), ('radians', 'radian'), ('rad', 'radian'),
    ('circle', 'circle'), ('circles', 'circle'), ('turn', 'circle'), ('turns', 'circle'), ('revolution', 'circle'),
    ('revolutions', 'circle'), ('rev', 'circle'), ('revs', 'circle'),
    ('degree', 'degree'), ('degrees', 'degree'), ('deg', 'degree'), ('degs', 'degree'), ('\u00b0', 'degree'),
    ('arcdeg', 'degree'), ('arcdegs', 'degree'),
    ('arcmin', 'arcmin'), ('arcmins', 'arcmin'), ('arcminute', 'arcmin'), ('arcminutes', 'arcmin'),
    ('arcsec', 'arcsec'), ('arcsecs', 'arcsec'), ('arcsecond', 'arcsec'), ('arcseconds', 'arcsec'),
    ('rightangle', 'rightangle'), ('rightangles', 'rightangle'),
    ('gradian', 'gradian'), ('gradians', 'gradian'), ('gon', 'gradian'), ('gons', 'gradian'), ('grad', 'gradian'),
    ('quadrant', 'quadrant'), ('quadrants', 'quadrant'), ('quintant', 'quintant'), ('quintants', 'quintant'),
    ('sextant', 'sextant'), ('sextants', 'sextant'), ('zodiac_sign', 'zodiacsign'), ('zodiac_signs', 'zodiacsign'),
    ('mas', 'milliarcsec'),
]

def check_angle_units(c):
    """every angle unit name, resolved by the tree under test (units hook), must be exactly one of itself,
    dimensionless, and reduce to radians with the exact factor of the model (Model.unit_in_pi) -- the same
    obligation as C15_angle_unit_table, asked of the live resolver on every run (the generated table is only
    regenerated by the units checks and, here, in the thorough tier)"""
    sys_path = os.path.join(ROOT, 'tools')
    import sys
    if sys_path not in sys.path:
        sys.path.insert(0, sys_path)
    import gen_tables
    names = [n for n, _ in ANGLE_NAMES]
    outs = c.impl('units', [sx([Sym('resolve'), gen_tables.CTX, n]) for n in names])
    mo = c.model('elem', [sx([Sym('angle'), Sym(u), 0, 1, 1]) for _, u in ANGLE_NAMES], cross=False)
    for (n, u), o, m in zip(ANGLE_NAMES, outs, mo):
        c.note_case('angle-unit:' + n, True, 'angle-unit-table')
        pm = parse_ok(m)
        want = ('pi' if pm[0] else 's', Fraction(-pm[2] if pm[1] else pm[2], pm[3])) if pm else None
        good = False
        try:
            r = gen_tables.dec_resolved(parse_sx(o))
            if r[0] == 'ok' and r[2] is not None:
                val, (red, _) = r[1], r[2]
                good = (val['val'] == ('s', Fraction(1)) and val['exact'] and len(val['units']) == 1 and val['units'][0][1] == 1
                        and red['base'] == [] and red['scale'] == want and val['units'][0][0]['scale'] == want)
        except Exception as e:
            c.notes.append('angle unit %s: could not decode the hook answer: %r' % (n, e))
        if not good:
            c.violation('angle-unit-factor-wrong', {'kind': 'impl-vs-spec', 'layer': 'L1', 'op': 'units-resolve', 'unit': n,
                                                    'impl': o[:600], 'expected_factor_to_radians': repr(want)})


COMMA_EXPRS = ['e', 'exp 1', 'exp 2', 'e^2', 'ln e', 'log10 e', 'log2 e', 'pi', 'tau', 'phi', 'sqrt 2', 'sin 1', 'cos 1', 'tan 1',
               'sinh 1', 'cosh 1', 'tanh 1', 'asin(1/2)', 'acos(1/3)', 'atan 2', 'asinh 3', 'acosh 3', 'atanh(1/3)', 'ln 10', 'exp(-3)',
               'e^(1/2)', '2^(1/2)', 'exp(1/3)', 'sin(1 degree)', 'cos(e)', 'e pi', 'e + pi', 'exp 10', 'ln(e^2)', 'e^e', 'e to 20 dp',
               'exp 1 to 20 dp', 'sin e', 'c', 'planck', 'avogadro', 'electron_mass', 'gravitational_constant', 'au to m', 'ly to m']

def check_comma_style(c):
    """the decimal-separator style is presentation only: an expression without decimal literals has the same
    value in both styles, i.e. the comma-style output is the dot-style output with '.' and ',' exchanged
    (witness class of the repaired finding comma_style_builtin_constants: e was 2718281828459045235)"""
    rng = c.rng
    exprs = list(COMMA_EXPRS)
    fns = ['sin', 'cos', 'tan', 'asin', 'acos', 'atan', 'sinh', 'cosh', 'tanh', 'asinh', 'acosh', 'atanh', 'ln', 'log2', 'log10', 'exp', 'sqrt']
    for _ in range(40 if c.tier == 'quick' else 400):
        f = rng.choice(fns); a = rng.randint(1, 40); b = rng.randint(1, 40)
        exprs.append('%s(%d/%d)' % (f, a, b) if rng.random() < 0.7 else '%s(%d/%d) * e' % (f, a, b))
    dot = c.impl('elem', [sx([Sym('eval'), e]) for e in exprs])
    com = c.impl('elem', [sx([Sym('eval-comma'), e]) for e in exprs])
    swap = str.maketrans({'.': ',', ',': '.'})
    for e, d, k in zip(exprs, dot, com):
        pd, pk = try_parse(d), try_parse(k)
        okd = isinstance(pd, list) and len(pd) == 2 and pd[0] == b'ok'
        okk = isinstance(pk, list) and len(pk) == 2 and pk[0] == b'ok'
        c.note_case('comma-style:' + e, okd, 'comma-style')
        if okd:
            word = pd[1].decode('utf-8', 'replace').split(' ')
            # 'approx.' keeps its full stop
            want = ' '.join(w if w == 'approx.' else w.translate(swap) for w in word)
            if not okk or pk[1].decode('utf-8', 'replace') != want:
                c.violation('comma-style-changes-value', {'kind': 'impl-vs-spec', 'layer': 'L2', 'op': 'eval-comma', 'expr': e,
                                                          'dot_style': d, 'comma_style': k, 'expected_comma_style': want})
        elif okk:
            c.violation('comma-style-changes-value', {'kind': 'impl-vs-spec', 'layer': 'L2', 'op': 'eval-comma', 'expr': e,
                                                      'dot_style': d, 'comma_style': k})


C15_CONE = ['Base.Prelude', 'Elem.Bridge', 'Elem.Model', 'Elem.ModelProofs', 'Elem.BridgeProofs', 'Elem.RootProofs', 'Elem.RoundProofs',
            'Elem.RoundMulti', 'Elem.TrigReals', 'Elem.PointDefs', 'Elem.Accuracy', 'Elem.AccuracySmall', 'Elem.AccuracyMulti',
            'Elem.LogAccuracy', 'Units.Defs', 'Units.Algebra', 'Units.Lookup', 'Units.Generated.UnitTable', 'Elem.AngleTable',
            'Properties.C15']

def thorough_proof_c15(c):
    """thorough tier: rebuild the cone of Properties/C15.vo from scratch in a fresh directory and re-check
    every module of the cone with coqchk.  vlib.Check.thorough_proof is not used here: its coqchk call also
    re-checks the whole of Coq Reals, Flocq, Coquelicot, Bignums and Interval (> 25 minutes without the VM);
    here those libraries are admitted (-norec on each FendV module) and the VM is enabled, which re-checks
    exactly our own files (7 s)."""
    fresh = os.path.join(CACHE, 'fresh_%s' % c.prop)
    shutil.rmtree(fresh, ignore_errors=True)
    os.makedirs(fresh)
    for rel in [m.replace('.', '/') + '.v' for m in C15_CONE]:
        dst = os.path.join(fresh, rel)
        os.makedirs(os.path.dirname(dst), exist_ok=True)
        shutil.copy(os.path.join(COQ, rel), dst)
    # a project file restricted to the cone
    with open(os.path.join(fresh, '_CoqProject'), 'w') as fh:
        fh.write('-Q . FendV\n-arg -w -arg -notation-overridden,-deprecated-hint-without-locality,-deprecated-instance-without-locality\n')
        for m in C15_CONE:
            fh.write(m.replace('.', '/') + '.v\n')
    rc, out = sh('coq_makefile -f _CoqProject -o Makefile && make -j%d Properties/C15.vo' % NPROC, cwd=fresh, timeout=3000)
    res = {'fresh_rebuild': rc == 0, 'modules': C15_CONE}
    if rc != 0:
        c.proof_failed = {'stage': 'fresh-rebuild', 'where': fresh, 'log': out[-3000:]}
        c.extra['thorough_proof'] = res
        return res
    cmd = ['coqchk', '-silent', '-o', '-bytecode-compiler', 'yes', '-Q', fresh, 'FendV']
    for m in C15_CONE:
        cmd += ['-norec', 'FendV.' + m]
    rc, out = sh(cmd, cwd=fresh, timeout=3000)
    res['coqchk'] = rc == 0
    res['coqchk_scope'] = 'every FendV module of the cone re-checked; Coq standard library, Flocq, Coquelicot, Bignums, Interval admitted (-norec)'
    mark = '* Constants/Inductives relying on type-in-type'
    tail = out[out.find(mark):] if mark in out else out[-600:]
    res['coqchk_tail'] = ' '.join(tail.split())[:400]
    if rc != 0:
        c.proof_failed = {'stage': 'coqchk', 'where': fresh, 'log': out[-3000:]}
    shutil.rmtree(fresh, ignore_errors=True)
    c.extra['thorough_proof'] = res
    return res


def check(c):
    c.rule = ('L1: rationals with 1..35 limbs per component incl. overflow/subnormal/tie corpus (into_f64, bit-exact), f64 bit patterns over all exponents (from_f64), '
              'every Real function on Simple and Pi-pattern arguments with libm answers supplied as an oracle table, BigRat::pow/Real::pow with root indices 2..7; '
              'L2: sin/cos at every multiple of pi/12 up to 100 pi (thorough 1000 pi) both signs, angle units, ~9 (thorough 190) random rationals per function over 1e-20..1e40, '
              'exp/powers/constants, complex extensions, domain edges, probes of each known class; non-trivial = anything but the literal exact points; distinct by input text')
    if c.tier == 'thorough':
        # regenerate the unit table from the tree under test (about 2.5 minutes): C15_angle_unit_table is then
        # a statement about that tree; in the quick tier the live resolver is asked instead (check_angle_units)
        import sys
        if os.path.join(ROOT, 'tools') not in sys.path:
            sys.path.insert(0, os.path.join(ROOT, 'tools'))
        import gen_tables
        try:
            _, changed, _ = gen_tables.generate()
            c.extra['unit_table_regenerated'] = {'changed': bool(changed)}
        except Exception as e:
            c.notes.append('unit table could not be regenerated: %r' % (e,))
    ok = c.proof(['C15'], extra_targets=['Extract/XElem.vo', 'Elem/PointDefs.vo'])
    if c.tier == 'thorough' and ok:
        thorough_proof_c15(c)
    pim = check_pi(c)
    check_angle_units(c)
    check_comma_style(c)
    check_into_f64(c)
    check_from_f64(c)
    check_real_fns(c)
    check_pows(c)
    check_l2(c, pim)


def replay(c, obj):
    print(json.dumps(obj, indent=1))
    if 'expr' in obj:
        for suffix in (' to 15 dp', ''):
            line = sx([Sym('eval'), ('@debug ' if not suffix else '') + obj['expr'] + suffix])
            print('impl :', line, '->', c.impl('elem', [line])[0])
    elif obj.get('op') == 'into-f64':
        line = sx([Sym('into-f64'), obj['neg'], int(obj['num']), int(obj['den'])])
        print('impl :', c.impl('elem', [line])[0]); print('model:', c.model('elem', [line], cross=False)[0])
    elif obj.get('op') == 'from-f64':
        line = sx([Sym('from-f64'), obj['bits']])
        print('impl :', c.impl('elem', [line])[0]); print('model:', c.model('elem', [line], cross=False)[0])
    elif obj.get('op') == 'real-fn':
        req = (obj['fn'], obj['pi'], obj['neg'], int(obj['num']), int(obj['den']))
        m, t = model_with_oracle(c, [req])
        print('model:', m[0], 'libm table', t[0])
        print('impl :', c.impl('elem', [sx([Sym('real-fn'), Sym(req[0])] + list(req[1:]))])[0])
    elif obj.get('op') in ('rat-pow', 'real-pow'):
        line = sx([Sym(obj['op'])] + [int(x) for x in obj['a']] + [int(x) for x in obj['b']])
        print('impl :', c.impl('elem', [line])[0]); print('model:', c.model('elem', [line], cross=False)[0])
    return 0
