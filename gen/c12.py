"""C12 — saved variables reload to the same values.
Proof: coq/Properties/C12.v (model coq/Ser/Codec.v, proofs Ser/CodecRT.v,
Ser/NamesProofs.v over the name tables re-extracted from the tree).
Tie: random statement histories are evaluated by the implementation
(Context, public API only), saved, and
  * the model reads the image and writes it back byte-identically,
  * the implementation reloads it into a fresh Context, saves again (same
    entries), and every variable prints / debug-prints / compares / applies
    exactly as before the reload (the property verdict),
  * the model of the pinned reader predicts which images the implementation
    fails to reload and how (error vs. absurd allocation)."""
import collections, json
from vlib import sx, Sym, parse_sx, try_parse
import ser_common as S

TRUSTED_BASE = [
    'Coq 8.16.1 kernel + vm_compute (name-table obligations, witnesses)',
    'extraction ExtrOcamlBasic -> OCaml 4.13.1, modelrun/driver.ml; cross-checked against vm_compute on a sample',
    'tools/gen_builtin_names.py (pattern extractor for as_str/try_from_str; refuses anything it does not recognise)',
    'harness/src/bin/h_ser.rs (Context::new / evaluate_with_interrupt / serialize_variables / deserialize_variables only)',
    'hand-written model coq/Ser/Codec.v tied to core/src/serialize.rs, value.rs, ast.rs, scope.rs, ident.rs, num/*.rs, date/*.rs, lib.rs only by this differential run',
    'the evaluator is not modelled: that reachable values satisfy wf_codec/wf_sem is observed per image (flags), not proved',
]
ASSUMPTIONS = [
    '64-bit target (usize = u64)',
    'wf_codec: what the Rust types guarantee (u64 limbs, UTF-8 strings, containers fit in memory, distinct hash-map keys)',
    'hash-map iteration order is arbitrary: theorems hold for every order; the check compares entry multisets',
]

PROBES = ['$', '@debug $', '$ + 1', '$ 2', '($ 2) 3', '$ to 2 dp', '$ == L$', '(\\q.q) $', 'sample $', '(sample $) + 10 (sample ($ + $))', '$ 1']
DEBUG_IDX = 1
KNOWN_MISSING = {'mean', 'arg', 'floor', 'ceil', 'round'}
NONTRIVIAL_KINDS = {'string-long', 'number-big', 'dist-big', 'dist-unsorted', 'many-variables', 'closure-higher-order',
                    'number-with-unit', 'number-in-base', 'date', 'dist', 'lambda', 'closure-with-scope', 'builtin',
                    'misc-unit-object-format-base', 'derived', 'number-complex-or-irrational', 'string'}

def inconclusive(p):
    return (not isinstance(p, list)) or p[0] == b's' or (len(p) > 1 and b'interrupted' in p[1])

def same_probe(k, a, b):
    if inconclusive(a) or inconclusive(b):
        return True
    if a[0] != b[0]:
        return False
    if k == DEBUG_IDX and a[0] == b'o':
        return S.debug_canon(a[1]) == S.debug_canon(b[1])
    return a[1] == b[1]

def check(c):
    c.rule = ('statement histories over a value-kind grammar (numbers incl. big/rational/complex/pi multiples with units, formats, bases; strings; dates; '
              'booleans; (); dice; objects; format/base values; every built-in function name; lambdas; curried closures with captured scopes; '
              'expressions over earlier variables); boundary corpus first (every built-in name and every fixed example singly), then random histories; '
              'non-trivial = some variable is not a plain unitless number; distinct by history text')
    names_ok = S.regenerate_names(c)
    ok = c.proof(['C12'], extra_targets=['Extract/XSer.vo'])
    if c.tier == 'thorough':
        c.thorough_proof(['C12'])
    if not names_ok:
        return
    sizes = S.get_sizes(c)
    TODAY, FIXED = S.cfg_today(sizes), S.cfg_fixed(sizes)
    nm = parse_sx(c.model(S.AREA, ['(names)'], cross=False)[0])
    as_names = [b.decode() for b in nm[0]]
    missing = [b.decode() for b in nm[2]]
    c.extra['builtin_literals_written'] = len(as_names)
    c.extra['builtin_literals_not_read_back'] = missing
    builtins = S.builtin_idents(as_names)
    # a literal that is written but not read back and is not one of the five listed ones is a concrete
    # failing input by itself (the generated-table obligation C12_builtin_names_except_known names it too)
    for lit in missing:
        if lit not in KNOWN_MISSING:
            c.violation('builtin-literal-not-read-back', {'kind': 'impl-vs-spec', 'literal': lit, 'history': ['v0 = ' + lit],
                                                           'what': 'BuiltInFunction::as_str writes %r, try_from_str does not accept it' % lit})

    r = c.rng
    hist = S.corpus_histories(builtins)
    nrand = 500 if c.tier == 'quick' else 8000
    for _ in range(nrand):
        hist.append(S.gen_history(r, builtins))
    for _ in range(nrand // 8):
        st, names = S.gen_higher_order(r)
        if r.random() < 0.6:
            st = S.with_globals(r, st)
        hist.append((st, names, ['closure-higher-order'] * len(names)))

    # ---- 1. save --------------------------------------------------------
    saved = c.impl(S.AREA, [sx([Sym('save')] + h[0]) for h in hist], timeout=120)
    cases = []
    for h, o in zip(hist, saved):
        p = try_parse(o)
        key = ' ; '.join(h[0])
        if not (isinstance(p, list) and p and p[0] == b'ok'):
            # evaluation itself crashed or hung (C06/C07 territory, not C12): skip, but say so
            c.notes.append('history not saved (%s): %s' % (o[:40], key[:120]))
            c.note_case(key, False, 'skipped-evaluation-crash')
            continue
        cases.append({'stmts': h[0], 'names': h[1], 'kinds': h[2], 'img': p[1], 'results': p[2], 'key': key})
    if not cases:
        c.violation('no-history-could-be-saved', {'kind': 'infrastructure'}, no_input=True)
        return

    # ---- 2. model on the image -----------------------------------------
    # ---- 3. implementation reload --------------------------------------
    il = c.impl(S.AREA, [sx([Sym('load'), k['img']]) for k in cases])
    # images written after the reload, read by the model (repaired reader: it reads every valid image)
    idx2 = []
    lines2 = []
    for i, o in enumerate(il):
        p = try_parse(o)
        if isinstance(p, list) and p and p[0] == b'ok':
            idx2.append(i)
            lines2.append(S.mline('entries', FIXED, p[1]))
    # one batch for the model (each c.model call re-validates the extraction build)
    lt = [S.mline('entries', TODAY, k['img']) for k in cases]
    lf = [S.mline('entries', FIXED, k['img']) for k in cases]
    mo = c.model(S.AREA, lt + lf + lines2)
    mt, mf = mo[:len(lt)], mo[len(lt):2 * len(lt)]
    m2 = dict(zip(idx2, mo[2 * len(lt):]))
    # ---- 4. behaviour before / after ------------------------------------
    live = c.impl(S.AREA, [sx([Sym('live'), k['names'], PROBES, k['stmts'], S.renamed(k['stmts'])]) for k in cases], timeout=120)
    loaded = c.impl(S.AREA, [sx([Sym('loaded'), k['img'], k['names'], PROBES, S.renamed(k['stmts'])]) for k in cases], timeout=120)

    sampled = 0
    for i, k in enumerate(cases):
        pf = try_parse(mf[i])
        pt = try_parse(mt[i])
        replay = {'kind': 'impl-vs-spec', 'history': k['stmts'], 'image_hex': k['img'].hex()}
        # the model (repaired reader) must read what the implementation wrote, byte for byte
        if not (isinstance(pf, list) and pf[0] == b'ok' and pf[2] == 0):
            c.violation('model-cannot-read-saved-image', dict(replay, kind='impl-vs-model', layer='L2 bytes', model_fixed=mf[i][:300]), no_input=True)
            continue
        ents = S.split_entries(pf)
        reser = len(ents).to_bytes(8, 'big') + b''.join(e['bytes'] for e in ents)
        if reser != k['img']:
            c.violation('model-reserialisation-differs', dict(replay, kind='impl-vs-model', layer='L2 bytes', model_reser_hex=reser.hex()), no_input=True)
            continue
        bad_wf = [e['name'].decode('utf-8', 'replace') for e in ents if not (e['wfc'] and e['wfs'])]
        if bad_wf:
            c.violation('reachable-value-not-well-formed', dict(replay, kind='impl-vs-model', layer='wf assumption', variables=bad_wf), no_input=True)
        classes = []
        if any(e['has_scope'] for e in ents):
            classes.append('scope_flag_inverted')
        if any(not e['names_ok'] for e in ents) and all(e['names_ok_or_known'] for e in ents):
            # only literals of the listed finding (mean arg floor ceil round) are involved
            classes.append('builtin_name_missing')
        nontrivial = any(kk in NONTRIVIAL_KINDS for kk in k['kinds']) or any(e['size'] > 1 for e in ents)
        c.note_case(k['key'], nontrivial, None)
        for kk in set(k['kinds']):
            c.dist[kk] = c.dist.get(kk, 0) + 1
        # ---- property verdict: reload succeeds and nothing changed ----
        pl = try_parse(il[i])
        reload_ok = isinstance(pl, list) and pl and pl[0] == b'ok'
        why = None
        if not reload_ok:
            why = 'reload failed: ' + il[i][:120]
        else:
            p2 = try_parse(m2.get(i, ''))
            if not (isinstance(p2, list) and p2[0] == b'ok'):
                why = 'image written after reload is unreadable'
            else:
                a = collections.Counter(e['canon'] for e in ents)
                b = collections.Counter(e['canon'] for e in S.split_entries(p2))
                if a != b:
                    why = 'entries written after reload differ'
        if why is None:
            pv = try_parse(live[i])
            pa = try_parse(loaded[i])
            if not (isinstance(pv, list) and pv[0] == b'ok' and isinstance(pa, list) and pa[0] == b'ok'):
                why = 'probe run failed: before=%s after=%s' % (live[i][:80], loaded[i][:80])
            elif [x[0] for x in pv[2]] != [x[0] for x in k['results']] or [x[0] for x in pv[3]] != [x[0] for x in pa[2]]:
                # a statement ran into the evaluation deadline in one run and not in the other (slow value,
                # loaded machine): the two contexts are not comparable - inconclusive, not a verdict
                c.dist['inconclusive-deadline'] = c.dist.get('inconclusive-deadline', 0) + 1
            else:
                for n, before, after in zip(k['names'], pv[1], pa[1]):
                    for j, (x, y) in enumerate(zip(before, after)):
                        if not same_probe(j, x, y):
                            why = 'variable %s probe %r: before %r after %r' % (n, PROBES[j], x, y)
                            break
                    if why:
                        break
        if why is not None:
            open_classes = [cl for cl in classes if c.known_finding(cl)]
            if not open_classes:
                c.violation('reload-changes-or-fails', dict(replay, what=why, classes=classes))
            continue
        for cl in classes:
            if any(kf.get('class') == cl and kf.get('status', 'open') == 'open' for kf in c.known):
                c.notes.append('class %s did not reproduce on: %s' % (cl, k['key'][:100]))
        # ---- tie: the model of the tree being checked agrees that this image loads ----
        if not (isinstance(pt, list) and pt[0] == b'ok') and not classes:
            c.violation('model-rejects-image-the-implementation-reloads', dict(replay, kind='impl-vs-model', layer='L2 accept/reject', model_today=mt[i][:200]), no_input=True)
        if sampled < 3 and nontrivial:
            sampled += 1
            c.sample({'history': k['stmts'], 'image_bytes': len(k['img']), 'variables': [e['name'].decode('utf-8', 'replace') for e in ents],
                      'reload': il[i][:20]})
    # regression corpus: the image of `f = \\x.\\y.x+y; g = f 3' that fend wrote and could not read back
    # (coq/Ser/Witness.v img_closure) must load and be written back with the same entries
    wit = parse_sx(c.model(S.AREA, ['(witnesses)'], cross=False)[0])[0]
    wl = try_parse(c.impl(S.AREA, [sx([Sym('load'), wit])])[0])
    okw = isinstance(wl, list) and wl and wl[0] == b'ok'
    if okw:
        a, b = [try_parse(x) for x in c.model(S.AREA, [S.mline('entries', FIXED, wit), S.mline('entries', FIXED, wl[1])], cross=False)]
        okw = (a[0] == b'ok' and b[0] == b'ok' and
               collections.Counter(e['canon'] for e in S.split_entries(a)) == collections.Counter(e['canon'] for e in S.split_entries(b)))
    if not okw:
        c.violation('saved-closure-image-does-not-reload', {'kind': 'impl-vs-spec', 'history': ['f = \\x.\\y.x+y', 'g = f 3'],
                                                            'image_hex': wit.hex(), 'what': 'regression of the repaired finding scope_flag_inverted'})
    c.extra['histories'] = len(hist)
    c.extra['images'] = len(cases)
    c.extra['probes_per_variable'] = PROBES

    if c.tier == 'thorough':
        # the corpus once more with overflow checks off (release profile)
        sub = [k for k in cases[:400]]
        rl = c.impl(S.AREA, [sx([Sym('load'), k['img']]) for k in sub], profile='release')
        for k, o, d in zip(sub, rl, il[:400]):
            a, b = try_parse(o), try_parse(d)
            if (a and a[0]) != (b and b[0]):
                c.violation('release-profile-differs', {'kind': 'impl-debug-vs-release', 'history': k['stmts'], 'debug': d[:80], 'release': o[:80]}, no_input=True)


def replay(c, obj):
    print(json.dumps({k: v for k, v in obj.items() if k != 'image_hex'}, indent=1))
    if 'history' in obj:
        sizes = S.get_sizes(c)
        o = parse_sx(c.impl(S.AREA, [sx([Sym('save')] + obj['history'])])[0])
        img = o[1]
        print('save :', [x[1].decode('utf-8', 'replace')[:60] for x in o[2]], len(img), 'bytes')
        print('impl load :', c.impl(S.AREA, [sx([Sym('load'), img])])[0][:200])
        print('model today:', c.model(S.AREA, [S.mline('entries', S.cfg_today(sizes), img)], cross=False)[0][:200])
        print('model fixed:', c.model(S.AREA, [S.mline('dump', S.cfg_fixed(sizes), img)], cross=False)[0][:2000])
    return 0
