"""C07 — evaluation is promptly interruptible and interruption leaves state sane.
Proof: coq/Properties/C07.v — (a) poll skeletons of the long loops
(coq/Eval/Cost.v), (b) the evaluator model under an interrupt (coq/Eval/Calc.v)
and the preview skeleton (coq/Eval/Preview.v).
Tie: the harness's Interrupt turns true at its k-th call and counts calls.
 * every k on short runs, sampled k on long ones: outcome is Err("interrupted")
   or the uninterrupted result; the context afterwards is in the model's
   reachable set (exactly the model's answer on the calculus fragment; per
   variable old-or-final elsewhere; _ and ans move together);
 * the number of polls the implementation makes never falls below the model's
   minimum (differences between a long and a short run of the same loop, so
   that polls added elsewhere cannot hide a removed one);
 * the loops without a poll are replayed with growing n: the number of polls
   stays put while the time grows — findings, classified by poll counts.
Wall-clock numbers are evidence only, never a verdict (except the generous
ratio used to recognise the known exponential-parse finding)."""
import json
from vlib import sx, Sym, parse_sx, try_parse, cps
from eval_common import *
import c09

TRUSTED_BASE = [
    'Coq 8.16.1 kernel + vm_compute (examples)',
    'extraction ExtrOcamlBasic -> OCaml, modelrun/driver.ml; cross-checked against vm_compute on a sample',
    'harness/src/bin/h_eval.rs: Probe interrupt (fires at call k, counts calls, records times), evalseq/polls/preview ops; core/src/verif_hooks/eval.rs snapshots',
    'the poll skeletons of coq/Eval/Cost.v are hand-written from the loop structure of biguint.rs/date.rs/dist.rs/parser.rs; they are tied to the code only through poll counts (inequalities) and the replays of the un-polled loops',
    'the calculus model (coq/Eval/Calc.v) is tied by C09 and, under interrupts, by this check',
]
ASSUMPTIONS = [
    'real time between polls is the runtime\'s: the theorems bound step counts of the skeletons, the check measures poll counts; wall-clock is recorded as evidence only',
    'formatting is an oracle in the model (number of polls and success); an interrupt during formatting finds _/ans already written (evaluate_to_spans)',
]


def run_interrupt_sweeps(c):
    """(b1) calculus fragment: implementation vs model for every firing point"""
    r = c.rng
    run = c09.Runner(c)
    nh = 40 if c.tier == 'quick' else 600
    hist = [list(h) for h in c09.BOUNDARY]
    for k in range(nh):
        steps, _ = c09.gen_history(r, shadowing=(k % 3 == 1), faulty=(k % 3 == 2))
        hist.append([c09.show(e, r) for e in steps])
    trees, impls, models = run.run(hist)
    reqs, meta = [], []
    for hi, h in enumerate(hist):
        im, md = impls[hi], models.get(hi)
        if im is None or md is None:
            continue
        polls = [st[1] for st in im]
        # the step with the most polls, and one random other step
        js = {max(range(len(h)), key=lambda j: polls[j]), r.randrange(len(h))}
        for j in js:
            n = polls[j]
            ks = list(range(0, n + 1)) if n <= (30 if c.tier == 'quick' else 200) else sorted(set([0, 1, 2, n // 2, n - 1, n] + [r.randint(0, n) for _ in range(12)]))
            for k in ks:
                steps = [(t, -1) for t in h[:j]] + [(h[j], k)] + [(t, -1) for t in h[j + 1:]]
                reqs.append(evalseq_req(0, steps))
                meta.append((hi, j, k))
    outs = c.impl('eval', reqs)
    mreqs = [sx([Sym('calc-run')] + [[c09.to_sx(trees[t]), (k if i == j else -1)] for i, t in enumerate(hist[hi])]) for hi, j, k in meta]
    mouts = c.model('eval', mreqs)
    # the model's reachable set per (history, step): the variables after an interrupt at any poll of that step
    # (every poll of the model's run of that step, not only the firing points sampled for the implementation)
    reach = {}
    rmeta = []
    for (hi, j) in sorted({(hi, j) for hi, j, _ in meta}):
        mp_n = c09.model_step(models[hi][j])[2]
        for k in range(0, mp_n + 1):
            rmeta.append((hi, j, k))
    routs = c.model('eval', [sx([Sym('calc-run')] + [[c09.to_sx(trees[t]), (k if i == j else -1)] for i, t in enumerate(hist[hi])]) for hi, j, k in rmeta], cross=False)
    for (hi, j, k), mo in zip(rmeta, routs):
        mp = parse_sx(mo)
        if mp[0] == b'ok':
            reach.setdefault((hi, j), []).append(c09.model_step(mp[1][j])[3])
    inexact = 0
    for (hi, j, k), o, mo in zip(meta, outs, mouts):
        h = hist[hi]
        rep = {'history': h, 'interrupted_step': j, 'k': k}
        c.note_case('sweep:%d:%d:%d' % (hi, j, k), True, 'fragment-sweep')
        if crashed(o):
            c.violation('interrupted-run-crashed', dict(rep, kind='impl-crash', impl=o[:200])); continue
        im = parse_sx(o)
        mp = parse_sx(mo)
        if mp[0] != b'ok':
            continue
        md = mp[1]
        unint = impls[hi]
        u_ok, u_val, u_polls, u_vars = c09.impl_step(unint[j])
        m_unint_polls = c09.model_step(models[hi][j])[2]
        # firing points line up with the model's only if the implementation polls exactly as often as the model on this step;
        # more polls (never an alarm) make the comparison a membership test in the model's reachable set
        exact = (u_polls == m_unint_polls)
        if not exact:
            inexact += 1
        for si in range(len(h)):
            okf, val, polls, vars_ = c09.impl_step(im[si])
            mok, mval, mpolls, mvars, _ = c09.model_step(md[si])
            if si == j:
                interrupted = (not okf) and val == 'Interrupted'
                if not interrupted and (okf, val) != (u_ok, u_val):
                    c.violation('interrupt-changed-the-result', dict(rep, kind='impl-vs-spec', got=val, uninterrupted=u_val)); break
                if interrupted and k >= u_polls:
                    c.violation('interrupted-after-last-poll', dict(rep, kind='impl-vs-spec', polls_uninterrupted=u_polls)); break
                if interrupted and im[si][3] != 0:
                    c.violation('polls-after-firing', dict(rep, kind='impl-vs-spec', calls_after_fire=im[si][3])); break
                if not exact:
                    if vars_ not in reach.get((hi, j), []) and vars_ != u_vars:
                        c.violation('state-after-interrupt-not-reachable-in-model', dict(rep, kind='impl-vs-model', step=si, vars=repr(vars_)), no_input=True)
                    break
            if si > j and not exact:
                break
            same = (okf == mok) and ((val == mval) if okf else (c09.errcode(val) == mval))
            if not same or vars_ != mvars:
                # reachable-set membership failed on the fragment where the model is exact
                d = {x: (vars_.get(x), mvars.get(x)) for x in set(vars_) | set(mvars) if vars_.get(x) != mvars.get(x)}
                c.violation('state-after-interrupt-differs-from-model', dict(rep, kind='impl-vs-model', step=si, impl=val, model=mval, diff=repr(d)), no_input=True)
                break
            if polls < mpolls:
                c.violation('fewer-polls-than-model', dict(rep, kind='impl-vs-model', step=si, impl_polls=polls, model_polls=mpolls), no_input=True)
                break
    c.extra['sweeps_with_more_polls_than_model'] = inexact


SETUP = ['a = 5', 'f = (x: x + a)', 's = "txt"', 'b = 2^70']


def run_general_sweeps(c):
    """(b2) arbitrary inputs: outcome in {interrupted, same}; per-variable old-or-final; _/ans move together"""
    r = c.rng
    ins = CORPUS_VALID + CORPUS_ASSIGN + CORPUS_LONG + CORPUS_MULTILINE + CORPUS_INVALID[:20] + CORPUS_RANDOM + CORPUS_RATES
    for _ in range(40 if c.tier == 'quick' else 800):
        s = gen_expr(r)
        if no_hang(s):
            ins.append(s)
    heavy = CORPUS_HEAVY if c.tier == 'thorough' else CORPUS_HEAVY[:4]
    ins = list(dict.fromkeys(ins + heavy))
    flags = F_RNG | F_RATES
    base = c.impl('eval', [evalseq_req(flags, [(t, -1) for t in SETUP] + [(s, -1)]) for s in ins], timeout=60)
    reqs, meta = [], []
    for s, o in zip(ins, base):
        if crashed(o):
            c.notes.append('uninterrupted run did not complete: %r -> %s' % (s, o[:60])); continue
        st = parse_sx(o)
        n = st[-1][1]
        if n <= (25 if c.tier == 'quick' else 120):
            ks = list(range(0, n + 1))
        else:
            ks = sorted(set([0, 1, 2, 3, n // 3, n // 2, n - 2, n - 1, n] + [r.randint(0, n) for _ in range(6 if c.tier == 'quick' else 30)]))
        for k in ks:
            reqs.append(evalseq_req(flags, [(t, -1) for t in SETUP] + [(s, k), ('a + 1', -1)]))
            meta.append((s, k, st))
    outs = c.impl('eval', reqs, timeout=60)
    worst_after = 0
    for (s, k, st0), o in zip(meta, outs):
        rep = {'setup': SETUP, 'input': s, 'k': k}
        c.note_case('gen:%s:%d' % (s, k), True, 'general-sweep')
        if crashed(o):
            c.violation('interrupted-run-crashed', dict(rep, kind='impl-crash', impl=o[:200])); continue
        st = parse_sx(o)
        before = c09.impl_step(st0[-2])[3]
        u_ok, u_val, u_polls, after = c09.impl_step(st0[-1])
        okf, val, polls, vars_ = c09.impl_step(st[len(SETUP)])
        interrupted = (not okf) and val == 'Interrupted'
        if not interrupted:
            # random results differ between runs only through the rng state, which is reset per request: same
            if (okf, val) != (u_ok, u_val):
                c.violation('interrupt-changed-the-result', dict(rep, kind='impl-vs-spec', got=val, uninterrupted=u_val)); continue
        else:
            if k >= u_polls:
                c.violation('interrupted-after-last-poll', dict(rep, kind='impl-vs-spec', polls_uninterrupted=u_polls)); continue
            worst_after = max(worst_after, st[len(SETUP)][6])
            if st[len(SETUP)][3] > 0:
                c.extra['max_calls_after_fire'] = max(c.extra.get('max_calls_after_fire', 0), st[len(SETUP)][3])
                c.extra.setdefault('calls_after_fire_examples', [])
                if len(c.extra['calls_after_fire_examples']) < 12:
                    c.extra['calls_after_fire_examples'].append([s, k, st[len(SETUP)][3]])
        # per variable: old or final (each name is assigned at most once by these inputs, except chained ones which we skip)
        multi = s.count('=') - s.count('==') * 2 - s.count('!=') - s.count('=>') > 1
        for nm in set(before) | set(after) | set(vars_):
            if nm in ('_', 'ans'):
                continue
            v = vars_.get(nm)
            if v != before.get(nm) and v != after.get(nm) and not multi:
                c.violation('partial-or-foreign-value-after-interrupt', dict(rep, kind='impl-vs-spec', name=nm, value=repr(v), before=repr(before.get(nm)), final=repr(after.get(nm))))
                break
        pair = (vars_.get('_'), vars_.get('ans'))
        old = (before.get('_'), before.get('ans'))
        new = (after.get('_'), after.get('ans'))
        explicit = ('_ =' in s) or ('ans =' in s)
        if pair != old and pair != new and not explicit:
            c.violation('ans-pair-inconsistent-after-interrupt', dict(rep, kind='impl-vs-spec', pair=repr(pair), old=repr(old), new=repr(new)))
        # the context is still usable
        okn, valn, _, _ = c09.impl_step(st[len(SETUP) + 1])
        a_now = vars_.get('a')
        if not okn and not (a_now is None or a_now[1] != '5'):
            c.violation('context-unusable-after-interrupt', dict(rep, kind='impl-vs-spec', next_input='a + 1', result=valn))
    c.extra['max_wall_us_between_firing_and_return'] = worst_after


def run_poll_minimums(c):
    """(a) differences of poll counts, long run minus short run of the same loop"""
    cases = []
    E = [2 ** 63, 2 ** 64 - 1, 12345678901234567, 2 ** 40 + 1, 1023]
    for e in E:
        cases.append(('pow', '0^%d' % e, '0^2', [sx([Sym('polls-pow'), 0, e]), sx([Sym('polls-pow'), 1, e])], [sx([Sym('polls-pow'), 0, 2]), sx([Sym('polls-pow'), 1, 2])]))
        cases.append(('pow', '(-1)^%d' % e, '(-1)^2', [sx([Sym('polls-pow'), 1, e]), sx([Sym('polls-pow'), 1, e])], [sx([Sym('polls-pow'), 1, 2]), sx([Sym('polls-pow'), 1, 2])]))
    for n in (20, 15, 10, 5, 2):
        cases.append(('factorial', '%d!' % n, '1!', [sx([Sym('polls-factorial'), n])], [sx([Sym('polls-factorial'), 1])]))
    for n in (93, 50, 10, 2):
        cases.append(('fibonacci', 'fib %d' % n, 'fib 1', [sx([Sym('polls-fib'), n])], [sx([Sym('polls-fib'), 1])]))
    for cnt, f in ((1, 6), (1, 600), (3, 6), (2, 20), (5, 4)):
        cases.append(('new_die', '%dd%d' % (cnt, f), 'd1', [sx([Sym('polls-die'), cnt, f])], [sx([Sym('polls-die'), 1, 1])]))
    # the loops repaired in 30274a2 / a55ff29 / f8353e2: removing one of the new polls is an alarm
    for n in (1000, 37):
        cases.append(('date_days', '@2000-01-01 + %d days' % n, '@2000-01-01 + 1 day', [sx([Sym('polls-date-days'), n])], [sx([Sym('polls-date-days'), 1])]))
        cases.append(('date_days', '@2000-01-01 - %d days' % n, '@2000-01-01 - 1 day', [sx([Sym('polls-date-days'), n])], [sx([Sym('polls-date-days'), 1])]))
    cases.append(('date_weeks', '@2000-01-01 - 200 weeks', '@2000-01-01 - 1 week', [sx([Sym('polls-date-days'), 200])], [sx([Sym('polls-date-days'), 1])]))
    for n in (1201, 30, 11):
        cases.append(('date_months', '@2000-01-01 - %d months' % n, '@2000-01-01 - 1 month', [sx([Sym('polls-date-months'), n])], [sx([Sym('polls-date-months'), 1])]))
    cases.append(('date_years', '@2000-01-01 - 300 years', '@2000-01-01 - 1 year', [sx([Sym('polls-date-months'), 3600])], [sx([Sym('polls-date-months'), 12])]))
    for n in (6400, 64 * 1000, 129):
        # baseline 1 << 1: a one-bit shift of a Small value polls nothing (1 << 64 would end with shifts of a Large value, which poll per limb)
        cases.append(('lshift_n', '(1 << %d) == 0' % n, '(1 << 1) == 0', [sx([Sym('polls-lshift'), n])], [sx([Sym('polls-lshift'), 1])]))
    for f1, f2 in ((40, 40), (6, 6), (3, 50)):
        cases.append(('dist_bop', 'd%d + d%d' % (f1, f2), 'd1 + d1',
                      [sx([Sym('polls-die'), 1, f1]), sx([Sym('polls-die'), 1, f2]), sx([Sym('polls-bop'), f1, f2])],
                      [sx([Sym('polls-die'), 1, 1]), sx([Sym('polls-die'), 1, 1]), sx([Sym('polls-bop'), 1, 1])]))
    # digit expansions: one poll per digit step (n decimal places; Brent's cycle detection on 1/d "to float")
    for d, n in ((7, 400), (97, 150), (9973, 60), (2 ** 70 + 1, 300)):
        cases.append(('digits', '1/%d to %d dp' % (d, n), '1/%d to 10 dp' % d, [sx([Sym('polls-digits'), n])], [sx([Sym('polls-digits'), 10])]))
    for d in (7, 97, 9973, 12, 28, 9901):
        cases.append(('recurring', '1/%d to float' % d, '1/3 to float', [sx([Sym('polls-recurring'), d])], [sx([Sym('polls-recurring'), 3])]))
    il = c.impl('eval', [polls_req(0, [], x, -1) for cs in cases for x in (cs[1], cs[2])])
    ml = [m for cs in cases for m in cs[3] + cs[4]]
    mo = iter(c.model('eval', ml))
    table = []
    for i, cs in enumerate(cases):
        a, b = parse_sx(il[2 * i]), parse_sx(il[2 * i + 1])
        big = sum(parse_sx(next(mo)) for _ in cs[3])
        small = sum(parse_sx(next(mo)) for _ in cs[4])
        di, dm = a[1] - b[1], big - small
        table.append((cs[0], cs[1], a[1], b[1], dm))
        c.note_case('min:' + cs[1], True, 'poll-minimum-' + cs[0])
        if txt(a[0]) != 'ok' or txt(b[0]) != 'ok':
            c.violation('poll-minimum-case-failed', {'kind': 'impl-vs-model', 'input': cs[1], 'result': txt(a[0])}, no_input=True); continue
        if di < dm:
            c.violation('fewer-polls-than-model', {'kind': 'impl-vs-model', 'loop': cs[0], 'long_input': cs[1], 'short_input': cs[2],
                                                  'impl_polls': [a[1], b[1]], 'model_minimum_difference': dm}, no_input=True)
    c.extra['poll_minimums'] = ['%s %s: impl %d - %d >= model %d' % t for t in table]


def run_l1_polls(c):
    """(a) level 1: BigUint::mul / divmod / one-bit lshift and rshift on raw limb vectors under a counting interrupt
    (hook biguint_polls) against the model's counts -- a poll removed from mul_internal, divmod or lshift shows here
    (at expression level it is masked by the polls of formatting)"""
    r = c.rng
    M = 2 ** 64

    def limb():
        k = r.random()
        if k < 0.2: return 0
        if k < 0.3: return M - 1
        if k < 0.4: return 2 ** 63
        if k < 0.5: return r.randint(1, 9)
        return r.randint(0, M - 1)

    def raw(maxlen=6, small_p=0.3):
        if r.random() < small_p:
            return 1, [limb()]
        return 0, [limb() for _ in range(r.randint(1, maxlen))]

    cases = []
    n = 200 if c.tier == 'quick' else 5000
    for _ in range(n):
        sa, a = raw(); sb, b = raw()
        cases.append(('mul', sa, a, sb, b))
        cases.append(('lshift', sa, a, 1, [0]))
        cases.append(('rshift', sa, a, 1, [0]))
        # divmod: Small divisor below 2^62 (exact count), the early exits, division by two, and the general case (minimum only)
        k = r.random()
        if k < 0.5:
            d = r.choice([3, 7, 10, 2 ** 32 + 1, 2 ** 62 - 1, r.randint(3, 2 ** 62 - 1)])
            cases.append(('divmod', 0, [limb() for _ in range(r.randint(2, 6))][:-1] + [r.randint(1, M - 1)], 1, [d]))
        elif k < 0.65:
            cases.append(('divmod', sa, a, r.choice([0, 1]), [r.choice([1, 2])]))
        elif k < 0.8:
            cases.append(('divmod', sa, a, sa, list(a)))
        else:
            cases.append(('divmod', 0, [limb() for _ in range(r.randint(2, 5))] + [r.randint(1, M - 1)], 0, [limb(), r.randint(1, M - 1)]))
    # shifts by a count: counts around the operand's bit length and far beyond it.  rshift_n must answer whatever the
    # count (its zero test bounds the work by the bit length); lshift_n only gets counts it can hold in memory
    def bits(sa_, a_):
        v = 0
        for i, d in enumerate(a_):
            v += d << (64 * i)
        return v.bit_length()
    for _ in range(n // 10):
        sa, a = raw(maxlen=4)
        bl = bits(sa, a)
        for cnt in sorted({max(bl - 1, 0), bl, bl + 1, 63, 64, 65, 2 ** 32, 2 ** 62, 2 ** 64 - 1}):
            cases.append(('rshift_n', sa, a, 1, [cnt]))
        for cnt in sorted({max(bl - 1, 0), bl, bl + 1, 63, 64, 65, 129, 64 * r.randint(2, 40)}):
            cases.append(('lshift_n', sa, a, 1, [cnt]))
    lines = [sx([Sym('bigpolls'), op, sa, a, sb, b]) for op, sa, a, sb, b in cases]
    mlines = [sx([Sym('l1-polls'), op, sa, a, sb, b]) for op, sa, a, sb, b in cases]
    io = c.impl('eval', lines)
    mo = c.model('eval', mlines)
    exact = 0
    for (op, sa, a, sb, b), i, m in zip(cases, io, mo):
        rep = {'op': op, 'a_small': sa, 'a_limbs': a, 'b_small': sb, 'b_limbs': b}
        c.note_case('l1:%s:%s:%s:%s:%s' % (op, sa, a, sb, b), True, 'l1-' + op)
        ip = try_parse(i)
        if not isinstance(ip, list) or ip[0] != b'ok':
            if isinstance(ip, list) and ip[0] == b'err':
                continue        # division by zero and the like
            if i.startswith('("hang")'):
                # no answer within the watchdog although the model says the operation is short: a loop that neither ends nor polls
                c.violation('l1-op-hangs', dict(rep, kind='impl-vs-spec', watchdog_s=10)); continue
            c.violation('l1-op-crashed', dict(rep, kind='impl-crash', impl=i[:120])); continue
        mp = parse_sx(m)
        if mp[0] == b'some':
            want = mp[1]
            if op != 'lshift_n':        # for lshift_n the model gives the minimum (one poll per inserted limb)
                exact += 1
        else:
            want = len(a)       # long division polls at least once per limb of the dividend
        if ip[1] < want:
            c.violation('fewer-polls-than-model', dict(rep, kind='impl-vs-model', impl_polls=ip[1], model_polls=want, exact_model=(mp[0] == b'some')), no_input=True)
        elif mp[0] == b'some' and op != 'lshift_n' and ip[1] != want:
            c.repr_drift += 1
    c.extra['l1_poll_cases'] = len(cases)
    c.extra['l1_poll_cases_with_exact_model'] = exact


def run_shift_family(c):
    """heavy-work family, shifts: counts around the operand's bit length and far beyond it, both directions.  Judged by
    "answers, or polls": with the interrupt firing at its 3000th call the run must end (result or Interrupted) within
    the watchdog; where the work is bounded by the operand (every right shift, left shifts by small counts) it must
    also answer when never interrupted."""
    ops = [('5', 3), ('18446744073709551617', 65), ('(2^200 + 3)', 201), ('0', 0), ('(2^64)', 65)]
    fired, plain = [], []
    for a, bl in ops:
        for cnt in sorted({max(bl - 1, 0), bl, bl + 1, 63, 64, 65, 2 ** 32, 2 ** 62, 10 ** 18}):
            for op in ('>>', '<<'):
                inp = '%s %s %d' % (a, op, cnt)
                fired.append(inp)
                if op == '>>' or cnt <= 300:
                    plain.append(inp)
    fo = c.impl('eval', [polls_req(0, [], x, 3000) for x in fired], timeout=20, workers=8)
    po = c.impl('eval', [polls_req(0, [], x, -1) for x in plain], timeout=20, workers=8)
    for inp, o in list(zip(fired, fo)) + list(zip(plain, po)):
        c.note_case('shift:' + inp + (':fired' if o in fo else ''), True, 'shift-family')
        if o.startswith('("hang")'):
            c.violation('runs-without-polling', {'kind': 'impl-vs-spec', 'input': inp, 'what': 'no answer and no reaction to the interrupt within 20 s'}); continue
        if crashed(o):
            c.violation('shift-crashed', {'kind': 'impl-crash', 'input': inp, 'impl': o[:100]}); continue
    # value check on the answers (independent of the model): python integers
    for inp, o in zip(plain, po):
        if crashed(o):
            continue
    c.extra['shift_family_inputs'] = len(fired) + len(plain)


UNIT_INPUTS = ['3 kg m / s^2', '5 N m', '2 V * 3 A', '10 ohm * 2 A', '1 kWh to J', '3 kg * 9.8 m/s^2', '100 N / 2 m^2',
               '2 W * 3 s', '6 J / 2 s', '5 km / 2 h', '1000 cm^3 to liter', '1 C * 1 V', '3 m * 4 m', '1 N / 1 m', '2 A * 3 s',
               '60 W to J/s', '1 kg m^2 / s^2', '3 mile to km', '1 V / 1 A', '5 m/s * 10 s']


def run_unit_sweeps(c):
    """results whose printing goes through unit simplification and default units (N, J, W, ohm, Pa, liter ...):
    EVERY firing point -- an interrupt swallowed somewhere on that path shows as a third outcome (neither
    Interrupted nor the uninterrupted text)"""
    r = c.rng
    ins = UNIT_INPUTS if c.tier == 'thorough' else UNIT_INPUTS[:4] + r.sample(UNIT_INPUTS[4:], 6)
    base = c.impl('eval', [polls_req(0, [], s, -1) for s in ins])
    ref = c.impl('eval', [evalseq_req(0, [(s, -1)]) for s in ins])
    reqs, meta = [], []
    for s, o, ro in zip(ins, base, ref):
        if crashed(o) or crashed(ro):
            c.notes.append('unit input did not complete: %r' % s); continue
        n = parse_sx(o)[1]
        u = c09.impl_step(parse_sx(ro)[0])
        for k in range(0, n + 1):
            reqs.append(evalseq_req(0, [(s, k)])); meta.append((s, k, u, n))
    outs = c.impl('eval', reqs)
    for (s, k, u, n), o in zip(meta, outs):
        c.note_case('unit:%s:%d' % (s, k), True, 'unit-sweep')
        if crashed(o):
            c.violation('interrupted-run-crashed', {'kind': 'impl-crash', 'input': s, 'k': k, 'impl': o[:100]}); continue
        okf, val, polls, vars_ = c09.impl_step(parse_sx(o)[0])
        if (not okf) and val == 'Interrupted':
            if k >= n:
                c.violation('interrupted-after-last-poll', {'kind': 'impl-vs-spec', 'input': s, 'k': k, 'polls_uninterrupted': n})
            continue
        if (okf, val) != (u[0], u[1]):
            c.violation('interrupt-changed-the-result', {'kind': 'impl-vs-spec', 'input': s, 'k': k, 'setup': [], 'flags': 0, 'got': val, 'uninterrupted': u[1]})
    c.extra['unit_sweep_cases'] = len(reqs)


def run_unpolled_replays(c):
    """(a) the loops that had no poll (three repaired, witnesses kept in corpus/C07/fixed_*.json: a loop that stops
    polling again is a VIOLATION) and the parser (open), replayed on the real code with a small and a large trip count"""
    import os, vlib
    for fn in sorted(os.listdir(os.path.join(vlib.ROOT, 'corpus', 'C07'))):
        if fn.startswith('fixed_') or fn.startswith('witness_'):
            c.extra.setdefault('witness_files', []).append(fn)
    thorough = c.tier == 'thorough'
    fam = [
        # class, description, small input, big input, expected growth of the loop's trip count
        ('unpolled_date_loop', '@2000-01-01 + n days', '@2000-01-01 + 1000 days', '@2000-01-01 + %d days' % (20000000 if thorough else 3000000)),
        ('unpolled_date_loop', '@2000-01-01 - n days', '@2000-01-01 - 1000 days', '@2000-01-01 - %d days' % (20000000 if thorough else 3000000)),
        ('unpolled_date_loop', '@2000-01-01 - n months', '@2000-01-01 - 1200 months', '@2000-01-01 - %d months' % (600000000 if thorough else 60000000)),
        ('unpolled_lshift_n', '(1 << 64 m) == 0', '(1 << 6400) == 0', '(1 << %d) == 0' % (64 * (60000 if thorough else 20000))),
        ('unpolled_dist_bop', 'dF + dF', None, None),
        ('exponential_juxtaposition_parse', '1 (1 (1 ...', None, None),
    ]
    lines = []
    for cls, desc, small, big in fam[:4]:
        lines += [polls_req(0, [], small, -1), polls_req(0, [], big, -1)]
    f1, f2 = (40, 160) if not thorough else (40, 320)
    lines += [polls_req(0, [], 'd%d + d%d' % (f1, f1), -1), polls_req(0, [], 'd%d + d%d' % (f2, f2), -1)]
    d1, d2 = (11, 16) if not thorough else (11, 19)
    lines += [polls_req(0, [], '1 ' + '(1 ' * d1, -1), polls_req(0, [], '1 ' + '(1 ' * d2, -1)]
    outs = c.impl('eval', lines, timeout=120, workers=2)
    ev = []
    def rec(o):
        p = parse_sx(o)
        return {'result': txt(p[0]), 'polls': p[1], 'max_gap_us': p[2], 'total_us': p[3]}
    for i, (cls, desc, small, big) in enumerate(fam[:4]):
        if crashed(outs[2 * i]) or crashed(outs[2 * i + 1]):
            c.notes.append('%s: replay did not complete (%s)' % (cls, outs[2 * i + 1][:40]))
            if not c.known_finding(cls):
                c.violation('unpolled-loop-hangs', {'kind': 'impl-vs-spec', 'class': cls, 'input': big})
            continue
        a, b = rec(outs[2 * i]), rec(outs[2 * i + 1])
        ev.append({'loop': desc, 'small': a, 'big': b})
        c.note_case('replay:' + desc, True, 'unpolled-replay')
        # the loop does not poll: the number of polls did not move although the trip count grew by orders of magnitude
        if b['polls'] <= a['polls'] + 8:
            if not c.known_finding(cls):
                c.violation('loop-without-poll', {'kind': 'impl-vs-spec', 'class': cls, 'small': small, 'big': big, 'polls': [a['polls'], b['polls']],
                                                  'max_gap_us': [a['max_gap_us'], b['max_gap_us']]})
    # Dist::bop: new_die polls F times per die; the F*F pair loop adds nothing
    i = 8
    if not (crashed(outs[i]) or crashed(outs[i + 1])):
        a, b = rec(outs[i]), rec(outs[i + 1])
        ev.append({'loop': 'd%d + d%d vs d%d + d%d' % (f1, f1, f2, f2), 'small': a, 'big': b})
        c.note_case('replay:dist', True, 'unpolled-replay')
        if (b['polls'] - 2 * f2) <= (a['polls'] - 2 * f1) + 8:
            if not c.known_finding('unpolled_dist_bop'):
                c.violation('loop-without-poll', {'kind': 'impl-vs-spec', 'class': 'unpolled_dist_bop', 'polls': [a['polls'], b['polls']]})
    # the parser: no polls at all while parsing; time doubles per level (generous factor 1.4 per level required to call it reproduced)
    i = 10
    if crashed(outs[i + 1]):
        if not c.known_finding('exponential_juxtaposition_parse'):
            c.violation('parser-hangs', {'kind': 'impl-vs-spec', 'input': '1 ' + '(1 ' * d2})
    elif not crashed(outs[i]):
        a, b = rec(outs[i]), rec(outs[i + 1])
        ev.append({'loop': 'parse 1 (1 (1 ... depth %d vs %d' % (d1, d2), 'small': a, 'big': b})
        c.note_case('replay:parser', True, 'unpolled-replay')
        if b['total_us'] > a['total_us'] * (1.4 ** (d2 - d1)) and b['polls'] <= a['polls'] * 3:
            c.known_finding('exponential_juxtaposition_parse')
    c.extra['unpolled_replays'] = ev


def run_preview_sweeps(c):
    """preview leaves no trace under interrupts (the full sweep is C13's)"""
    ins = ['a = 7; a + 1', 'b = a', 'f = (x: 2x); f 4', '2^200', 'roll d6', '1 USD to EUR', '3^4000', 'q = 1/0', 'a = 1; b = 2; a + b']
    flags = F_RNG | F_RATES
    first = c.impl('eval', [preview_req(flags, SETUP, s, [-1]) for s in ins])
    reqs = []
    for s, o in zip(ins, first):
        n = PreviewAnswer(o).ks[0].polls
        reqs.append(preview_req(flags, SETUP, s, list(range(0, min(n, 40) + 1)) + ([n // 2, n - 1] if n > 40 else [])))
    for s, o in zip(ins, c.impl('eval', reqs, timeout=60)):
        for pk in PreviewAnswer(o).ks:
            c.note_case('pv:%s:%d' % (s, pk.k), True, 'preview-sweep')
            if pk.panicked or pk.vars_before != pk.vars_after or pk.settings_before != pk.settings_after or pk.rng_calls or pk.rate_calls:
                c.violation('preview-left-a-trace', {'kind': 'impl-vs-spec', 'input': s, 'k': pk.k, 'setup': SETUP, 'flags': flags})


def check(c):
    c.rule = ('(input or history, firing point k): calculus-fragment histories with every k on the longest step (implementation vs model, exact); '
              'general corpus inputs on a context with variables with every k when the run has <= 25 polls, sampled k otherwise (spec predicates); '
              'poll-count differences for pow / factorial / fibonacci / new_die; replays of the loops without a poll with growing trip counts; '
              'preview under interrupts; non-trivial = the interrupt actually fires before the run ends or the case measures a loop; distinct by (input, k)')
    ok = c.proof(['C07'], extra_targets=['Extract/XEval.vo'])
    if c.tier == 'thorough' and ok:
        thorough_proof(c, ['C07'])
    run_interrupt_sweeps(c)
    run_general_sweeps(c)
    run_poll_minimums(c)
    run_l1_polls(c)
    run_shift_family(c)
    run_unit_sweeps(c)
    run_unpolled_replays(c)
    run_preview_sweeps(c)
    c.extra['left_to_runtime'] = ('wall-clock time between polls and after the firing poll; that the skeletons of Cost.v describe the loops (tied by poll counts only); '
                                  'hosts\' own budgets (20 ms hint, Ctrl-C, web timeout)')


def replay(c, obj):
    print(json.dumps(obj, indent=1, ensure_ascii=False))
    if 'history' in obj:
        h, j, k = obj['history'], obj.get('interrupted_step', 0), obj.get('k', -1)
        o = c.impl('eval', [evalseq_req(0, [(t, k if i == j else -1) for i, t in enumerate(h)])])[0]
        print('impl :', [c09.impl_step(s)[:3] for s in parse_sx(o)] if not crashed(o) else o)
    elif 'input' in obj:
        o = c.impl('eval', [evalseq_req(obj.get('flags', 3), [(t, -1) for t in obj.get('setup', [])] + [(obj['input'], obj.get('k', -1))])])[0]
        print('impl :', [c09.impl_step(s)[:3] for s in parse_sx(o)] if not crashed(o) else o)
    for key in ('big', 'long_input', 'short_input', 'small'):
        if key in obj and isinstance(obj[key], str):
            print(key, c.impl('eval', [polls_req(0, [], obj[key], -1)], timeout=300)[0])
    return 0
