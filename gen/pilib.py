"""Exact arithmetic in Q(pi) (pi transcendental): rational functions in one
indeterminate with Fraction coefficients, plus certified floors via rational
bounds on pi.  Independent reference for the Real-layer probes of gen/c03.py."""
from fractions import Fraction
from math import floor, ceil


def _trim(p):
    p = list(p)
    while p and p[-1] == 0:
        p.pop()
    return p


def padd(a, b):
    n = max(len(a), len(b))
    return _trim([(a[i] if i < len(a) else 0) + (b[i] if i < len(b) else 0) for i in range(n)])


def pmul(a, b):
    if not a or not b:
        return []
    out = [Fraction(0)] * (len(a) + len(b) - 1)
    for i, x in enumerate(a):
        for j, y in enumerate(b):
            out[i + j] += x * y
    return _trim(out)


def pscale(a, c):
    return _trim([x * c for x in a])


def peval(p, x):
    v = Fraction(0)
    for c in reversed(p):
        v = v * x + c
    return v


class QPi:
    """num/den, polynomials in pi (lists, low degree first)"""
    def __init__(self, num, den=None):
        self.num = _trim([Fraction(c) for c in num])
        self.den = _trim([Fraction(c) for c in (den if den is not None else [1])])
        if not self.den:
            raise ZeroDivisionError

    @staticmethod
    def rat(q):
        return QPi([Fraction(q)])

    @staticmethod
    def pi():
        return QPi([0, 1])

    def __add__(self, o):
        return QPi(padd(pmul(self.num, o.den), pmul(o.num, self.den)), pmul(self.den, o.den))

    def __neg__(self):
        return QPi(pscale(self.num, -1), self.den)

    def __sub__(self, o):
        return self + (-o)

    def __mul__(self, o):
        return QPi(pmul(self.num, o.num), pmul(self.den, o.den))

    def is_zero(self):
        return not self.num

    def __truediv__(self, o):
        if o.is_zero():
            raise ZeroDivisionError
        return QPi(pmul(self.num, o.den), pmul(self.den, o.num))

    def __pow__(self, n):
        r = QPi([1])
        for _ in range(n):
            r = r * self
        return r

    def rational(self):
        """the Fraction this equals, or None if it is not a rational number"""
        if not self.num:
            return Fraction(0)
        if len(self.num) != len(self.den):
            return None
        c = self.num[-1] / self.den[-1]
        return c if padd(self.num, pscale(self.den, -c)) == [] else None

    def bounds(self, lo, hi):
        """(value at lo, value at hi) when the denominator keeps its sign on [lo, hi]"""
        dl, dh = peval(self.den, lo), peval(self.den, hi)
        if dl == 0 or dh == 0 or (dl > 0) != (dh > 0):
            return None
        return peval(self.num, lo) / dl, peval(self.num, hi) / dh


def pi_bounds(digits=120):
    """rational lo < pi < hi, hi - lo = 10^-digits (Machin, integer arithmetic)"""
    scale = 10 ** (digits + 10)

    def arctan_inv(x):
        total, term, n, x2 = 0, scale // x, 1, x * x
        sign = 1
        while term:
            total += sign * (term // n)
            term //= x2
            n += 2
            sign = -sign
        return total
    p = 4 * (4 * arctan_inv(5) - arctan_inv(239))
    lo = Fraction(p // 10 ** 10 - 1, 10 ** digits)
    return lo, lo + Fraction(2, 10 ** digits)


PI_LO, PI_HI = pi_bounds()


def certified(v, fn):
    """fn (floor/ceil/round-half-away) of the real number v(pi); None if undecided"""
    r = v.rational()
    if r is not None:
        return fn(r)
    b = v.bounds(PI_LO, PI_HI)
    if b is None:
        return None
    a, c = fn(b[0]), fn(b[1])
    return a if a == c else None


def round_half_away(q):
    return floor(q + Fraction(1, 2)) if q >= 0 else -floor(-q + Fraction(1, 2))
