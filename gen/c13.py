"""C13 — live preview is side-effect free.
Proof: coq/Properties/C13.v over coq/Eval/Preview.v (the evaluator is an
arbitrary program; the theorems are about evaluate_preview_with_interrupt's
clone / disable / evaluate / restore / filter skeleton).
Tie: fend_core::evaluate_preview_with_interrupt through harness h_eval on
contexts with variables, settings and counting rng / exchange-rate callbacks,
for a corpus of inputs and every prefix of each, with the interrupt firing at
its k-th call for all small k.  Spec = the property as a predicate over the
implementation's own before/after observations; model = the output filter
applied to what a plain evaluation of the same input answers."""
import json
from vlib import sx, Sym, parse_sx, cps
from eval_common import *

TRUSTED_BASE = [
    'Coq 8.16.1 kernel + vm_compute (witnesses)',
    'extraction ExtrOcamlBasic -> OCaml, modelrun/driver.ml; cross-checked against vm_compute on a sample',
    'harness/src/bin/h_eval.rs (builds contexts through the public API, counting rng fn / exchange-rate closure, FireAt-style interrupt) and '
    'core/src/verif_hooks/eval.rs (read-only per-entry snapshot of Context incl. handler identity)',
    'modelling assumption: the evaluator reaches the random source and the exchange-rate handler only through the Context fields at call time '
    '(dist.rs Dist::sample, units.rs expr_unit) -- tied by the call counters',
    'the evaluator itself is an oracle (arbitrary program) in C13; its real behaviour is C09/C07/C06 territory',
]
ASSUMPTIONS = ['no panic inside the evaluation (C06): unwinding skips the restore -- theorem C13_preview_ctx_unchanged_except_known; '
               'the refuted full statement is reproduced on the real code whenever a panicking input exists']

# the preview's own effects on a copy must not leak: see 'lazy-closures' and the behavioural probes in verify()
CONTEXTS = [
    # (name, flags, setup)
    ('vars+handlers', F_RNG | F_RATES, ['a = 5', 'f = (x: x + a)', 's = "txt"', 'r = 1 GBP to JPY', 'b = roll d6', '7 + 1']),
    ('all-settings', F_RNG | F_RATES | F_COULOMB | F_TERMINAL | F_COMMA | F_CUSTOM, ['a = 1,5', 'x = 2 blorps', 'g = (y: y a)']),
    # partially applied closures whose captured arguments are still unevaluated (lazy) and mention globals
    ('lazy-closures', F_RNG | F_RATES, ['a = 1', 'c = 10', 'f = (x: y: x + y) a', 'g = (x: y: z: x * y + z) (a + c) a',
                                        'h = (p: q: p q) (x: x + a)', 'k = (x: y: x) (roll d6)', 'm = (x: y: x + y) (f c)']),
    ('bare', 0, []),
    ('rng-only', F_RNG, ['a = 2']),
]


def build_inputs(c):
    r = c.rng
    base = (CORPUS_VALID + CORPUS_ASSIGN + CORPUS_RANDOM + CORPUS_RATES + CORPUS_LONG + CORPUS_MULTILINE + CORPUS_ECHO
            + CORPUS_INVALID + CORPUS_PANICKY)
    kinds = {}
    for lst, kd in ((CORPUS_VALID, 'valid'), (CORPUS_ASSIGN, 'assign'), (CORPUS_RANDOM, 'random'), (CORPUS_RATES, 'rates'),
                    (CORPUS_LONG, 'long'), (CORPUS_MULTILINE, 'multiline'), (CORPUS_ECHO, 'echo'), (CORPUS_INVALID, 'invalid'),
                    (CORPUS_PANICKY, 'panicky')):
        for s in lst:
            kinds.setdefault(s, kd)
    # previews that reassign the globals stored closures read lazily, then force those closures
    alias = []
    for g in ('a', 'c'):
        for use in ('f 1', 'g 1 2', 'h 3', 'k 1', 'm 2', 'f', 'g 1', 'f 1 + g 1 2 + h 3 + m 2'):
            alias.append('%s = 100; %s' % (g, use))
    alias += ['f 1', 'g 1 2', 'h 3', 'k 1', 'm 2', 'a = 100; c = 200; m 2; g 1 2', 'f = (x: y: 0) 5; f 1', 'a = a + 1; f a']
    for s_ in alias:
        base.append(s_); kinds.setdefault(s_, 'alias')
    ngen = 120 if c.tier == 'quick' else 800
    for _ in range(ngen):
        s = gen_expr(r)
        if no_hang(s):
            base.append(s); kinds.setdefault(s, 'generated')
    for _ in range(ngen // 2):
        s = gen_noise(r)
        if no_hang(s):
            base.append(s); kinds.setdefault(s, 'noise')
    # witnesses of repaired findings stay in the corpus (corpus/C13/fixed_*.json): a regression is a VIOLATION
    import os, json as _json, vlib
    d = os.path.join(vlib.ROOT, 'corpus', 'C13')
    for fn in sorted(os.listdir(d)):
        if fn.startswith('fixed_') and fn.endswith('.json'):
            for s in _json.load(open(os.path.join(d, fn))).get('inputs', []):
                base.append(s); kinds.setdefault(s, 'multiline')
    heavy = CORPUS_HEAVY if c.tier == 'thorough' else CORPUS_HEAVY[:3]
    for s in heavy:
        base.append(s); kinds.setdefault(s, 'heavy')
    # every prefix of each (by characters)
    seen = set()
    full, prefixes = [], []
    for s in base:
        if s not in seen:
            seen.add(s); full.append(s)
    for s in full:
        if kinds[s] == 'heavy':
            continue
        for i in range(1, len(s)):
            p = s[:i]
            if p not in seen and no_hang(p):
                seen.add(p); prefixes.append(p); kinds[p] = 'prefix-of-' + kinds[s].split('-')[-1]
    return full, prefixes, kinds


def spec_output_ok(text, is_unit, inp):
    """the property's output clause as a predicate (python side; the Coq spec
    single_line/known class is consulted through the model for the line-break part)"""
    if text == '':
        return True
    return (not is_unit) and len(text.encode('utf-8')) <= 50 and text.strip() != inp.strip()


def check(c):
    c.rule = ('(context, input, firing point k) triples; inputs = corpus (valid/invalid/assignments/random/currency/long/multi-line/echo/'
              'panicky/heavy) + grammar-generated + noise + every character prefix; contexts = 4 (variables, closures, currency-valued '
              'variable, all settings changed, handlers installed or not); k = every call index up to the number of polls when small, '
              'sampled otherwise; non-trivial = the plain evaluation of the input succeeds or the input assigns/draws/asks a rate; distinct by (context, input, k)')
    ok = c.proof(['C13'], extra_targets=['Extract/XEval.vo'])
    if c.tier == 'thorough' and ok:
        thorough_proof(c, ['C13'])
    r = c.rng
    full, prefixes, kinds = build_inputs(c)
    kfull = 10 if c.tier == 'quick' else 20
    # which inputs go to which context: everything on context 0; the other
    # contexts get all full inputs and a sample of the prefixes
    jobs = []
    for ci, (cname, flags, setup) in enumerate(CONTEXTS):
        ins = list(full)
        if ci == 0:
            ins += r.sample(prefixes, min(len(prefixes), 1000 if c.tier == 'quick' else 20000))
        else:
            ins += r.sample(prefixes, min(len(prefixes), 150 if c.tier == 'quick' else 2000))
        for s in ins:
            jobs.append((ci, s))
    # phase 1: uninterrupted
    lines = [preview_req(CONTEXTS[ci][1], CONTEXTS[ci][2], s, [-1]) for ci, s in jobs]
    out1 = c.impl('eval', lines, timeout=30 if c.tier == 'quick' else 120)
    # phase 2: firing points
    jobs2, lines2 = [], []
    answers = {}
    for (ci, s), o in zip(jobs, out1):
        if crashed(o):
            # the process died or hung: that is C06/C07's finding, not C13's; but it must be one of the known heavy/panicky inputs
            c.note_case('crash:%d:%s' % (ci, s), False, 'process-crash-or-hang')
            if kinds.get(s, '').endswith('panicky') or kinds.get(s) == 'heavy':
                continue
            c.notes.append('preview request did not complete: ctx=%s input=%r -> %s' % (CONTEXTS[ci][0], s, o[:80]))
            continue
        a = PreviewAnswer(o)
        answers[(ci, s)] = a
        n = a.ks[0].polls
        if n <= kfull:
            ks = list(range(0, n + 2))
        else:
            ks = sorted(set([0, 1, 2, 3, n // 2, n - 2, n - 1, n, n + 1] + [r.randint(0, n) for _ in range(3 if c.tier == 'quick' else 10)]))
        jobs2.append((ci, s, ks))
        lines2.append(preview_req(CONTEXTS[ci][1], CONTEXTS[ci][2], s, ks))
    out2 = c.impl('eval', lines2, timeout=60 if c.tier == 'quick' else 300)
    # model: the filter applied to the reference evaluation; spec line-break predicate on what the implementation showed
    mlines, mkeys = [], []
    for key, a in answers.items():
        if a.ref_kind == b'o':
            mlines.append(sx([Sym('preview-filter'), cps(key[1]), cps(a.ref_text), a.ref_unit])); mkeys.append(key)
    mout = dict(zip(mkeys, c.model('eval', mlines)))
    shown_texts = set()

    def verify(ci, s, a, pk, n_uninterrupted):
        cname, flags, setup = CONTEXTS[ci]
        rep = {'context': cname, 'flags': flags, 'setup': setup, 'input': s, 'k': pk.k}
        key = '%d|%s|%d' % (ci, s, pk.k)
        nontrivial = (a.ref_kind == b'o' and a.ref_text != '') or any(t in s for t in ('=', 'roll', 'sample', 'USD', 'EUR', 'GBP', '$'))
        c.note_case(key, nontrivial, kinds.get(s, 'prefix'))
        if pk.panicked:
            # the evaluator panicked (C06).  Did the context survive?
            same = (pk.vars_before == pk.vars_after and pk.settings_before == pk.settings_after)
            if not same:
                if not c.known_finding('preview_panic_skips_restore'):
                    c.violation('preview-panic-skips-restore', dict(rep, kind='impl-vs-spec', what='context changed after a panic inside preview',
                                                                    settings_after=repr(pk.settings_after)))
            return
        # --- context exactly as it was
        d = diff_entries(pk.vars_before, pk.vars_after)
        if d:
            c.violation('preview-changed-variables', dict(rep, kind='impl-vs-spec', diff=d)); return
        if pk.settings_before != pk.settings_after:
            c.violation('preview-changed-settings', dict(rep, kind='impl-vs-spec', before=repr(pk.settings_before), after=repr(pk.settings_after))); return
        if pk.probes_before != pk.probes_after:
            c.violation('preview-changed-probe-results', dict(rep, kind='impl-vs-spec', before=repr(pk.probes_before), after=repr(pk.probes_after))); return
        # --- behaviour: every stored variable evaluated / applied to fixed arguments gives what it gives on a twin
        # context that never saw the preview (state shared between the preview's clone and the real context would show here)
        if isinstance(pk.behaviour, list) and len(pk.behaviour) == 2 and isinstance(pk.behaviour[1], list):
            if pk.behaviour[1]:
                d = [(txt(x[0]), txt(x[1]), txt(x[2])) if len(x) == 3 and isinstance(x[0], list) else repr(x) for x in pk.behaviour[1][:6]]
                c.violation('preview-changed-behaviour', dict(rep, kind='impl-vs-spec', probe_previewed_twin=d)); return
        # --- no random number drawn, no rate requested
        if pk.rng_calls != 0 or pk.rate_calls != 0:
            c.violation('preview-called-host', dict(rep, kind='impl-vs-spec', rng_calls=pk.rng_calls, rate_calls=pk.rate_calls)); return
        # --- handlers still installed and usable
        if pk.rng_works != (1 if flags & F_RNG else 0) or pk.rates_work != (1 if flags & F_RATES else 0):
            c.violation('preview-lost-handler', dict(rep, kind='impl-vs-spec', rng_works=pk.rng_works, rates_work=pk.rates_work)); return
        # --- output clause (spec as predicate)
        if not spec_output_ok(pk.text, pk.is_unit, s):
            c.violation('preview-output-not-ok', dict(rep, kind='impl-vs-spec', text=pk.text, is_unit=pk.is_unit)); return
        if pk.text != '':
            shown_texts.add(pk.text)
        # --- model: filter(reference evaluation)
        if a.ref_kind == b'o' and mout.get((ci, s)) == '1':
            expected = (a.ref_text, a.ref_unit, a.ref_newline)
        else:
            expected = ('', 1, 1)
        got = (pk.text, pk.is_unit, pk.trailing_newline)
        interrupted_possible = pk.k >= 0 and pk.k < n_uninterrupted
        if got != expected and not (interrupted_possible and got == ('', 1, 1)):
            c.violation('preview-output-differs-from-model', dict(rep, kind='impl-vs-model', got=repr(got), expected=repr(expected),
                                                                   reference=a.ref_text if a.ref_kind == b'o' else a.ref_err), no_input=True)
            return
        if pk.spans_ok != 1:
            c.violation('preview-spans-differ-from-text', dict(rep, kind='impl-vs-spec', text=pk.text)); return

    for (ci, s), a in answers.items():
        verify(ci, s, a, a.ks[0], a.ks[0].polls + 1)
    for (ci, s, ks), o in zip(jobs2, out2):
        if crashed(o):
            c.notes.append('preview sweep did not complete: ctx=%s input=%r -> %s' % (CONTEXTS[ci][0], s, o[:80]))
            continue
        a2 = PreviewAnswer(o)
        n = answers[(ci, s)].ks[0].polls
        for pk in a2.ks:
            verify(ci, s, answers[(ci, s)], pk, n)
    # --- "never multi-line": Unicode line breaks in what was shown (spec) vs the known class (model)
    shown = sorted(shown_texts)
    sl = c.model('eval', [sx([Sym('preview-spec'), cps(t)]) for t in shown])
    for t, o in zip(shown, sl):
        single, known, _ = parse_sx(o)
        if single == 0:
            if known == 1 and c.known_finding('preview_c1_linebreak'):
                continue        # only while the class is listed open; it is fixed (eacb46c), so this is a regression
            c.violation('preview-multi-line', {'kind': 'impl-vs-spec', 'shown_text_codepoints': cps(t)})
    c.sample({'context': CONTEXTS[0][0], 'input': 'a = 7; a + 1', 'shown': [pk.text for pk in answers[(0, 'a = 7; a + 1')].ks]})
    c.extra['contexts'] = [n for n, _, _ in CONTEXTS]
    c.extra['inputs_full'] = len(full)
    c.extra['inputs_prefixes'] = len(prefixes)
    c.extra['left_to_runtime'] = ('that the real evaluator is an instance of the model\'s program type (reaches handlers only via the context fields, '
                                  'does not panic) is observed on the cases run, not proved')


def replay(c, obj):
    print(json.dumps(obj, indent=1, ensure_ascii=False))
    if 'input' in obj and 'flags' in obj:
        o = c.impl('eval', [preview_req(obj['flags'], obj.get('setup', []), obj['input'], [-1, obj.get('k', -1)])])[0]
        print('impl :', o[:3000])
        if not crashed(o):
            a = PreviewAnswer(o)
            for pk in a.ks:
                print(' k=%d shown=%r unit=%r polls=%r rng=%r rates=%r vars_same=%r settings_same=%r' % (
                    pk.k, pk.text, pk.is_unit, pk.polls, pk.rng_calls, pk.rate_calls, pk.vars_before == pk.vars_after, pk.settings_before == pk.settings_after))
            if a.ref_kind == b'o':
                print('model:', c.model('eval', [sx([Sym('preview-filter'), cps(obj['input']), cps(a.ref_text), a.ref_unit])], cross=False)[0])
    return 0
