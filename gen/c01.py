"""C01 -- exact arithmetic on rationals and complex rationals is exact.
Proof: coq/Properties/C01.v (model coq/Num/*.v).
Tie L1: every BigUint / BigRat operation on raw representations (hooks in
core/src/verif_hooks/num.rs) against the extracted model (representation and
value) and against Python integers / fractions (the independent spec).
Tie L2: random expression trees through fend_core::evaluate against
fractions.Fraction and the model's evaluator."""
import json, math
from fractions import Fraction
from vlib import sx, Sym, parse_sx, try_parse

TRUSTED_BASE = [
    'Coq 8.16.1 kernel; vm_compute only for the two refutation witnesses and the non-vacuity examples',
    'extraction ExtrOcamlBasic -> OCaml 4.13.1, modelrun/driver.ml; cross-checked against vm_compute on a sample',
    'hand-written model coq/Num/{BigUint,BigRat,RealCx,Expr}.v tied to core/src/num/{biguint,bigrat,real,complex,exact,unit}.rs only by this differential run',
    'hooks core/src/verif_hooks/num.rs (build Small/Large exactly as given; BigRat through its own serialize/deserialize) + cfg-gated BigRat::verif_simplify',
    'harness/src/bin/h_num.rs; Python int / fractions.Fraction as the independent arithmetic on the check side',
    'L2: fend lexer/parser/formatter are exercised but not modelled here (C02/C08); literals are plain decimal integers',
]
ASSUMPTIONS = ['test_int never interrupts (Interrupt = Never)', 'limbs are u64 (wf: every limb < 2^64, Large non-empty)']

W = 1 << 64
SPECIAL = [0, 1, 2, 1 << 62, (1 << 63) - 1, 1 << 63, (1 << 63) + 1, W - 2, W - 1]

BIG_EXPONENTS = [(1 << 31) - 1, 1 << 31, (1 << 31) + 1, (1 << 32) - 1, 1 << 32, (1 << 32) + 1, 3 << 32, (3 << 32) + 1, 1 << 33,
                 (1 << 48) + 7, (1 << 63) - 1, 1 << 63, (1 << 63) + 1, W - 2, W - 1]

# ----------------------------------------------------------------------------
# representations

def val(rep):
    if rep[0] == 's':
        return rep[1]
    v = 0
    for i, x in enumerate(rep[1]):
        v += x << (64 * i)
    return v

def vlen(rep):
    return 1 if rep[0] == 's' else len(rep[1])

def wire(rep):
    return [rep[0], rep[1]] if rep[0] == 's' else ['l', list(rep[1])]

def rep_key(rep):
    return rep[0] + ':' + (str(rep[1]) if rep[0] == 's' else ','.join(map(str, rep[1])))

def limbs_of(v, n=None):
    out = []
    while v:
        out.append(v & (W - 1)); v >>= 64
    if not out:
        out = [0]
    if n is not None:
        out += [0] * (n - len(out))
    return out

def rand_limb(r):
    k = r.random()
    if k < 0.45:
        return r.choice(SPECIAL)
    if k < 0.55:
        return r.getrandbits(r.choice([1, 8, 31, 32, 33, 62, 63]))
    return r.getrandbits(64)

def rand_len(r, maxlen):
    return min(maxlen, r.choice([1, 1, 1, 2, 2, 2, 3, 3, 4, 5, 6, 8, 12, 17, 33, 64, 70]))

def rand_limbs(r, n):
    style = r.random()
    if style < 0.2:
        v = [W - 1] * n
        if r.random() < 0.5:
            v[0] = rand_limb(r)
        return v
    if style < 0.3:
        v = [0] * n
        v[-1] = rand_limb(r) or 1
        return v
    if style < 0.4:
        v = [r.choice([0, W - 1]) for _ in range(n)]
        return v
    return [rand_limb(r) for _ in range(n)]

def rand_bu(r, maxlen=70):
    k = r.random()
    if k < 0.25:
        return ('s', rand_limb(r))
    v = rand_limbs(r, rand_len(r, maxlen))
    if r.random() < 0.25:
        v = v + [0] * r.choice([1, 1, 2, 3])
    return ('l', v)

def rep_of(r, v, maxpad=3):
    """some representation of the value v"""
    k = r.random()
    if v < W and k < 0.4:
        return ('s', v)
    l = limbs_of(v)
    if k < 0.7:
        return ('l', l)
    return ('l', l + [0] * r.randint(1, maxpad))

# ----------------------------------------------------------------------------
# normalising the two sides' answers

def norm_impl(op, text):
    p = try_parse(text)
    if not isinstance(p, list) or not p:
        return ('bad', text)
    if p[0] == b'ok':
        return ('ok', p[1])
    if p[0] == b'err':
        return ('err', p[1])
    if p[0] == b'panic':
        msg = p[1].decode('utf-8', 'replace') if isinstance(p[1], bytes) else ''
        site = None
        if 'number would be less than 0' in msg:
            site = 102
        elif 'assertion' in msg:
            site = 103
        elif 'subtract with overflow' in msg or 'out of bounds' in msg or 'out of range' in msg:
            site = 104 if op in ('bu-lshift',) else 101
        return ('panic', site)
    if p[0] in (b'abort', b'hang'):
        return (p[0].decode(), None)
    return ('bad', text)

def norm_model(text):
    p = try_parse(text)
    if not isinstance(p, list) or not p:
        return ('bad', text)
    if p[0] == b'ok':
        return ('ok', p[1])
    if p[0] == b'err':
        return ('err', p[1])
    if p[0] == b'panic':
        return ('panic', p[1])
    if p[0] in (b'hang', b'abort'):
        return ('slow', None)       # the extracted model ran out of time / stack: no verdict from it
    return ('bad', text)

def unwire(p):
    """parsed ("s" n) / ("l" (limbs)) -> rep"""
    if isinstance(p, list) and len(p) == 2 and p[0] == b's' and isinstance(p[1], int):
        return ('s', p[1])
    if isinstance(p, list) and len(p) == 2 and p[0] == b'l' and isinstance(p[1], list):
        return ('l', list(p[1]))
    return None

def rep_wf(rep):
    if rep is None:
        return False
    if rep[0] == 's':
        return 0 <= rep[1] < W
    return len(rep[1]) >= 1 and all(0 <= x < W for x in rep[1])

# ----------------------------------------------------------------------------
# classes of the two defects repaired in fcf264e / 2c2d128 (same definitions as
# add_known / pow_known in coq/Num/BigUint.v).  Both are listed as fixed, so a
# failure inside them is reported like any other violation; the classes are
# only used to show that the corpus still contains inputs that tell the old
# code from the new (regression sensitivity, see check_regression_witnesses).

def add_known(a, b):
    return a[0] == 's' and vlen(b) > 1 and a[1] + val(b) >= W ** vlen(b)

def pow_known(a, b):
    return val(b) != 0 and vlen(b) > 1 and val(b) < W

CLS_ADD = 'biguint-add-lost-carry'
CLS_POW = 'biguint-pow-leading-zero-exponent'

# ----------------------------------------------------------------------------
# L1 BigUint case generation

def gen_bu_cases(c):
    r = c.rng
    quick = c.tier == 'quick'
    N = 1 if quick else 12
    cases = []   # (op, a, b|None, family)

    def pair_families(maxlen):
        a = rand_bu(r, maxlen); b = rand_bu(r, maxlen)
        yield a, b, 'random'
        v = val(a)
        yield rep_of(r, v), rep_of(r, v), 'equal-values'
        yield rep_of(r, v + 1), rep_of(r, v), 'off-by-one'
        yield rep_of(r, v), rep_of(r, v + 1), 'off-by-one'
        k = r.choice([1, 1, 2, 3, 5, 9, 33, 69])
        k = min(k, maxlen)
        yield rep_of(r, W ** k - 1), rep_of(r, r.choice([1, 2, W - 1, rand_limb(r)])), 'carry-chain'
        yield rep_of(r, W ** k), rep_of(r, r.choice([1, 2, W - 1, rand_limb(r) or 1])), 'borrow-chain'
        c0 = rand_limb(r)
        yield rep_of(r, W ** k + c0), rep_of(r, W ** k), 'cancelling'
        # Small + Large with all-ones upper limbs: around the lost-carry boundary
        y = rand_limb(r)
        x = r.choice([(W - y) % W, (W - 1 - y) % W, (W + 1 - y) % W, W - 1, rand_limb(r)])
        yield ('s', x), ('l', [y] + [W - 1] * min(k, 6)), 'small-plus-ones'
        yield ('l', [y] + [W - 1] * min(k, 6)), ('s', x), 'small-plus-ones'

    # boundary corpus first
    corpus = [
        (('s', 0), ('s', 0)), (('s', W - 1), ('s', 1)), (('s', W - 1), ('s', W - 1)), (('s', 3), ('s', 5)),
        (('s', W - 1), ('l', [1, W - 1])), (('s', 0), ('l', [0, 1 << 63, 0])), (('l', [5, 1]), ('l', [0, 1])),
        (('l', [0]), ('l', [0, 0])), (('l', [W - 1] * 3), ('l', [1])), (('l', [0, 0, 1]), ('s', 1)),
        (('l', [0, 0, 1]), ('l', [1, 0, 0, 0])), (('l', [1 << 63]), ('l', [1 << 63])), (('s', 1 << 63), ('s', 1 << 63)),
        (('s', 2), ('l', [5, 0])), (('l', [0, 0]), ('l', [0, 0])), (('s', 0), ('l', [0, 1])), (('s', 7), ('l', [0, 1])),
        (('l', [W - 1, W - 1]), ('l', [W - 1, W - 1])), (('l', [1, 0, 0]), ('s', 2)), (('l', [0, 0, 0, 1]), ('l', [2, 0])),
    ]
    for a, b in corpus:
        for op in ('bu-add', 'bu-sub', 'bu-mul', 'bu-cmp', 'bu-divmod'):
            cases.append((op, a, b, 'corpus'))
        for op in ('bu-lshift', 'bu-rshift'):
            cases.append((op, a, None, 'corpus')); cases.append((op, b, None, 'corpus'))
    # cheap ops: long operands
    for _ in range(100 * N):
        for a, b, fam in pair_families(70):
            for op in ('bu-add', 'bu-sub', 'bu-cmp'):
                cases.append((op, a, b, fam))
            cases.append(('bu-lshift', a, None, fam))
            cases.append(('bu-rshift', a, None, fam))
    # mul: up to 70 limbs but fewer cases (model cost is cubic in the lists)
    for _ in range(25 * N):
        for a, b, fam in pair_families(r.choice([4, 8, 8, 20, 70])):
            cases.append(('bu-mul', a, b, fam))
    # divmod: constructed dividends, special divisors
    for _ in range(30 * N):
        ml = r.choice([2, 3, 4, 6, 10]) if quick else r.choice([2, 3, 4, 6, 10, 24, 40])
        b = rand_bu(r, ml)
        q = val(rand_bu(r, ml)); vb = val(b)
        rem = r.choice([0, 1, max(vb - 1, 0), r.randrange(vb) if vb > 0 else 0])
        a = rep_of(r, q * vb + rem)
        cases.append(('bu-divmod', a, b, 'div-constructed'))
        a2 = rand_bu(r, ml)
        for d, fam in ((rep_of(r, 1), 'div-by-1'), (rep_of(r, 2), 'div-by-2'), (rep_of(r, val(a2)), 'div-by-self'),
                       (rep_of(r, val(a2) + 1 + rand_limb(r)), 'div-by-larger'), (rep_of(r, 0), 'div-by-0'),
                       (rep_of(r, W ** r.randint(1, 3)), 'div-by-limb-power'), (rand_bu(r, ml), 'div-random'),
                       (rep_of(r, max(val(a2) - 1, 0)), 'div-by-pred')):
            cases.append(('bu-divmod', a2, d, fam))
    if not quick:
        for _ in range(6):
            a = ('l', rand_limbs(r, 70)); b = ('l', rand_limbs(r, r.choice([1, 2, 35, 69])))
            cases.append(('bu-divmod', a, b, 'div-long'))
    else:
        cases.append(('bu-divmod', ('l', rand_limbs(r, 70)), ('l', rand_limbs(r, 34)), 'div-long'))
    # gcd: short operands (Euclid by binary long division is slow in the model)
    for _ in range(30 * N):
        ml = r.choice([1, 1, 2, 2, 3]) if quick else r.choice([1, 2, 2, 3, 4, 5])
        g = val(rand_bu(r, 1)) or 1
        x = val(rand_bu(r, ml)); y = val(rand_bu(r, ml))
        for a, b, fam in ((rep_of(r, x), rep_of(r, y), 'gcd-random'), (rep_of(r, g * x), rep_of(r, g * y), 'gcd-common-factor'),
                          (rep_of(r, x), rep_of(r, 0), 'gcd-zero'), (rep_of(r, 0), rep_of(r, y), 'gcd-zero'),
                          (rep_of(r, x), rep_of(r, x), 'gcd-equal')):
            cases.append(('bu-gcd', a, b, fam))
    # pow
    for _ in range(40 * N):
        a = rand_bu(r, r.choice([1, 1, 2, 3]))
        e = r.choice([0, 1, 2, 3, 4, 5, 7, 8, 15, 16, 17, 31, 33])
        cases.append(('bu-pow', a, ('s', e), 'pow-small'))
        cases.append(('bu-pow', a, ('l', [e]), 'pow-large1'))
        cases.append(('bu-pow', a, ('l', [e] + [0] * r.randint(1, 2)), 'pow-leading-zero-exp'))
        cases.append(('bu-pow', rep_of(r, r.choice([0, 1, 2])), rep_of(r, W ** r.randint(1, 2) + r.choice([0, 1, 5])), 'pow-exp-too-large'))
        cases.append(('bu-pow', rep_of(r, 0), rep_of(r, 0), 'pow-0-0'))
        cases.append(('bu-pow', rep_of(r, r.choice([0, 1, 2, 3])), rep_of(r, r.choice([0, 1, 2, 64, 65, 127, 128, 200])), 'pow-tiny-base'))
    # exponents far beyond 32 bits on the bases for which the power is computable (0, 1):
    # every bit of a u64 exponent matters (narrowing to u32/i32/usize fast paths)
    # (single-limb bases only: square-and-multiply doubles the length of a base stored with a
    # leading zero limb at every squaring, 1 = Large[1,0] to the 2^63 does not finish -- see notes)
    TRIVIAL = (('s', 0), ('s', 1), ('l', [0]), ('l', [1]))
    for e in BIG_EXPONENTS:
        for a in TRIVIAL:
            cases.append(('bu-pow', a, ('s', e), 'pow-big-exp-trivial-base'))
        cases.append(('bu-pow', r.choice(TRIVIAL), ('l', [e] + [0] * r.randint(0, 2)), 'pow-big-exp-trivial-base'))
    for _ in range(20 * N):
        e = r.choice([r.getrandbits(64), r.getrandbits(40), (r.getrandbits(31) + 1) << 32, (r.getrandbits(32) << 32) | r.getrandbits(3)]) or 1
        cases.append(('bu-pow', r.choice(TRIVIAL), rep_of(r, e), 'pow-big-exp-trivial-base'))
    # malformed stream: empty Large (violates the len >= 1 invariant)
    for op in ('bu-add', 'bu-sub', 'bu-mul', 'bu-cmp', 'bu-divmod'):
        cases.append((op, ('l', []), ('s', 3), 'malformed-empty-large'))
        cases.append((op, ('l', [4, 1]), ('l', []), 'malformed-empty-large'))
    cases.append(('bu-lshift', ('l', []), None, 'malformed-empty-large'))
    cases.append(('bu-rshift', ('l', []), None, 'malformed-empty-large'))
    return cases

def line_of(op, a, b, oc=1):
    if b is None:
        return sx([Sym(op), oc, wire(a)])
    return sx([Sym(op), oc, wire(a), wire(b)])

def bu_spec(op, a, b):
    """independent spec on python ints: ('ok', value-or-tuple) | ('err', code) | ('panic',)"""
    va = val(a); vb = val(b) if b is not None else None
    if op == 'bu-add':
        return ('ok', va + vb)
    if op == 'bu-sub':
        return ('ok', va - vb) if va >= vb else ('panic',)
    if op == 'bu-mul':
        return ('ok', va * vb)
    if op == 'bu-cmp':
        return ('ok', 0 if va < vb else (1 if va == vb else 2))
    if op == 'bu-lshift':
        return ('ok', 2 * va)
    if op == 'bu-rshift':
        return ('ok', va // 2)
    if op == 'bu-divmod':
        return ('err', 1) if vb == 0 else ('ok', (va // vb, va % vb))
    if op == 'bu-gcd':
        return ('ok', math.gcd(va, vb))
    if op == 'bu-pow':
        if va == 0 and vb == 0:
            return ('err', 2)
        if vb >= W:
            return ('err', 3)
        return ('ok', va ** vb)
    raise ValueError(op)

def bu_value_of(op, payload):
    """value carried by an ok payload (None if malformed / ill-formed)"""
    if op == 'bu-cmp':
        return payload if isinstance(payload, int) else None
    if op == 'bu-divmod':
        if not (isinstance(payload, list) and len(payload) == 2):
            return None
        q, rr = unwire(payload[0]), unwire(payload[1])
        if not (rep_wf(q) and rep_wf(rr)):
            return None
        return (val(q), val(rr))
    rep = unwire(payload)
    return val(rep) if rep_wf(rep) else None

def check_biguint(c):
    cases = gen_bu_cases(c)
    lines = [line_of(op, a, b) for op, a, b, _ in cases]
    impl = c.impl('num', lines)
    model = c.model('num', lines)
    first_sample = True
    for (op, a, b, fam), li, io, mo in zip(cases, lines, impl, model):
        malformed = fam.startswith('malformed')
        big = vlen(a) > 1 or (b is not None and vlen(b) > 1) or val(a) >= W or (b is not None and val(b) >= W)
        c.note_case(op + '|' + rep_key(a) + '|' + (rep_key(b) if b is not None else ''), big, op + '/' + fam)
        ni = norm_impl(op, io); nm = norm_model(mo)
        if malformed:
            # no spec outside the representation invariant: only model = impl (kind and value)
            if ni[0] != nm[0] or (ni[0] == 'ok' and bu_value_of(op, ni[1]) != bu_value_of(op, nm[1])):
                c.violation('biguint-malformed-drift', {'kind': 'impl-vs-model', 'layer': 'L1 biguint', 'line': li, 'impl': io, 'model': mo}, no_input=True)
            continue
        spec = bu_spec(op, a, b)
        # ---- impl vs spec -------------------------------------------------
        ok = False
        if spec[0] == 'ok':
            ok = ni[0] == 'ok' and bu_value_of(op, ni[1]) == spec[1]
        elif spec[0] == 'err':
            ok = ni[0] == 'err' and ni[1] == spec[1]
        else:
            ok = ni[0] == 'panic'
        if not ok:
            cls = None
            if op == 'bu-add' and add_known(a, b):
                cls = CLS_ADD
            elif op == 'bu-pow' and pow_known(a, b) and ni == ('err', 3):
                cls = CLS_POW
            if cls and c.known_finding(cls):     # only if someone re-opens the finding
                continue
            c.violation('biguint-' + op[3:], {'kind': 'impl-vs-spec', 'layer': 'L1 biguint', 'op': op, 'family': fam,
                                              'a': wire(a), 'b': wire(b) if b is not None else None, 'line': li,
                                              'impl': io, 'spec': repr(spec), 'model': mo, 'repaired_class': cls})
            continue
        # ---- impl vs model ------------------------------------------------
        if ni[0] != nm[0]:
            c.violation('biguint-kind-drift', {'kind': 'impl-vs-model', 'layer': 'L1 biguint', 'line': li, 'impl': io, 'model': mo}, no_input=True)
        elif ni[0] == 'ok' and ni[1] != nm[1]:
            if bu_value_of(op, nm[1]) == bu_value_of(op, ni[1]):
                c.repr_drift += 1
            else:
                c.violation('biguint-model-wrong', {'kind': 'impl-vs-model', 'layer': 'L1 biguint', 'line': li, 'impl': io, 'model': mo}, no_input=True)
        elif ni[0] == 'err' and ni[1] != nm[1]:
            c.violation('biguint-error-kind-drift', {'kind': 'impl-vs-model', 'layer': 'L1 biguint', 'line': li, 'impl': io, 'model': mo}, no_input=True)
        elif ni[0] == 'panic' and ni[1] is not None and ni[1] != nm[1]:
            c.violation('biguint-panic-site-drift', {'kind': 'impl-vs-model', 'layer': 'L1 biguint', 'line': li, 'impl': io, 'model': mo}, no_input=True)
        if first_sample and big and op == 'bu-divmod':
            c.sample({'op': op, 'line': li[:300], 'impl': io[:300]}); first_sample = False
    # regression sensitivity: the model of the code BEFORE the two repairs
    # (add_old / pow_old, kept in coq/Num/BigUint.v) must disagree with the spec
    # on corpus members, i.e. this run would have flagged the old code
    wit = [(op, a, b) for op, a, b, fam in cases if not fam.startswith('malformed') and
           ((op == 'bu-add' and add_known(a, b)) or (op == 'bu-pow' and pow_known(a, b)))]
    ol = [line_of(op + '-old', a, b) for op, a, b in wit]
    oo = c.model('num', ol, cross=False)
    caught = {'bu-add': 0, 'bu-pow': 0}
    for (op, a, b), o in zip(wit, oo):
        nm = norm_model(o); spec = bu_spec(op, a, b)
        good = (spec[0] == 'ok' and nm[0] == 'ok' and bu_value_of(op, nm[1]) == spec[1]) or (spec[0] == 'err' and nm == ('err', spec[1]))
        if not good:
            caught[op] += 1
    c.extra['regression_witnesses'] = {'add_old_wrong_on': caught['bu-add'], 'pow_old_wrong_on': caught['bu-pow'], 'candidates': len(wit)}
    if caught['bu-add'] == 0 or caught['bu-pow'] == 0:
        c.violation('corpus-lost-regression-witnesses', {'kind': 'check-internal', 'detail': c.extra['regression_witnesses']}, no_input=True)
    if c.tier == 'thorough':
        # release profile (no overflow checks): the u64 subtraction in sub wraps
        rl = []
        for _ in range(300):
            x = rand_limb(c.rng); y = rand_limb(c.rng)
            rl.append((('s', x), ('s', y)))
        lines0 = [line_of('bu-sub', a, b, oc=0) for a, b in rl]
        i0 = c.impl('num', lines0, profile='release')
        m0 = c.model('num', lines0, cross=False)
        for (a, b), li, io, mo in zip(rl, lines0, i0, m0):
            ni = norm_impl('bu-sub', io); nm = norm_model(mo)
            if ni[:1] != nm[:1] or (ni[0] == 'ok' and ni[1] != nm[1]):
                c.violation('biguint-sub-unchecked-drift', {'kind': 'impl-vs-model', 'layer': 'L1 biguint release profile', 'line': li, 'impl': io, 'model': mo}, no_input=True)
            if a[1] >= b[1] and not (ni[0] == 'ok' and bu_value_of('bu-sub', ni[1]) == a[1] - b[1]):
                c.violation('biguint-sub', {'kind': 'impl-vs-spec', 'layer': 'L1 biguint release profile', 'line': li, 'impl': io})


# ----------------------------------------------------------------------------
# L1 BigRat

def rat_val(x):
    neg, n, d = x
    v = Fraction(val(n), val(d))
    return -v if neg else v

def rat_wire(x):
    return ['r', 1 if x[0] else 0, wire(x[1]), wire(x[2])]

def rat_key(x):
    return ('-' if x[0] else '+') + rep_key(x[1]) + '/' + rep_key(x[2])

def unwire_rat(p):
    if isinstance(p, list) and len(p) == 4 and p[0] == b'r' and p[1] in (0, 1):
        n, d = unwire(p[2]), unwire(p[3])
        if rep_wf(n) and rep_wf(d) and val(d) != 0:
            return (p[1] == 1, n, d)
    return None

def rat_of(r, q, neg_zero=True):
    """a representation of the rational q (not necessarily reduced)"""
    k = r.choice([1, 1, 1, 2, 3, 6, 10, W - 1, W, rand_limb(r) or 1])
    n = abs(q.numerator) * k; d = q.denominator * k
    neg = q < 0 or (q == 0 and neg_zero and r.random() < 0.3)
    return (neg, rep_of(r, n), rep_of(r, d))

def rand_rat(r, nlen=4, dlen=2):
    k = r.random()
    n = val(rand_bu(r, nlen))
    if k < 0.25:
        d = 1
    elif k < 0.5:
        d = r.choice([2, 3, 4, 5, 6, 10, 100, 1 << 32, W - 1, W, W + 1, 10 ** 19, 10 ** 20])
    else:
        d = val(rand_bu(r, dlen)) or 1
    return (r.random() < 0.4, rep_of(r, n), rep_of(r, d))

def gen_br_cases(c):
    r = c.rng
    quick = c.tier == 'quick'
    N = 1 if quick else 10
    cases = []

    def pairs():
        x = rand_rat(r); y = rand_rat(r)
        yield x, y, 'random'
        # same denominator value, different representations
        d = val(y[2])
        yield (x[0], x[1], rep_of(r, d)), (y[0], y[1], rep_of(r, d)), 'same-den'
        # denominators sharing a factor / coprime
        g = r.choice([2, 6, 10, W - 1, W, rand_limb(r) or 1])
        d1 = r.choice([1, 3, 7, rand_limb(r) or 1]); d2 = r.choice([1, 5, 9, rand_limb(r) or 1])
        yield (x[0], x[1], rep_of(r, g * d1)), (y[0], y[1], rep_of(r, g * d2)), 'shared-factor'
        # cancelling and near-equal
        q = rat_val(x)
        yield rat_of(r, q), rat_of(r, -q), 'cancelling'
        yield rat_of(r, q), rat_of(r, q), 'equal-values'
        yield rat_of(r, q), rat_of(r, q + Fraction(1, r.choice([1, 7, W, W * W + 1]))), 'near-equal'
        # integers around limb boundaries, all sign combinations
        k = r.choice([1, 2, 3]); c0 = r.choice([0, 1, 5, W - 1])
        a = Fraction(W ** k + c0); b = Fraction(W ** k)
        for sa in (1, -1):
            for sb in (1, -1):
                yield rat_of(r, sa * a), rat_of(r, sb * b), 'limb-boundary-signs'
        yield rat_of(r, Fraction(0)), y, 'zero-left'
        yield x, rat_of(r, Fraction(0)), 'zero-right'

    for _ in range(40 * N):
        for x, y, fam in pairs():
            for op in ('br-add', 'br-mul', 'br-div', 'br-cmp'):
                cases.append((op, x, y, fam))
            cases.append(('br-neg', x, None, fam))
            cases.append(('br-simplify', x, None, fam))
    # the repaired addition defect at the BigRat level
    cases.append(('br-add', (False, ('s', W - 1), ('s', 1)), (False, ('l', [1, W - 1]), ('s', 1)), 'corpus'))
    cases.append(('br-add', (True, ('s', W - 1), ('l', [1])), (True, ('l', [1, W - 1, W - 1]), ('s', 1)), 'corpus'))
    # pow with integer exponents (written reduced or not), all signs
    for _ in range(40 * N):
        base = rand_rat(r, 2, 1) if r.random() < 0.7 else rat_of(r, Fraction(r.choice([0, 1, -1, 2, -2, 10]), r.choice([1, 1, 3])))
        z = r.choice([0, 1, 2, 3, 4, 5, 7, 8, 16, 17, -1, -2, -3, -8])
        cases.append(('br-pow', base, rat_of(r, Fraction(z)), 'pow-int'))
        cases.append(('br-pow', rat_of(r, Fraction(0)), rat_of(r, Fraction(r.choice([0, 0, 1, -1, 5]))), 'pow-zero-base'))
        cases.append(('br-pow', base, (r.random() < 0.5, rep_of(r, W ** r.randint(1, 2) + r.choice([0, 3])), rep_of(r, 1)), 'pow-exp-too-large'))
        cases.append(('br-pow', base, (r.random() < 0.5, ('l', [abs(z), 0]), rep_of(r, 1)), 'pow-leading-zero-exp'))
        cases.append(('br-pow', base, rat_of(r, Fraction(r.choice([1, 3, 5, -1, 7]), 2)), 'pow-non-integer'))
    # huge machine-range exponents on bases 0, 1, -1 (written reduced or not)
    # (bases without leading zero limbs, see the remark in gen_bu_cases)
    def trivial_rat(q):
        k = r.choice([1, 1, 3, W - 1, W + 1])
        one = lambda v: r.choice([('s', v), ('l', [v])]) if v < W else ('l', limbs_of(v))
        return (q < 0 or (q == 0 and r.random() < 0.3), one(abs(q.numerator) * k), one(k))
    for e in BIG_EXPONENTS:
        for q in (Fraction(0), Fraction(1), Fraction(-1)):
            for sg in (1, -1):
                cases.append(('br-pow', trivial_rat(q), rat_of(r, Fraction(sg * e)), 'pow-big-exp-trivial-base'))
    # malformed: zero denominators (outside wfr) -- model must still predict the code
    z0 = (False, ('s', 3), ('s', 0)); z1 = (True, ('l', [1, 1]), ('l', [0, 0]))
    for op in ('br-add', 'br-mul', 'br-div', 'br-cmp'):
        cases.append((op, z0, (False, ('s', 1), ('s', 2)), 'malformed-zero-den'))
        cases.append((op, (True, ('s', 1), ('s', 2)), z1, 'malformed-zero-den'))
    cases.append(('br-simplify', z0, None, 'malformed-zero-den'))
    cases.append(('br-simplify', z1, None, 'malformed-zero-den'))
    return cases

def br_line(op, x, y):
    if y is None:
        return sx([Sym(op), 1, rat_wire(x)])
    return sx([Sym(op), 1, rat_wire(x), rat_wire(y)])

def br_spec(op, x, y):
    qx = rat_val(x); qy = rat_val(y) if y is not None else None
    if op == 'br-add':
        return ('ok', qx + qy)
    if op == 'br-mul':
        return ('ok', qx * qy)
    if op == 'br-div':
        return ('err', 1) if qy == 0 else ('ok', qx / qy)
    if op == 'br-neg':
        return ('ok', -qx)
    if op == 'br-simplify':
        return ('ok', qx)
    if op == 'br-cmp':
        return ('ok', 0 if qx < qy else (1 if qx == qy else 2))
    if op == 'br-pow':
        if qy.denominator != 1:
            return ('out-of-fragment',)
        z = qy.numerator
        if abs(z) >= W:
            return ('err', 3)
        if qx == 0 and z == 0:
            return ('err', 2)
        if qx == 0 and z < 0:
            return ('err', 1)
        return ('ok', qx ** z)
    raise ValueError(op)

def br_value_of(op, payload):
    if op == 'br-cmp':
        return payload if isinstance(payload, int) else None
    if op == 'br-pow':
        if not (isinstance(payload, list) and len(payload) == 2):
            return None
        x = unwire_rat(payload[1])
        return None if x is None else (rat_val(x), payload[0])
    x = unwire_rat(payload)
    if x is None:
        return None
    if op == 'br-simplify' and math.gcd(val(x[1]), val(x[2])) != 1:
        return None
    return rat_val(x)

def check_bigrat(c):
    cases = gen_br_cases(c)
    lines = [br_line(op, x, y) for op, x, y, _ in cases]
    impl = c.impl('num', lines)
    model = c.model('num', lines)
    sampled = False
    for (op, x, y, fam), li, io, mo in zip(cases, lines, impl, model):
        big = any(vlen(t) > 1 for t in ([x[1], x[2]] + ([y[1], y[2]] if y is not None else [])))
        c.note_case(op + '|' + rat_key(x) + '|' + (rat_key(y) if y is not None else ''), big, op + '/' + fam)
        ni = norm_impl(op, io); nm = norm_model(mo)
        if fam.startswith('malformed'):
            if io.startswith('("unknown-op")') or io.startswith('("bad-request")'):
                # since fix 4b8e673 BigRat::deserialize (through which the hook builds its
                # operands) rejects a zero denominator / an empty limb vector: such operands
                # can no longer be constructed at all -- counted, not compared
                c.dist['malformed-not-constructible'] = c.dist.get('malformed-not-constructible', 0) + 1
                continue
            if ni[0] != nm[0] or (ni[0] == 'ok' and ni[1] != nm[1]) or (ni[0] == 'err' and ni[1] != nm[1]):
                c.violation('bigrat-malformed-drift', {'kind': 'impl-vs-model', 'layer': 'L1 bigrat', 'line': li, 'impl': io, 'model': mo}, no_input=True)
            continue
        spec = br_spec(op, x, y)
        if spec[0] == 'out-of-fragment':
            # non-integer exponent: root_n is outside this property; the model must say so
            if nm != ('err', 7):
                c.violation('bigrat-pow-fragment', {'kind': 'model-self-check', 'line': li, 'model': mo}, no_input=True)
            continue
        if spec[0] == 'ok':
            want = (spec[1], 1) if op == 'br-pow' else spec[1]
            ok = ni[0] == 'ok' and br_value_of(op, ni[1]) == want
        else:
            ok = ni[0] == 'err' and ni[1] == spec[1]
        if not ok:
            c.violation('bigrat-' + op[3:], {'kind': 'impl-vs-spec', 'layer': 'L1 bigrat', 'op': op, 'family': fam, 'line': li,
                                             'impl': io, 'spec': repr(spec), 'model': mo})
            continue
        if ni[0] != nm[0]:
            c.violation('bigrat-kind-drift', {'kind': 'impl-vs-model', 'layer': 'L1 bigrat', 'line': li, 'impl': io, 'model': mo}, no_input=True)
        elif ni[0] == 'ok' and ni[1] != nm[1]:
            if br_value_of(op, nm[1]) == br_value_of(op, ni[1]):
                c.repr_drift += 1
            else:
                c.violation('bigrat-model-wrong', {'kind': 'impl-vs-model', 'layer': 'L1 bigrat', 'line': li, 'impl': io, 'model': mo}, no_input=True)
        elif ni[0] == 'err' and ni[1] != nm[1]:
            c.violation('bigrat-error-kind-drift', {'kind': 'impl-vs-model', 'layer': 'L1 bigrat', 'line': li, 'impl': io, 'model': mo}, no_input=True)
        if not sampled and big and op == 'br-add' and fam == 'shared-factor':
            c.sample({'op': op, 'line': li[:300], 'impl': io[:300]}); sampled = True


# ----------------------------------------------------------------------------
# L2: expression trees through fend_core::evaluate

CLS_POW_UNREDUCED = 'complex-pow-unreduced-integer-exponent'

class Outside(Exception):
    pass

class Undefined(Exception):
    def __init__(self, kind):
        self.kind = kind

SUP = '\u2070\u00b9\u00b2\u00b3\u2074\u2075\u2076\u2077\u2078\u2079'

def sup_digits(digits):
    return ''.join(SUP[int(ch)] for ch in digits)

def lit_value(text):
    """the rational a literal denotes (integers, terminating decimals, a.b(c) recurring decimals,
    any of these followed by a superscript exponent: 2\u00b9\u2070 = 2^10)"""
    k = len(text)
    while k > 0 and text[k - 1] in SUP:
        k -= 1
    if k < len(text):
        return lit_value(text[:k]) ** int(''.join(str(SUP.index(ch)) for ch in text[k:]))
    if '(' in text:
        head, rec = text[:-1].split('(')
        ip, fp = head.split('.')
        base = Fraction(int(ip + fp or '0'), 10 ** len(fp)) if (ip + fp) else Fraction(0)
        return base + Fraction(int(rec), (10 ** len(rec) - 1) * 10 ** len(fp))
    return Fraction(text)

def spec_eval(t):
    """complex rational value (re, im) of a tree; raises Undefined / Outside"""
    k = t[0]
    if k == 'lit':
        return (lit_value(t[1]), Fraction(0))
    if k == 'i':
        return (Fraction(0), Fraction(1))
    if k in ('neg', 'real', 'imag', 'conj'):
        a, b = spec_eval(t[1])
        return {'neg': (-a, -b), 'real': (a, Fraction(0)), 'imag': (b, Fraction(0)), 'conj': (a, -b)}[k]
    (a, b), (c, d) = spec_eval(t[1]), spec_eval(t[2])
    if k == 'add':
        return (a + c, b + d)
    if k == 'sub':
        return (a - c, b - d)
    if k == 'mul':
        return (a * c - b * d, b * c + a * d)
    if k == 'div':
        if c == 0 and d == 0:
            raise Undefined('div0')
        m = c * c + d * d
        return ((a * c + b * d) / m, (b * c - a * d) / m)
    if k == 'pow':
        if b != 0 or d != 0 or c.denominator != 1:
            raise Outside()
        z = c.numerator
        if a == 0 and z == 0:
            raise Undefined('0^0')
        if a == 0 and z < 0:
            raise Undefined('div0')
        if abs(z) >= W:
            # beyond machine range: an error is admissible, not mandatory (1^x and x^1 are short-cut)
            if a == 1:
                return (Fraction(1), Fraction(0))
            raise Undefined('huge')
        if a == 0:
            return (Fraction(0), Fraction(0))
        if a == 1 or a == -1:
            return (Fraction(1 if (a == 1 or z % 2 == 0) else -1), Fraction(0))
        if abs(z) > 4096:
            raise Outside()              # never generated: too large to compute here
        return (a ** z, Fraction(0))
    raise ValueError(k)

def text_of(t):
    k = t[0]
    if k == 'lit':
        # superscript literals are written with or without a following blank (deterministically per
        # literal): until e740a2c the lexer dropped the character after the superscript digits
        if t[1][-1] in SUP and sum(map(ord, t[1])) % 2 == 0:
            return t[1] + ' '
        return t[1]
    if k == 'i':
        return 'i'
    if k == 'neg':
        return '(-' + text_of(t[1]) + ')'
    if k in ('real', 'imag'):
        return k + '(' + text_of(t[1]) + ')'
    if k == 'conj':
        return 'conjugate(' + text_of(t[1]) + ')'
    op = {'add': '+', 'sub': '-', 'mul': '*', 'div': '/', 'pow': '^'}[k]
    return '(' + text_of(t[1]) + ' ' + op + ' ' + text_of(t[2]) + ')'

def count_ops(t):
    return 0 if t[0] in ('lit', 'i') else 1 + sum(count_ops(x) for x in t[1:])

def lits_of(t, acc):
    if t[0] == 'lit':
        acc.add(t[1])
    elif t[0] != 'i':
        for x in t[1:]:
            lits_of(x, acc)

def wire_tree(t, reps):
    k = t[0]
    if k == 'lit':
        return ['lit', rat_wire(reps[t[1]])]
    if k == 'i':
        return ['i']
    return [k] + [wire_tree(x, reps) for x in t[1:]]

NUM_BITS = 9000
DEN_BITS = 160

def size_ok(v):
    return all(abs(q.numerator).bit_length() <= NUM_BITS and q.denominator.bit_length() <= DEN_BITS for q in v)

def gen_int_lit(r, big_ok=True):
    k = r.random()
    if k < 0.45:
        return str(r.choice([0, 1, 2, 3, 4, 5, 6, 7, 8, 9, 10, 12, 60, 100, 255, 1000]))
    if k < 0.75 or not big_ok:
        e = 64 * r.choice([1, 1, 1, 2, 2, 3, 4])
        return str((1 << e) + r.choice([-1, 0, 1, 5]))
    if k < 0.85:
        return str(r.getrandbits(r.choice([63, 64, 65, 127, 128, 129, 200])) or 1)
    if k < 0.93:
        return str(rand_limb(r))
    return str(r.getrandbits(r.choice([1024, 2048, 4096])) | 1)

SUP_EXPONENTS = ['0', '1', '2', '3', '7', '9', '10', '11', '20', '00', '01', '010', '002', '100', '101', '30', '64', '65']

def gen_sup_lit(r):
    """a number literal with a superscript exponent (zero digits, leading zeros, 2-3 digits)"""
    m = r.choice(['0', '1', '2', '2', '3', '10', '10', '7', '12', '1.5', '0.5', '2.5', '0.1', '18446744073709551616', '1.(3)'])
    e = r.choice(SUP_EXPONENTS)
    if ('.' in m and int(e) > 24) or (len(m) > 6 and int(e) > 12):
        e = r.choice(['10', '2', '02', '20'])
    if m == '0' and int(e) == 0:
        e = '10'        # 0^0 is an error, not a literal value
    return ('lit', m + sup_digits(e))

def gen_lit(r):
    k = r.random()
    if k < 0.12:
        return gen_sup_lit(r)
    if k < 0.8:
        return ('lit', gen_int_lit(r))
    if k < 0.93:
        return ('lit', r.choice(['0.5', '0.25', '1.5', '2.75', '0.1', '12.125', '0.001', '3.0', '18446744073709551616.5']))
    return ('lit', r.choice(['0.(3)', '0.(6)', '0.1(6)', '1.(142857)', '0.(09)']))

def gen_exponent(r, base=None):
    """an integer-valued exponent: literal, negative, cancelling history, unreduced quotient;
    for the bases 0, 1, -1 also exponents that use all 64 bits"""
    if base is not None and base in (0, 1, -1) and r.random() < 0.6:
        e = r.choice(BIG_EXPONENTS + [r.getrandbits(64) or 1, (r.getrandbits(31) + 1) << 32])
        t = ('lit', str(e))
        k = r.random()
        if k < 0.2:
            t = ('mul', ('lit', str(e // 2)), ('lit', '2')) if e % 2 == 0 else ('add', ('lit', str(e - 1)), ('lit', '1'))
        elif k < 0.35:
            t = ('div', ('lit', str(e * 3)), ('lit', '3'))
        if base != 0 and r.random() < 0.3:
            t = ('neg', t)
        return t
    k = r.random()
    z = r.choice([0, 1, 2, 2, 3, 3, 4, 5, 7, 8, 11])
    if k < 0.35:
        return ('lit', str(z))
    if k < 0.5:
        return ('neg', ('lit', str(z)))
    if k < 0.65:
        big = 1 << (64 * r.choice([1, 2]))
        return ('sub', ('add', ('lit', str(big)), ('lit', str(z))), ('lit', str(big)))
    if k < 0.8:
        m = r.choice([2, 3, 4])
        return ('div', ('lit', str(z * m)), ('lit', str(m)))
    if k < 0.9:
        return ('sub', ('lit', str(z)), ('lit', str(r.choice([0, 1, z, z + 2]))))
    return ('mul', ('lit', str(r.choice([0, 1, 2]))), ('lit', str(r.choice([1, 2, 3]))))

def gen_tree(r, depth, cx):
    """random tree with a defined, size-bounded value; returns (tree, value) or None"""
    if depth == 0 or r.random() < 0.12:
        if cx and r.random() < 0.25:
            t = ('i',)
        else:
            t = gen_lit(r)
        return t, spec_eval(t)
    k = r.random()
    try:
        if k < 0.1:
            sub = gen_tree(r, depth - 1, cx)
            if sub is None:
                return None
            t = ('neg', sub[0])
        elif k < 0.16 and cx:
            sub = gen_tree(r, depth - 1, cx)
            if sub is None:
                return None
            t = (r.choice(['real', 'imag', 'conj']), sub[0])
        elif k < 0.28:
            if r.random() < 0.25:
                # a base whose powers are computable for any machine-range exponent
                x = gen_tree(r, max(depth - 2, 0), False)
                if x is None:
                    return None
                bt = r.choice([('lit', '0'), ('lit', '1'), ('neg', ('lit', '1')), ('sub', x[0], x[0]), ('sub', ('lit', '1'), ('lit', '2')),
                               ('lit', '0.0'), ('lit', '1' + sup_digits('20')), ('div', ('lit', '3'), ('neg', ('lit', '3')))])
                base = (bt, spec_eval(bt)); safe = True
            else:
                base = gen_tree(r, depth - 1, False); safe = False
            if base is None:
                return None
            if max(abs(base[1][0].numerator).bit_length(), base[1][0].denominator.bit_length()) > 700:
                return None
            # 64-bit exponents only on bases known to be stored in one limb (or equal to 1: Real::pow short-cut)
            t = ('pow', base[0], gen_exponent(r, base[1][0] if (safe or base[1][0] == 1) else None))
        elif k < 0.36:
            # cancelling history (X + c) - X
            x = gen_tree(r, depth - 1, cx)
            if x is None:
                return None
            cst = ('lit', gen_int_lit(r, False))
            t = r.choice([('sub', ('add', x[0], cst), x[0]), ('sub', x[0], ('sub', x[0], cst)), ('div', ('mul', x[0], cst), x[0])])
        else:
            a = gen_tree(r, depth - 1, cx); b = gen_tree(r, depth - 1, cx)
            if a is None or b is None:
                return None
            t = (r.choice(['add', 'add', 'sub', 'sub', 'mul', 'mul', 'div', 'div']), a[0], b[0])
        v = spec_eval(t)
    except (Undefined, Outside):
        return None
    if not size_ok(v):
        return None
    return t, v

def repr_bound(t):
    """upper bounds (numerator bits, denominator bits) of the *representation* the code builds:
    leading zero limbs survive additions and products, so lengths can exceed the value's size"""
    k = t[0]
    if k == 'lit':
        q = lit_value(t[1])
        return (max(64, q.numerator.bit_length() + 64), max(64, q.denominator.bit_length() * 2 + 64))
    if k == 'i':
        return (64, 64)
    if k in ('neg', 'real', 'imag', 'conj'):
        return repr_bound(t[1])
    (an, ad), (bn, bd) = repr_bound(t[1]), repr_bound(t[2])
    if k in ('add', 'sub'):
        return (max(an + bd, bn + ad) + 64, ad + bd)
    if k == 'mul':
        return (an + bn + 128, ad + bd + 64)
    if k == 'div':
        return (2 * (an + bn + ad + bd) + 128, 2 * (an + bn + ad + bd) + 128)
    if k == 'pow':
        try:
            v = spec_eval(t[1])[0]; z = abs(spec_eval(t[2])[0].numerator)
        except Exception:
            return (1 << 30, 1 << 30)
        if v in (0, 1, -1):
            return (128, 128)
        return ((v.numerator.bit_length() + 64) * max(z, 1) + 64, (v.denominator.bit_length() + 64) * max(z, 1) + 64)
    raise ValueError(k)

def all_sizes_ok(t):
    """every intermediate value defined and size-bounded (keeps gcds on the model side cheap)"""
    try:
        v = spec_eval(t)
    except (Undefined, Outside):
        return False
    if not size_ok(v):
        return False
    rb = repr_bound(t)
    if rb[0] > 3 * NUM_BITS or rb[1] > 24 * DEN_BITS:
        return False
    return all(all_sizes_ok(x) for x in t[1:]) if t[0] not in ('lit', 'i') else True

ERROR_TREES = [
    (('pow', ('lit', '0'), ('neg', ('lit', '4294967296'))), 'div0'),
    (('pow', ('neg', ('lit', '1')), ('lit', '18446744073709551616')), 'huge'),
    (('div', ('lit', '1'), ('lit', '0')), 'div0'),
    (('div', ('lit', '5'), ('sub', ('lit', '18446744073709551616'), ('lit', '18446744073709551616'))), 'div0'),
    (('div', ('add', ('lit', '1'), ('i',)), ('sub', ('i',), ('i',))), 'div0'),
    (('pow', ('lit', '0'), ('lit', '0')), '0^0'),
    (('pow', ('sub', ('lit', '3'), ('lit', '3')), ('sub', ('lit', '7'), ('lit', '7'))), '0^0'),
    (('pow', ('lit', '0'), ('neg', ('lit', '2'))), 'div0'),
    (('pow', ('lit', '2'), ('lit', '18446744073709551616')), 'huge'),
    (('pow', ('lit', '3'), ('neg', ('lit', '36893488147419103232'))), 'huge'),
    (('add', ('lit', '1'), ('div', ('lit', '1'), ('mul', ('lit', '0'), ('lit', '5')))), 'div0'),
]

CORPUS_TREES = [
    # exponents using more than 32 bits, on bases whose powers are computable
    ('pow', ('lit', '0'), ('lit', '4294967296')),
    ('pow', ('lit', '0'), ('lit', '12884901888')),
    ('pow', ('sub', ('lit', '1'), ('lit', '1')), ('lit', '4294967296')),
    ('pow', ('neg', ('lit', '1')), ('lit', '4294967297')),
    ('pow', ('neg', ('lit', '1')), ('lit', '4294967296')),
    ('pow', ('neg', ('lit', '1')), ('lit', '18446744073709551615')),
    ('pow', ('neg', ('lit', '1')), ('neg', ('lit', '9223372036854775809'))),
    ('pow', ('lit', '0'), ('lit', '18446744073709551615')),
    ('pow', ('lit', '0'), ('lit', '9223372036854775808')),
    ('pow', ('lit', '1'), ('neg', ('lit', '4294967296'))),
    ('pow', ('div', ('lit', '3'), ('neg', ('lit', '3'))), ('add', ('lit', '8589934592'), ('lit', '1'))),
    ('pow', ('lit', '0.0'), ('div', ('lit', '12884901888'), ('lit', '3'))),
    # superscript exponents are literals of the language: zero digits, leading zeros, several digits
    ('lit', '2' + sup_digits('10')), ('lit', '10' + sup_digits('20')), ('lit', '1.5' + sup_digits('10')), ('lit', '2' + sup_digits('0')),
    ('lit', '2' + sup_digits('00')), ('lit', '2' + sup_digits('010')), ('lit', '3' + sup_digits('101')), ('lit', '10' + sup_digits('100')),
    ('lit', '7' + sup_digits('02')), ('lit', '0' + sup_digits('10')), ('lit', '1' + sup_digits('100')),
    ('add', ('lit', '2' + sup_digits('10')), ('neg', ('lit', '2' + sup_digits('9')))),
    ('mul', ('lit', '0.5' + sup_digits('20')), ('lit', '2' + sup_digits('20'))),
    ('add', ('lit', '18446744073709551615'), ('lit', '340282366920938463444927863358058659841')),     # fcf264e
    ('pow', ('lit', '2'), ('sub', ('add', ('lit', '18446744073709551616'), ('lit', '5')), ('lit', '18446744073709551616'))),   # 2c2d128
    ('pow', ('neg', ('lit', '8')), ('div', ('lit', '6'), ('lit', '2'))),       # unreduced integer exponent, negative base
    ('pow', ('neg', ('lit', '2')), ('div', ('lit', '4'), ('lit', '2'))),
    ('pow', ('lit', '2'), ('div', ('lit', '4'), ('lit', '2'))),
    ('pow', ('neg', ('lit', '2')), ('lit', '2')),
    ('pow', ('neg', ('lit', '2')), ('neg', ('lit', '3'))),
    ('pow', ('div', ('lit', '2'), ('lit', '3')), ('neg', ('lit', '2'))),
    ('pow', ('lit', '1'), ('lit', '18446744073709551616')),
    ('pow', ('lit', '18446744073709551617'), ('lit', '1')),
    ('pow', ('lit', '7'), ('lit', '0')),
    ('div', ('add', ('lit', '1'), ('i',)), ('sub', ('lit', '3'), ('mul', ('lit', '2'), ('i',)))),
    ('mul', ('add', ('lit', '18446744073709551615'), ('i',)), ('conj', ('add', ('lit', '18446744073709551615'), ('i',)))),
    ('sub', ('div', ('lit', '1'), ('lit', '3')), ('div', ('lit', '1'), ('lit', '3'))),
    ('add', ('div', ('lit', '1'), ('lit', '6')), ('div', ('lit', '1'), ('lit', '10'))),
    ('sub', ('lit', '0.1(6)'), ('div', ('lit', '1'), ('lit', '6'))),
    ('mul', ('lit', '0'), ('div', ('lit', '5'), ('lit', '7'))),
    ('imag', ('div', ('i',), ('add', ('lit', '0.5'), ('i',)))),
    ('neg', ('sub', ('lit', '5'), ('lit', '5'))),
]

# texts in which a superscript exponent is directly followed by another character
CLS_SUP_SWALLOW = 'lexer-superscript-swallows-next-char'
RAW_SUPERSCRIPT = [('(1+2\u00b2)*3', 15), ('2\u00b2+1', 5), ('2\u00b2*3', 12), ('2\u00b2-1', 3), ('10\u00b2\u2070+1', 10 ** 20 + 1),
                   ('(2\u00b2)+1', 5), ('(10\u00b2 - 10\u00b2)^3', 0), ('(2\u00b9\u2070)/4', 256),
                   ('2\u00b2 +1', 5), ('(1+2\u00b2 )*3', 15), ('2\u00b9\u2070', 1024)]

def check_raw_superscript(c):
    outs = eval_texts(c, [t + ' to fraction' if False else t for t, _ in RAW_SUPERSCRIPT])
    import re as _re
    for (t, want), o in zip(RAW_SUPERSCRIPT, outs):
        c.note_case('raw|' + t, True, 'expr/raw-superscript')
        good = o[0] == 'o' and parse_fraction_text(o[1]) == want
        if good:
            continue
        swallowed = _re.search('[' + SUP + '][^ ' + SUP + ']', t) is not None
        if swallowed and c.known_finding(CLS_SUP_SWALLOW):
            continue
        c.violation('expression-superscript-text', {'kind': 'impl-vs-spec', 'layer': 'L2 raw text', 'text': t, 'impl': list(o), 'spec': want})

def dbg_bu(rep):
    return str(rep[1]) if rep[0] == 's' else '[' + ', '.join(str(x) for x in reversed(rep[1])) + ']'

def dbg_rat(x):
    return ('-' if x[0] else '') + dbg_bu(x[1]) + ('' if x[2] == ('s', 1) else '/' + dbg_bu(x[2]))

def dbg_value(flag, rre, rim):
    s = '' if flag else 'approx. '
    s += dbg_rat(rre)
    if rim[1] != ('s', 0):
        s += ' + ' + dbg_rat(rim) + 'i'
    return s

def parse_dbg_bu(t):
    t = t.strip()
    if t.startswith('['):
        return ('l', [int(x) for x in reversed(t[1:-1].split(','))])
    return ('s', int(t))

def parse_dbg_real(text):
    """'@debug <real literal>' output -> raw rat, or None"""
    if ' (unitless)' not in text:
        return None
    body = text.split(' (unitless)')[0]
    if body.startswith('approx.') or ' + ' in body:
        return None
    neg = body.startswith('-')
    if neg:
        body = body[1:]
    try:
        if '/' in body and not body.startswith('['):
            n, d = body.split('/', 1)
        elif body.startswith('[') and ']/' in body:
            n, d = body.split(']/', 1); n += ']'
        else:
            n, d = body, '1'
        return (neg, parse_dbg_bu(n), parse_dbg_bu(d))
    except Exception:
        return None

def terminates(q):
    d = q.denominator
    for p in (2, 5):
        while d % p == 0:
            d //= p
    return d == 1

def parse_fraction_text(s):
    s = s.strip()
    if s.startswith('approx.'):
        return None
    try:
        return Fraction(s.replace(' ', ''))
    except Exception:
        return None

def eval_texts(c, texts, profile='debug'):
    """evaluate each text on a fresh context -> list of ('o', str) | ('e', str) | ('x', raw)"""
    out = []
    B = 40
    lines = [sx([Sym('eval')] + texts[i:i + B]) for i in range(0, len(texts), B)]
    res = c.impl('num', lines, timeout=60, profile=profile)
    c.evaluations += len(texts) - len(lines)     # one evaluation per text, not per batch line
    for i, rline in enumerate(res):
        p = try_parse(rline)
        chunk = texts[i * B:(i + 1) * B]
        if isinstance(p, list) and len(p) == len(chunk) and all(isinstance(x, list) and len(x) == 2 for x in p):
            out += [(x[0].decode(), x[1].decode('utf-8', 'replace')) for x in p]
        else:
            # a crash or hang inside the batch: re-run one by one to isolate it
            single = c.impl('num', [sx([Sym('eval'), t]) for t in chunk], timeout=30, profile=profile)
            for t, o in zip(chunk, single):
                q = try_parse(o)
                if isinstance(q, list) and len(q) == 1 and isinstance(q[0], list) and len(q[0]) == 2:
                    out.append((q[0][0].decode(), q[0][1].decode('utf-8', 'replace')))
                else:
                    out.append(('x', o))
    return out

def check_expressions(c):
    r = c.rng
    quick = c.tier == 'quick'
    want = 1200 if quick else 12000
    maxdepth = 6 if quick else 8
    trees = [(t, 'corpus') for t in CORPUS_TREES]
    tries = 0
    while len(trees) < want + len(CORPUS_TREES) and tries < want * 30:
        tries += 1
        cx = r.random() < 0.35
        g = gen_tree(r, r.choice([2, 3, 3, 4, 4, 5, 5, maxdepth, maxdepth]), cx)
        if g is None or not all_sizes_ok(g[0]):
            continue
        trees.append((g[0], 'complex' if cx else 'real'))
    err_trees = list(ERROR_TREES)
    # errors below random contexts
    for _ in range(20 if quick else 200):
        g = gen_tree(r, 2, False)
        if g is None or not all_sizes_ok(g[0]):
            continue
        bad, kind = r.choice(ERROR_TREES)
        err_trees.append((r.choice([('add', g[0], bad), ('mul', bad, g[0]), ('sub', g[0], bad), ('neg', bad)]), kind))
    # ---- literals: raw representation from the implementation itself ----
    lits = set()
    for t, _ in trees + err_trees:
        lits_of(t, lits)
    lits = sorted(lits)
    dbg = eval_texts(c, ['@debug ' + l for l in lits])
    reps = {}
    for l, (k, o) in zip(lits, dbg):
        rep = parse_dbg_real(o) if k == 'o' else None
        if rep is None or rat_val(rep) != lit_value(l):
            c.violation('literal-value', {'kind': 'impl-vs-spec', 'layer': 'L2 literal', 'text': l, 'impl': o, 'spec': str(lit_value(l))})
            rep = (False, ('s', 0), ('s', 1))
        reps[l] = rep
    # ---- run ----
    all_trees = trees + [(t, 'error:' + k) for t, k in err_trees]
    texts = []
    for t, _ in all_trees:
        e = text_of(t)
        texts += ['@debug ' + e, 'real(' + e + ') to fraction', 'imag(' + e + ') to fraction', e]
    outs = eval_texts(c, texts)
    mlines = [sx([Sym('ex-eval'), 1, wire_tree(t, reps)]) for t, _ in all_trees]
    slines = [sx([Sym('ex-spec'), 1, wire_tree(t, reps)]) for t, _ in all_trees]
    mo = c.model('num', mlines, timeout=120)
    # cval is the mathematical value: on a 2^64-sized exponent it does not terminate in practice
    huge = [fam == 'error:huge' for _, fam in all_trees]
    so_part = c.model('num', [l for l, h in zip(slines, huge) if not h], cross=False, timeout=120)
    it = iter(so_part)
    so = ['("skipped")' if h else next(it) for h in huge]
    if not quick:
        # optimised build without overflow checks: same observable behaviour
        sub = texts[:4 * 1500]
        outs_rel = eval_texts(c, sub, profile='release')
        for tx, a, b in zip(sub, outs[:len(sub)], outs_rel):
            if a != b:
                c.violation('expression-profile-drift', {'kind': 'impl-debug-vs-release', 'layer': 'L2 expression', 'text': tx[:600],
                                                         'debug_profile': list(a), 'release_profile': list(b)})
    # the wording of the three admissible errors is taken from the implementation (FendError's Display)
    em = try_parse(c.impl('num', [sx([Sym('err-msgs')])])[0])
    if isinstance(em, list) and len(em) == 3 and all(isinstance(x, bytes) for x in em):
        MSG = {'div0': em[0].decode(), '0^0': em[1].decode(), 'huge': em[2].decode()}
    else:
        MSG = {'div0': 'division by zero', '0^0': 'zero to the power of zero', 'huge': 'exponent too large'}
    CODE_MSG = {1: MSG['div0'], 2: MSG['0^0'], 3: MSG['huge']}
    sampled = False
    model_slow = []
    for idx, (t, fam) in enumerate(all_trees):
        e = text_of(t)
        o_dbg, o_re, o_im, o_plain = outs[4 * idx:4 * idx + 4]
        nops = count_ops(t)
        c.note_case('x|' + e, nops >= 2, 'expr/' + fam.split(':')[0] + '/ops' + str(min(nops, 12) // 4 * 4))
        rp = {'kind': 'impl-vs-spec', 'layer': 'L2 expression', 'family': fam, 'expr': e, 'debug': o_dbg[1][:400], 'real': o_re[1][:400],
              'imag': o_im[1][:400], 'plain': o_plain[1][:400], 'model': mo[idx][:400], 'coq_spec': so[idx][:400]}
        # ---- the specification (python) and the Coq cval must agree --------
        try:
            sv = spec_eval(t); skind = 'value'
        except Undefined as u:
            sv = None; skind = u.kind
        except Outside:
            sv = None; skind = 'outside'
        cs = try_parse(so[idx])
        if skind == 'value':
            want_cs = [b'v', [sv[0].numerator, sv[0].denominator], [sv[1].numerator, sv[1].denominator]]
            if cs != want_cs:
                c.violation('spec-mismatch', dict(rp, kind='check-internal', python_spec=str(sv)), no_input=True)
        elif skind in ('div0', '0^0') and cs != [b'undef']:
            c.violation('spec-mismatch', dict(rp, kind='check-internal', python_spec=skind), no_input=True)
        nm = norm_model(mo[idx])
        known = False     # the unreduced-exponent class was repaired in 19d36f9; kept for a re-opened finding
        # ---- impl vs spec ---------------------------------------------------
        crashed = [x for x in (o_dbg, o_re, o_im, o_plain) if x[0] == 'x']
        if crashed:
            c.violation('expression-crash', dict(rp, raw=crashed[0][1][:300]))
            continue
        if skind == 'value':
            vre = parse_fraction_text(o_re[1]) if o_re[0] == 'o' else None
            vim = parse_fraction_text(o_im[1]) if o_im[0] == 'o' else None
            # the plain (auto) format may truncate a non-terminating real decimal and then says
            # approx. (that is C03's subject); everywhere else the marker must be absent
            marker = o_plain[0] == 'o' and o_plain[1].startswith('approx.') and (sv[1] != 0 or terminates(sv[0]))
            good = vre == sv[0] and vim == sv[1] and not marker and o_plain[0] == 'o' and not o_dbg[1].startswith('approx.')
            if not good:
                if known and nm == ('err', 12) and c.known_finding(CLS_POW_UNREDUCED):
                    continue
                c.violation('expression-value', rp)
                continue
        elif skind in ('div0', '0^0', 'huge'):
            msg = MSG[skind]
            if not all(x[0] == 'e' and msg in x[1] for x in (o_dbg, o_re, o_im, o_plain)):
                c.violation('expression-error', dict(rp, expected_error=msg))
                continue
        # ---- impl vs model (representation level, through @debug) ----------
        if nm[0] == 'slow':
            model_slow.append(e[:200])
        elif nm[0] == 'ok':
            try:
                flag = nm[1][0] == 1
                mre = unwire_rat(nm[1][1]); mim = unwire_rat(nm[1][2])
                mtxt = dbg_value(flag, mre, mim)
            except Exception:
                mtxt = None
            got = o_dbg[1].split(' (unitless)')[0] if o_dbg[0] == 'o' else None
            if mtxt is None or got != mtxt:
                same_value = (mtxt is not None and skind == 'value' and flag and rat_val(mre) == sv[0] and rat_val(mim) == sv[1])
                if same_value and o_dbg[0] == 'o':
                    c.repr_drift += 1
                else:
                    c.violation('expression-model-drift', dict(rp, kind='impl-vs-model', model_debug=mtxt), no_input=True)
        elif nm[0] == 'err':
            msg = CODE_MSG.get(nm[1])
            if msg is None or not (o_dbg[0] == 'e' and msg in o_dbg[1]):
                if not (known and nm[1] == 12):
                    c.violation('expression-model-drift', dict(rp, kind='impl-vs-model'), no_input=True)
        else:
            c.violation('expression-model-panic', dict(rp, kind='impl-vs-model'), no_input=True)
        if not sampled and nops >= 4 and fam == 'complex':
            c.sample({'expr': e[:300], 'debug': o_dbg[1][:200], 'real': o_re[1][:120], 'imag': o_im[1][:120]}); sampled = True
    # the extracted model uses unary-structured binary numbers and quadratic list access: a few
    # very long non-canonical operands may exceed its time budget; that is not a verdict on fend
    c.extra['l2_model_timeouts'] = len(model_slow)
    if model_slow:
        c.notes.append('L2: model gave no answer in time on %d of %d trees (impl-vs-spec still checked): %s' % (len(model_slow), len(all_trees), model_slow[0]))
    if len(model_slow) * 100 > len(all_trees):
        c.violation('expression-model-too-slow', {'kind': 'tie', 'layer': 'L2 expression', 'count': len(model_slow), 'of': len(all_trees), 'first': model_slow[:3]}, no_input=True)


def check(c):
    c.rule = ('L1: BigUint/BigRat operations on raw limb vectors (lengths 1-70, special limbs 0/1/2^63/2^64-1, carry and borrow chains, '
              'Small/Large mixes, leading zero limbs, equal / off-by-one operands, special divisors); non-trivial = an operand or the result needs >= 2 limbs; '
              'L2: expression trees (depth <= 6, operands to 2^4096) through fend_core::evaluate; non-trivial = >= 2 operators; distinct by canonical text')
    ok = c.proof(['C01'], extra_targets=['Extract/XNum.vo'])
    if c.tier == 'thorough' and ok:
        c.thorough_proof(['C01'])
    check_biguint(c)
    # a broken lower layer makes the upper layers fail in bulk (and slowly, when gcd stops
    # terminating): report the lowest broken layer and stop
    if len([v for v in c.violations if not v[2]]) > 40:
        c.notes.append('L1 BigUint already shows %d violations: L1 BigRat and L2 skipped' % len(c.violations))
        return
    check_bigrat(c)
    if len([v for v in c.violations if not v[2]]) > 40:
        c.notes.append('L1 BigRat already shows %d violations: L2 skipped' % len(c.violations))
        return
    check_expressions(c)
    check_raw_superscript(c)


def replay(c, obj):
    print(json.dumps(obj, indent=1))
    if 'line' in obj:
        print('impl :', c.impl('num', [obj['line']])[0])
        print('model:', c.model('num', [obj['line']], cross=False)[0])
    return 0
