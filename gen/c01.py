"""C01 -- exact arithmetic on rationals and complex rationals is exact.
Proof: coq/Properties/C01.v (model coq/Num/*.v).
Tie L1: every BigUint / BigRat operation on raw representations (hooks in
core/src/verif_hooks/num.rs) against the extracted model (representation and
value) and against Python integers / fractions (the independent spec).
Tie L2: random expression trees through fend_core::evaluate against
fractions.Fraction and the model's evaluator."""
import json, math
from fractions import Fraction
from vlib import sx, Sym, parse_sx, try_parse

TRUSTED_BASE = [
    'Coq 8.16.1 kernel; vm_compute only for the two refutation witnesses and the non-vacuity examples',
    'extraction ExtrOcamlBasic -> OCaml 4.13.1, modelrun/driver.ml; cross-checked against vm_compute on a sample',
    'hand-written model coq/Num/{BigUint,BigRat,RealCx,Expr}.v tied to core/src/num/{biguint,bigrat,real,complex,exact,unit}.rs only by this differential run',
    'hooks core/src/verif_hooks/num.rs (build Small/Large exactly as given; BigRat through its own serialize/deserialize) + cfg-gated BigRat::verif_simplify',
    'harness/src/bin/h_num.rs; Python int / fractions.Fraction as the independent arithmetic on the check side',
    'L2: fend lexer/parser/formatter are exercised but not modelled here (C02/C08); literals are plain decimal integers',
]
ASSUMPTIONS = ['test_int never interrupts (Interrupt = Never)', 'limbs are u64 (wf: every limb < 2^64, Large non-empty)']

W = 1 << 64
SPECIAL = [0, 1, 2, 1 << 62, (1 << 63) - 1, 1 << 63, (1 << 63) + 1, W - 2, W - 1]

# ----------------------------------------------------------------------------
# representations

def val(rep):
    if rep[0] == 's':
        return rep[1]
    v = 0
    for i, x in enumerate(rep[1]):
        v += x << (64 * i)
    return v

def vlen(rep):
    return 1 if rep[0] == 's' else len(rep[1])

def wire(rep):
    return [rep[0], rep[1]] if rep[0] == 's' else ['l', list(rep[1])]

def rep_key(rep):
    return rep[0] + ':' + (str(rep[1]) if rep[0] == 's' else ','.join(map(str, rep[1])))

def limbs_of(v, n=None):
    out = []
    while v:
        out.append(v & (W - 1)); v >>= 64
    if not out:
        out = [0]
    if n is not None:
        out += [0] * (n - len(out))
    return out

def rand_limb(r):
    k = r.random()
    if k < 0.45:
        return r.choice(SPECIAL)
    if k < 0.55:
        return r.getrandbits(r.choice([1, 8, 31, 32, 33, 62, 63]))
    return r.getrandbits(64)

def rand_len(r, maxlen):
    return min(maxlen, r.choice([1, 1, 1, 2, 2, 2, 3, 3, 4, 5, 6, 8, 12, 17, 33, 64, 70]))

def rand_limbs(r, n):
    style = r.random()
    if style < 0.2:
        v = [W - 1] * n
        if r.random() < 0.5:
            v[0] = rand_limb(r)
        return v
    if style < 0.3:
        v = [0] * n
        v[-1] = rand_limb(r) or 1
        return v
    if style < 0.4:
        v = [r.choice([0, W - 1]) for _ in range(n)]
        return v
    return [rand_limb(r) for _ in range(n)]

def rand_bu(r, maxlen=70):
    k = r.random()
    if k < 0.25:
        return ('s', rand_limb(r))
    v = rand_limbs(r, rand_len(r, maxlen))
    if r.random() < 0.25:
        v = v + [0] * r.choice([1, 1, 2, 3])
    return ('l', v)

def rep_of(r, v, maxpad=3):
    """some representation of the value v"""
    k = r.random()
    if v < W and k < 0.4:
        return ('s', v)
    l = limbs_of(v)
    if k < 0.7:
        return ('l', l)
    return ('l', l + [0] * r.randint(1, maxpad))

# ----------------------------------------------------------------------------
# normalising the two sides' answers

def norm_impl(op, text):
    p = try_parse(text)
    if not isinstance(p, list) or not p:
        return ('bad', text)
    if p[0] == b'ok':
        return ('ok', p[1])
    if p[0] == b'err':
        return ('err', p[1])
    if p[0] == b'panic':
        msg = p[1].decode('utf-8', 'replace') if isinstance(p[1], bytes) else ''
        site = None
        if 'number would be less than 0' in msg:
            site = 102
        elif 'assertion' in msg:
            site = 103
        elif 'subtract with overflow' in msg or 'out of bounds' in msg or 'out of range' in msg:
            site = 104 if op in ('bu-lshift',) else 101
        return ('panic', site)
    if p[0] in (b'abort', b'hang'):
        return (p[0].decode(), None)
    return ('bad', text)

def norm_model(text):
    p = try_parse(text)
    if not isinstance(p, list) or not p:
        return ('bad', text)
    if p[0] == b'ok':
        return ('ok', p[1])
    if p[0] == b'err':
        return ('err', p[1])
    if p[0] == b'panic':
        return ('panic', p[1])
    return ('bad', text)

def unwire(p):
    """parsed ("s" n) / ("l" (limbs)) -> rep"""
    if isinstance(p, list) and len(p) == 2 and p[0] == b's' and isinstance(p[1], int):
        return ('s', p[1])
    if isinstance(p, list) and len(p) == 2 and p[0] == b'l' and isinstance(p[1], list):
        return ('l', list(p[1]))
    return None

def rep_wf(rep):
    if rep is None:
        return False
    if rep[0] == 's':
        return 0 <= rep[1] < W
    return len(rep[1]) >= 1 and all(0 <= x < W for x in rep[1])

# ----------------------------------------------------------------------------
# known-finding classifiers (same definitions as add_known / pow_known in
# coq/Num/BigUint.v; the model's own verdict is compared with these)

def add_known(a, b):
    return a[0] == 's' and vlen(b) > 1 and a[1] + val(b) >= W ** vlen(b)

def pow_known(a, b):
    return val(b) != 0 and vlen(b) > 1 and val(b) < W

CLS_ADD = 'biguint-add-lost-carry'
CLS_POW = 'biguint-pow-leading-zero-exponent'

# ----------------------------------------------------------------------------
# L1 BigUint case generation

def gen_bu_cases(c):
    r = c.rng
    quick = c.tier == 'quick'
    N = 1 if quick else 12
    cases = []   # (op, a, b|None, family)

    def pair_families(maxlen):
        a = rand_bu(r, maxlen); b = rand_bu(r, maxlen)
        yield a, b, 'random'
        v = val(a)
        yield rep_of(r, v), rep_of(r, v), 'equal-values'
        yield rep_of(r, v + 1), rep_of(r, v), 'off-by-one'
        yield rep_of(r, v), rep_of(r, v + 1), 'off-by-one'
        k = r.choice([1, 1, 2, 3, 5, 9, 33, 69])
        k = min(k, maxlen)
        yield rep_of(r, W ** k - 1), rep_of(r, r.choice([1, 2, W - 1, rand_limb(r)])), 'carry-chain'
        yield rep_of(r, W ** k), rep_of(r, r.choice([1, 2, W - 1, rand_limb(r) or 1])), 'borrow-chain'
        c0 = rand_limb(r)
        yield rep_of(r, W ** k + c0), rep_of(r, W ** k), 'cancelling'
        # Small + Large with all-ones upper limbs: around the lost-carry boundary
        y = rand_limb(r)
        x = r.choice([(W - y) % W, (W - 1 - y) % W, (W + 1 - y) % W, W - 1, rand_limb(r)])
        yield ('s', x), ('l', [y] + [W - 1] * min(k, 6)), 'small-plus-ones'
        yield ('l', [y] + [W - 1] * min(k, 6)), ('s', x), 'small-plus-ones'

    # boundary corpus first
    corpus = [
        (('s', 0), ('s', 0)), (('s', W - 1), ('s', 1)), (('s', W - 1), ('s', W - 1)), (('s', 3), ('s', 5)),
        (('s', W - 1), ('l', [1, W - 1])), (('s', 0), ('l', [0, 1 << 63, 0])), (('l', [5, 1]), ('l', [0, 1])),
        (('l', [0]), ('l', [0, 0])), (('l', [W - 1] * 3), ('l', [1])), (('l', [0, 0, 1]), ('s', 1)),
        (('l', [0, 0, 1]), ('l', [1, 0, 0, 0])), (('l', [1 << 63]), ('l', [1 << 63])), (('s', 1 << 63), ('s', 1 << 63)),
        (('s', 2), ('l', [5, 0])), (('l', [0, 0]), ('l', [0, 0])), (('s', 0), ('l', [0, 1])), (('s', 7), ('l', [0, 1])),
        (('l', [W - 1, W - 1]), ('l', [W - 1, W - 1])), (('l', [1, 0, 0]), ('s', 2)), (('l', [0, 0, 0, 1]), ('l', [2, 0])),
    ]
    for a, b in corpus:
        for op in ('bu-add', 'bu-sub', 'bu-mul', 'bu-cmp', 'bu-divmod'):
            cases.append((op, a, b, 'corpus'))
        for op in ('bu-lshift', 'bu-rshift'):
            cases.append((op, a, None, 'corpus')); cases.append((op, b, None, 'corpus'))
    # cheap ops: long operands
    for _ in range(60 * N):
        for a, b, fam in pair_families(70):
            for op in ('bu-add', 'bu-sub', 'bu-cmp'):
                cases.append((op, a, b, fam))
            cases.append(('bu-lshift', a, None, fam))
            cases.append(('bu-rshift', a, None, fam))
    # mul: up to 70 limbs but fewer cases (model cost is cubic in the lists)
    for _ in range(25 * N):
        for a, b, fam in pair_families(r.choice([4, 8, 8, 20, 70])):
            cases.append(('bu-mul', a, b, fam))
    # divmod: constructed dividends, special divisors
    for _ in range(30 * N):
        ml = r.choice([2, 3, 4, 6, 10]) if quick else r.choice([2, 3, 4, 6, 10, 24, 40])
        b = rand_bu(r, ml)
        q = val(rand_bu(r, ml)); vb = val(b)
        rem = r.choice([0, 1, max(vb - 1, 0), r.randrange(vb) if vb > 0 else 0])
        a = rep_of(r, q * vb + rem)
        cases.append(('bu-divmod', a, b, 'div-constructed'))
        a2 = rand_bu(r, ml)
        for d, fam in ((rep_of(r, 1), 'div-by-1'), (rep_of(r, 2), 'div-by-2'), (rep_of(r, val(a2)), 'div-by-self'),
                       (rep_of(r, val(a2) + 1 + rand_limb(r)), 'div-by-larger'), (rep_of(r, 0), 'div-by-0'),
                       (rep_of(r, W ** r.randint(1, 3)), 'div-by-limb-power'), (rand_bu(r, ml), 'div-random'),
                       (rep_of(r, max(val(a2) - 1, 0)), 'div-by-pred')):
            cases.append(('bu-divmod', a2, d, fam))
    if not quick:
        for _ in range(6):
            a = ('l', rand_limbs(r, 70)); b = ('l', rand_limbs(r, r.choice([1, 2, 35, 69])))
            cases.append(('bu-divmod', a, b, 'div-long'))
    else:
        cases.append(('bu-divmod', ('l', rand_limbs(r, 70)), ('l', rand_limbs(r, 34)), 'div-long'))
    # gcd: short operands (Euclid by binary long division is slow in the model)
    for _ in range(30 * N):
        ml = r.choice([1, 1, 2, 2, 3]) if quick else r.choice([1, 2, 2, 3, 4, 5])
        g = val(rand_bu(r, 1)) or 1
        x = val(rand_bu(r, ml)); y = val(rand_bu(r, ml))
        for a, b, fam in ((rep_of(r, x), rep_of(r, y), 'gcd-random'), (rep_of(r, g * x), rep_of(r, g * y), 'gcd-common-factor'),
                          (rep_of(r, x), rep_of(r, 0), 'gcd-zero'), (rep_of(r, 0), rep_of(r, y), 'gcd-zero'),
                          (rep_of(r, x), rep_of(r, x), 'gcd-equal')):
            cases.append(('bu-gcd', a, b, fam))
    # pow
    for _ in range(40 * N):
        a = rand_bu(r, r.choice([1, 1, 2, 3]))
        e = r.choice([0, 1, 2, 3, 4, 5, 7, 8, 15, 16, 17, 31, 33])
        cases.append(('bu-pow', a, ('s', e), 'pow-small'))
        cases.append(('bu-pow', a, ('l', [e]), 'pow-large1'))
        cases.append(('bu-pow', a, ('l', [e] + [0] * r.randint(1, 2)), 'pow-leading-zero-exp'))
        cases.append(('bu-pow', rep_of(r, r.choice([0, 1, 2])), rep_of(r, W ** r.randint(1, 2) + r.choice([0, 1, 5])), 'pow-exp-too-large'))
        cases.append(('bu-pow', rep_of(r, 0), rep_of(r, 0), 'pow-0-0'))
        cases.append(('bu-pow', rep_of(r, r.choice([0, 1, 2, 3])), rep_of(r, r.choice([0, 1, 2, 64, 65, 127, 128, 200])), 'pow-tiny-base'))
    # malformed stream: empty Large (violates the len >= 1 invariant)
    for op in ('bu-add', 'bu-sub', 'bu-mul', 'bu-cmp', 'bu-divmod'):
        cases.append((op, ('l', []), ('s', 3), 'malformed-empty-large'))
        cases.append((op, ('l', [4, 1]), ('l', []), 'malformed-empty-large'))
    cases.append(('bu-lshift', ('l', []), None, 'malformed-empty-large'))
    cases.append(('bu-rshift', ('l', []), None, 'malformed-empty-large'))
    return cases

def line_of(op, a, b, oc=1):
    if b is None:
        return sx([Sym(op), oc, wire(a)])
    return sx([Sym(op), oc, wire(a), wire(b)])

def bu_spec(op, a, b):
    """independent spec on python ints: ('ok', value-or-tuple) | ('err', code) | ('panic',)"""
    va = val(a); vb = val(b) if b is not None else None
    if op == 'bu-add':
        return ('ok', va + vb)
    if op == 'bu-sub':
        return ('ok', va - vb) if va >= vb else ('panic',)
    if op == 'bu-mul':
        return ('ok', va * vb)
    if op == 'bu-cmp':
        return ('ok', 0 if va < vb else (1 if va == vb else 2))
    if op == 'bu-lshift':
        return ('ok', 2 * va)
    if op == 'bu-rshift':
        return ('ok', va // 2)
    if op == 'bu-divmod':
        return ('err', 1) if vb == 0 else ('ok', (va // vb, va % vb))
    if op == 'bu-gcd':
        return ('ok', math.gcd(va, vb))
    if op == 'bu-pow':
        if va == 0 and vb == 0:
            return ('err', 2)
        if vb >= W:
            return ('err', 3)
        return ('ok', va ** vb)
    raise ValueError(op)

def bu_value_of(op, payload):
    """value carried by an ok payload (None if malformed / ill-formed)"""
    if op == 'bu-cmp':
        return payload if isinstance(payload, int) else None
    if op == 'bu-divmod':
        if not (isinstance(payload, list) and len(payload) == 2):
            return None
        q, rr = unwire(payload[0]), unwire(payload[1])
        if not (rep_wf(q) and rep_wf(rr)):
            return None
        return (val(q), val(rr))
    rep = unwire(payload)
    return val(rep) if rep_wf(rep) else None

def check_biguint(c):
    cases = gen_bu_cases(c)
    lines = [line_of(op, a, b) for op, a, b, _ in cases]
    impl = c.impl('num', lines)
    model = c.model('num', lines)
    first_sample = True
    for (op, a, b, fam), li, io, mo in zip(cases, lines, impl, model):
        malformed = fam.startswith('malformed')
        big = vlen(a) > 1 or (b is not None and vlen(b) > 1) or val(a) >= W or (b is not None and val(b) >= W)
        c.note_case(op + '|' + rep_key(a) + '|' + (rep_key(b) if b is not None else ''), big, op + '/' + fam)
        ni = norm_impl(op, io); nm = norm_model(mo)
        if malformed:
            # no spec outside the representation invariant: only model = impl (kind and value)
            if ni[0] != nm[0] or (ni[0] == 'ok' and bu_value_of(op, ni[1]) != bu_value_of(op, nm[1])):
                c.violation('biguint-malformed-drift', {'kind': 'impl-vs-model', 'layer': 'L1 biguint', 'line': li, 'impl': io, 'model': mo}, no_input=True)
            continue
        spec = bu_spec(op, a, b)
        # ---- impl vs spec -------------------------------------------------
        ok = False
        if spec[0] == 'ok':
            ok = ni[0] == 'ok' and bu_value_of(op, ni[1]) == spec[1]
        elif spec[0] == 'err':
            ok = ni[0] == 'err' and ni[1] == spec[1]
        else:
            ok = ni[0] == 'panic'
        if not ok:
            cls = None
            if op == 'bu-add' and add_known(a, b):
                cls = CLS_ADD
            elif op == 'bu-pow' and pow_known(a, b) and ni == ('err', 3):
                cls = CLS_POW
            if cls and c.known_finding(cls):
                # the mirror is bug-compatible: it must predict the same wrong answer
                if io.split(' "')[0] != mo.split(' "')[0] and ni[:2] != nm[:2]:
                    c.violation('known-class-model-drift', {'kind': 'impl-vs-model', 'class': cls, 'line': li, 'impl': io, 'model': mo}, no_input=True)
                continue
            c.violation('biguint-' + op[3:], {'kind': 'impl-vs-spec', 'layer': 'L1 biguint', 'op': op, 'family': fam,
                                              'a': wire(a), 'b': wire(b) if b is not None else None, 'line': li,
                                              'impl': io, 'spec': repr(spec), 'model': mo})
            continue
        # ---- impl vs model ------------------------------------------------
        if ni[0] != nm[0]:
            c.violation('biguint-kind-drift', {'kind': 'impl-vs-model', 'layer': 'L1 biguint', 'line': li, 'impl': io, 'model': mo}, no_input=True)
        elif ni[0] == 'ok' and ni[1] != nm[1]:
            if bu_value_of(op, nm[1]) == bu_value_of(op, ni[1]):
                c.repr_drift += 1
            else:
                c.violation('biguint-model-wrong', {'kind': 'impl-vs-model', 'layer': 'L1 biguint', 'line': li, 'impl': io, 'model': mo}, no_input=True)
        elif ni[0] == 'err' and ni[1] != nm[1]:
            c.violation('biguint-error-kind-drift', {'kind': 'impl-vs-model', 'layer': 'L1 biguint', 'line': li, 'impl': io, 'model': mo}, no_input=True)
        elif ni[0] == 'panic' and ni[1] is not None and ni[1] != nm[1]:
            c.violation('biguint-panic-site-drift', {'kind': 'impl-vs-model', 'layer': 'L1 biguint', 'line': li, 'impl': io, 'model': mo}, no_input=True)
        if first_sample and big and op == 'bu-divmod':
            c.sample({'op': op, 'line': li[:300], 'impl': io[:300]}); first_sample = False
    # the classifiers: python definition vs the Coq definition (extracted)
    cl = [(op, a, b) for op, a, b, fam in cases if op in ('bu-add', 'bu-pow') and not fam.startswith('malformed')]
    kl = [line_of(op + '-known', a, b) for op, a, b in cl]
    ko = c.model('num', kl, cross=False)
    for (op, a, b), o in zip(cl, ko):
        want = add_known(a, b) if op == 'bu-add' else pow_known(a, b)
        if o != ('1' if want else '0'):
            c.violation('classifier-mismatch', {'kind': 'check-internal', 'op': op, 'a': wire(a), 'b': wire(b), 'coq': o, 'python': want}, no_input=True)
    if c.tier == 'thorough':
        # release profile (no overflow checks): the u64 subtraction in sub wraps
        rl = []
        for _ in range(300):
            x = rand_limb(c.rng); y = rand_limb(c.rng)
            rl.append((('s', x), ('s', y)))
        lines0 = [line_of('bu-sub', a, b, oc=0) for a, b in rl]
        i0 = c.impl('num', lines0, profile='release')
        m0 = c.model('num', lines0, cross=False)
        for (a, b), li, io, mo in zip(rl, lines0, i0, m0):
            ni = norm_impl('bu-sub', io); nm = norm_model(mo)
            if ni[:1] != nm[:1] or (ni[0] == 'ok' and ni[1] != nm[1]):
                c.violation('biguint-sub-unchecked-drift', {'kind': 'impl-vs-model', 'layer': 'L1 biguint release profile', 'line': li, 'impl': io, 'model': mo}, no_input=True)
            if a[1] >= b[1] and not (ni[0] == 'ok' and bu_value_of('bu-sub', ni[1]) == a[1] - b[1]):
                c.violation('biguint-sub', {'kind': 'impl-vs-spec', 'layer': 'L1 biguint release profile', 'line': li, 'impl': io})


def check(c):
    c.rule = ('L1: BigUint/BigRat operations on raw limb vectors (lengths 1-70, special limbs 0/1/2^63/2^64-1, carry and borrow chains, '
              'Small/Large mixes, leading zero limbs, equal / off-by-one operands, special divisors); non-trivial = an operand or the result needs >= 2 limbs; '
              'L2: expression trees (depth <= 6, operands to 2^4096) through fend_core::evaluate; non-trivial = >= 2 operators; distinct by canonical text')
    ok = c.proof(['C01'], extra_targets=['Extract/XNum.vo'])
    if c.tier == 'thorough' and ok:
        c.thorough_proof(['C01'])
    check_biguint(c)


def replay(c, obj):
    print(json.dumps(obj, indent=1))
    if 'line' in obj:
        print('impl :', c.impl('num', [obj['line']])[0])
        print('model:', c.model('num', [obj['line']], cross=False)[0])
    return 0
