"""C19 -- the CLI is a faithful front-end to the core.

Proof: coq/Properties/C19.v over the model coq/Cli/Front.v (argument folding,
print/exit decision, config visitors).  Partial by nature: processes, stdio,
the file system, fend_core and the `toml` crate are oracles.

Tie (all against the `fend` binary built from /repo, run as a child process in
a scratch working directory with FEND_CONFIG_DIR / FEND_CACHE_DIR set):
  A   `fend --verif-hook args ...`  vs the model's from_args and vs the proved
      specification spec_from_args, on random argument lists (words, options,
      -e / -f operands, `--`, blank arguments, readable / unreadable files);
  M   the real program on argument lists and on piped standard input: stdout,
      stderr, exit status vs the model's eval_exprs fed with what fend_core
      itself returns in process (harness h_cli) for the expressions the model
      folds the arguments to;
  K   configuration files (generated, mutated, absent, not UTF-8): the value
      tree the `toml` crate yields (hook) through the model's visitor vs
      `--verif-hook config` (the Config the program really uses) and vs the
      diagnostics on stderr; then the program's behaviour on setting-sensitive
      expressions vs fend_core configured with the *model's* settings;
  X   exchange-rate settings (enable-internet-access, exchange-rate-source, exchange-rate-max-age): 36
      configs x 2 conversions on prepared EU / UN cache files vs the C20 model + fend_core;
  D   which config file is read: FEND_CONFIG_DIR names with spaces / non-ASCII / non-UTF-8 bytes, config present /
      absent / malformed, decoy configs in $XDG_CONFIG_HOME/fend and $HOME/.config/fend;
  C   colours: with enable-colors = 'always' the output with SGR sequences
      removed is the plain result, and each sequence is the configured style.
Spec (independent of the model): the property statement read directly --
stdout is the last result (or nothing), status 0 iff all succeed, first error
on stderr; a bad config never changes the status or the result."""
import hashlib, json, os, re, shutil, struct, subprocess, sys, time
import vlib
from vlib import sx, Sym, parse_sx, try_parse

TRUSTED_BASE = [
    'Coq 8.16.1 kernel + vm_compute (examples)',
    'extraction ExtrOcamlBasic -> OCaml, modelrun/driver.ml; cross-checked against vm_compute on a sample',
    'hand-written model coq/Cli/Front.v tied to cli/src/{args,main,config,custom_units}.rs only by this differential run',
    'oracles (not modelled): fend_core (queried in process through harness/src/bin/h_cli.rs, configured as cli/src/context.rs does), '
    'the `toml` crate (its value tree is read through `fend --verif-hook toml`), the file system, process exit status, stdio, terminal detection',
    'cli/src/verif_hooks.rs (args / config / toml hooks), gen/c19_worker.py',
    'colours (cli/src/color/*) are not modelled in Coq: checked only by the strip-SGR specification',
]
ASSUMPTIONS = [
    'arguments are valid UTF-8 (Rust String); the listed finding non-unicode-argument is what happens otherwise',
    'the order in which serde visits the keys is irrelevant to the settings (the model visits the tree in the toml crate\'s map order; unknown-key warnings are compared as sets)',
]

SGR = re.compile(rb'\x1b\[([0-9;]*)m')
DEFAULT_CONFIG = open(os.path.join(vlib.REPO, 'cli', 'src', 'default_config.toml'), 'rb').read()
CORPUS = os.path.join(vlib.ROOT, 'corpus', 'C19')
KN_ARG = 'non-unicode-argument'
KN_256 = 'color256-number-doubled'
KN_BIF = 'builtin-function-color-key'

# ---------------------------------------------------------------------------

POOL = ([], [])

def model_lines(c, lines):
    exe = vlib.build_model('cli')
    outs = vlib.run_batch([exe], lines, timeout=300, stack_unlimited=True, min_chunk=20)
    POOL[0].extend(lines); POOL[1].extend(outs)
    return outs

def limit_violations(c, per_name=3):
    from collections import Counter
    orig = c.violation
    counts = Counter()
    def limited(name, replay, no_input=False):
        counts[name] += 1
        if counts[name] <= per_name:
            orig(name, replay, no_input)
    c.violation = limited
    c.extra['violation_counts'] = counts

class Runner:
    """runs child processes through gen/c19_worker.py (16 in parallel)"""
    def __init__(self, c, fend, scratch):
        self.c, self.fend, self.scratch = c, fend, scratch
        self.cwd = os.path.join(scratch, 'cwd')
        self.cache = os.path.join(scratch, 'cache')
        os.makedirs(self.cwd)
        os.makedirs(self.cache)
        self.worker = [sys.executable, os.path.join(vlib.ROOT, 'gen', 'c19_worker.py')]
    def env(self, cfgdir, extra=None):
        e = {'PATH': os.environ.get('PATH', '/usr/bin:/bin'), 'HOME': self.cache, 'FEND_CONFIG_DIR': cfgdir,
             'FEND_CACHE_DIR': self.cache, 'FEND_STATE_DIR': self.cache, 'RUST_BACKTRACE': '0'}
        if extra:
            e.update(extra)
        return e
    def run(self, jobs):
        """jobs: list of (argv (list of bytes/str), stdin bytes|None, env) -> list of (rc, out, err)"""
        lines = []
        for argv, stdin, env in jobs:
            av = [(a if isinstance(a, bytes) else a.encode('utf-8')).hex() for a in [self.fend] + list(argv)]
            lines.append(json.dumps({'argv': av, 'stdin': None if stdin is None else stdin.hex(), 'env': env, 'cwd': self.cwd, 'timeout': 60}))
        outs = vlib.run_batch(self.worker, lines, timeout=150, min_chunk=10)
        self.c.evaluations += len(jobs)
        res = []
        for o in outs:
            try:
                a = json.loads(o)
                res.append((a['rc'], bytes.fromhex(a['out']), bytes.fromhex(a['err'])))
            except Exception:
                res.append(('worker:' + o[:60], b'', b''))
        return res


# ---------------------------------------------------------------------------
# files in the working directory of the child

FILES = {
    's.txt': b'y = 7',
    'two.txt': b'a = 1; a + 1',
    'empty.txt': b'',
    'nl.txt': b'40 + 2\n',
    'err.txt': b'1 +',
    '1': b'100',                         # a file whose name looks like a number
    'x': b'x = 9',                       # a file whose name looks like a variable
    'caf\u00e9.txt': '"caf\u00e9"'.encode('utf-8'),
    'bad.bin': b'1 + \xff',              # not UTF-8: unreadable as an expression file
}
MISSING = ['nofile', 'no/such/dir.txt', 'S.TXT']

def setup_cwd(run):
    for n, d in FILES.items():
        with open(os.path.join(run.cwd, n).encode('utf-8'), 'wb') as fh:
            fh.write(d)
    os.makedirs(os.path.join(run.cwd, 'dir'))

def readable():
    """the model's file-system oracle: path -> contents for the files read_to_string accepts"""
    out = []
    for n, d in FILES.items():
        try:
            d.decode('utf-8')
        except UnicodeDecodeError:
            continue
        out.append([n.encode('utf-8'), d])
    return out

WORDS = ['1', '2', '+', '*', '3', '(', ')', 'x', 'y', '=', '5', 'kg', 'to', 'g', '1 + 1', 'x = 5', 'x + 1', '2 * 3', '1/0', '()',
         '@no_trailing_newline 5', '"hi"', 'a = 1; a + 1', 'y * 2', 'version', 'help2', '-1', '-x', '--foo', '-ef', '-', 'é', '1.5']
BLANKS = ['', ' ', '\t', '  \n', '\u00a0', '\u2003\u2003']
FLAGS = ['help', '--help', '-h', '--version', '-v', '-V', '--default-config', '--print-default-config']
EXPRS = ['1 + 1', 'x = 5', 'x', 'x + 1', 'y = x * 2', 'y', '1/0', 'foo', '1 +', '()', '', ' ', '@no_trailing_newline 5',
         '@no_trailing_newline x', '"hello"', '1 kg to g', 'a = 1; a + 1', 'a', 'f = z: z^2', 'f 3', '1.5 * 2', '10 / 4', 'sqrt 2',
         '3 m + 2 cm', 'true', 'pi to 3 dp', 'ans', '2 ** 3', '"a\\nb"', '# only a comment', '1 ; 2', 'x = 2; y = 3', 'x * y',
         '@no_trailing_newline ()', '100!/98!', '0x10 + 0b11', '1e3', '5 %', '1,000 + 1', 'unknown_thing 3', ')', '"unterminated']

def gen_args(r, heavy_flags=False):
    n = r.choice([0, 1, 1, 2, 2, 3, 3, 4, 5, 6, 8])
    args = []
    while len(args) < n:
        k = r.random()
        if k < 0.40:
            args.append(r.choice(WORDS))
        elif k < 0.52:
            args += [r.choice(['-e', '--eval']), r.choice(EXPRS)]
        elif k < 0.60:
            args += [r.choice(['-f', '--file']), r.choice(list(FILES) + ['dir'] + (MISSING if r.random() < 0.3 else []))]
        elif k < 0.70:
            args.append(r.choice(list(FILES) + ['dir'] + MISSING))
        elif k < 0.77:
            args.append('--')
        elif k < 0.86:
            args.append(r.choice(BLANKS))
        elif k < (0.97 if heavy_flags else 0.89):
            args.append(r.choice(FLAGS))
        elif k < 0.985:
            args.append(r.choice(EXPRS))
        else:
            args.append(r.choice(['-e', '-f', '--eval', '--file']))       # possibly without operand
    return args

BOUNDARY_ARGS = [
    [], [''], ['', ''], ['\t', ' '], ['\t', ' ', '1'], ['1', '+', '1'], ['1 + 1'], ["1 '+' 1 "], ['version'], ['-h'], ['help'],
    ['1', '+ 1', 'help'], ['--version', '1!', '--help'], ['-v'], ['-V', 'here'], ['before', '-v', 'and', 'after'],
    ['--default-config'], ['--print-default-config', '-v'], ['-e'], ['-f'], ['--eval'], ['--file'], ['-e', '1', '-e'],
    ['-f', 'nofile'], ['-f', 'dir'], ['-f', 'bad.bin'], ['bad.bin'], ['dir'], ['-f', 's.txt', 'y'], ['s.txt', 'y'], ['s.txt', 'y', '*', '2'],
    ['1', 's.txt', '2'], ['1', '-e', 'x = 3', '2'], ['--', '-e', '1'], ['--', 'help'], ['--', '--', '1'], ['1', '--', '+', '2'],
    ['--', 's.txt'], ['-e', 's.txt'], ['-e', ''], ['-e', '', '-e', ''], ['-f', 'empty.txt'], ['empty.txt'], ['empty.txt', '1'],
    ['1'], ['x'], ['1', 'x'], ['-e', 'x = 1', 'x'], ['-e', '1/0', '-e', '2'], ['-e', '2', '-e', '1/0'], ['-e', '1/0'],
    ['-e', 'x = 4', '-e', 'x^2'], ['-e', 'x = 4', 'x', '^', '2'], ['-e', '@no_trailing_newline 5'], ['@no_trailing_newline', '5'],
    ['-e', '5', '-e', '()'], ['-e', '()', '-e', '5'], ['-e', '1', '-h'], ['-e', '-h'], ['-f', '-h'], ['-e', '--'], ['--', '--'],
    [' '], [' ', '1'], ['caf\u00e9.txt'], ['-f', 'caf\u00e9.txt'], ['nl.txt'], ['two.txt', 'a'], ['err.txt', '1'], ['1', 'err.txt'],
    ['-e', '1', 'help'], ['HELP'], ['--Help'], ['-e', 'x=1', '--', '-e', 'x'],
]
STDINS = [b'1+1', b'1+1\n', b'', b'\n', b'x = 3; x^2', b'@no_trailing_newline 7', b'()', b'1/0', b'2+2\n3+3', b'  5  ', b'"caf\xc3\xa9"',
          b'\xff', b'1 + \xc3', b'a = 2\n', b'1 +', b'1 kg to g\n']


# ---------------------------------------------------------------------------
# expected output of an evaluation run

def spec_out(results):
    """the property statement, directly: results = [('ok', text, unit, nl, nospans) | ('err', msg)]"""
    for r_ in results:
        if r_[0] == b'err':
            return (1, b'', b'Error: ' + r_[1] + b'\n')
    if not results:
        return (0, b'', b'')
    l = results[-1]
    if l[2] or l[4]:
        return (0, b'', b'')
    return (0, l[1] + (b'\n' if l[3] else b''), b'')

def harness_line(cfg, exprs):
    return sx([Sym('run-exprs'), cfg, [Sym('none')]] + list(exprs))

def eval_layer(c, run, cases, cfgdir, tag, stats, settings=(0, 0, [])):
    """cases: list of (args, stdin bytes|None).  Full pipeline for the program."""
    files = readable()
    # model: fold the arguments
    acts = [parse_sx(o) for o in model_lines(c, [sx([Sym('args'), files] + [a for a in args]) for args, _ in cases])]
    specs = [parse_sx(o) for o in model_lines(c, [sx([Sym('args-spec'), files] + [a for a in args]) for args, _ in cases])]
    # expressions to evaluate
    exprs = []
    for (args, stdin), act in zip(cases, acts):
        if act[0] == b'eval':
            exprs.append(act[1:])
        elif act[0] == b'repl':
            data = stdin if stdin is not None else b''      # /dev/null reads as empty input
            try:
                data.decode('utf-8')
                exprs.append([data])
            except UnicodeDecodeError:
                exprs.append(None)
        else:
            exprs.append(None)
    hl = {}
    for es in exprs:
        if es is not None:
            hl.setdefault(harness_line(list(settings), es), None)
    keys = list(hl)
    for k, o in zip(keys, c.impl('cli', keys)):
        hl[k] = o
    # model: print / exit decision on the core's results
    ml = []
    for es in exprs:
        if es is not None:
            res = try_parse(hl[harness_line(list(settings), es)])
            ml.append(sx([Sym('eval-exprs'), res if isinstance(res, list) else []] + list(es)))
    mo = iter(model_lines(c, ml))
    # implementation
    outs = run.run([(args, stdin, run.env(cfgdir, {'NO_COLOR': '1'})) for args, stdin in cases])
    version = parse_sx(c.impl('cli', [sx([Sym('version')])])[0])
    for (args, stdin), act, spc, es, (rc, so, se) in zip(cases, acts, specs, exprs, outs):
        key = '%s:%s:%s' % (tag, json.dumps(args), None if stdin is None else stdin.hex())
        kind = act[0].decode()
        c.note_case(key, len(args) > 0 or stdin is not None, '%s-%s%s' % (tag, kind, '-stdin' if (stdin is not None and kind == 'repl') else ''))
        rep = {'layer': 'M fend binary', 'args': args, 'stdin_hex': None if stdin is None else stdin.hex(), 'exit': rc,
               'stdout': so.decode('utf-8', 'replace')[:400], 'stderr': se.decode('utf-8', 'replace')[:600], 'model_action': sx(act)[:400], 'config': tag}
        if rc not in (0, 1) or b'panicked' in se:
            c.violation('cli-crashes', dict(rep, kind='impl-vs-spec', what='the program crashed'))
            continue
        if act != spc:
            c.violation('model-vs-spec-args', dict(rep, kind='model-vs-spec', spec=sx(spc)[:400]), no_input=True)
            continue
        if es is not None:
            res = try_parse(hl[harness_line(list(settings), es)])
            m = parse_sx(next(mo))
            if not isinstance(res, list) or len(res) != len(es):
                c.violation('harness-failed', dict(rep, kind='infrastructure', harness=str(hl[harness_line(list(settings), es)])[:300]), no_input=True)
                continue
            want_spec = spec_out(res)
            want_model = (m[2], m[0], m[1])
            got = (rc, so, se)
            if got != want_spec:
                c.violation('output-not-what-core-returns', dict(rep, kind='impl-vs-spec', expected=repr(want_spec)[:500],
                            exprs=[e.decode('utf-8', 'replace') for e in es]))
                continue
            if got != want_model:
                c.violation('output-differs-from-model', dict(rep, kind='impl-vs-model', expected=repr(want_model)[:500]), no_input=True)
                continue
            stats['M-' + kind + ('-ok' if rc == 0 else '-err')] += 1
        elif kind == 'repl':
            # piped input that is not UTF-8
            if not (rc == 1 and so == b'' and se.startswith(b'Error: ')):
                c.violation('stdin-not-utf8-shape', dict(rep, kind='impl-vs-spec'))
            else:
                stats['M-stdin-not-utf8'] += 1
        elif kind == 'help':
            ok = (rc == 0 and se == b'' and so.startswith(b'For more information on how to use fend') and
                  (b'Version: ' + version + b'\n') in so and (b'Config file: ' + os.path.join(cfgdir, 'config.toml').encode()) in so)
            if not ok:
                c.violation('help-output', dict(rep, kind='impl-vs-model'), no_input=True)
            else:
                stats['M-help'] += 1
        elif kind == 'version':
            if (rc, so, se) != (0, version + b'\n', b''):
                c.violation('version-output', dict(rep, kind='impl-vs-model'), no_input=True)
            else:
                stats['M-version'] += 1
        elif kind == 'default-config':
            if (rc, so, se) != (0, DEFAULT_CONFIG + b'\n', b''):
                c.violation('default-config-output', dict(rep, kind='impl-vs-model'), no_input=True)
            else:
                stats['M-default-config'] += 1
        elif kind == 'err':
            if (rc, so, se) != (1, b'', b'Error: ' + act[1] + b'\n'):
                c.violation('argument-error-output', dict(rep, kind='impl-vs-model'), no_input=True)
            else:
                stats['M-arg-error'] += 1
        elif kind == 'err-read':
            if not (rc == 1 and so == b'' and se.startswith(b'Error: ') and se.count(b'\n') == 1):
                c.violation('file-error-output', dict(rep, kind='impl-vs-model'), no_input=True)
            else:
                stats['M-file-error'] += 1


def args_layer(c, run, arglists, cfgdir, stats):
    files = readable()
    mods = model_lines(c, [sx([Sym('args'), files] + list(a)) for a in arglists])
    specs = model_lines(c, [sx([Sym('args-spec'), files] + list(a)) for a in arglists])
    outs = run.run([(['--verif-hook', 'args'] + list(a), None, run.env(cfgdir)) for a in arglists])
    for a, m, s_, (rc, so, se) in zip(arglists, mods, specs, outs):
        c.note_case('A:' + json.dumps(a), len(a) > 0, 'A-args')
        rep = {'layer': 'A --verif-hook args', 'args': a, 'impl': so.decode('utf-8', 'replace')[:400], 'model': m[:400], 'spec': s_[:400]}
        line = so.decode('utf-8', 'replace').strip().split()
        if rc != 0 or not line:
            c.violation('args-hook-failed', dict(rep, kind='impl-vs-spec', rc=rc, stderr=se.decode('utf-8', 'replace')[:300]))
            continue
        if line[0] == 'eval':
            imp = [b'eval'] + [bytes.fromhex(x[1:]) for x in line[1:]]
        elif line[0] == 'err':
            imp = [b'err', bytes.fromhex(line[1])]
        else:
            imp = [line[0].encode()]
        sp = parse_sx(s_)
        mo = parse_sx(m)
        def same(x, y):
            if y[0] == b'err-read':
                return x[0] == b'err' and x[1] not in (b'expected a filename', b'expected an expression')
            return x == y
        if not same(imp, sp):
            c.violation('args-action-differs-from-spec', dict(rep, kind='impl-vs-spec'))
        elif not same(imp, mo):
            c.violation('args-action-differs-from-model', dict(rep, kind='impl-vs-model'), no_input=True)
        else:
            stats['A-' + imp[0].decode()] += 1


# ---------------------------------------------------------------------------
# configuration files

def toml_str(s):
    return '"' + s.replace('\\', '\\\\').replace('"', '\\"') + '"'

UNITS_OK = [
    {'singular': 'foo', 'definition': '5 m'},
    {'singular': 'blorp', 'plural': 'blorps', 'definition': '3 kg'},
    {'singular': 'zork', 'plural': 'zorks', 'definition': '10 s', 'attribute': 'allow-long-prefix'},
    {'singular': 'qx', 'definition': '2 m', 'attribute': 'allow-short-prefix'},
    {'singular': 'fathomz', 'plural': 'fathomzes', 'definition': '6 feet', 'attribute': 'none'},
    {'singular': 'mygram', 'definition': 'g', 'attribute': 'alias'},
    {'singular': 'hyper', 'definition': '1000', 'attribute': 'is-long-prefix'},
]
UNITS_BAD = [
    {'singular': 'foo'},                                   # no definition
    {'definition': '5 m'},                                 # no singular
    {'singular': '', 'definition': '5 m'},
    {'singular': 'foo', 'definition': ''},
    {'singular': 'foo', 'plural': '', 'definition': '5 m'},
    {'singular': 'foo', 'definition': '5 m', 'attribute': 'weird'},
    {'singular': 'foo', 'definition': '5 m', 'extra': 'x'},
    {'singular': 5, 'definition': '5 m'},
    {'singular': 'foo', 'definition': 7},
]

def gen_config(r):
    """returns (toml text, description)"""
    top, tables = [], []
    bad = r.random() < 0.35
    badkey = r.choice(['prompt', 'coulomb', 'hist', 'internet', 'source', 'age', 'unknown-settings', 'sep', 'units', 'colors', 'dup', 'none']) if bad else None
    def pick(key, good, badv):
        return r.choice(badv) if badkey == key else r.choice(good)
    if r.random() < 0.4 or badkey == 'prompt':
        top.append('prompt = ' + pick('prompt', ['"> "', '"fend> "', "'$ '"], ['5', 'true', '[]']))
    if r.random() < 0.5:
        top.append(r.choice(['enable-colors', 'color']) + ' = ' + r.choice(['true', 'false', '"never"', '"auto"', "'never'", '"maybe"', '5', '"always"']))
    if badkey == 'dup':
        top.append('enable-colors = true')
        top.append('color = false')
    if r.random() < 0.6 or badkey == 'coulomb':
        top.append('coulomb-and-farad = ' + pick('coulomb', ['true', 'false'], ['"yes"', '1']))
    if r.random() < 0.3 or badkey == 'hist':
        top.append('max-history-size = ' + pick('hist', ['0', '1000', '5'], ['-1', '1.5', '"x"']))
    if r.random() < 0.3 or badkey == 'internet':
        top.append('enable-internet-access = ' + pick('internet', ['true', 'false'], ['"no"', '0']))
    if r.random() < 0.3 or badkey == 'source':
        top.append('exchange-rate-source = ' + pick('source', ['"EU"', '"UN"', '"disabled"'], ['"XX"', '5', '"eu"']))
    if r.random() < 0.3 or badkey == 'age':
        top.append('exchange-rate-max-age = ' + pick('age', ['0', '86400', '9223372036854775807'], ['-5', '"1"', '1.0']))
    if r.random() < 0.4 or badkey == 'unknown-settings':
        top.append('unknown-settings = ' + pick('unknown-settings', ['"warn"', '"ignore"'], ['"x"', 'true']))
    if r.random() < 0.6 or badkey == 'sep':
        top.append('decimal-separator-style = ' + pick('sep', ['"dot"', '"default"', '"comma"', '"comma"'], ['"x"', '1']))
    for _ in range(r.choice([0, 0, 1, 1, 2])):
        top.append(r.choice(['zzz = 5', 'foo-bar = "x"', 'when = 1979-05-27T07:32:00Z', 'ratio = 1.5', 'list = [1, 2]', 'Prompt = "x"',
                             'coulomb_and_farad = true', 'inline = { a = 1 }']))
    r.shuffle(top)
    units = []
    if r.random() < 0.6 or badkey == 'units':
        units = r.sample(UNITS_OK, r.randint(1, 3))
        if badkey == 'units':
            units.insert(r.randint(0, len(units)), r.choice(UNITS_BAD))
    for u in units:
        t = ['[[custom-units]]']
        for k, v in u.items():
            t.append('%s = %s' % (k, toml_str(v) if isinstance(v, str) else str(v)))
        tables.append('\n'.join(t))
    if badkey == 'units' and r.random() < 0.3:
        tables = [t for t in tables if not t.startswith('[[custom-units]]')]
        top.append('custom-units = 5')
    if r.random() < 0.3 or badkey == 'colors':
        if badkey == 'colors':
            tables.append(r.choice(['[colors]\nnumber = 5', '[colors]\nnumber = { foreground = 5 }', '[colors]\nnumber = { bold = "x" }']))
            if r.random() < 0.3:
                tables[-1] = ''
                top.append('colors = 5')
        else:
            tables.append('[colors]\nnumber = { foreground = "red", bold = true }\nstring = {}\nother = { underline = true, zz = 1 }\nweird = { foreground = "nocolor" }')
    if r.random() < 0.2:
        tables.append('[unknown-table]\na = 1')
    return '\n'.join(top) + '\n' + '\n\n'.join(t for t in tables if t) + '\n'

def mutate_text(r, text):
    b = bytearray(text.encode('utf-8'))
    for _ in range(r.choice([1, 1, 2, 3])):
        if not b:
            break
        k = r.random()
        pos = r.randrange(len(b))
        if k < 0.4:
            del b[pos]
        elif k < 0.8:
            b.insert(pos, r.choice(b'="\'[]{}#\n,. x1'))
        else:
            b[pos] = r.choice(b'="\'[]{}#\n,. x1')
    return bytes(b)

def conv_tree(tokens):
    """hook dump -> python structure for the model's (config tree ...) request"""
    # tokens: parsed by a tiny reader of "(t (hexkey val) ...)" etc.
    kind = tokens[0]
    if kind == 's':
        return [Sym('s'), bytes.fromhex(tokens[1]) if len(tokens) > 1 else b'']
    if kind == 'i':
        return [Sym('i'), int(tokens[1])]
    if kind == 'f':
        return [Sym('f')]
    if kind == 'b':
        return [Sym('b'), int(tokens[1])]
    if kind == 'd':
        return [Sym('d')]
    if kind == 'a':
        return [Sym('a')] + [conv_tree(t) for t in tokens[1:]]
    if kind == 't':
        return [Sym('t')] + [[bytes.fromhex(t[0][1:]), conv_tree(t[1])] for t in tokens[1:]]
    raise ValueError(kind)

def read_dump(text):
    """'(t (6162 (i 5)) ...)' -> nested python lists of strings"""
    toks = re.findall(r'\(|\)|[^\s()]+', text)
    pos = [0]
    def rd():
        t = toks[pos[0]]
        pos[0] += 1
        if t == '(':
            out = []
            while toks[pos[0]] != ')':
                out.append(rd())
            pos[0] += 1
            return out
        return t
    return rd()

def rust_unescape(t):
    def u(m):
        return chr(int(m.group(1), 16))
    t = re.sub(r'\\u\{([0-9a-fA-F]+)\}', u, t)
    return (t.replace('\\"', '"').replace("\\'", "'").replace('\\n', '\n').replace('\\t', '\t').replace('\\r', '\r')
             .replace('\\0', '\0').replace('\\\\', '\\'))

CFG_RE = re.compile(r'^Config \{ prompt: "(?P<prompt>(?:[^"\\]|\\.)*)", enable_colors: (?P<colors>\w+), coulomb_and_farad: (?P<coulomb>\w+), '
                    r'colors: OutputColors \{.*\}, max_history_size: (?P<hist>\d+), enable_internet_access: (?P<internet>\w+), '
                    r'exchange_rate_source: (?P<source>\w+), exchange_rate_max_age: (?P<age>\d+), custom_units: \[(?P<units>.*)\], '
                    r'decimal_separator: (?P<sep>\w+), unknown_settings: (?P<warn>\w+), unknown_keys: \[(?P<unknown>.*)\] \}$')
UNIT_RE = re.compile(r'CustomUnitDefinition \{ singular: "((?:[^"\\]|\\.)*)", plural: "((?:[^"\\]|\\.)*)", definition: "((?:[^"\\]|\\.)*)", attribute: (\w+) \}')
ATTR = {b'none': 'None', b'allow-long-prefix': 'AllowLongPrefix', b'allow-short-prefix': 'AllowShortPrefix', b'is-long-prefix': 'IsLongPrefix', b'alias': 'Alias'}

SENSITIVE = ['1.5 + 1', '1234.5 * 2', '1 C', '1 F', '2 foo to m', '3 blorps', '1 kilozork to s', '5 kqx', '1 mygram to g', '2 hyperfoo',
             '1 fathomz to feet', '10 fathomzes', 'foo', 'zork', '1,5 + 1']


ATTRS = ['none', 'allow-long-prefix', 'allow-short-prefix', 'is-long-prefix', 'alias']
UNIT_NAMES = [('zorb', 'zorbs'), ('twice', 'twices'), ('quux', 'quuxes')]
UNIT_FAMILIES = [('5 m', 'm'), ('2', None), ('3 kg', 'g')]
KN_LP = 'custom-long-prefix-unusable'

def base_of(definition):
    m = re.search(r'([A-Za-z]+)\s*$', definition)
    return m.group(1) if m else None

def unit_exprs(U, Us, base, full=True):
    """expressions whose meaning depends on how the unit was handed to the core:
    bare, plural, long prefix, short prefix, glued in front of other units, conversions"""
    es = ['3 ' + U, '3 ' + Us, '1 kilo' + U, '1 k' + U, '1 ' + U + 'meter', U]
    if base:
        es += ['3 %s to %s' % (U, base), '10 %s to %s' % (base, U)]
    if full:
        es += ['2 kilo' + Us, '2 k' + Us, '1 mega' + U, '1 M' + U, '1 %sm' % U, '1 %sflarn' % U, '1 %sflarn to flarn' % U,
               '1 %sshou' % U, '(3 %s) * 2' % U, '1 %s + 1 %s' % (U, Us), '1 / ' + U, '5 to ' + U]
        if base:
            es += ['3 %s to %s' % (Us, base), '1 kilo%s to %s' % (U, base), '1 k%s to %s' % (U, base), '1 kilo%s to %s' % (U, U)]
    return es

def exprs_for(st, full):
    """setting-sensitive expressions chosen from the *model's* reading of the configuration"""
    coulomb, comma, units, mode = st
    es = ['1.5 + 1', '1,5 + 1', '1234.5 * 2', '1 C', '1 F', '1 C to A s']
    for u in units:
        U = u[0].decode('utf-8', 'replace')
        Us = (u[1] or u[0]).decode('utf-8', 'replace')
        if re.fullmatch(r'[A-Za-z]+', U) and re.fullmatch(r'[A-Za-z]+', Us):
            es += unit_exprs(U, Us, base_of(u[2].decode('utf-8', 'replace')), full)
    return es

def doc_expect(st):
    """what the documentation (default_config.toml comments, manual) promises, written down independently of
    fend_core and of cli code: expr -> (exit, stdout or None = do not care)"""
    coulomb, comma, units, mode = st
    ex = {}
    ex['1.5 + 1'] = (0, b'16\n' if comma else b'2.5\n')
    ex['1,5 + 1'] = (0, b'2,5\n' if comma else b'16\n')
    ex['1 C'] = (0, b'1 C\n' if coulomb else b'1 \xc2\xb0C\n')
    ex['1 F'] = (0, b'1 F\n' if coulomb else b'1 \xc2\xb0F\n')
    if len(units) >= 1:
        U, Us, D, attr = [x.decode() for x in units[0]]
        Us = Us or U
        if D == '2' and U != Us:
            a = attr
            if a in ('none', 'allow-long-prefix', 'allow-short-prefix'):
                ex['3 ' + U] = (0, ('3 %s\n' % Us).encode())
                ex['3 ' + Us] = (0, ('3 %s\n' % Us).encode())
            else:                                   # alias / is-long-prefix: always expanded to the definition
                ex['3 ' + U] = (0, b'6\n')
                ex['3 ' + Us] = (0, b'6\n')
            ex['1 kilo' + U] = (0, ('1 kilo%s\n' % U).encode()) if a == 'allow-long-prefix' else (1, b'')
            if a in ('none', 'allow-long-prefix', 'is-long-prefix', 'alias'):
                ex['1 k' + U] = (1, b'')
            else:
                ex['1 k' + U] = (0, ('1 k%s\n' % U).encode())
            if a == 'is-long-prefix' and len(units) > 1:
                # "allow using this unit as a long prefix with another unit": flarn allows long prefixes
                ex['1 %sflarn to flarn' % U] = (0, b'2 flarns\n')
            elif a != 'is-long-prefix':
                ex['1 %sflarn to flarn' % U] = (1, b'')
    return ex

def config_layer(c, run, r, n, stats):
    cfgroot = os.path.join(run.scratch, 'cfgs')
    os.makedirs(cfgroot)
    cases = []      # (dir, kind, bytes|None)
    full_cases, groups = set(), {}
    def add(kind, data, full=False, group=None):
        if full:
            full_cases.add(len(cases))
        if group is not None:
            groups.setdefault(group, []).append(len(cases))
        d = os.path.join(cfgroot, 'c%d' % len(cases))
        os.makedirs(d)
        if data is not None:
            if data == 'DIR':
                os.makedirs(os.path.join(d, 'config.toml'))
            else:
                with open(os.path.join(d, 'config.toml'), 'wb') as fh:
                    fh.write(data)
        cases.append((d, kind, data))
    add('absent', None)
    add('default-config-file', DEFAULT_CONFIG)
    add('empty', b'')
    add('not-utf8', b'prompt = "\xff"\n')
    add('not-utf8', b'\xff\xfe')
    add('directory', 'DIR')
    add('garbage', b'this is not toml')
    add('garbage', b'= 5')
    add('garbage', b'[[[')
    add('dup-key', b'prompt = "a"\nprompt = "b"\n')
    add('hand', b'coulomb-and-farad = true\ndecimal-separator-style = "comma"\nzzz = 1\n[[custom-units]]\nsingular = "foo"\ndefinition = "5 m"\n')
    add('hand', b'unknown-settings = "ignore"\nzzz = 1\nyyy = 2\n')
    add('hand', b'custom-units = []\n')
    add('hand', b'custom-units = [{ singular = "foo", definition = "5 m" }, { singular = "blorp", plural = "blorps", definition = "2 foo" }]\n')
    add('hand', b'exchange-rate-max-age = 18446744073709551615\n')
    # settings applied after parsing: every combination of the two evaluation switches
    for cf_ in ('true', 'false'):
        for sep in ('comma', 'dot', 'default'):
            add('setting-switches', ('coulomb-and-farad = %s\ndecimal-separator-style = "%s"\n' % (cf_, sep)).encode(), full=True)
    # every attribute kind x definition family x name, singular != plural; with two companion units to glue to
    companions = ('[[custom-units]]\nsingular = "flarn"\nplural = "flarns"\ndefinition = "5 m"\nattribute = "allow-long-prefix"\n'
                  '[[custom-units]]\nsingular = "shou"\nplural = "shous"\ndefinition = "7 s"\nattribute = "allow-short-prefix"\n')
    for attr in ATTRS + [None]:
        for (D, _b) in UNIT_FAMILIES:
            for (U, Us) in UNIT_NAMES:
                t = '[[custom-units]]\nsingular = "%s"\nplural = "%s"\ndefinition = "%s"\n' % (U, Us, D)
                if attr is not None:
                    t += 'attribute = "%s"\n' % attr
                add('unit-attr', (t + companions).encode(), full=True, group=(D, U))
                if U == 'zorb':
                    add('unit-attr', t.encode(), full=True)
    add('hand', b'max-history-size = 9223372036854775807\n')
    for _ in range(n):
        t = gen_config(r)
        add('generated', t.encode('utf-8'))
        if r.random() < 0.45:
            add('mutated', mutate_text(r, t))
    # metamorphic pairs for "unknown keys are ignored": the same file with one more unknown key in front
    pairs = []
    for i, (d, kind, data) in enumerate(list(cases)):
        if kind == 'generated' and len(pairs) < (80 if n < 1000 else 600):
            add('with-unknown-key', b'qqq-not-a-setting = 1\n' + data)
            pairs.append((i, len(cases) - 1))
    # the toml crate's reading of each file (oracle), the Config the program uses, its diagnostics
    trees = run.run([(['--verif-hook', 'toml', os.path.join(d, 'config.toml')], None, run.env(d)) for d, _, _ in cases])
    confs = run.run([(['--verif-hook', 'config'], None, run.env(d)) for d, _, _ in cases])
    reqs = []
    for (d, kind, data), (rc, so, se) in zip(cases, trees):
        t = so.decode('utf-8', 'replace').strip()
        if t.startswith('ok '):
            try:
                reqs.append(sx([Sym('config'), Sym('tree'), conv_tree(read_dump(t[3:]))]))
            except Exception as e:
                reqs.append(None)
        elif t.startswith('err'):
            reqs.append(sx([Sym('config'), Sym('toml-error')]))
        elif t == 'not-utf8':
            reqs.append(sx([Sym('config'), Sym('not-utf8')]))
        else:
            reqs.append(sx([Sym('config'), Sym('absent')]))
    mo = iter(model_lines(c, [q for q in reqs if q is not None]))
    settings = []
    for (d, kind, data), q, (rc, so, se) in zip(cases, reqs, confs):
        txt = data if isinstance(data, bytes) else b''
        c.note_case('K:' + hashlib.sha1(txt + kind.encode()).hexdigest(), True, 'K-' + kind)
        rep = {'layer': 'K --verif-hook config', 'kind': kind, 'config_toml': txt.decode('utf-8', 'replace')[:1500], 'impl': so.decode('utf-8', 'replace')[:1500],
               'stderr': se.decode('utf-8', 'replace')[:800]}
        if q is None:
            c.violation('toml-dump-unreadable', dict(rep, kind='infrastructure'), no_input=True)
            settings.append(None)
            continue
        m = parse_sx(next(mo))
        rep['model'] = sx(m)[:800]
        if rc != 0 or b'panicked' in se:
            c.violation('config-crashes', dict(rep, kind='impl-vs-spec', what='reading the configuration crashed'))
            settings.append(None)
            continue
        g = CFG_RE.match(so.decode('utf-8', 'replace').strip())
        if not g:
            c.violation('config-debug-unparsed', dict(rep, kind='infrastructure'), no_input=True)
            settings.append(None)
            continue
        cf, diags = m
        prompt, mode, coulomb, hist, internet, source, age, units, comma, warn, unknown = cf
        got_units = [(rust_unescape(a).encode(), rust_unescape(b).encode(), rust_unescape(d_).encode(), at) for a, b, d_, at in UNIT_RE.findall(g.group('units'))]
        want_units = [(u[0], u[1], u[2], ATTR[u[3]]) for u in units]
        got_unknown = sorted(rust_unescape(x) for x in re.findall(r'"((?:[^"\\]|\\.)*)"', g.group('unknown')))
        want = {
            'prompt': prompt.decode('utf-8', 'replace'), 'colors': 'true' if mode == 2 else 'false', 'coulomb': 'true' if coulomb else 'false',
            'hist': str(hist), 'internet': 'true' if internet else 'false', 'source': ['Disabled', 'EuropeanUnion', 'UnitedNations'][source],
            'age': str(age), 'sep': 'Comma' if comma else 'Dot', 'warn': 'Warn' if warn else 'Ignore',
        }
        bad = [k for k, v in want.items() if (rust_unescape(g.group(k)) if k == 'prompt' else g.group(k)) != v]
        if got_units != want_units:
            bad.append('custom_units')
        if got_unknown != sorted(u.decode('utf-8', 'replace') for u in unknown):
            bad.append('unknown_keys')
        # diagnostics
        err = se.decode('utf-8', 'replace')
        dk = [x[0] for x in diags]
        want_invalid = b'invalid' in dk
        want_notutf8 = b'not-utf8' in dk
        if ('Error: invalid config file' in err) != want_invalid:
            bad.append('diag-invalid')
        if ('Error: config file is not UTF-8 encoded' in err) != want_notutf8:
            bad.append('diag-not-utf8')
        if not want_invalid and not want_notutf8:
            if ('Error: unknown config setting for' in err) != (b'colors-setting' in dk):
                bad.append('diag-colors-setting')
            got_w = sorted(w for w in re.findall(r'Warning: ignoring unknown configuration setting `([^`]*)`', err) if not w.startswith('colors.'))
            want_w = sorted(x[1].decode('utf-8', 'replace') for x in diags if x[0] == b'unknown-key')
            if got_w != want_w:
                bad.append('diag-unknown-keys')
        # spec, independent of the model: absent / malformed => defaults and (malformed) a diagnostic
        if kind in ('absent', 'directory') and (so.strip() != confs[0][1].strip() or se != b''):
            c.violation('absent-config-not-default', dict(rep, kind='impl-vs-spec'))
        elif kind in ('not-utf8', 'garbage', 'dup-key') and (so.strip() != confs[0][1].strip() or not err.startswith('Error: ')):
            c.violation('malformed-config-not-default', dict(rep, kind='impl-vs-spec'))
        elif bad:
            c.violation('config-differs-from-model', dict(rep, kind='impl-vs-model', fields=bad), no_input=True)
        else:
            stats['K-' + ('invalid' if want_invalid else 'not-utf8' if want_notutf8 else 'accepted')] += 1
        settings.append((1 if coulomb else 0, 1 if comma else 0, [[u[0], u[1], u[2], u[3]] for u in units], mode))
    def strip_unknown(b):
        b = re.sub(rb'(unknown_settings: \w+), unknown_keys: \[.*\] \}\s*$', rb'\1', b)
        m = re.search(rb'colors: OutputColors \{ styles: \{(.*)\} \}, max_history_size', b)
        if m:      # a HashMap: iteration order differs from process to process
            items = sorted(re.findall(rb'"[^"]*": Color \{[^}]*\}', m.group(1)))
            b = b[:m.start()] + b'colors: ' + b', '.join(items) + b', max_history_size' + b[m.end():]
        return b
    for i, j in pairs:
        a, b = confs[i], confs[j]
        if strip_unknown(a[1]) != strip_unknown(b[1]) or a[0] != b[0]:
            c.violation('unknown-key-changes-settings', {'kind': 'impl-vs-spec', 'layer': 'K metamorphic', 'config_toml': cases[j][2].decode('utf-8', 'replace')[:1500],
                        'without_key': a[1].decode('utf-8', 'replace')[:1200], 'with_key': b[1].decode('utf-8', 'replace')[:1200],
                        'stderr_with_key': b[2].decode('utf-8', 'replace')[:600]})
        else:
            stats['K-unknown-key-pair-ok'] += 1
    # behaviour under each configuration: the program vs fend_core configured with the model's settings
    beh = []
    for ci, ((d, kind, data), st) in enumerate(zip(cases, settings)):
        if st is None:
            continue
        full = ci in full_cases
        es_ = exprs_for(st, full)
        if not full:
            es_ = es_ + r.sample(SENSITIVE, 2)
        for e in dict.fromkeys(es_):
            beh.append((d, kind, st, [e], ci))
        beh.append((d, kind, st, ['x = 2,5' if st[1] else 'x = 2.5', 'x + 1'], ci))
    hl = {}
    for d, kind, st, es, ci in beh:
        hl.setdefault(harness_line(list(st[:3]), [e.encode() for e in es]), None)
    keys = list(hl)
    for k, o in zip(keys, c.impl('cli', keys)):
        hl[k] = o
    outs = run.run([([x for e in es for x in ('-e', e)], None, run.env(d, {'NO_COLOR': '1'})) for d, kind, st, es, ci in beh])
    sig = {}
    for (d, kind, st, es, ci), (rc, so, se) in zip(beh, outs):
        res = try_parse(hl[harness_line(list(st[:3]), [e.encode() for e in es])])
        c.note_case('KB:%s:%s' % (d, es), True, 'K-behaviour')
        rep = {'layer': 'K fend binary under a config', 'kind': kind, 'config_toml': (open(os.path.join(d, 'config.toml'), 'rb').read().decode('utf-8', 'replace')[:1500]
               if os.path.isfile(os.path.join(d, 'config.toml')) else None), 'exprs': es, 'exit': rc, 'stdout': so.decode('utf-8', 'replace')[:300],
               'stderr': se.decode('utf-8', 'replace')[:600], 'model_settings': repr(st)[:400]}
        if rc not in (0, 1) or b'panicked' in se:
            c.violation('cli-crashes-under-config', dict(rep, kind='impl-vs-spec'))
            continue
        if not isinstance(res, list):
            c.violation('harness-failed', dict(rep, kind='infrastructure', harness=str(hl.get(harness_line(list(st[:3]), [e.encode() for e in es])))[:300]), no_input=True)
            continue
        want = spec_out(res)
        if len(es) == 1:
            sig.setdefault(ci, []).append((es[0], want))
            de = doc_expect(st).get(es[0]) if ci in full_cases else None
            plain_so = SGR.sub(b'', so) if st[3] == 2 else so
            if de is not None and (rc != de[0] or (de[0] == 0 and plain_so != de[1]) or (de[0] == 1 and so != b'')):
                lp = (es[0].endswith('flarn to flarn') and de[0] == 0 and rc == 1 and b'unknown identifier' in se)
                if lp and c.known_finding(KN_LP):
                    stats['K-known-long-prefix'] += 1
                else:
                    c.violation('setting-not-applied-as-documented', dict(rep, kind='impl-vs-spec', documented=repr(de)))
                    continue
            elif de is not None:
                stats['K-documented-ok'] += 1
        if st[3] == 2:
            # enable-colors = 'always': the result is decorated with SGR sequences (checked in layer C)
            if want[1] and not SGR.search(so):
                c.violation('colours-always-not-applied', dict(rep, kind='impl-vs-model'), no_input=True)
                continue
            so = SGR.sub(b'', so)
        elif SGR.search(so):
            c.violation('colours-applied-unasked', dict(rep, kind='impl-vs-model'), no_input=True)
            continue
        # stderr also carries the configuration diagnostics: compare its tail
        tail = se[len(se) - len(want[2]):] if want[2] else b''
        diag = se[:len(se) - len(want[2])] if want[2] else se
        if b'exchange rate' in want[2]:
            # the expression reached the currency machinery (network oracle): only the shape is comparable
            if not (rc == 1 and so == b'' and b'Error: failed to retrieve' in se):
                c.violation('behaviour-under-config', dict(rep, kind='impl-vs-model', expected=repr(want)[:400]), no_input=True)
            continue
        if (rc, so, tail) != want:
            c.violation('behaviour-under-config', dict(rep, kind='impl-vs-model', expected=repr(want)[:400]), no_input=True)
        else:
            stats['K-behaviour-ok'] += 1


    # generator self-check: within one (definition, name) group the configs differ only in the attribute;
    # every two attribute kinds must be told apart by at least one expression (else a swapped mapping would pass)
    same = set()
    for g, idxs in groups.items():
        kinds = {}
        for ci in idxs:
            if settings[ci] is not None and settings[ci][2]:
                kinds.setdefault(settings[ci][2][0][3], tuple(sig.get(ci, [])))
        ks = sorted(kinds)
        for i_ in range(len(ks)):
            for j_ in range(i_ + 1, len(ks)):
                if kinds[ks[i_]] == kinds[ks[j_]]:
                    same.add((ks[i_].decode(), ks[j_].decode()))
    c.extra['attribute_kinds_indistinguishable'] = sorted(same)
    for pair in same:
        if pair != ('alias', 'is-long-prefix'):
            c.violation('generator-cannot-distinguish-attributes', {'kind': 'infrastructure', 'pair': pair}, no_input=True)


# ---------------------------------------------------------------------------
# exchange-rate settings (applied in context.rs when the handler is installed)

def rates_settings_layer(c, run, stats):
    """enable-internet-access / exchange-rate-source / exchange-rate-max-age: each changes what a currency
    conversion prints.  Expected: the C20 model (cache_rates, repaired parser) on the cache files for the
    source and max-age the *C19 model* reads from the config, handed to fend_core through h_cli."""
    import c20
    fend = run.fend
    xdir = os.path.join(run.scratch, 'xcache')
    os.makedirs(xdir)
    now = int(time.time())
    files = {}
    for src, name in ((0, 'eu_small.xml'), (1, 'un_small.xml')):
        data = str(now - 5000).encode() + b';' + open(os.path.join(vlib.ROOT, 'corpus', 'C20', name), 'rb').read()
        files[src] = data
        with open(os.path.join(xdir, c20.CACHE_NAME[src]), 'wb') as fh:
            fh.write(data)
    cfgs = []
    root = os.path.join(run.scratch, 'xcfgs')
    for source in ('"EU"', '"UN"', '"disabled"', None):
        for internet in ('true', 'false', None):
            for age in ('1000', '100000', None):
                t = ''
                if source:
                    t += 'exchange-rate-source = %s\n' % source
                if internet:
                    t += 'enable-internet-access = %s\n' % internet
                if age:
                    t += 'exchange-rate-max-age = %s\n' % age
                d = os.path.join(root, 'x%d' % len(cfgs))
                os.makedirs(d)
                with open(os.path.join(d, 'config.toml'), 'w') as fh:
                    fh.write(t)
                cfgs.append((d, t))
    trees = run.run([(['--verif-hook', 'toml', os.path.join(d, 'config.toml')], None, run.env(d)) for d, _ in cfgs])
    reqs = [sx([Sym('config'), Sym('tree'), conv_tree(read_dump(so.decode().strip()[3:]))]) for rc, so, se in trees]
    mods = [parse_sx(o) for o in model_lines(c, reqs)]
    oracle = c20.Oracle(fend)
    exprs = ['1 EUR to USD', '100 JPY to GBP']
    # the C20 model on the cache file of the configured source, for the configured max-age
    plan = []
    for (d, t), m in zip(cfgs, mods):
        cf = m[0]
        internet, source, age = cf[4], cf[5], cf[6]
        if not internet:
            plan.append(('err', b'internet access is disabled by fend configuration'))
        elif source == 0:
            plan.append(('err', b'exchange rate source is set to `disabled`'))
        else:
            plan.append(('cache', source - 1, age))
    need = sorted({(p_[1], p_[2]) for p_ in plan if p_[0] == 'cache'})
    toks = {}
    tl = [sx([Sym('tokens-batch'), src, 1, now, age, files[src], [[2]]]) for src, age in need]
    for (src, age), o in zip(need, model_lines(c, tl)):
        toks[(src, age)] = set(parse_sx(o)[0])
    oracle.need(set().union(*toks.values()) if toks else set())
    cl = [sx([Sym('cache-batch'), src, 1, now, age, files[src], oracle.table(toks[(src, age)]), c20.CURS, [[2]]]) for src, age in need]
    outcome = {k: parse_sx(o)[0] for k, o in zip(need, model_lines(c, cl))}
    def spec_of(p_):
        if p_[0] == 'err':
            return [Sym('err'), p_[1]]
        m = outcome[(p_[1], p_[2])]
        if m[0] == b'rates':
            return [Sym('table')] + [([cur, 'tok', lk[1]] if lk[0] == b'tok' else [cur, lk[0].decode()]) for cur, lk in zip(c20.CURS, m[2])]
        if m[0] == b'err':
            return [Sym('err'), m[1]]
        return None                      # miss: the download path (network oracle)
    jobs, hls = [], {}
    for (d, t), p_ in zip(cfgs, plan):
        sp = spec_of(p_)
        for e in exprs:
            jobs.append((d, t, p_, sp, e))
            if sp is not None:
                hls.setdefault(sx([Sym('run-exprs'), [0, 0, []], sp, e.encode()]), None)
    keys = list(hls)
    for k, o in zip(keys, c.impl('cli', keys)):
        hls[k] = o
    outs = run.run([(['-e', e], None, run.env(d, {'NO_COLOR': '1', 'FEND_CACHE_DIR': xdir})) for d, t, p_, sp, e in jobs])
    seen_out = {}
    for (d, t, p_, sp, e), (rc, so, se) in zip(jobs, outs):
        c.note_case('X:%s:%s' % (t, e), True, 'X-rate-settings')
        rep = {'layer': 'X exchange-rate settings', 'config_toml': t, 'expr': e, 'exit': rc, 'stdout': so.decode('utf-8', 'replace')[:200],
               'stderr': se.decode('utf-8', 'replace')[:500], 'plan': repr(p_)[:200]}
        if rc not in (0, 1) or b'panicked' in se:
            c.violation('cli-crashes-rate-settings', dict(rep, kind='impl-vs-spec'))
            continue
        if sp is None:
            if not (rc == 1 and so == b'' and se.startswith(b'Error: failed to retrieve ')):
                c.violation('rate-setting-not-applied', dict(rep, kind='impl-vs-model', expected='cache too old for this max-age: download path'), no_input=True)
            else:
                stats['X-expired'] += 1
            seen_out[(p_, e)] = 'miss'
            continue
        res = try_parse(hls[sx([Sym('run-exprs'), [0, 0, []], sp, e.encode()])])
        want = spec_out(res) if isinstance(res, list) else None
        if want is None or (rc, so, se) != want:
            c.violation('rate-setting-not-applied', dict(rep, kind='impl-vs-spec', expected=repr(want)[:400],
                        what='the conversion does not reflect enable-internet-access / exchange-rate-source / exchange-rate-max-age of the config'))
        else:
            stats['X-ok'] += 1
        seen_out[(p_, e)] = (rc, so, se)
    # each of the three settings must have mattered somewhere (else the layer proves nothing)
    distinct = len(set(map(repr, seen_out.values())))
    c.extra['rate_setting_distinct_outcomes'] = distinct
    if distinct < 5:
        c.violation('rate-settings-layer-degenerate', {'kind': 'infrastructure', 'distinct': distinct}, no_input=True)


# ---------------------------------------------------------------------------
# D: which config file is read

DIRNAMES = [b'plain', b'with space', 'confié-€'.encode('utf-8'), b'not-utf8-\xff\xfe', b'semi;colon=and$dollar']

def which_config_layer(c, run, stats):
    """FEND_CONFIG_DIR with awkward names holding a config / no config / a malformed one, while
    $XDG_CONFIG_HOME/fend and $HOME/.config/fend hold a decoy config with other settings: only the designated
    directory counts (absent or malformed => defaults, never the decoy)."""
    root = os.path.join(run.scratch, 'whichcfg').encode()
    desig_toml = b'decimal-separator-style = "comma"\n[[custom-units]]\nsingular = "desig"\nplural = "desigs"\ndefinition = "5 m"\n'
    decoy_toml = b'coulomb-and-farad = true\n[[custom-units]]\nsingular = "decoyu"\nplural = "decoyus"\ndefinition = "7 m"\n'
    exprs = ['1,5 + 1', '1 C', '2 desig to m', '2 decoyu to m']
    settings = {'present': [0, 1, [[b'desig', b'desigs', b'5 m', b'none']]], 'absent': [0, 0, []], 'malformed': [0, 0, []], 'no-dir': [0, 0, []]}
    hl = {}
    for st in settings.values():
        for e in exprs:
            hl.setdefault(harness_line(st, [e.encode()]), None)
    keys = list(hl)
    for k, o in zip(keys, c.impl('cli', keys)):
        hl[k] = o
    jobs, meta = [], []
    for di, dn in enumerate(DIRNAMES):
        for state in settings:
            for xdg in (True, False):
                base = os.path.join(root, b'%d_%s_%d' % (di, state.encode(), xdg))
                desig = os.path.join(base, dn)
                home, xdgd = os.path.join(base, b'home'), os.path.join(base, b'xdg')
                if state != 'no-dir':
                    os.makedirs(desig)
                if state == 'present':
                    open(os.path.join(desig, b'config.toml'), 'wb').write(desig_toml)
                elif state == 'malformed':
                    open(os.path.join(desig, b'config.toml'), 'wb').write(b'decimal-separator-style = \n[[[')
                for dec in (os.path.join(home, b'.config', b'fend'), os.path.join(xdgd, b'fend')):
                    os.makedirs(dec)
                    open(os.path.join(dec, b'config.toml'), 'wb').write(decoy_toml)
                env = {'PATH': os.environ.get('PATH', '/usr/bin:/bin'), 'HOME': os.fsdecode(home), 'FEND_CONFIG_DIR': os.fsdecode(desig),
                       'FEND_CACHE_DIR': run.cache, 'RUST_BACKTRACE': '0', 'NO_COLOR': '1'}
                if xdg:
                    env['XDG_CONFIG_HOME'] = os.fsdecode(xdgd)
                for e in exprs:
                    jobs.append((['-e', e], None, env))
                    meta.append((dn, state, xdg, e))
    outs = run.run(jobs)
    for (dn, state, xdg, e), (rc, so, se) in zip(meta, outs):
        c.note_case('D:%r:%s:%s:%s' % (dn, state, xdg, e), True, 'D-config-dir-' + state)
        res = try_parse(hl[harness_line(settings[state], [e.encode()])])
        want = spec_out(res) if isinstance(res, list) else None
        rep = {'layer': 'D which config file is read', 'FEND_CONFIG_DIR_name_hex': dn.hex(), 'designated_config': state, 'XDG_CONFIG_HOME_set': xdg,
               'expr': e, 'exit': rc, 'stdout': so.decode('utf-8', 'replace')[:200], 'stderr': se.decode('utf-8', 'replace')[:500], 'expected': repr(want)[:300],
               'decoy': 'coulomb-and-farad + unit decoyu in $XDG_CONFIG_HOME/fend and $HOME/.config/fend'}
        if rc not in (0, 1) or b'panicked' in se:
            c.violation('cli-crashes-config-dir', dict(rep, kind='impl-vs-spec'))
            continue
        tail = se[len(se) - len(want[2]):] if (want and want[2]) else b''
        diag = se[:len(se) - len(tail)]
        ok = want is not None and (rc, so, tail) == want
        ok = ok and ((state == 'malformed') == diag.startswith(b'Error: invalid config file')) and (state == 'malformed' or diag == b'')
        if not ok:
            c.violation('config-from-another-directory', dict(rep, kind='impl-vs-spec',
                        what='the settings in effect are not those of the designated directory (or its absence / the defaults)'))
        else:
            stats['D-' + state] += 1


# ---------------------------------------------------------------------------
# colours

def colours_layer(c, run, stats):
    d = os.path.join(run.scratch, 'cfg_colours')
    os.makedirs(d)
    wit = json.load(open(os.path.join(CORPUS, 'fixed_colours.json')))
    with open(os.path.join(d, 'config.toml'), 'w') as fh:
        fh.write(wit['config_toml'])
    want_style = {k: v.encode() for k, v in wit['styles'].items()}
    exprs = wit['exprs']
    hl = [harness_line([0, 0, []], [e.encode()]) for e in exprs]
    hres = c.impl('cli', hl)
    outs = run.run([(['-e', e], None, run.env(d)) for e in exprs])
    for e, h, (rc, so, se) in zip(exprs, hres, outs):
        res = try_parse(h)
        c.note_case('C:' + e, True, 'C-colours')
        rep = {'layer': 'C colours', 'expr': e, 'exit': rc, 'stdout_hex': so.hex(), 'stderr': se.decode('utf-8', 'replace')[:300]}
        if rc not in (0, 1) or b'panicked' in se or not isinstance(res, list):
            c.violation('cli-crashes-colours', dict(rep, kind='impl-vs-spec'))
            continue
        want = spec_out(res)
        plain = SGR.sub(b'', so)
        if (rc, plain) != (want[0], want[1]):
            c.violation('coloured-output-text', dict(rep, kind='impl-vs-spec', expected=repr(want)[:300]))
            continue
        codes = set(SGR.findall(so)) - {b'0'}
        if b'1;38;5;214214' in codes:
            if c.known_finding(KN_256):
                codes.discard(b'1;38;5;214214')
            else:
                c.violation('colour-256-escape', dict(rep, kind='impl-vs-spec', what='256-colour escape carries the number twice'))
                continue
        if e in wit['builtin_exprs'] and want_style['built-in-function'] not in codes and b'39' in codes:
            if not c.known_finding(KN_BIF):
                c.violation('builtin-function-colour-ignored', dict(rep, kind='impl-vs-spec'))
                continue
        extra = codes - set(want_style.values())
        if extra:
            c.violation('colour-escape-not-configured', dict(rep, kind='impl-vs-spec', codes=[x.decode() for x in extra]))
        else:
            stats['C-ok'] += 1


# ---------------------------------------------------------------------------

def check(c):
    POOL[0].clear(); POOL[1].clear()
    limit_violations(c)
    r = c.rng
    quick = c.tier == 'quick'
    c.rule = ('A: boundary argument lists + random lists over words / blanks / options / -e -f operands / -- / files; M: the same kind of lists through the '
              'real program, plus piped standard input; K: hand-made, generated (35% with one invalid item) and text-mutated config.toml files; '
              'C: 15 expressions under a colour configuration.  non-trivial = non-empty argument list / config; distinct by content')
    ok = c.proof(['C19'], extra_targets=['Extract/XCli.vo'])
    if c.tier == 'thorough' and ok:
        c.thorough_proof(['C19'])
    fend = vlib.build_cli()
    scratch = os.path.join(vlib.CACHE, 'c19', '%s_%d' % (c.tier, c.seed))
    shutil.rmtree(scratch, ignore_errors=True)
    os.makedirs(scratch)
    run = Runner(c, fend, scratch)
    setup_cwd(run)
    from collections import Counter
    stats = Counter()
    nocfg = os.path.join(scratch, 'nocfg')
    os.makedirs(nocfg)
    # ---- A ----
    nA = 3000 if quick else 20000
    arglists = [list(a) for a in BOUNDARY_ARGS] + [gen_args(r, heavy_flags=(i % 5 == 0)) for i in range(nA)]
    args_layer(c, run, arglists, nocfg, stats)
    # ---- M ----
    nM = 2500 if quick else 15000
    cases = [(list(a), None) for a in BOUNDARY_ARGS] + [(gen_args(r), None) for _ in range(nM)]
    cases += [(a, s_) for s_ in STDINS for a in ([], [''], [' ', '\t'])]
    cases += [(['-e', '1'], b'2'), (['--'], b'3+3'), (['-h'], b'1')]
    eval_layer(c, run, cases, nocfg, 'M', stats)
    # a non-Unicode argument (the listed finding)
    wit = json.load(open(os.path.join(CORPUS, 'fixed_non_unicode_argument.json')))['args_hex']
    outs = run.run([([bytes.fromhex(a) for a in al], None, run.env(nocfg)) for al in wit])
    for al, (rc, so, se) in zip(wit, outs):
        c.note_case('M:non-unicode:%r' % (al,), True, 'M-non-unicode-argument')
        if rc == 101 and b'panicked' in se:
            if not c.known_finding(KN_ARG):
                c.violation('non-unicode-argument-panics', {'kind': 'impl-vs-spec', 'args_hex': al, 'exit': rc, 'stderr': se.decode('utf-8', 'replace')[:400]})
        elif not (rc == 1 and so == b'' and se.startswith(b'Error: ')):
            c.violation('non-unicode-argument-shape', {'kind': 'impl-vs-spec', 'args_hex': al, 'exit': rc, 'stdout': repr(so[:100]), 'stderr': se.decode('utf-8', 'replace')[:400]})
        else:
            stats['M-non-unicode-argument-error'] += 1
    # ---- K ----
    config_layer(c, run, r, 450 if quick else 4000, stats)
    # ---- X ----
    rates_settings_layer(c, run, stats)
    # ---- D ----
    which_config_layer(c, run, stats)
    # ---- C ----
    colours_layer(c, run, stats)
    c.vm_cross_sample('cli', POOL[0], POOL[1], k=25)
    c.extra['outcomes'] = dict(stats)
    c.sample({'layer': 'M', 'args': ['-e', 'x = 4', 'x', '^', '2'], 'stdout': '16\n', 'exit': 0})
    c.sample({'layer': 'K', 'config': 'decimal-separator-style = "comma"', 'expr': '1.5 + 1', 'stdout': '2,5\n'})
    shutil.rmtree(scratch, ignore_errors=True)


def replay(c, obj):
    print(json.dumps(obj, indent=1)[:4000])
    return 0
