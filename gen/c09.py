"""C09 — variables and lambdas are referentially transparent and lexically scoped.
Proof: coq/Properties/C09.v over coq/Eval/Calc.v.
Tie: random programs (assignments, lambdas in the three spellings, curried,
higher-order, shadowing, failures) evaluated through fend_core::evaluate on
fresh contexts, (a) paired with their beta-reduced / let-substituted /
renamed forms (impl vs spec: the laws themselves), (b) against the calculus
model run on the AST the implementation parsed (impl vs model: result text,
error kind, variables incl. _ and ans after every step, poll count)."""
import json
from vlib import sx, Sym, parse_sx, cps
from eval_common import *

TRUSTED_BASE = [
    'Coq 8.16.1 kernel + vm_compute (examples)',
    'extraction ExtrOcamlBasic -> OCaml, modelrun/driver.ml; cross-checked against vm_compute on a sample',
    'harness/src/bin/h_eval.rs (evalseq/parse ops) and core/src/verif_hooks/eval.rs (AST dump of the real lexer+parser, FendError variant names, per-variable snapshot)',
    'hand-written model coq/Eval/Calc.v tied to ast.rs/scope.rs/value.rs/eval.rs only by this differential run; numbers are integers with + - * unary minus and abs in the executable instance',
    'the program generator and its substitution function (cross-checked against the Coq subst on every beta pair)',
]
ASSUMPTIONS = [
    'numbers, built-in names and units are parameters of the model (C01/C10/C11 own them)',
    'closures are compared by behaviour or by printed body only when both sides print the same; fend prints a closure without its captured bindings, '
    'so a beta-reduced program whose result is a closure prints differently (not a violation of C09, recorded as closure_print_differs)',
]

ERRMAP = {'IdentifierNotFound': 1, 'IsNotAFunction': 2, 'IsNotAFunctionOrNumber': 3, 'ExpectedANumber': 4,
          'InvalidOperandsForSubtraction': 5, 'Interrupted': 7}

# ---------------------------------------------------------------------------
# AST (tuples in the harness dump format) and printer

def num(n): return ('num', str(n))
def idt(x): return ('id', x)
def par(e): return ('par', e)
def neg(e): return ('neg', e)
def bop(o, a, b): return ('bop', o, a, b)
def fn(x, b): return ('fn', x, b)
def setv(x, e): return ('set', x, e)
def seq(a, b): return ('seq', a, b)


def application(f, a):
    """the node the parser builds for juxtaposition f a (parse_apply_cont)"""
    if a[0] == 'num':
        if f[0] in ('num', 'neg', 'appmul'):
            return None                       # mixed fraction / implicit addition territory
        return ('appfn', f, a)
    if f[0] in ('num', 'appmul'):
        return ('appmul', f, a)
    return ('app', f, a)


def is_atom(e):
    return e[0] in ('num', 'id', 'par', 'unit')


def show(e, r=None):
    t = e[0]
    if t == 'num': return e[1]
    if t == 'unit': return '()'
    if t == 'id': return e[1]
    if t == 'par': return '(' + show(e[1], r) + ')'
    if t == 'neg': return '-' + show(e[1], r)
    if t == 'bop': return show(e[2], r) + ' ' + e[1] + ' ' + show(e[3], r)
    if t in ('app', 'appfn', 'appmul'): return show(e[1], r) + ' ' + show(e[2], r)
    if t == 'fn':
        style = r.choice([0, 1, 2]) if r else 0
        body = show(e[2], r)
        return ['\\%s. %s', '%s: %s', '%s => %s'][style] % (e[1], body)
    if t == 'set': return e[1] + ' = ' + show(e[2], r)
    if t == 'seq': return show(e[1], r) + '; ' + show(e[2], r)
    raise ValueError(t)


def to_sx(e):
    return [Sym(e[0])] + [to_sx(x) if isinstance(x, tuple) else x for x in e[1:]]


def from_sx(p):
    """parsed harness dump (bytes/lists) -> tuple AST"""
    if isinstance(p, list):
        return tuple([p[0].decode()] + [from_sx(x) if isinstance(x, list) else x.decode('utf-8', 'replace') for x in p[1:]])
    return p


def strip_par(e, m):
    while m > 0 and e[0] == 'par':
        e = e[1]; m -= 1
    return e if m == 0 else None


def subst(x, t, e):
    k = e[0]
    if k in ('num', 'unit'): return e
    if k == 'id': return t if e[1] == x else e
    if k in ('par', 'neg'): return (k, subst(x, t, e[1]))
    if k == 'bop': return (k, e[1], subst(x, t, e[2]), subst(x, t, e[3]))
    if k in ('app', 'appfn', 'appmul', 'seq'): return (k, subst(x, t, e[1]), subst(x, t, e[2]))
    if k == 'fn': return e if e[1] == x else (k, e[1], subst(x, t, e[2]))
    if k == 'set': return (k, e[1], subst(x, t, e[2]))
    raise ValueError(k)


def binders(e):
    k = e[0]
    if k in ('num', 'unit', 'id'): return set()
    if k in ('par', 'neg'): return binders(e[1])
    if k == 'bop': return binders(e[2]) | binders(e[3])
    if k in ('app', 'appfn', 'appmul', 'seq'): return binders(e[1]) | binders(e[2])
    if k == 'fn': return {e[1]} | binders(e[2])
    if k == 'set': return binders(e[2])


def idents(e):
    k = e[0]
    if k in ('num', 'unit'): return set()
    if k == 'id': return {e[1]}
    if k in ('par', 'neg'): return idents(e[1])
    if k == 'bop': return idents(e[2]) | idents(e[3])
    if k in ('app', 'appfn', 'appmul', 'seq'): return idents(e[1]) | idents(e[2])
    if k == 'fn': return idents(e[2]) - {e[1]}
    if k == 'set': return idents(e[2])


def assigns(e):
    k = e[0]
    if k in ('num', 'unit', 'id'): return set()
    if k in ('par', 'neg'): return assigns(e[1])
    if k == 'bop': return assigns(e[2]) | assigns(e[3])
    if k in ('app', 'appfn', 'appmul', 'seq'): return assigns(e[1]) | assigns(e[2])
    if k == 'fn': return assigns(e[2])
    if k == 'set': return {e[1]} | assigns(e[2])


def lam_assigns(e, inside=False):
    """names assigned inside a lambda body: such an assignment happens when (and as often as) the lambda is called"""
    k = e[0]
    if k in ('num', 'unit', 'id'): return set()
    if k in ('par', 'neg'): return lam_assigns(e[1], inside)
    if k == 'bop': return lam_assigns(e[2], inside) | lam_assigns(e[3], inside)
    if k in ('app', 'appfn', 'appmul', 'seq'): return lam_assigns(e[1], inside) | lam_assigns(e[2], inside)
    if k == 'fn': return lam_assigns(e[2], True)
    if k == 'set': return ({e[1]} if inside else set()) | lam_assigns(e[2], inside)


def has_app(e):
    k = e[0]
    if k in ('num', 'unit', 'id'): return False
    if k in ('app', 'appfn', 'appmul'): return True
    return any(has_app(x) for x in e[1:] if isinstance(x, tuple))


def redexes(e, path=()):
    """paths to nodes of the form (app|appfn) (par (fn x b)) a"""
    out = []
    if e[0] in ('app', 'appfn') and e[1][0] == 'par' and e[1][1][0] == 'fn':
        out.append(path)
    for i, x in enumerate(e[1:], 1):
        if isinstance(x, tuple):
            out += redexes(x, path + (i,))
    return out


def get_at(e, path):
    for i in path:
        e = e[i]
    return e


def replace_at(e, path, new):
    if not path:
        return new
    i = path[0]
    return e[:i] + (replace_at(e[i], path[1:], new),) + e[i + 1:]


def gsubst(x, t, e):
    """replace the occurrences of the global name x (not shadowed by a parameter of that name)"""
    return subst(x, t, e)


def capture_free(x, avoid, e):
    """Coq's capture_free: no binder of e on the way to a free occurrence of x is in `avoid` (the free names of the argument)"""
    k = e[0]
    if k in ('num', 'unit', 'id'): return True
    if k in ('par', 'neg'): return capture_free(x, avoid, e[1])
    if k == 'bop': return capture_free(x, avoid, e[2]) and capture_free(x, avoid, e[3])
    if k in ('app', 'appfn', 'appmul', 'seq'): return capture_free(x, avoid, e[1]) and capture_free(x, avoid, e[2])
    if k == 'fn': return e[1] == x or (e[1] not in avoid and capture_free(x, avoid, e[2]))
    if k == 'set': return capture_free(x, avoid, e[2])
    raise ValueError(k)


def alpha(e, m, ctr):
    """rename every lambda parameter to a fresh, unique name (lexically: an occurrence is renamed like its innermost
    binder; free names, assignment targets and globals stay).  Lexical scoping means the program keeps its meaning."""
    k = e[0]
    if k in ('num', 'unit'): return e
    if k == 'id': return ('id', m.get(e[1], e[1]))
    if k in ('par', 'neg'): return (k, alpha(e[1], m, ctr))
    if k == 'bop': return (k, e[1], alpha(e[2], m, ctr), alpha(e[3], m, ctr))
    if k in ('app', 'appfn', 'appmul', 'seq'): return (k, alpha(e[1], m, ctr), alpha(e[2], m, ctr))
    if k == 'fn':
        ctr[0] += 1
        new = 'pw%d' % ctr[0]
        return (k, new, alpha(e[2], dict(m, **{e[1]: new}), ctr))
    if k == 'set': return (k, e[1], alpha(e[2], m, ctr))
    raise ValueError(k)


def statements_of(e):
    """the statements of s1; ...; sn (left-nested seq), looking through enclosing parentheses"""
    while e[0] == 'par':
        e = e[1]
    if e[0] != 'seq':
        return None
    out = []
    while e[0] == 'seq':
        out.append(e[2]); e = e[1]
    out.append(e)
    return out[::-1]


# ---------------------------------------------------------------------------
# generator: simple types N (number), F (N -> N), F2 (N -> N -> N), H ((N -> N) -> N)

class Gen:
    def __init__(self, r, shadowing=False):
        self.r = r
        self.shadowing = shadowing
        self.count = 0

    def param(self):
        if self.shadowing:
            return self.r.choice(['x', 'y', 'x', 'zq'])
        self.count += 1
        return 'pq%d' % self.count

    def atom_num(self, env, d):
        r = self.r
        c = [n for n, t in env if t == 'N']
        k = r.random()
        if c and k < 0.45:
            return idt(r.choice(c))
        if k < 0.8 or d <= 0:
            return num(r.randint(0, 9))
        return par(self.num_expr(env, d - 1))

    def num_expr(self, env, d):
        r = self.r
        k = r.random()
        if d <= 0 or k < 0.15:
            return self.atom_num(env, d)
        if k < 0.45:
            return bop(r.choice('+-*'), self.atom_num(env, d - 1), self.atom_num(env, d - 1))
        if k < 0.5:
            return par(neg(self.atom_num(env, d - 1)))
        if k < 0.8:
            f = self.fn_atom(env, d - 1)
            a = self.atom_num(env, d - 1)
            return application(f, a) or self.atom_num(env, d)
        if k < 0.9:
            f2 = self.fn2_atom(env, d - 1)
            a = application(f2, self.atom_num(env, d - 1))
            return application(a, self.atom_num(env, d - 1)) if a else self.atom_num(env, d)
        if k < 0.96:
            h = self.ho_atom(env, d - 1)
            return application(h, self.fn_atom(env, d - 1))
        # juxtaposition multiplication
        return application(num(r.randint(2, 5)), par(self.num_expr(env, d - 1)))

    def fn_atom(self, env, d):
        r = self.r
        c = [n for n, t in env if t == 'F']
        k = r.random()
        if c and k < 0.45:
            return idt(r.choice(c))
        if k < 0.55 and d > 0:
            f2 = self.fn2_atom(env, d - 1)
            a = application(f2, self.atom_num(env, d - 1))
            if a:
                return par(a)
        if k < 0.6:
            return idt('abs')
        if k < 0.65 and d > 0:
            # arithmetic on a function (handle_two_nums): a new function
            return par(bop(r.choice('+*'), self.fn_atom(env, d - 1), num(r.randint(1, 3))))
        x = self.param()
        return par(fn(x, self.num_expr(env + [(x, 'N')], d - 1)))

    def fn2_atom(self, env, d):
        r = self.r
        c = [n for n, t in env if t == 'F2']
        if c and r.random() < 0.5:
            return idt(r.choice(c))
        x = self.param(); y = self.param()
        inner = fn(y, self.num_expr(env + [(x, 'N'), (y, 'N')], d - 1))
        return par(fn(x, par(inner) if r.random() < 0.5 else inner))

    def ho_atom(self, env, d):
        r = self.r
        c = [n for n, t in env if t == 'H']
        if c and r.random() < 0.5:
            return idt(r.choice(c))
        g = self.param()
        return par(fn(g, self.num_expr(env + [(g, 'F')], d - 1)))

    def any_of(self, t, env, d):
        return {'N': self.num_expr, 'F': self.fn_atom, 'F2': self.fn2_atom, 'H': self.ho_atom}[t](env, d)


# ---------------------------------------------------------------------------
# name-collision stream: ONE tiny pool of names (all unknown identifiers when undefined) serves as global variables of
# every type, as lambda parameters at every nesting depth and as free names of stored lambdas.  Terms are simply typed
# (so every call terminates) with the type of a name taken from its innermost binding; a global keeps its type for the
# whole history and the graph "global -> names free in its right-hand side" is kept acyclic (a cycle would recurse
# until the stack overflows: C06).

POOL = ['x', 'y', 'z', 'q', 'fx']


class CGen:
    def __init__(self, r):
        self.r = r

    @staticmethod
    def vis(env):
        d = {}
        for n, t in env:
            d[n] = t
        return d

    def names(self, env, t):
        return [n for n, tt in self.vis(env).items() if tt == t]

    def bare_num(self, env, prefer=()):
        """a bare identifier of number type; names in `prefer` (parameter names of the callee / of enclosing lambdas) first"""
        c = self.names(env, 'N')
        p = [n for n in c if n in prefer]
        if p and self.r.random() < 0.7:
            return idt(self.r.choice(p))
        return idt(self.r.choice(c)) if c else None

    def atom_num(self, env, d, prefer=()):
        r = self.r
        k = r.random()
        if k < 0.5:
            b = self.bare_num(env, prefer)
            if b:
                return b
        if k < 0.54:
            unbound = [n for n in POOL if n not in self.vis(env)]
            if unbound:
                return idt(r.choice(unbound))      # a name nothing binds here: must stay unknown, whoever calls
        if k < 0.85 or d <= 0:
            return num(r.randint(0, 9))
        return par(self.num_expr(env, d - 1))

    targets = ()        # names an assignment nested in an expression may write (number-valued globals of the history)

    def num_expr(self, env, d):
        r = self.r
        k = r.random()
        if d <= 0 or k < 0.12:
            return self.atom_num(env, d)
        if k < 0.3:
            return bop(r.choice('+-*'), self.atom_num(env, d - 1), self.atom_num(env, d - 1))
        if k < 0.44 and d >= 2:
            # an assignment inside the expression (so: inside lambda bodies and lazily evaluated arguments) whose
            # right-hand side is evaluated in the current lexical scope, followed by a use of the assigned name
            v = self.vis(env)
            ok = [t for t in self.targets if v.get(t) in (None, 'N')]
            if ok:
                t = r.choice(ok)
                b_ = self.bare_num(env[-3:])            # the innermost bindings: parameters, when inside a lambda
                rhs = bop(r.choice('+*'), b_, self.atom_num(env, 0)) if b_ and r.random() < 0.7 else self.num_expr(env, d - 2)
                return par(seq(setv(t, rhs), self.num_expr(env + ([] if t in v else [(t, 'N')]), d - 2)))
        if k < 0.47:
            # closure - number applies the closure to the negated number
            return bop('-', self.fn_atom(env, d - 1), num(r.randint(1, 5)))
        if k < 0.7:
            f = self.fn_atom(env, d - 1)
            a = self.atom_num(env, d - 1, prefer=binders(f) | set(POOL))
            return application(f, a) or self.atom_num(env, d)
        if k < 0.88:
            f2 = self.fn2_atom(env, d - 1)
            pref = binders(f2) | set(POOL)
            a = application(f2, self.atom_num(env, d - 1, prefer=pref))
            return application(a, self.atom_num(env, d - 1, prefer=pref)) if a else self.atom_num(env, d)
        h = self.ho_atom(env, d - 1)
        return application(h, self.fn_atom(env, d - 1))

    def fn_atom(self, env, d):
        r = self.r
        c = self.names(env, 'F')
        k = r.random()
        if c and k < 0.45:
            return idt(r.choice(c))
        if k < 0.6 and d > 0:
            f2 = self.fn2_atom(env, d - 1)
            a = application(f2, self.atom_num(env, d - 1, prefer=binders(f2)))
            if a:
                return par(a)
        if k < 0.63:
            return idt('abs')
        if k < 0.7:
            return self.capturing_closure(env, twice=(r.random() < 0.5))
        if k < 0.8 and d > 0:
            # arithmetic between a number and a closure (either side) builds a new lambda that must keep the
            # closure's captured scope; the closure is preferably a stored or partially applied one
            g = self.fn_atom(env, d - 1)
            n = num(r.randint(1, 4))
            return par(bop(r.choice('+*'), g, n) if r.random() < 0.5 else bop(r.choice('+*'), n, g))
        x = r.choice(POOL)
        return par(fn(x, self.num_expr(env + [(x, 'N')], d - 1)))

    def capturing_closure(self, env, twice=False):
        """a closure value with a non-empty captured scope: (x: y: body) arg -- x preferably a name that is also a
        global, body reads x.  twice: (x: (x: (y: body)) arg2) arg1, the captured chain binds x two times."""
        r = self.r
        gl = self.names(env, 'N')
        x = r.choice(gl) if gl and r.random() < 0.7 else r.choice(POOL)
        y = r.choice([n for n in POOL if n != x])
        e2 = env + [(x, 'N'), (y, 'N')]
        body = bop(r.choice('+-*'), idt(y), idt(x)) if r.random() < 0.6 else bop('+', idt(x), self.num_expr(e2, 1))
        arg = lambda: (self.atom_num(env, 0) if r.random() < 0.6 else num(r.randint(0, 9)))
        inner = par(fn(y, body))
        if twice:
            mid = application(par(fn(x, inner)), arg())
            return par(application(par(fn(x, par(mid) if mid[0] != 'par' else mid)), arg()))
        return par(application(par(fn(x, inner)), arg()))

    def fn2_atom(self, env, d):
        r = self.r
        c = self.names(env, 'F2')
        if c and r.random() < 0.45:
            return idt(r.choice(c))
        x = r.choice(POOL)
        y = x if r.random() < 0.35 else r.choice(POOL)       # the inner parameter often shadows the outer one
        inner = fn(y, self.num_expr(env + [(x, 'N'), (y, 'N')], d - 1))
        return par(fn(x, par(inner) if r.random() < 0.5 else inner))

    def ho_atom(self, env, d):
        r = self.r
        c = self.names(env, 'H')
        if c and r.random() < 0.4:
            return idt(r.choice(c))
        g = r.choice(POOL)
        body_env = env + [(g, 'F')]
        if r.random() < 0.5:
            # the function parameter is called from under another lambda that binds a name the argument may use freely
            x = r.choice(POOL)
            if x != g:
                inner = fn(x, self.num_expr(body_env + [(x, 'N')], max(d - 1, 1)))
                return par(fn(g, application(par(inner), self.atom_num(body_env, 0)) or self.num_expr(body_env, d - 1)))
        return par(fn(g, self.num_expr(body_env, d - 1)))

    def any_of(self, t, env, d):
        return {'N': self.num_expr, 'F': self.fn_atom, 'F2': self.fn2_atom, 'H': self.ho_atom}[t](env, d)


def gen_collision_history(r, nsteps=None, faulty=False):
    g = CGen(r)
    gtypes = {}          # a global keeps its type for the whole history
    edges = {}           # global -> names free in its current right-hand side
    env = []             # the globals defined so far
    steps = []

    def cyclic(name, frees):
        seen, todo = set(), list(frees)
        while todo:
            n = todo.pop()
            if n == name:
                return True
            if n not in seen:
                seen.add(n); todo += list(edges.get(n, ()))
        return False

    # one or two number-valued globals first, so that "global vs parameter of the same name" is in play from the start
    for name in r.sample(POOL, r.randint(1, 2)):
        gtypes[name] = 'N'; edges[name] = set()
        steps.append(setv(name, num(r.randint(1, 9))))
        env.append((name, 'N'))
    def note_nested(e_):
        # names assigned somewhere inside e_ become number-valued globals (if the assignment runs at all)
        for t in assigns(e_):
            gtypes.setdefault(t, 'N'); edges.setdefault(t, set())

    n = nsteps or r.randint(3, 7)
    for _ in range(n):
        g.targets = [t for t in POOL if gtypes.get(t, 'N') == 'N']
        k = r.random()
        if k < 0.5:
            name = r.choice(POOL)
            t = gtypes.get(name) or r.choice(['N', 'N', 'F', 'F', 'F2', 'H'])
            for _try in range(6):
                g.targets = [x_ for x_ in POOL if gtypes.get(x_, 'N') == 'N' and x_ != name]
                e = g.any_of(t, env, 3)
                frees = idents(e) & set(POOL)
                if not cyclic(name, frees):
                    break
            else:
                continue
            gtypes[name] = t
            edges[name] = frees
            note_nested(e)
            steps.append(setv(name, e))
            env = [(a, b) for a, b in env if a != name] + [(name, t)]
        elif k < 0.92:
            e = g.num_expr(env, 3)
            note_nested(e)
            steps.append(e)
        else:
            nm = r.choice(POOL)
            if gtypes.get(nm, 'N') != 'N':
                continue
            e = g.num_expr(env, 2)
            if cyclic(nm, idents(e) & set(POOL)):
                continue
            gtypes[nm] = 'N'; edges[nm] = idents(e) & set(POOL)
            env = [(a, b) for a, b in env if a != nm] + [(nm, 'N')]
            steps.append(seq(setv(nm, e), g.num_expr(env, 2)))
        if faulty and r.random() < 0.25:
            steps.append(r.choice(FAULTY_LISTS)(r))
    return steps, env


# statement lists in which a statement other than the last one fails (the list must fail, _/ans must not move)
FAULTY_LISTS = [
    lambda r: seq(idt('undefinedq'), num(r.randint(0, 9))),
    lambda r: seq(seq(setv('gza', num(r.randint(10, 19))), bop('+', num(1), ('unit',))), num(7)),
    lambda r: seq(bop('-', ('unit',), num(1)), setv('gzb', num(r.randint(20, 29)))),
    lambda r: seq(seq(num(1), idt('undefinedq')), seq(num(2), num(3))) if False else seq(seq(num(1), idt('undefinedq')), num(3)),
    lambda r: seq(('appfn', par(num(3)), num(2)), idt('gza')),
    lambda r: seq(seq(seq(setv('gzc', num(1)), setv('gzd', num(2))), idt('undefinedq')), bop('+', idt('gzc'), idt('gzd'))),
]


NUM_GLOBALS = ['gza', 'gzb', 'gzc', 'gzd']   # none of these (nor gzf1, gzf2, ...) is a unit or built-in when undefined


def gen_history(r, shadowing=False, nsteps=None, faulty=False):
    """list of statement ASTs (each one input); returns (steps, env).
    Number-valued globals may be reassigned (that is where late binding shows); function-valued globals get a fresh
    name each: a global function redefined in terms of itself or of a later one recurses without bound
    (stack overflow abort, C06's finding), which no history here may do."""
    g = Gen(r, shadowing)
    env = []
    steps = []
    nfun = 0
    n = nsteps or r.randint(2, 6)
    for i in range(n):
        k = r.random()
        if k < 0.55 or not env:
            t = r.choice(['N', 'N', 'F', 'F', 'F2', 'H'])
            if t == 'N':
                name = r.choice(NUM_GLOBALS)
            else:
                nfun += 1
                name = 'gzf%d' % nfun
            e = g.any_of(t, env, 3)
            steps.append(setv(name, e))
            env = [(a, b) for a, b in env if a != name] + [(name, t)]
        elif k < 0.9:
            steps.append(g.num_expr(env, 3))
        else:
            # several statements in one input, with an assignment inside parentheses
            a = setv(r.choice(NUM_GLOBALS), g.num_expr(env, 2))
            env = [(x, t) for x, t in env if x != a[1]] + [(a[1], 'N')]
            steps.append(seq(a, g.num_expr(env, 2)))
        if faulty and r.random() < 0.3:
            steps.append(r.choice([
                bop('+', num(1), ('unit',)), idt('undefinedq'), application(num(3), par(('unit',))) or num(1),
                ('appfn', par(num(3)), num(2)), bop('-', ('unit',), num(1)), seq(setv('gza', num(r.randint(10, 19))), idt('undefinedq')),
                application(idt('abs'), par(idt('abs'))), bop('*', par(fn('x', idt('x'))), par(fn('y', idt('y')))),
            ] + [mk(r) for mk in FAULTY_LISTS]))
    return steps, env


BOUNDARY_RAW = [
    # the reconnaissance example of the design: parameters captured, globals late-bound
    ['y = 10', 'f = (x: x + y)', 'y = 20', 'f 1'],
    ['f = (x: (y: x + y))', 'g = f 1', 'x = 100', 'g 2', '(f 3) 4', 'f 3 4'],
    ['(\\x. \\y. x - y) 7 2', '(x: y: x - y) 7 2', '(x => y => x - y) 7 2'],
    ['k = (x: (x: x + 1))', '(k 5) 7', 'k 5 7'],
    ['h = (g: g 3)', 'h (x: x * x)', 'h abs', 'h (abs)'],
    ['tw = (f: (x: f (f x)))', '(tw (x: x + 3)) 1', 'tw (x: x * 2) 5'],
    ['a = 1; b = a + 1; b * 2', 'ans', '_', 'ans + 1', 'ans + 1'],
    ['a = 5', '1 + ()', 'a', 'ans', 'undefinedq', 'ans', '_ '],
    ['a = 1; undefinedq; a = 2', 'a'],
    ['(a = 4) + a', 'a'],
    ['ans = 3', 'ans', '_'],
    ['_ = 9', '_ + ans'],
    ['abs = 3', 'abs + 1', 'abs 2'],
    ['abs 2', 'abs (0 - 2)', '(abs + 1) (0 - 5)', '2 abs', '(2 abs) (0 - 3)', '-abs', '(-abs) (0 - 4)'],
    ['f = (x: x + 1)', 'f + 1', '(f + 1) 1', '2 f', '(2 f) 3', 'f - 1', 'f * f'],
    ['3 (4)', '3 (x: x)', '(3 (x: x)) 5', '(3) 4', '() 1', '() (1)'],
    ['x = 2', '(x: x + 1) 10', 'x', '(y: x + y) 10'],
    ['f = (x: x + q)', 'f 1', 'q = 5', 'f 1'],
    ['c = (x: y: z: x + y * z)', 'c 1 2 3', '((c 1) 2) 3', 'd = c 1 2', 'd 3'],
    ['s = (f: g: x: f x (g x))', 'kk = (x: y: x)', '(s kk kk) 7'],
    # arithmetic on a closure with a captured binding, while a global of that name has another value
    ['a = 100', 'g = (a: x: x + a) 3', '(2 * g) 4', '(g * 2) 4', '(2 + g) 4', 'h = 3 * g', 'a = 7', 'h 1', '(h + 1) 1', '(g - 4)'],
    # assignments inside lambda bodies and lazy arguments: the right-hand side sees parameters and captured bindings
    ['x = 100', '(x: (tq = x * 2; tq + 1)) 5', 'tq', 'f = (a: b: (rq = a * 10 + b; rq))', 'f 3 4', 'rq', 'g = f 5', 'g 6', 'rq',
     '(y: y + y) (wq = x + 1)', 'wq', '(x: (y: (vq = x + y; vq)) 2) 1', 'vq'],
    # the captured chain binds the same name twice
    ['f = (x: (x: (y: x + y)) 2) 1', 'f 10', 'k = (x: (x: (x: x)) 2) 1', 'k 10'],
]

# one-letter names are units or constants when undefined (a = ampere, h = hour, tw = terawatt ...): the model has no
# units, so the boundary programs use names that are unknown identifiers until assigned
_REN = {'a': 'aq', 'b': 'bbq', 'f': 'fq', 'g': 'gq', 'h': 'hq', 'k': 'kq', 'c': 'cq', 'd': 'dq', 's': 'sq', 'kk': 'kkq', 'q': 'qq', 'tw': 'twq'}
import re as _re
BOUNDARY = [[_re.sub(r'[A-Za-z_][A-Za-z_0-9]*', lambda m: _REN.get(m.group(0), m.group(0)), t) for t in h] for h in BOUNDARY_RAW]


def errcode(kind):
    return ERRMAP.get(kind, 6)


class Runner:
    """parse + run a batch of histories on implementation and model"""
    def __init__(self, c):
        self.c = c

    def run(self, histories):
        c = self.c
        texts = sorted({t for h in histories for t in h})
        pl = c.impl('eval', [parse_req(t) for t in texts])
        trees = {}
        for t, o in zip(texts, pl):
            p = parse_sx(o) if not crashed(o) else None
            trees[t] = from_sx(p[1]) if p and p[0] == b'ok' else None
        il = c.impl('eval', [evalseq_req(0, [(t, -1) for t in h]) for h in histories])
        mreq, midx = [], []
        for i, h in enumerate(histories):
            if all(trees[t] is not None for t in h):
                mreq.append(sx([Sym('calc-run')] + [[to_sx(trees[t]), -1] for t in h])); midx.append(i)
        mo = c.model('eval', mreq) if mreq else []
        models = {}
        for i, o in zip(midx, mo):
            p = parse_sx(o)
            models[i] = p[1] if p[0] == b'ok' else None
        impls = []
        for o in il:
            impls.append(None if crashed(o) else parse_sx(o))
        return trees, impls, models


def impl_step(st):
    """-> (ok?, text-or-kind, polls, {name: plain})"""
    res, polls, vs = st[0], st[1], st[2]
    vars_ = {}
    for v in vs:
        vars_[txt(v[0])] = (v[3][0] == b'o', txt(v[3][1]))
    if res[0] == b'o':
        return True, txt(res[1]), polls, vars_
    return False, res[2].decode(), polls, vars_


def model_step(st):
    res, polls, vs, log = st
    vars_ = {v[0].decode(): (True, v[1].decode()) for v in vs}
    if res[0] == b'ok':
        return True, res[1].decode(), polls, vars_, log
    return False, res[1], polls, vars_, log


def check(c):
    c.rule = ('histories of 1-8 inputs on a fresh context; families: hand-written boundary programs, typed random programs (numbers, unary/curried/'
              'higher-order functions, the three lambda spellings, function arithmetic, juxtaposition forms), a shadowing stream reusing x/y and global names, '
              'a failure stream; laws: beta (every redex of every program), let-substitution, renaming of shadowed built-ins; '
              'non-trivial = contains a lambda application or a variable use; distinct by program text')
    ok = c.proof(['C09'], extra_targets=['Extract/XEval.vo'])
    if c.tier == 'thorough' and ok:
        thorough_proof(c, ['C09'])
    r = c.rng
    run = Runner(c)
    N = 600 if c.tier == 'quick' else 20000

    # ------------------------------------------------------------------
    # (1) impl vs model on histories; history laws on the implementation alone
    hist_ast = []
    FAMILIES = ['typed', 'shadowing', 'failures', 'collision', 'collision', 'collision-failures']
    for k in range(N):
        fam = FAMILIES[k % len(FAMILIES)]
        if fam.startswith('collision'):
            steps, _ = gen_collision_history(r, faulty=fam.endswith('failures'))
        else:
            steps, _ = gen_history(r, shadowing=(fam == 'shadowing'), faulty=(fam == 'failures'))
        hist_ast.append(steps)
    histories = [list(h) for h in BOUNDARY] + [[show(e, r) for e in h] for h in hist_ast]
    intended = [None] * len(BOUNDARY) + hist_ast
    trees, impls, models = run.run(histories)
    drift = 0
    unsupported = 0
    for hi, h in enumerate(histories):
        im = impls[hi]
        if im is None:
            c.violation('history-crashed', {'kind': 'impl-crash', 'history': h}); continue
        fam = 'boundary' if hi < len(BOUNDARY) else FAMILIES[(hi - len(BOUNDARY)) % len(FAMILIES)]
        c.note_case('h:' + '|'.join(h), any(('(' in t or '=' in t) for t in h), fam)
        # printer honesty: the implementation parsed what the generator meant
        if intended[hi] is not None:
            for t, e in zip(h, intended[hi]):
                got = trees[t]
                if got is None or strip_par(got, t.count(')')) != e:
                    drift += 1
        prev_vars = {}
        assigned_somewhere = set()      # a stored lambda may assign when it is called: any name assigned in the text so far may change
        md = models.get(hi)
        if md is None:
            unsupported += 1
        for si, t in enumerate(h):
            okf, val, polls, vars_ = impl_step(im[si])
            rep = {'history': h, 'step': si, 'input': t}
            # --- history laws (spec as predicate on the implementation's own observations)
            tree = trees[t]
            assigned_somewhere |= (assigns(tree) if tree else set())
            explicit = set(assigned_somewhere)
            if okf:
                for nm in ('_', 'ans'):
                    if vars_.get(nm) != (True, val) and not (t.strip() == ''):
                        c.violation('ans-not-result', dict(rep, kind='impl-vs-spec', name=nm, value=repr(vars_.get(nm)), result=val))
            else:
                for nm in ('_', 'ans'):
                    if nm not in explicit and vars_.get(nm) != prev_vars.get(nm):
                        c.violation('ans-changed-on-failure', dict(rep, kind='impl-vs-spec', name=nm, before=repr(prev_vars.get(nm)), after=repr(vars_.get(nm))))
            # variables never disappear; names not assigned in this step keep their value
            for nm, v in prev_vars.items():
                if nm not in explicit and nm not in ('_', 'ans') and vars_.get(nm) != v:
                    c.violation('variable-changed-without-assignment', dict(rep, kind='impl-vs-spec', name=nm, before=repr(v), after=repr(vars_.get(nm))))
            prev_vars = vars_
            # --- model
            if md is None:
                continue
            mok, mval, mpolls, mvars, mlog = model_step(md[si])
            if mval == 8 and not mok:
                c.notes.append('model out of fuel on %r' % t); continue
            same = (okf == mok) and ((val == mval) if okf else (errcode(val) == mval))
            if not same:
                c.violation('result-differs-from-model', dict(rep, kind='impl-vs-model', impl=val, model=mval, impl_ok=okf, model_ok=mok), no_input=True)
                break
            if vars_ != mvars:
                d = {k: (vars_.get(k), mvars.get(k)) for k in set(vars_) | set(mvars) if vars_.get(k) != mvars.get(k)}
                c.violation('variables-differ-from-model', dict(rep, kind='impl-vs-model', diff=repr(d)), no_input=True)
                break
            if polls < mpolls:
                c.violation('fewer-polls-than-model', dict(rep, kind='impl-vs-model', impl_polls=polls, model_polls=mpolls), no_input=True)
                break
            if polls != mpolls:
                c.repr_drift += 1
    # --- statement lists, judged on the implementation alone: s1; ...; sn fails iff some si fails (with that error, the
    # later statements not run), otherwise it is what sn gives; on failure _ and ans do not move
    alt, altmeta = [], []
    for hi, h in enumerate(histories):
        if impls[hi] is None:
            continue
        for si, t in enumerate(h):
            tree = trees.get(t)
            stmts = statements_of(tree) if tree else None
            if not stmts or (idents(tree) & {'_', 'ans'}) or (assigns(tree) & {'_', 'ans'}):
                continue
            try:
                texts = [show(e) for e in stmts]
            except Exception:
                continue
            alt.append(h[:si] + texts); altmeta.append((hi, si, len(texts)))
    if len(alt) > (400 if c.tier == 'quick' else 6000):
        pick = sorted(r.sample(range(len(alt)), 400 if c.tier == 'quick' else 6000))
        alt = [alt[i] for i in pick]; altmeta = [altmeta[i] for i in pick]
    _, ai, _ = run.run(alt) if alt else ({}, [], {})
    for (hi, si, n), a in zip(altmeta, ai):
        h = histories[hi]
        rep = {'law': 'statement-list', 'history': h, 'step': si, 'input': h[si], 'statements_run_one_by_one': alt[altmeta.index((hi, si, n))][si:]}
        c.note_case('list:' + '|'.join(h[:si + 1]), True, 'statement-list')
        if a is None:
            continue
        lst = impl_step(impls[hi][si])
        before = impl_step(impls[hi][si - 1])[3] if si > 0 else {}
        seps = [impl_step(a[si + j]) for j in range(n)]
        failing = [j for j, x in enumerate(seps) if not x[0]]
        if failing:
            j = failing[0]
            if lst[0]:
                c.violation('statement-list-swallowed-a-failure', dict(rep, kind='impl-vs-spec', failing_statement=j, its_error=seps[j][1], list_result=lst[1])); continue
            if errcode(lst[1]) != errcode(seps[j][1]) or lst[1] != seps[j][1]:
                c.violation('statement-list-wrong-error', dict(rep, kind='impl-vs-spec', failing_statement=j, its_error=seps[j][1], list_error=lst[1])); continue
            for nm in ('_', 'ans'):
                if lst[3].get(nm) != before.get(nm):
                    c.violation('ans-changed-on-failure', dict(rep, kind='impl-vs-spec', name=nm, before=repr(before.get(nm)), after=repr(lst[3].get(nm))))
            # the statements before the failing one took effect, the later ones did not
            # (the failing statement's own completed assignments stay too: no rollback)
            want = seps[j][3]
            got = {k: v for k, v in lst[3].items() if k not in ('_', 'ans')}
            if got != {k: v for k, v in want.items() if k not in ('_', 'ans')}:
                c.violation('statement-list-state-after-failure', dict(rep, kind='impl-vs-spec', got=repr(got), want=repr(want)))
        else:
            if not lst[0] or lst[1] != seps[-1][1]:
                c.violation('statement-list-differs-from-its-statements', dict(rep, kind='impl-vs-spec', list_result=lst[1], last_statement=seps[-1][1])); continue
            if {k: v for k, v in lst[3].items()} != seps[-1][3]:
                c.violation('statement-list-state', dict(rep, kind='impl-vs-spec', got=repr(lst[3]), want=repr(seps[-1][3])))
    c.extra['statement_lists_judged'] = len(alt)
    c.extra['printer_drift_cases'] = drift
    c.extra['histories_outside_model_fragment'] = unsupported

    # ------------------------------------------------------------------
    # (2) beta: every redex of every generated program, P vs P'
    pairs = []
    for h in hist_ast:
        for si, e in enumerate(h):
            for path in redexes(e):
                node = get_at(e, path)
                lam, arg = node[1][1], node[2]
                x, body = lam[1], lam[2]
                if not capture_free(x, idents(arg), body):
                    continue        # a binder of the body would capture a free name of the argument: the law does not apply
                e2 = replace_at(e, path, par(subst(x, par(arg), body)))
                pairs.append((h[:si] + [e], h[:si] + [e2], x, arg, body, node))
    if len(pairs) > (600 if c.tier == 'quick' else 30000):
        pairs = r.sample(pairs, 600 if c.tier == 'quick' else 8000)
    # python substitution vs the Coq subst used in the theorems
    sl = [sx([Sym('calc-subst'), x, to_sx(par(arg)), to_sx(body)]) for _, _, x, arg, body, _ in pairs]
    so = c.model('eval', sl) if sl else []
    for (p1, p2, x, arg, body, node), o in zip(pairs, so):
        p = parse_sx(o)
        if p[0] != b'ok' or from_sx(p[1]) != subst(x, par(arg), body):
            c.violation('generator-subst-differs-from-coq-subst', {'kind': 'tie', 'x': x, 'arg': show(arg), 'body': show(body), 'coq': o}, no_input=True)
    hp = [[show(e) for e in p1] for p1, _, _, _, _, _ in pairs] + [[show(e) for e in p2] for _, p2, _, _, _, _ in pairs]
    _, bi, _ = run.run(hp) if hp else ({}, [], {})
    npairs = len(pairs)
    closure_print = 0
    for i in range(npairs):
        a, b = bi[i], bi[npairs + i]
        rep = {'law': 'beta', 'P': hp[i], 'P_reduced': hp[npairs + i]}
        c.note_case('beta:' + '|'.join(hp[i]), True, 'beta-pair')
        if a is None or b is None:
            c.violation('beta-pair-crashed', dict(rep, kind='impl-crash')); continue
        ra, rb = impl_step(a[-1]), impl_step(b[-1])
        if ra[0] != rb[0]:
            c.violation('beta-law-broken', dict(rep, kind='impl-vs-spec', P_result=ra[1], P_reduced_result=rb[1])); continue
        if ra[0] and ra[1] != rb[1]:
            if ra[1].startswith('\\') or ':' in ra[1]:
                closure_print += 1      # closures print their body, not their bindings
                continue
            c.violation('beta-law-broken', dict(rep, kind='impl-vs-spec', P_result=ra[1], P_reduced_result=rb[1])); continue
        if not ra[0] and errcode(ra[1]) != errcode(rb[1]):
            c.violation('beta-law-error-kind', dict(rep, kind='impl-vs-spec', P_result=ra[1], P_reduced_result=rb[1])); continue
        # all variables other than _/ans agree as well
        va = {k: v for k, v in ra[3].items() if not v[1].startswith('\\')}
        vb = {k: v for k, v in rb[3].items() if not v[1].startswith('\\')}
        if set(ra[3]) != set(rb[3]) or any(va[k] != vb.get(k, va[k]) for k in va):
            c.violation('beta-law-variables', dict(rep, kind='impl-vs-spec', P_vars=repr(ra[3]), P_reduced_vars=repr(rb[3])))
    c.extra['beta_pairs'] = npairs
    c.extra['closure_print_differs'] = closure_print

    # ------------------------------------------------------------------
    # (2b) alpha: the same history with every lambda parameter renamed to a fresh unique name.  Lexical scoping makes
    # this meaning-preserving; any confusion between a parameter and a global / another parameter / a caller's binding
    # of the same name shows as a difference (the renamed program has no name shared between binders).
    al = []
    for k, h in enumerate(hist_ast):
        if FAMILIES[k % len(FAMILIES)] in ('typed', 'failures'):
            continue
        ctr = [0]
        h2 = [alpha(e, {}, ctr) for e in h]
        if ctr[0]:
            al.append((h, h2))
    if len(al) > (600 if c.tier == 'quick' else 12000):
        al = r.sample(al, 400 if c.tier == 'quick' else 12000)
    hp = [[show(e) for e in a] for a, _ in al] + [[show(e) for e in b] for _, b in al]
    _, ali, _ = run.run(hp) if hp else ({}, [], {})
    nal = len(al)
    for i in range(nal):
        a, b = ali[i], ali[nal + i]
        rep = {'law': 'alpha', 'P': hp[i], 'P_renamed': hp[nal + i]}
        c.note_case('alpha:' + '|'.join(hp[i]), True, 'alpha-pair')
        if a is None or b is None:
            c.violation('alpha-pair-crashed', dict(rep, kind='impl-crash')); continue
        for j in range(len(hp[i])):
            ra, rb = impl_step(a[j]), impl_step(b[j])
            if ra[0] and rb[0] and ra[1] != rb[1] and (ra[1].startswith('\\') or rb[1].startswith('\\')):
                continue            # closures print their parameter names
            if ra[0] != rb[0] or (ra[0] and ra[1] != rb[1]) or ((not ra[0]) and (errcode(ra[1]) != errcode(rb[1]))):
                c.violation('alpha-law-broken', dict(rep, kind='impl-vs-spec', step=j, input=hp[i][j], renamed_input=hp[nal + i][j],
                                                      P_result=ra[1], P_renamed_result=rb[1])); break
    c.extra['alpha_pairs'] = nal

    # ------------------------------------------------------------------
    # (2c) arithmetic between a number and a closure: (n op g) a  =  n op (g a)  and  (g op n) a  =  (g a) op n, for every
    # operator that builds a lambda (+ * / ^ mod).  The new lambda must keep g's captured scope: g is a stored or
    # partially applied closure of a collision history, so its captured names also exist as globals with other values.
    fa = []
    nfa = 300 if c.tier == 'quick' else 6000
    for _ in range(nfa):
        pre, env = gen_collision_history(r, nsteps=r.randint(2, 5))
        g = CGen(r)
        G = g.capturing_closure(env, twice=(r.random() < 0.3)) if r.random() < 0.5 else g.fn_atom(env, 2)
        if G == idt('abs'):
            continue
        n_ = num(r.randint(2, 5))
        A = g.atom_num(env, 1)
        op = r.choice(['+', '*', '/', '^', 'mod'])
        if r.random() < 0.5:
            lhs = application(par(bop(op, n_, G)), A); rhs = bop(op, n_, par(application(G, A) or A))
        else:
            lhs = application(par(bop(op, G, n_)), A); rhs = bop(op, par(application(G, A) or A), n_)
        if lhs is None or application(G, A) is None:
            continue
        fa.append((pre + [lhs], pre + [rhs]))
    hp = [[show(e) for e in a] for a, _ in fa] + [[show(e) for e in b] for _, b in fa]
    _, fi, _ = run.run(hp) if hp else ({}, [], {})
    nf = len(fa)
    for i in range(nf):
        a, b = fi[i], fi[nf + i]
        rep = {'law': 'number-closure-arithmetic', 'P': hp[i], 'P_applied_first': hp[nf + i]}
        c.note_case('fa:' + '|'.join(hp[i]), True, 'closure-arithmetic-pair')
        if a is None or b is None:
            c.violation('closure-arithmetic-pair-crashed', dict(rep, kind='impl-crash')); continue
        ra, rb = impl_step(a[-1]), impl_step(b[-1])
        if ra[0] != rb[0] or (ra[0] and ra[1] != rb[1]) or ((not ra[0]) and errcode(ra[1]) != errcode(rb[1])):
            c.violation('closure-arithmetic-law-broken', dict(rep, kind='impl-vs-spec', P_result=ra[1], P_applied_first_result=rb[1]))
    c.extra['closure_arithmetic_pairs'] = nf

    # ------------------------------------------------------------------
    # (2d) saving and reloading the variables in the middle of a history changes nothing that follows (closures whose
    # captured chain binds the same name twice are common in the shadowing and collision streams)
    rt = []
    for k, h in enumerate(hist_ast):
        if FAMILIES[k % len(FAMILIES)] in ('typed', 'failures') or len(h) < 2:
            continue
        j = r.randint(1, len(h) - 1)
        t = [show(e) for e in h]
        rt.append((t, t[:j] + ['@@roundtrip'] + t[j:], j))
    if len(rt) > (200 if c.tier == 'quick' else 8000):
        rt = r.sample(rt, 200 if c.tier == 'quick' else 8000)
    # stored closures whose captured chain binds the same name twice (and once), used after the reload
    fixed = [['f = (x: (x: (y: x + y)) 2) 1', 'f 10'], ['a = 5', 'g = (a: x: x + a) 3', 'h = 2 * g', 'h 4', 'g 1']]
    for t in fixed:
        rt.append((t, t[:-1] + ['@@roundtrip'] + t[-1:], len(t) - 1))
    for _ in range(200 if c.tier == 'quick' else 4000):
        pre, env = gen_collision_history(r, nsteps=r.randint(0, 2))
        g = CGen(r)
        free = [n for n in POOL if n not in dict(env)]
        if not free:
            continue
        name = r.choice(free)
        clo = g.capturing_closure(env, twice=(r.random() < 0.7))
        uses = [application(idt(name), g.atom_num(env, 0)) for _ in range(2)]
        t = [show(e) for e in pre + [setv(name, clo)] + uses]
        j = len(pre) + 1
        rt.append((t, t[:j] + ['@@roundtrip'] + t[j:], j))
    il = c.impl('eval', [evalseq_req(0, [(x, -1) for x in a]) for a, _, _ in rt] + [evalseq_req(0, [(x, -1) for x in b]) for _, b, _ in rt])
    nrt, rt_failed = len(rt), 0
    for i, (a_, b_, j) in enumerate(rt):
        oa, ob = il[i], il[nrt + i]
        rep = {'law': 'roundtrip', 'P': a_, 'P_with_roundtrip': b_}
        c.note_case('rt:' + '|'.join(b_), True, 'roundtrip-pair')
        if crashed(oa) and 'stack-overflow' in oa:
            # the history itself exhausts the stack without any reload (a stored lambda that refers to its own global
            # name): C06's listed finding stack-exhaustion-recursive-global, nothing the reload did
            c.dist['roundtrip-baseline-stack-exhaustion'] = c.dist.get('roundtrip-baseline-stack-exhaustion', 0) + 1
            continue
        if crashed(oa) or crashed(ob):
            c.violation('roundtrip-pair-crashed', dict(rep, kind='impl-crash', impl=ob[:120])); continue
        pa, pb = parse_sx(oa), parse_sx(ob)
        if pb[j][0][0] != b'o':
            rt_failed += 1      # the image could not be written or read back: C12's subject
            continue
        for q in range(j, len(a_)):
            ra, rb = impl_step(pa[q]), impl_step(pb[q + 1])
            if (ra[0], ra[1]) != (rb[0], rb[1]) or ra[3] != rb[3]:
                c.violation('roundtrip-changed-behaviour', dict(rep, kind='impl-vs-spec', step=q, input=a_[q], without=ra[1], with_roundtrip=rb[1])); break
    c.extra['roundtrip_pairs'] = nrt
    c.extra['roundtrip_step_failed'] = rt_failed

    # ------------------------------------------------------------------
    # (3) let-substitution: g = e; uses of g   vs   uses of (e)
    lets = []
    nl = 600 if c.tier == 'quick' else 30000
    for li in range(nl):
        collide = (li % 2 == 1)
        if collide:
            g = CGen(r)
            pre, env = gen_collision_history(r, nsteps=r.randint(0, 3))
            # a name no earlier statement mentions (a stored lambda reading it late would be a use the substitution misses)
            free = [n for n in POOL if n not in dict(env) and not any(n in idents(p) | binders(p) for p in pre)]
            if not free:
                continue
            name = r.choice(free)
        else:
            g = Gen(r)
            pre, env = gen_history(r, nsteps=r.randint(0, 3))
            name = 'gzz'
        t = r.choice(['N', 'F', 'F2', 'H'])
        e = g.any_of(t, env, 3)
        if assigns(e) or name in idents(e):
            continue
        env2 = env + [(name, t)]
        uses = [g.num_expr(env2, 3) for _ in range(r.randint(1, 3))]
        if not any(name in idents(u) for u in uses):
            continue
        # the law needs the right-hand side to mean the same at the use: nothing it reads is reassigned by the uses,
        # and no lambda of the use binds a name the right-hand side reads (capture)
        if any(assigns(u) & (idents(e) | {name}) for u in uses):
            continue
        if not all(capture_free(name, idents(e), u) for u in uses):
            continue
        # ... and the right-hand side must be pure (premise of C09_let_subst): a stored lambda whose body assigns runs
        # that assignment whenever it is called, so it must neither touch what the right-hand side reads (or the name
        # itself), nor be callable from the right-hand side (evaluated once in P, at every use in P_substituted)
        hidden = set()
        for p_ in pre + [e] + uses:
            hidden |= lam_assigns(p_)
        if hidden & (idents(e) | {name}) or (hidden and has_app(e)):
            continue
        p1 = pre + [setv(name, e)] + uses
        p2 = pre + [gsubst(name, par(e), u) for u in uses]
        lets.append((p1, p2, len(pre)))
    hp = [[show(e) for e in p1] for p1, _, _ in lets] + [[show(e) for e in p2] for _, p2, _ in lets]
    _, li, _ = run.run(hp) if hp else ({}, [], {})
    nlets = len(lets)
    for i in range(nlets):
        a, b = li[i], li[nlets + i]
        npre = lets[i][2]
        rep = {'law': 'let', 'P': hp[i], 'P_substituted': hp[nlets + i]}
        c.note_case('let:' + '|'.join(hp[i]), True, 'let-pair')
        if a is None or b is None:
            c.violation('let-pair-crashed', dict(rep, kind='impl-crash')); continue
        for j in range(len(lets[i][1]) - npre):
            ra, rb = impl_step(a[npre + 1 + j]), impl_step(b[npre + j])
            if ra[0] != rb[0] or (ra[0] and ra[1] != rb[1] and not ra[1].startswith('\\')) or ((not ra[0]) and errcode(ra[1]) != errcode(rb[1])):
                c.violation('let-law-broken', dict(rep, kind='impl-vs-spec', use=j, P_result=ra[1], P_substituted_result=rb[1])); break
    c.extra['let_pairs'] = nlets

    # ------------------------------------------------------------------
    # (4) shadowing of built-in names and units: same program with a fresh name
    BUILTINS = ['pi', 'e', 'sin', 'abs', 'sqrt', 'i', 'kg', 'm', 'km', 'tau', 'ln', 'true', 'roll', 'fib', 'today', 'ans2', 'log', 'c', 'h', 'k',
                'PI', 'KG', 'dp', 'sf', 'hex', 'binary', 'float', 'exact', 'version', 'earth', 'mean', 'not', 'base', 'auto', 'x']
    KEYWORDS = ['to', 'as', 'in', 'of', 'per', 'mod', 'xor', 'and', 'or', 'nCr', 'nPr', 'choose', 'permute', 'XOR', 'AND', 'OR',
                'd6', '2d6', '0x1f', '1e3']   # the last four are number literals, not identifiers
    sh = []
    for b in BUILTINS:
        for val, use in (('3', '%s + 1'), ('3', '2 * %s'), ('(x: x + 1)', '%s 4'), ('(x: x + 1)', '(%s) (4)'), ('7', '(y: y + %s) 1'), ('7', '%s')):
            sh.append(([b + ' = ' + val, use % b], ['zzq = ' + val, use % 'zzq']))
    _, si_, _ = run.run([p for p, _ in sh] + [q for _, q in sh])
    for i, (p, q) in enumerate(sh):
        a, b = si_[i], si_[len(sh) + i]
        rep = {'law': 'shadow', 'P': p, 'P_renamed': q}
        c.note_case('shadow:' + '|'.join(p), True, 'shadow-pair')
        if a is None or b is None:
            c.violation('shadow-pair-crashed', dict(rep, kind='impl-crash')); continue
        ra, rb = impl_step(a[-1]), impl_step(b[-1])
        if (ra[0], ra[1]) != (rb[0], rb[1]):
            c.violation('builtin-not-shadowed', dict(rep, kind='impl-vs-spec', P_result=ra[1], P_renamed_result=rb[1]))
    # keywords cannot be assigned at all (lexical exception named in the theorem's comment): must be a parse error, never a silent success
    ko = c.impl('eval', [evalseq_req(0, [(k + ' = 3', -1), (k, -1)]) for k in KEYWORDS])
    for k, o in zip(KEYWORDS, ko):
        st = parse_sx(o)
        if impl_step(st[0])[0]:
            c.violation('keyword-assignable', {'kind': 'impl-vs-spec', 'keyword': k, 'result': impl_step(st[0])[1]})
    # the a_b exception (theorem C09_shadow_exception_unit): two adjacent identifiers naming a unit a_b
    AB = [('electron', 'mass'), ('leap', 'year'), ('zodiac', 'sign'), ('proton', 'mass')]
    ao = c.impl('eval', [evalseq_req(0, [(a + ' = 2', -1), (b + ' = 3', -1), (a + ' ' + b, -1), ('(%s) %s' % (a, b), -1)]) for a, b in AB])
    for (a, b), o in zip(AB, ao):
        st = parse_sx(o)
        r3, r4 = impl_step(st[2]), impl_step(st[3])
        c.note_case('ab:%s_%s' % (a, b), True, 'a_b-unit-exception')
        if r4[1] != '6':
            c.violation('juxtaposition-of-variables', {'kind': 'impl-vs-spec', 'program': [a + ' = 2', b + ' = 3', '(%s) %s' % (a, b)], 'result': r4[1]})
        if r3[1] != '6':
            if not c.known_finding('shadow_a_b_unit'):
                c.violation('a_b-unit-beats-variables', {'kind': 'impl-vs-spec', 'program': [a + ' = 2', b + ' = 3', a + ' ' + b], 'result': r3[1]})
    c.sample({'history': histories[0], 'impl': [impl_step(s)[1] for s in impls[0]]})
    if hist_ast:
        c.sample({'history': histories[len(BOUNDARY)], 'impl': [impl_step(s)[1] for s in impls[len(BOUNDARY)]] if impls[len(BOUNDARY)] else None})


def replay(c, obj):
    print(json.dumps(obj, indent=1, ensure_ascii=False))
    for key in ('history', 'P', 'P_reduced', 'P_substituted', 'P_renamed', 'program'):
        if key in obj:
            h = obj[key]
            o = c.impl('eval', [evalseq_req(0, [(t, -1) for t in h])])[0]
            print(key, 'impl :', [impl_step(s)[:3] for s in parse_sx(o)] if not crashed(o) else o)
            pl = c.impl('eval', [parse_req(t) for t in h])
            trees = [from_sx(parse_sx(p)[1]) if parse_sx(p)[0] == b'ok' else None for p in pl]
            if all(trees):
                m = c.model('eval', [sx([Sym('calc-run')] + [[to_sx(t), -1] for t in trees])], cross=False)[0]
                print(key, 'model:', m[:2000])
    return 0
