"""Process worker of gen/c19.py: one JSON request per line
  {"argv": [hex...], "stdin": hex|null, "env": {..}, "cwd": path, "timeout": s}
-> {"rc": int|"hang", "out": hex, "err": hex}.  argv elements are raw bytes (hex)
so that arguments need not be valid UTF-8."""
import json, subprocess, sys

for line in sys.stdin:
    try:
        q = json.loads(line)
        argv = [bytes.fromhex(a) for a in q['argv']]
        inp = None if q.get('stdin') is None else bytes.fromhex(q['stdin'])
        try:
            p = subprocess.run(argv, input=inp, stdin=(subprocess.DEVNULL if inp is None else None),
                               stdout=subprocess.PIPE, stderr=subprocess.PIPE, env=q.get('env'), cwd=q.get('cwd'),
                               timeout=q.get('timeout', 60))
            a = {'rc': p.returncode, 'out': p.stdout.hex(), 'err': p.stderr.hex()}
        except subprocess.TimeoutExpired:
            a = {'rc': 'hang', 'out': '', 'err': ''}
    except Exception as e:                      # noqa
        a = {'rc': 'worker-error', 'out': '', 'err': repr(e).encode().hex()}
    print(json.dumps(a), flush=True)
